// xlate_proto — translator tie (T) for C20: reads gogenproto/gen/generate.go of the current tree
// with go/parser and regenerates ProtoGen.v: one Gallina definition gen_<F> per Go function
// reachable from Generate.Run, over Coq strings and the primitives of coq/theories/ProtoPrims.v
// and ProtoPath.v (file system as a rose tree, filepath.WalkDir, filepath.*, strings.*,
// PackageNameFromPath as an oracle of the world, exec as an invocation log).
//
// Supported Go (anything else is rendered as UNSUPPORTED_<what>, the generated file then does
// not compile and the tie breaks):
//   - functions and methods on Generate, called from each other; recursion only in the shape
//     "directory walk by hand" (see treeRecursive: structural recursion on the entry); results incl.
//     error; `x := e`, `x = e`, `x, y := f()`, `x += e`, `var x T`, if / else if / else with
//     optional init statement, in any mix of fall-through / return / continue / break;
//     `for _, x := range xs`, `for i, x := range xs`, `for i := 0; i < len(xs); i++` (i used as xs[i] only),
//     `for s.Scan()` and `for cond && s.Scan()` over a bufio.Scanner; tagless and tagged switch
//     on strings; closures passed to filepath.WalkDir (directly or through a variable), with the
//     captured variables they assign as explicit state; named string constants; defer of Close
//     is dropped; exec.Command(...) with `return cmd.Run()` / `err := cmd.Run()`.
//   - expressions: string + string, ==, != on strings / errors / ints / bools, &&, ||, !,
//     append, []string{...}, make([]string, ...), len, xs[const], calls of the library functions
//     listed in libCalls.
//
// Locals are renamed v_<name> (unique per declaration), so renames in the source do not show.
//
//	xlate_proto -src <repo>/gogenproto/gen/generate.go -out ProtoGen.v
package main

import (
	"flag"
	"fmt"
	"go/ast"
	"go/parser"
	"go/token"
	"os"
	"path/filepath"
	"sort"
	"strconv"
	"strings"

	"gtverif/internal/srcset"
)

type typ string

const (
	tString  typ = "string"
	tBool    typ = "bool"
	tInt     typ = "int"
	tError   typ = "error"
	tStrs    typ = "[]string"
	tDirent  typ = "dirent"
	tDirents typ = "[]dirent"
	tFile    typ = "file"
	tScanner typ = "scanner"
	tCmd     typ = "cmd"
	tPtrStrs typ = "*[]string"
	tFunc    typ = "func"
	tRecv    typ = "Generate"
	tUnknown typ = "unknown"
)

func coqType(t typ) string {
	switch t {
	case tString:
		return "string"
	case tBool:
		return "bool"
	case tInt:
		return "Z"
	case tError:
		return "gerror"
	case tFile:
		return "reader"
	case tStrs, tPtrStrs, tScanner:
		return "list string"
	case tDirent:
		return "node"
	case tDirents:
		return "list node"
	case tCmd:
		return "invocation"
	case tRecv:
		return "Generate"
	}
	return "UNSUPPORTED_type_" + sanitize(string(t))
}

func zero(t typ) string {
	switch t {
	case tString:
		return `""%string`
	case tBool:
		return "false"
	case tInt:
		return "0%Z"
	case tError:
		return "EFail"
	case tFile:
		return `(""%string, ENil)`
	case tStrs, tPtrStrs, tScanner, tDirents:
		return "[]"
	case tDirent:
		return "dirent_nil"
	case tCmd:
		return `(""%string, [])`
	}
	return "UNSUPPORTED_zero_" + sanitize(string(t))
}

func sanitize(s string) string {
	var b strings.Builder
	for _, r := range s {
		if r == '_' || (r >= 'a' && r <= 'z') || (r >= 'A' && r <= 'Z') || (r >= '0' && r <= '9') {
			b.WriteRune(r)
		} else {
			b.WriteRune('_')
		}
	}
	return b.String()
}

func tuple(xs []string) string {
	switch len(xs) {
	case 0:
		return "tt"
	case 1:
		return xs[0]
	}
	return "(" + strings.Join(xs, ", ") + ")"
}

func pat(xs []string) string {
	switch len(xs) {
	case 0:
		return "_"
	case 1:
		return xs[0]
	}
	return "'(" + strings.Join(xs, ", ") + ")"
}

func coqStr(s string) string { return "\"" + strings.ReplaceAll(s, "\"", "\"\"") + "\"%string" }

// ---------------------------------------------------------------- translation unit

type varInfo struct {
	name string
	t    typ
	obj  *ast.Object
	lit  *ast.FuncLit // closure bound to this variable
}

type funcInfo struct {
	decl    *ast.FuncDecl
	name    string
	method  bool
	recv    string
	params  []*varInfo
	results []typ
	hasExec bool
	ptrs    []*varInfo // *[]string parameters, returned as extra results
	calls   map[string]bool
	// tree recursion: the function calls itself only on the entries os.ReadDir lists for its own
	// (path, entry) parameter pair — translated as structural recursion on the entry
	// the byte scanner `func(r io.ByteReader) (bool, error)`: not translated; a call of it is the
	// primitive scan_reader (ProtoLex.scan_go_package), tied to the code by the scan stream
	opaqueScan bool
	treeRec    bool
	pathParam  string // name of the path parameter
	entParam  string // name of the fs.DirEntry parameter
}

type xl struct {
	fset     *token.FileSet
	files    []*ast.File // the files of the package that take part in the build (srcset)
	fatal    []string    // problems of the package as a whole: the generated file is made uncompilable
	funcs    map[string]*funcInfo
	consts   map[string]string // name -> Coq literal
	problems []string
	fields   [][2]string
}

func (x *xl) bad(what string, n ast.Node) string {
	pos := ""
	if n != nil {
		pos = x.fset.Position(n.Pos()).String()
	}
	x.problems = append(x.problems, what+" at "+pos)
	return "UNSUPPORTED_" + sanitize(what)
}

func (x *xl) typeExpr(e ast.Expr) typ {
	switch t := e.(type) {
	case *ast.Ident:
		switch t.Name {
		case "string":
			return tString
		case "bool":
			return tBool
		case "int":
			return tInt
		case "error":
			return tError
		case "Generate":
			return tRecv
		}
	case *ast.ArrayType:
		if t.Len == nil {
			if id, ok := t.Elt.(*ast.Ident); ok && id.Name == "string" {
				return tStrs
			}
			if isSel(t.Elt, "fs", "DirEntry") || isSel(t.Elt, "os", "DirEntry") {
				return tDirents
			}
		}
	case *ast.StarExpr:
		if x.typeExpr(t.X) == tStrs {
			return tPtrStrs
		}
		if isSel(t.X, "os", "File") {
			return tFile
		}
		if isSel(t.X, "exec", "Cmd") {
			return tCmd
		}
		if isSel(t.X, "bufio", "Scanner") {
			return tScanner
		}
		if isSel(t.X, "bufio", "Reader") {
			return tFile
		}
	case *ast.SelectorExpr:
		if isSel(t, "fs", "DirEntry") || isSel(t, "os", "DirEntry") || isSel(t, "fs", "FileInfo") || isSel(t, "os", "FileInfo") {
			return tDirent
		}
		if isSel(t, "io", "Reader") || isSel(t, "io", "ByteReader") {
			return tFile
		}
	case *ast.FuncType:
		return tFunc
	}
	return tUnknown
}

func isSel(e ast.Expr, pkg, name string) bool {
	s, ok := e.(*ast.SelectorExpr)
	if !ok {
		return false
	}
	id, ok := s.X.(*ast.Ident)
	return ok && id.Name == pkg && s.Sel.Name == name && id.Obj == nil
}

// ---------------------------------------------------------------- per-function context

type fctx struct {
	x       *xl
	fi      *funcInfo
	vars    map[*ast.Object]*varInfo
	used    map[string]int
	retTail []string // extra components appended to every return (execlog, pointer params)
	closure bool
	capt    []*varInfo // closure: captured variables the closure assigns (its state)
	loopL   []*varInfo // loop-carried variables of the innermost loop
	inLoop  bool
	scanVar map[*ast.Object]string // scanner variable -> name of the loop element (inside for s.Scan())
	empty   map[*ast.Object]bool   // slice variables known to be empty here (entries of a non-directory)
	lstatOf map[*ast.Object]*ast.Object // info variable -> the path variable it is the os.Lstat of
	body    *ast.BlockStmt
}

func (c *fctx) newVar(obj *ast.Object, name string, t typ) *varInfo {
	base := "v_" + sanitize(name)
	c.used[base]++
	n := base
	if c.used[base] > 1 {
		n = base + "_" + strconv.Itoa(c.used[base])
	}
	v := &varInfo{name: n, t: t, obj: obj}
	if obj != nil {
		c.vars[obj] = v
	}
	return v
}

// entName: the Coq name of the fs.DirEntry parameter of a tree-recursive function
func (c *fctx) entName() string {
	for _, p := range c.fi.params {
		if p.obj != nil && p.obj.Name == c.fi.entParam && p.t == tDirent {
			return p.name
		}
	}
	return "UNSUPPORTED_entry_parameter"
}

func (c *fctx) lookup(id *ast.Ident) *varInfo {
	if id.Obj == nil {
		return nil
	}
	return c.vars[id.Obj]
}

// ---------------------------------------------------------------- analysis helpers

func stmtsOf(b *ast.BlockStmt) []ast.Stmt {
	if b == nil {
		return nil
	}
	return b.List
}

// neverFallsThrough: control cannot reach the statement after the list
func neverFalls(stmts []ast.Stmt) bool {
	if len(stmts) == 0 {
		return false
	}
	switch s := stmts[len(stmts)-1].(type) {
	case *ast.ReturnStmt:
		return true
	case *ast.BranchStmt:
		return s.Tok == token.CONTINUE || s.Tok == token.BREAK
	case *ast.BlockStmt:
		return neverFalls(s.List)
	case *ast.IfStmt:
		if s.Else == nil {
			return false
		}
		var els []ast.Stmt
		switch e := s.Else.(type) {
		case *ast.BlockStmt:
			els = e.List
		default:
			els = []ast.Stmt{e}
		}
		return neverFalls(s.Body.List) && neverFalls(els)
	case *ast.SwitchStmt:
		hasDefault := false
		for _, cc := range s.Body.List {
			cl := cc.(*ast.CaseClause)
			if cl.List == nil {
				hasDefault = true
			}
			if !neverFalls(cl.Body) {
				return false
			}
		}
		return hasDefault
	}
	return false
}

// hasTransfer: contains a return, or a continue/break that belongs to an enclosing loop, or a loop
func hasTransfer(n ast.Node) bool {
	found := false
	var walk func(n ast.Node, depth int)
	walk = func(n ast.Node, depth int) {
		ast.Inspect(n, func(m ast.Node) bool {
			if found || m == nil {
				return false
			}
			switch s := m.(type) {
			case *ast.FuncLit:
				return false
			case *ast.ReturnStmt:
				found = true
			case *ast.BranchStmt:
				if depth == 0 {
					found = true
				}
			case *ast.ForStmt, *ast.RangeStmt:
				found = true // loops are translated in ctl form
				_ = s
			}
			return !found
		})
	}
	walk(n, 0)
	return found
}

func within(pos token.Pos, lo, hi token.Pos) bool { return pos >= lo && pos <= hi }

// assigned collects the variables assigned inside nodes that are declared outside [lo,hi]
func (c *fctx) assignedOuter(nodes []ast.Node, lo, hi token.Pos) []*varInfo {
	set := map[*varInfo]bool{}
	add := func(e ast.Expr) {
		switch t := e.(type) {
		case *ast.Ident:
			if t.Name == "_" {
				return
			}
			if v := c.lookup(t); v != nil && !within(v.obj.Pos(), lo, hi) {
				set[v] = true
			}
		case *ast.StarExpr:
			if id, ok := t.X.(*ast.Ident); ok {
				if v := c.lookup(id); v != nil && !within(v.obj.Pos(), lo, hi) {
					set[v] = true
				}
			}
		}
	}
	for _, n := range nodes {
		if n == nil {
			continue
		}
		ast.Inspect(n, func(m ast.Node) bool {
			switch s := m.(type) {
			case *ast.FuncLit:
				return false
			case *ast.AssignStmt:
				for _, l := range s.Lhs {
					add(l)
				}
				for _, r := range s.Rhs {
					c.callEffects(r, add)
				}
			case *ast.IncDecStmt:
				add(s.X)
			case *ast.ExprStmt:
				c.callEffects(s.X, add)
			case *ast.ReturnStmt:
				for _, r := range s.Results {
					c.callEffects(r, add)
				}
			}
			return true
		})
	}
	out := []*varInfo{}
	for v := range set {
		out = append(out, v)
	}
	sort.Slice(out, func(i, j int) bool { return out[i].obj.Pos() < out[j].obj.Pos() })
	return out
}

// callEffects: variables a call assigns behind the scenes (WalkDir closure state, &x arguments)
func (c *fctx) callEffects(e ast.Expr, add func(ast.Expr)) {
	call, ok := e.(*ast.CallExpr)
	if !ok {
		return
	}
	if isSel(call.Fun, "filepath", "WalkDir") && len(call.Args) == 2 {
		if lit := c.closureOf(call.Args[1]); lit != nil {
			for _, v := range c.closureCaptured(lit) {
				add(&ast.Ident{Name: v.obj.Name, Obj: v.obj})
			}
		}
	}
	for _, a := range call.Args {
		if u, ok := a.(*ast.UnaryExpr); ok && u.Op == token.AND {
			add(u.X)
		}
	}
	if fi := c.calleeOf(call); fi != nil {
		for i, p := range fi.params {
			if p.t == tPtrStrs && i < len(call.Args) {
				if id, ok := call.Args[i].(*ast.Ident); ok {
					add(id)
				}
			}
		}
	}
}

func (c *fctx) closureOf(e ast.Expr) *ast.FuncLit {
	switch t := e.(type) {
	case *ast.FuncLit:
		return t
	case *ast.Ident:
		if v := c.lookup(t); v != nil {
			return v.lit
		}
	}
	return nil
}

// variables the closure assigns that are declared outside it
func (c *fctx) closureCaptured(lit *ast.FuncLit) []*varInfo {
	return c.assignedOuter([]ast.Node{lit.Body}, lit.Pos(), lit.End())
}

// reads of v in nodes (identifier occurrences that are not pure assignment targets)
func (c *fctx) readsIn(nodes []ast.Node, v *varInfo) bool {
	found := false
	for _, n := range nodes {
		if n == nil || found {
			continue
		}
		var lhsOnly = map[*ast.Ident]bool{}
		ast.Inspect(n, func(m ast.Node) bool {
			if as, ok := m.(*ast.AssignStmt); ok && (as.Tok == token.ASSIGN || as.Tok == token.DEFINE) {
				for _, l := range as.Lhs {
					if id, ok := l.(*ast.Ident); ok {
						lhsOnly[id] = true
					}
				}
			}
			return true
		})
		ast.Inspect(n, func(m ast.Node) bool {
			if id, ok := m.(*ast.Ident); ok && id.Obj == v.obj && !lhsOnly[id] {
				found = true
			}
			return !found
		})
	}
	return found
}

// carried: v may be read in the loop body before the iteration has assigned it
func (c *fctx) carried(body []ast.Stmt, v *varInfo) bool {
	def := false
	var scan func(stmts []ast.Stmt, def bool) (bool, bool) // (carried, definitely assigned after)
	readsExpr := func(e ast.Node) bool { return e != nil && c.readsIn([]ast.Node{e}, v) }
	scan = func(stmts []ast.Stmt, def bool) (bool, bool) {
		for _, s := range stmts {
			switch t := s.(type) {
			case *ast.AssignStmt:
				for _, r := range t.Rhs {
					if !def && readsExpr(r) {
						return true, def
					}
				}
				if t.Tok != token.ASSIGN && t.Tok != token.DEFINE {
					for _, l := range t.Lhs {
						if !def && readsExpr(l) {
							return true, def
						}
					}
				}
				for _, l := range t.Lhs {
					if id, ok := l.(*ast.Ident); ok && id.Obj == v.obj {
						def = true
					} else if !def && readsExpr(l) {
						return true, def
					}
				}
			case *ast.IfStmt:
				if t.Init != nil {
					cr, d := scan([]ast.Stmt{t.Init}, def)
					if cr {
						return true, def
					}
					def = d
				}
				if !def && readsExpr(t.Cond) {
					return true, def
				}
				cr1, d1 := scan(t.Body.List, def)
				if cr1 {
					return true, def
				}
				d2 := def
				if t.Else != nil {
					var els []ast.Stmt
					if b, ok := t.Else.(*ast.BlockStmt); ok {
						els = b.List
					} else {
						els = []ast.Stmt{t.Else}
					}
					cr2, dd := scan(els, def)
					if cr2 {
						return true, def
					}
					d2 = dd
				}
				def = def || (d1 && d2)
			case *ast.BlockStmt:
				cr, d := scan(t.List, def)
				if cr {
					return true, def
				}
				def = d
			default:
				if !def && readsExpr(s) {
					return true, def
				}
			}
		}
		return false, def
	}
	cr, _ := scan(body, def)
	return cr
}

// ---------------------------------------------------------------- expressions

type libSig struct {
	res []typ
	gen func(c *fctx, args []string, call *ast.CallExpr) string
}

var libCalls map[string]libSig

func init() {
	libCalls = map[string]libSig{
		"strings.Cut": {[]typ{tString, tString, tBool}, func(c *fctx, a []string, call *ast.CallExpr) string {
			if !isStrLit(call.Args[1], "=") {
				return c.x.bad("strings.Cut with a separator other than \"=\"", call)
			}
			return "(str_cut " + a[0] + ")"
		}},
		"strings.SplitN": {[]typ{tStrs}, func(c *fctx, a []string, call *ast.CallExpr) string {
			if !isStrLit(call.Args[1], "=") || !isIntLit(call.Args[2], 2) {
				return c.x.bad("strings.SplitN other than (s, \"=\", 2)", call)
			}
			return "(str_splitn2 " + a[0] + ")"
		}},
		"strings.Contains":  {[]typ{tBool}, func(c *fctx, a []string, _ *ast.CallExpr) string { return "(str_contains " + a[1] + " " + a[0] + ")" }},
		"strings.Index":     {[]typ{tInt}, func(c *fctx, a []string, _ *ast.CallExpr) string { return "(str_index " + a[1] + " " + a[0] + ")" }},
		"strings.HasSuffix": {[]typ{tBool}, func(c *fctx, a []string, _ *ast.CallExpr) string { return "(str_has_suffix " + a[1] + " " + a[0] + ")" }},
		"filepath.Abs":      {[]typ{tString, tError}, func(c *fctx, a []string, _ *ast.CallExpr) string { return "(fp_abs (w_cwd W) " + a[0] + ", ENil)" }},
		"filepath.Rel":      {[]typ{tString, tError}, func(c *fctx, a []string, _ *ast.CallExpr) string { return "(fp_rel_e " + a[0] + " " + a[1] + ")" }},
		"filepath.Join": {[]typ{tString}, func(c *fctx, a []string, call *ast.CallExpr) string {
			if len(a) != 2 {
				return c.x.bad("filepath.Join with other than two elements", call)
			}
			return "(fp_join " + a[0] + " " + a[1] + ")"
		}},
		"filepath.Dir":          {[]typ{tString}, func(c *fctx, a []string, _ *ast.CallExpr) string { return "(fp_dir " + a[0] + ")" }},
		"filepath.Ext":          {[]typ{tString}, func(c *fctx, a []string, _ *ast.CallExpr) string { return "(fp_ext " + a[0] + ")" }},
		"filepath.Clean":        {[]typ{tString}, func(c *fctx, a []string, _ *ast.CallExpr) string { return "(fp_clean " + a[0] + ")" }},
		"filepath.ToSlash":      {[]typ{tString}, func(c *fctx, a []string, _ *ast.CallExpr) string { return a[0] }},
		"os.Open":               {[]typ{tFile, tError}, func(c *fctx, a []string, _ *ast.CallExpr) string { return "(fs_open W " + a[0] + ")" }},
		"os.Lstat":              {[]typ{tDirent, tError}, func(c *fctx, a []string, _ *ast.CallExpr) string { return "(fs_lstat W " + a[0] + ")" }},
		"os.ReadDir":            {[]typ{tDirents, tError}, func(c *fctx, a []string, _ *ast.CallExpr) string { return "(fs_read_dir W " + a[0] + ")" }},
		"fs.FileInfoToDirEntry": {[]typ{tDirent}, func(c *fctx, a []string, _ *ast.CallExpr) string { return a[0] }},
		"bufio.NewScanner":      {[]typ{tScanner}, func(c *fctx, a []string, _ *ast.CallExpr) string { return a[0] }},
		"bufio.NewReader":       {[]typ{tFile}, func(c *fctx, a []string, _ *ast.CallExpr) string { return a[0] }},
		"gencommon.PackageNameFromPath": {[]typ{tString, tError}, func(c *fctx, a []string, _ *ast.CallExpr) string {
			return "(pkg_name_from_path W " + a[0] + ")"
		}},
	}
}

func isStrLit(e ast.Expr, s string) bool {
	b, ok := e.(*ast.BasicLit)
	if !ok || b.Kind != token.STRING {
		return false
	}
	v, err := strconv.Unquote(b.Value)
	return err == nil && v == s
}

func isIntLit(e ast.Expr, n int) bool {
	b, ok := e.(*ast.BasicLit)
	return ok && b.Kind == token.INT && b.Value == strconv.Itoa(n)
}

func selName(e ast.Expr) string {
	if s, ok := e.(*ast.SelectorExpr); ok {
		if id, ok := s.X.(*ast.Ident); ok && id.Obj == nil {
			return id.Name + "." + s.Sel.Name
		}
	}
	return ""
}

func (c *fctx) calleeOf(call *ast.CallExpr) *funcInfo {
	switch f := call.Fun.(type) {
	case *ast.Ident:
		if f.Obj != nil && f.Obj.Kind == ast.Fun {
			return c.x.funcs[f.Name]
		}
		if fi, ok := c.x.funcs[f.Name]; ok && !fi.method && c.lookup(f) == nil {
			return fi
		}
	case *ast.SelectorExpr:
		if id, ok := f.X.(*ast.Ident); ok {
			if v := c.lookup(id); v != nil && v.t == tRecv {
				if fi, ok := c.x.funcs[f.Sel.Name]; ok && fi.method {
					return fi
				}
			}
		}
	}
	return nil
}

func (c *fctx) typeOf(e ast.Expr) typ {
	switch t := e.(type) {
	case *ast.BasicLit:
		switch t.Kind {
		case token.STRING:
			return tString
		case token.INT:
			return tInt
		}
	case *ast.Ident:
		if v := c.lookup(t); v != nil {
			return v.t
		}
		switch t.Name {
		case "true", "false":
			return tBool
		case "nil":
			return tUnknown
		}
		if _, ok := c.x.consts[t.Name]; ok {
			return tString
		}
	case *ast.ParenExpr:
		return c.typeOf(t.X)
	case *ast.StarExpr:
		if c.typeOf(t.X) == tPtrStrs {
			return tStrs
		}
	case *ast.UnaryExpr:
		if t.Op == token.NOT {
			return tBool
		}
		if t.Op == token.AND && c.typeOf(t.X) == tStrs {
			return tPtrStrs
		}
		if t.Op == token.SUB {
			return tInt
		}
	case *ast.BinaryExpr:
		switch t.Op {
		case token.EQL, token.NEQ, token.LSS, token.LEQ, token.GTR, token.GEQ, token.LAND, token.LOR:
			return tBool
		case token.ADD:
			return c.typeOf(t.X)
		case token.SUB, token.MUL:
			return tInt
		}
	case *ast.CompositeLit:
		return c.x.typeExpr(t.Type)
	case *ast.IndexExpr:
		if c.typeOf(t.X) == tStrs {
			return tString
		}
	case *ast.SelectorExpr:
		if id, ok := t.X.(*ast.Ident); ok {
			if v := c.lookup(id); v != nil && v.t == tRecv {
				for _, f := range c.x.fields {
					if f[0] == t.Sel.Name {
						return typ(f[1])
					}
				}
			}
		}
		if selName(t) == "fs.SkipDir" {
			return tError
		}
	case *ast.CallExpr:
		ts := c.callTypes(t)
		if len(ts) == 1 {
			return ts[0]
		}
	case *ast.FuncLit:
		return tFunc
	}
	return tUnknown
}

func (c *fctx) callTypes(call *ast.CallExpr) []typ {
	if id, ok := call.Fun.(*ast.Ident); ok && id.Obj == nil {
		switch id.Name {
		case "append", "make":
			if id.Name == "make" {
				return []typ{c.x.typeExpr(call.Args[0])}
			}
			return []typ{c.typeOf(call.Args[0])}
		case "len":
			return []typ{tInt}
		case "string":
			return []typ{tString}
		}
	}
	if n := selName(call.Fun); n != "" {
		if sig, ok := libCalls[n]; ok {
			return sig.res
		}
		if n == "filepath.WalkDir" {
			return []typ{tError}
		}
		if n == "exec.Command" {
			return []typ{tCmd}
		}
	}
	if fi := c.calleeOf(call); fi != nil {
		return fi.results
	}
	if s, ok := call.Fun.(*ast.SelectorExpr); ok {
		rt := c.typeOf(s.X)
		switch {
		case rt == tDirent && (s.Sel.Name == "IsDir" || s.Sel.Name == "IsRegular"):
			return []typ{tBool}
		case rt == tDirent && s.Sel.Name == "Name":
			return []typ{tString}
		case rt == tDirent && (s.Sel.Name == "Type" || s.Sel.Name == "Mode"):
			return []typ{tDirent}
		case rt == tScanner && s.Sel.Name == "Text":
			return []typ{tString}
		case rt == tScanner && s.Sel.Name == "Scan":
			return []typ{tBool}
		case rt == tCmd && s.Sel.Name == "Run":
			return []typ{tError}
		}
	}
	return []typ{tUnknown}
}

func (c *fctx) expr(e ast.Expr) string {
	switch t := e.(type) {
	case *ast.BasicLit:
		switch t.Kind {
		case token.STRING:
			v, err := strconv.Unquote(t.Value)
			if err != nil {
				return c.x.bad("string literal", e)
			}
			return coqStr(v)
		case token.INT:
			return "(" + t.Value + ")%Z"
		}
	case *ast.ParenExpr:
		return c.expr(t.X)
	case *ast.Ident:
		if v := c.lookup(t); v != nil {
			return v.name
		}
		switch t.Name {
		case "true", "false":
			return t.Name
		}
		if _, ok := c.x.consts[t.Name]; ok {
			return "gen_const_" + sanitize(t.Name)
		}
		return c.x.bad("identifier "+t.Name, e)
	case *ast.StarExpr:
		if c.typeOf(t.X) == tPtrStrs {
			return c.expr(t.X)
		}
	case *ast.UnaryExpr:
		switch t.Op {
		case token.NOT:
			return "(negb " + c.expr(t.X) + ")"
		case token.AND:
			return c.expr(t.X)
		case token.SUB:
			return "(- " + c.expr(t.X) + ")%Z"
		}
	case *ast.BinaryExpr:
		return c.binary(t)
	case *ast.CompositeLit:
		if c.x.typeExpr(t.Type) == tStrs {
			items := []string{}
			for _, el := range t.Elts {
				items = append(items, c.expr(el))
			}
			return "[" + strings.Join(items, "; ") + "]"
		}
	case *ast.IndexExpr:
		if c.typeOf(t.X) == tStrs {
			if b, ok := t.Index.(*ast.BasicLit); ok && b.Kind == token.INT {
				return "(nth " + b.Value + " " + c.expr(t.X) + " \"\"%string)"
			}
		}
	case *ast.SelectorExpr:
		if id, ok := t.X.(*ast.Ident); ok {
			if v := c.lookup(id); v != nil && v.t == tRecv {
				return "(g_" + t.Sel.Name + " " + v.name + ")"
			}
		}
		if selName(t) == "fs.SkipDir" {
			return "ESkipDir"
		}
	case *ast.CallExpr:
		return c.call(t)
	}
	return c.x.bad(fmt.Sprintf("expression %T", e), e)
}

func (c *fctx) isNil(e ast.Expr) bool {
	id, ok := e.(*ast.Ident)
	return ok && id.Name == "nil" && id.Obj == nil
}

func (c *fctx) binary(b *ast.BinaryExpr) string {
	switch b.Op {
	case token.LAND:
		return "(" + c.expr(b.X) + " && " + c.expr(b.Y) + ")%bool"
	case token.LOR:
		return "(" + c.expr(b.X) + " || " + c.expr(b.Y) + ")%bool"
	case token.ADD:
		switch c.typeOf(b.X) {
		case tString:
			return "(" + c.expr(b.X) + " ++ " + c.expr(b.Y) + ")%string"
		case tInt:
			return "(" + c.expr(b.X) + " + " + c.expr(b.Y) + ")%Z"
		}
	case token.SUB:
		return "(" + c.expr(b.X) + " - " + c.expr(b.Y) + ")%Z"
	case token.EQL, token.NEQ:
		var r string
		switch {
		case c.isNil(b.Y):
			switch c.typeOf(b.X) {
			case tError:
				r = "(err_is_nil " + c.expr(b.X) + ")"
			default:
				return c.x.bad("comparison with nil of a non-error", b)
			}
		case c.isNil(b.X):
			if c.typeOf(b.Y) == tError {
				r = "(err_is_nil " + c.expr(b.Y) + ")"
			} else {
				return c.x.bad("comparison with nil of a non-error", b)
			}
		default:
			tx := c.typeOf(b.X)
			if tx == tUnknown {
				tx = c.typeOf(b.Y)
			}
			switch tx {
			case tString:
				r = "(String.eqb " + c.expr(b.X) + " " + c.expr(b.Y) + ")"
			case tInt:
				r = "(Z.eqb " + c.expr(b.X) + " " + c.expr(b.Y) + ")"
			case tBool:
				r = "(Bool.eqb " + c.expr(b.X) + " " + c.expr(b.Y) + ")"
			case tError:
				r = "(err_eqb " + c.expr(b.X) + " " + c.expr(b.Y) + ")"
			default:
				return c.x.bad("comparison of "+string(tx), b)
			}
		}
		if b.Op == token.NEQ {
			return "(negb " + r + ")"
		}
		return r
	case token.LSS, token.LEQ, token.GTR, token.GEQ:
		if c.typeOf(b.X) == tInt || c.typeOf(b.Y) == tInt {
			op := map[token.Token]string{token.LSS: "Z.ltb", token.LEQ: "Z.leb", token.GTR: "Z.gtb", token.GEQ: "Z.geb"}[b.Op]
			return "(" + op + " " + c.expr(b.X) + " " + c.expr(b.Y) + ")"
		}
	}
	return c.x.bad("binary "+b.Op.String(), b)
}

func (c *fctx) args(es []ast.Expr) []string {
	out := make([]string, len(es))
	for i, e := range es {
		out[i] = c.expr(e)
	}
	return out
}

func (c *fctx) call(call *ast.CallExpr) string {
	if id, ok := call.Fun.(*ast.Ident); ok && id.Obj == nil {
		switch id.Name {
		case "append":
			base := c.expr(call.Args[0])
			if call.Ellipsis.IsValid() && len(call.Args) == 2 {
				return "(" + base + " ++ " + c.expr(call.Args[1]) + ")%list"
			}
			return "(" + base + " ++ [" + strings.Join(c.args(call.Args[1:]), "; ") + "])%list"
		case "make":
			if c.x.typeExpr(call.Args[0]) == tStrs && len(call.Args) >= 2 && isIntLit(call.Args[1], 0) {
				return "[]"
			}
			return c.x.bad("make other than make([]string, 0, ...)", call)
		case "len":
			switch c.typeOf(call.Args[0]) {
			case tStrs, tDirents:
				return "(Z.of_nat (length " + c.expr(call.Args[0]) + "))"
			case tString:
				return "(Z.of_nat (String.length " + c.expr(call.Args[0]) + "))"
			}
		case "string":
			return c.expr(call.Args[0])
		}
	}
	if n := selName(call.Fun); n != "" {
		if sig, ok := libCalls[n]; ok {
			return sig.gen(c, c.args(call.Args), call)
		}
		if n == "exec.Command" {
			if call.Ellipsis.IsValid() && len(call.Args) == 2 {
				return "(" + c.expr(call.Args[0]) + ", " + c.expr(call.Args[1]) + ")"
			}
			return c.x.bad("exec.Command other than (path, args...)", call)
		}
		if n == "filepath.WalkDir" {
			return c.walkDir(call)
		}
	}
	if fi := c.calleeOf(call); fi != nil && fi.opaqueScan {
		if len(call.Args) != 1 {
			return c.x.bad("call of the byte scanner "+fi.name, call)
		}
		return "(scan_reader " + c.expr(call.Args[0]) + ")"
	}
	if fi := c.calleeOf(call); fi != nil {
		if fi.treeRec && fi != c.fi {
			// the (path, entry) pair handed to a hand-written directory walk must name the same
			// file: entry = Lstat of the path variable
			okPair := false
			var pathObj, entObj *ast.Object
			for i, p := range fi.params {
				if p.obj == nil || i >= len(call.Args) {
					continue
				}
				a := call.Args[i]
				if p.obj.Name == fi.pathParam && p.t == tString {
					if id, ok := a.(*ast.Ident); ok {
						pathObj = id.Obj
					}
				}
				if p.obj.Name == fi.entParam && p.t == tDirent {
					if cc, ok := a.(*ast.CallExpr); ok && isSel(cc.Fun, "fs", "FileInfoToDirEntry") && len(cc.Args) == 1 {
						a = cc.Args[0]
					}
					if id, ok := a.(*ast.Ident); ok {
						entObj = id.Obj
					}
				}
			}
			if pathObj != nil && entObj != nil && c.lstatOf[entObj] == pathObj {
				okPair = true
			}
			if !okPair {
				return c.x.bad("call of the directory walk "+fi.name+" with a (path, entry) pair that is not (p, Lstat p)", call)
			}
		}
		parts := []string{"gen_" + fi.name, "W"}
		if fi.method {
			parts = append(parts, c.expr(call.Fun.(*ast.SelectorExpr).X))
		}
		parts = append(parts, c.args(call.Args)...)
		return "(" + strings.Join(parts, " ") + ")"
	}
	if s, ok := call.Fun.(*ast.SelectorExpr); ok {
		rt := c.typeOf(s.X)
		switch {
		case rt == tDirent && s.Sel.Name == "IsDir":
			return "(is_dir " + c.expr(s.X) + ")"
		case rt == tDirent && s.Sel.Name == "IsRegular":
			return "(is_regular " + c.expr(s.X) + ")"
		case rt == tDirent && s.Sel.Name == "Name":
			return "(node_name " + c.expr(s.X) + ")"
		case rt == tDirent && (s.Sel.Name == "Type" || s.Sel.Name == "Mode"):
			return c.expr(s.X)
		case rt == tScanner && s.Sel.Name == "Text":
			if id, ok := s.X.(*ast.Ident); ok && id.Obj != nil {
				if el, ok := c.scanVar[id.Obj]; ok {
					return el
				}
			}
			return c.x.bad("Scanner.Text outside a `for s.Scan()` loop", call)
		}
	}
	return c.x.bad("call of "+exprString(call.Fun), call)
}

func exprString(e ast.Expr) string {
	switch t := e.(type) {
	case *ast.Ident:
		return t.Name
	case *ast.SelectorExpr:
		return exprString(t.X) + "." + t.Sel.Name
	}
	return fmt.Sprintf("%T", e)
}

// filepath.WalkDir(root, closure): value (state', err); the caller binds the state
func (c *fctx) walkDir(call *ast.CallExpr) string {
	lit := c.closureOf(call.Args[1])
	if lit == nil {
		return c.x.bad("filepath.WalkDir with a callback that is not a closure of this function", call)
	}
	capt := c.closureCaptured(lit)
	names := varNames(capt)
	fnText := c.closureText(lit, capt)
	return "(fs_walk_dir " + fnText + " W " + c.expr(call.Args[0]) + " " + tuple(names) + ")"
}

func varNames(vs []*varInfo) []string {
	out := make([]string, len(vs))
	for i, v := range vs {
		out[i] = v.name
	}
	return out
}

func (c *fctx) closureText(lit *ast.FuncLit, capt []*varInfo) string {
	ps := []*varInfo{}
	for _, f := range lit.Type.Params.List {
		t := c.x.typeExpr(f.Type)
		for _, n := range f.Names {
			ps = append(ps, c.newVar(n.Obj, n.Name, t))
		}
	}
	if len(ps) != 3 || ps[0].t != tString || ps[1].t != tDirent || ps[2].t != tError {
		return c.x.bad("WalkDir callback signature", lit)
	}
	sub := *c
	sub.closure = true
	sub.capt = capt
	sub.inLoop = false
	sub.loopL = nil
	sub.retTail = nil
	body := sub.seq(lit.Body.List, nil)
	d := tuple([]string{tuple(varNames(capt)), "EFail"})
	return "(fun " + pat(varNames(capt)) + " " + ps[0].name + " " + ps[1].name + " " + ps[2].name +
		" => fn_result (S:=unit) (L:=unit) " + d + " (" + body + "))"
}

// ---------------------------------------------------------------- statements

func (c *fctx) ret(vals []string) string {
	if c.closure {
		return "Ret " + tuple([]string{tuple(varNames(c.capt)), tuple(vals)})
	}
	return "Ret " + tuple(append(append([]string{}, vals...), c.retTail...))
}

// seq translates a statement list to a term of type ctl OUT L R; outs are the variables whose
// values are delivered by Next when control falls off the end
func (c *fctx) seq(stmts []ast.Stmt, outs []*varInfo) string {
	if len(stmts) == 0 {
		return "Next " + tuple(varNames(outs))
	}
	s, rest := stmts[0], stmts[1:]
	switch t := s.(type) {
	case *ast.EmptyStmt:
		return c.seq(rest, outs)
	case *ast.BlockStmt:
		return c.seq(append(append([]ast.Stmt{}, t.List...), rest...), outs)
	case *ast.DeferStmt:
		if sel, ok := t.Call.Fun.(*ast.SelectorExpr); ok && sel.Sel.Name == "Close" {
			return c.seq(rest, outs)
		}
		return c.x.bad("defer", s)
	case *ast.DeclStmt:
		gd, ok := t.Decl.(*ast.GenDecl)
		if !ok || gd.Tok != token.VAR {
			return c.x.bad("declaration", s)
		}
		out := ""
		for _, sp := range gd.Specs {
			vs := sp.(*ast.ValueSpec)
			for i, n := range vs.Names {
				var tt typ
				val := ""
				if vs.Type != nil {
					tt = c.x.typeExpr(vs.Type)
					val = zero(tt)
					if tt == tError {
						val = "ENil"
					}
				}
				if i < len(vs.Values) {
					if fl, ok := vs.Values[i].(*ast.FuncLit); ok {
						v := c.newVar(n.Obj, n.Name, tFunc)
						v.lit = fl
						continue
					}
					if vs.Type == nil {
						tt = c.typeOf(vs.Values[i])
					}
					val = c.expr(vs.Values[i])
				}
				v := c.newVar(n.Obj, n.Name, tt)
				out += "let " + v.name + " := " + val + " in\n"
			}
		}
		return out + c.seq(rest, outs)
	case *ast.ExprStmt:
		// calls for effect only
		if call, ok := t.X.(*ast.CallExpr); ok {
			if fi := c.calleeOf(call); fi != nil && len(fi.ptrs) > 0 {
				return c.assign(nil, call, token.ASSIGN, s) + c.seq(rest, outs)
			}
		}
		return c.x.bad("expression statement", s)
	case *ast.IncDecStmt:
		return c.x.bad("++/--", s)
	case *ast.AssignStmt:
		if len(t.Rhs) == 1 {
			if fl, ok := t.Rhs[0].(*ast.FuncLit); ok && len(t.Lhs) == 1 {
				id := t.Lhs[0].(*ast.Ident)
				v := c.lookup(id)
				if v == nil || t.Tok == token.DEFINE {
					v = c.newVar(id.Obj, id.Name, tFunc)
				}
				v.lit = fl
				return c.seq(rest, outs)
			}
			// cmd.Stdout = ... / cmd.Stderr = ...: no effect on the observables
			if sel, ok := t.Lhs[0].(*ast.SelectorExpr); ok && len(t.Lhs) == 1 {
				if c.typeOf(sel.X) == tCmd && (sel.Sel.Name == "Stdout" || sel.Sel.Name == "Stderr") {
					return c.seq(rest, outs)
				}
			}
			if call, ok := t.Rhs[0].(*ast.CallExpr); ok && c.fi.treeRec && isSel(call.Fun, "os", "ReadDir") && len(t.Lhs) == 2 {
				// entries, err := os.ReadDir(p)   with (p, d) the parameter pair: the children of d
				n1 := c.lhsNames(t.Lhs, []typ{tDirents, tError}, t.Tok, s)
				r1 := c.seq(rest, outs)
				n2 := c.lhsNames(t.Lhs, []typ{tDirents, tError}, t.Tok, s)
				// a non-directory has no entries: loops over them do nothing
				if id, ok := t.Lhs[0].(*ast.Ident); ok && id.Obj != nil {
					if c.empty == nil {
						c.empty = map[*ast.Object]bool{}
					}
					c.empty[id.Obj] = true
					defer delete(c.empty, id.Obj)
				}
				r2 := c.seq(rest, outs)
				return "match " + c.entName() + " with\n| Dir _ ch__ => let " + n1[0] + " := ch__ in let " + n1[1] + " := ENil in\n" + r1 +
					"\n| File _ _ _ => let " + n2[0] + " : list node := [] in let " + n2[1] + " := EFail in\n" + r2 + "\nend"
			}
			return c.assign(t.Lhs, t.Rhs[0], t.Tok, s) + c.seq(rest, outs)
		}
		if len(t.Lhs) == len(t.Rhs) {
			out := ""
			for i := range t.Lhs {
				out += c.assign([]ast.Expr{t.Lhs[i]}, t.Rhs[i], t.Tok, s)
			}
			return out + c.seq(rest, outs)
		}
		return c.x.bad("assignment shape", s)
	case *ast.ReturnStmt:
		if len(t.Results) == 1 {
			if call, ok := t.Results[0].(*ast.CallExpr); ok {
				if sel, ok := call.Fun.(*ast.SelectorExpr); ok && sel.Sel.Name == "Run" && c.typeOf(sel.X) == tCmd {
					if c.inLoop || c.closure {
						return c.x.bad("cmd.Run inside a loop or closure", s)
					}
					cmd := c.expr(sel.X)
					return "let v_execlog := (v_execlog ++ [" + cmd + "])%list in\n" + c.ret([]string{"(exec_run W " + cmd + ")"})
				}
				// return f() of a function with hidden results (exec log, pointer parameters)
				if fi := c.calleeOf(call); fi != nil && (fi.hasExec || len(fi.ptrs) > 0) && !c.closure {
					ts := c.callTypes(call)
					lhs := make([]ast.Expr, len(ts))
					names := make([]string, len(ts))
					for i := range ts {
						obj := ast.NewObj(ast.Var, "r"+strconv.Itoa(i))
						lhs[i] = &ast.Ident{Name: obj.Name, Obj: obj}
					}
					pre := c.assign(lhs, call, token.DEFINE, s)
					for i := range ts {
						names[i] = c.lookup(lhs[i].(*ast.Ident)).name
					}
					return pre + c.ret(names)
				}
				// return f() of a multi-valued function
				if ts := c.callTypes(call); len(ts) > 1 && len(c.fi.results) == len(ts) && !c.closure {
					names := make([]string, len(ts))
					for i := range ts {
						names[i] = "r_" + strconv.Itoa(i)
					}
					return "let " + pat(names) + " := " + c.expr(call) + " in\n" + c.ret(names)
				}
			}
		}
		vals := []string{}
		for i, r := range t.Results {
			if c.isNil(r) {
				var rt typ = tError
				if !c.closure && i < len(c.fi.results) {
					rt = c.fi.results[i]
				}
				if rt == tError {
					vals = append(vals, "ENil")
				} else {
					vals = append(vals, zero(rt))
				}
				continue
			}
			vals = append(vals, c.expr(r))
		}
		return c.ret(vals)
	case *ast.BranchStmt:
		if !c.inLoop || t.Label != nil {
			return c.x.bad("branch statement", s)
		}
		switch t.Tok {
		case token.CONTINUE:
			return "Cont " + tuple(varNames(c.loopL))
		case token.BREAK:
			return "Brk " + tuple(varNames(c.loopL))
		}
		return c.x.bad("branch statement", s)
	case *ast.IfStmt:
		return c.ifStmt(t, rest, outs)
	case *ast.SwitchStmt:
		return c.seq(append([]ast.Stmt{c.switchToIf(t)}, rest...), outs)
	case *ast.RangeStmt:
		return c.rangeStmt(t, rest, outs)
	case *ast.ForStmt:
		return c.forStmt(t, rest, outs)
	}
	return c.x.bad(fmt.Sprintf("statement %T", s), s)
}

// one assignment `lhs... (:=|=|op=) rhs` as a let prefix
func (c *fctx) assign(lhs []ast.Expr, rhs ast.Expr, tok token.Token, at ast.Node) string {
	// call results
	var rtypes []typ
	if call, ok := rhs.(*ast.CallExpr); ok {
		rtypes = c.callTypes(call)
	} else {
		rtypes = []typ{c.typeOf(rhs)}
	}
	val, post := "", ""
	extra := []string{} // hidden results bound as well (closure state, pointer params, exec log)
	if call, ok := rhs.(*ast.CallExpr); ok {
		if sel, ok := call.Fun.(*ast.SelectorExpr); ok && sel.Sel.Name == "Run" && c.typeOf(sel.X) == tCmd {
			cmd := c.expr(sel.X)
			pre := "let v_execlog := (v_execlog ++ [" + cmd + "])%list in\n"
			names := c.lhsNames(lhs, []typ{tError}, tok, at)
			return pre + "let " + pat(names) + " := exec_run W " + cmd + " in\n"
		}
		if selName(call.Fun) == "filepath.WalkDir" {
			if lit := c.closureOf(call.Args[1]); lit != nil {
				capt := c.closureCaptured(lit)
				val = c.expr(rhs)
				names := c.lhsNames(lhs, []typ{tError}, tok, at)
				return "let '(" + tuple(varNames(capt)) + ", " + names[0] + ") := " + val + " in\n"
			}
		}
		if fi := c.calleeOf(call); fi != nil && (len(fi.ptrs) > 0 || fi.hasExec) {
			val = c.expr(rhs)
			for i, p := range fi.params {
				if p.t == tPtrStrs {
					arg := call.Args[i]
					if u, ok := arg.(*ast.UnaryExpr); ok {
						arg = u.X
					}
					extra = append(extra, c.expr(arg))
				}
			}
			if fi.hasExec {
				extra = append(extra, "v_execlog_c")
				post = "let v_execlog := (v_execlog ++ v_execlog_c)%list in\n"
			}
		}
	}
	if call, ok := rhs.(*ast.CallExpr); ok && isSel(call.Fun, "os", "Lstat") && len(lhs) == 2 && len(call.Args) == 1 {
		if pid, ok := call.Args[0].(*ast.Ident); ok && pid.Obj != nil {
			if iid, ok := lhs[0].(*ast.Ident); ok && iid.Obj != nil {
				if c.lstatOf == nil {
					c.lstatOf = map[*ast.Object]*ast.Object{}
				}
				c.lstatOf[iid.Obj] = pid.Obj
			}
		}
	}
	if val == "" {
		val = c.expr(rhs)
	}
	if tok != token.ASSIGN && tok != token.DEFINE {
		// x op= e
		if len(lhs) != 1 {
			return c.x.bad("op-assignment shape", at)
		}
		var op token.Token
		switch tok {
		case token.ADD_ASSIGN:
			op = token.ADD
		case token.SUB_ASSIGN:
			op = token.SUB
		default:
			return c.x.bad("op-assignment "+tok.String(), at)
		}
		bin := &ast.BinaryExpr{X: lhs[0], Op: op, Y: rhs}
		val = c.binary(bin)
		names := c.lhsNames(lhs, []typ{c.typeOf(lhs[0])}, token.ASSIGN, at)
		return "let " + names[0] + " := " + val + " in\n"
	}
	if len(lhs) != len(rtypes) && len(lhs) != 0 {
		return c.x.bad("assignment arity", at)
	}
	names := c.lhsNames(lhs, rtypes, tok, at)
	if len(lhs) == 0 {
		names = nil
		for range rtypes {
			names = append(names, "_")
		}
	}
	all := append(names, extra...)
	return "let " + pat(all) + " := " + val + " in\n" + post
}

func (c *fctx) lhsNames(lhs []ast.Expr, ts []typ, tok token.Token, at ast.Node) []string {
	names := []string{}
	for i, l := range lhs {
		var t typ = tUnknown
		if i < len(ts) {
			t = ts[i]
		}
		switch id := l.(type) {
		case *ast.Ident:
			if id.Name == "_" {
				names = append(names, "_")
				continue
			}
			v := c.lookup(id)
			if v == nil {
				if tok != token.DEFINE {
					names = append(names, c.x.bad("assignment to "+id.Name, at))
					continue
				}
				v = c.newVar(id.Obj, id.Name, t)
			}
			if v.t == tUnknown {
				v.t = t
			}
			names = append(names, v.name)
		case *ast.StarExpr:
			if pid, ok := id.X.(*ast.Ident); ok {
				if v := c.lookup(pid); v != nil && v.t == tPtrStrs {
					names = append(names, v.name)
					continue
				}
			}
			names = append(names, c.x.bad("assignment through a pointer", at))
		default:
			names = append(names, c.x.bad("assignment target", at))
		}
	}
	return names
}

func elseStmts(e ast.Stmt) []ast.Stmt {
	switch t := e.(type) {
	case nil:
		return nil
	case *ast.BlockStmt:
		return t.List
	}
	return []ast.Stmt{e}
}

func (c *fctx) ifStmt(t *ast.IfStmt, rest []ast.Stmt, outs []*varInfo) string {
	pre := ""
	if t.Init != nil {
		as, ok := t.Init.(*ast.AssignStmt)
		if !ok || len(as.Rhs) != 1 {
			return c.x.bad("if-init statement", t)
		}
		pre = c.assign(as.Lhs, as.Rhs[0], as.Tok, as)
	}
	cond := c.expr(t.Cond)
	A, B := t.Body.List, elseStmts(t.Else)
	trans := hasTransfer(t.Body) || (t.Else != nil && hasTransfer(t.Else))
	if !trans {
		// plain: the variables assigned in either branch are rebound
		nodes := []ast.Node{t.Body}
		if t.Else != nil {
			nodes = append(nodes, t.Else)
		}
		M := c.assignedOuter(nodes, t.Body.Pos(), t.End())
		if len(M) == 0 {
			return pre + c.seq(rest, outs)
		}
		return pre + "let " + pat(varNames(M)) + " := (if " + cond + "\n  then " + c.plain(A, M) + "\n  else " + c.plain(B, M) + ") in\n" + c.seq(rest, outs)
	}
	fa, fb := neverFalls(A), neverFalls(B)
	switch {
	case fa && fb:
		return pre + "(if " + cond + "\n  then " + c.seq(A, nil) + "\n  else " + c.seq(B, nil) + ")"
	case fa:
		return pre + "(if " + cond + "\n  then " + c.seq(A, nil) + "\n  else " + c.seq(append(append([]ast.Stmt{}, B...), rest...), outs) + ")"
	case fb:
		return pre + "(if " + cond + "\n  then " + c.seq(append(append([]ast.Stmt{}, A...), rest...), outs) + "\n  else " + c.seq(B, nil) + ")"
	}
	nodes := []ast.Node{t.Body}
	if t.Else != nil {
		nodes = append(nodes, t.Else)
	}
	M := c.assignedOuter(nodes, t.Body.Pos(), t.End())
	return pre + "bind_ctl (if " + cond + "\n  then " + c.seq(A, M) + "\n  else " + c.seq(B, M) + ")\n (fun " + pat(varNames(M)) + " => " + c.seq(rest, outs) + ")"
}

// plain: a transfer-free, loop-free statement list as lets ending in the tuple of M
func (c *fctx) plain(stmts []ast.Stmt, M []*varInfo) string {
	s := c.seq(stmts, M)
	// seq ends in `Next (M)`; in a transfer-free list that is its only constructor
	end := "Next " + tuple(varNames(M))
	if !strings.HasSuffix(s, end) {
		return c.x.bad("plain block shape", nil)
	}
	body := strings.TrimSuffix(s, end)
	if strings.Contains(body, "Next ") || strings.Contains(body, "Ret ") {
		// nested plain ifs produce no Next; anything else is unexpected
		return c.x.bad("plain block with control flow", nil)
	}
	return "(" + body + tuple(varNames(M)) + ")"
}

func (c *fctx) switchToIf(s *ast.SwitchStmt) ast.Stmt {
	if s.Init != nil {
		return &ast.ExprStmt{X: &ast.Ident{Name: "UNSUPPORTED_switch_init"}}
	}
	var clauses []*ast.CaseClause
	var def *ast.CaseClause
	for _, cc := range s.Body.List {
		cl := cc.(*ast.CaseClause)
		if cl.List == nil {
			def = cl
		} else {
			clauses = append(clauses, cl)
		}
		for _, st := range cl.Body {
			if b, ok := st.(*ast.BranchStmt); ok && (b.Tok == token.FALLTHROUGH || b.Tok == token.BREAK) {
				return &ast.ExprStmt{X: &ast.Ident{Name: "UNSUPPORTED_switch_branch"}}
			}
		}
	}
	var tail ast.Stmt
	if def != nil {
		tail = &ast.BlockStmt{List: def.Body, Lbrace: def.Pos(), Rbrace: def.End()}
	}
	for i := len(clauses) - 1; i >= 0; i-- {
		cl := clauses[i]
		var cond ast.Expr
		for _, e := range cl.List {
			var one ast.Expr = e
			if s.Tag != nil {
				one = &ast.BinaryExpr{X: s.Tag, Op: token.EQL, Y: e}
			}
			if cond == nil {
				cond = one
			} else {
				cond = &ast.BinaryExpr{X: cond, Op: token.LOR, Y: one}
			}
		}
		ifs := &ast.IfStmt{If: cl.Pos(), Cond: cond, Body: &ast.BlockStmt{List: cl.Body, Lbrace: cl.Pos(), Rbrace: cl.End()}}
		if tail != nil {
			ifs.Else = tail
		}
		tail = ifs
	}
	if tail == nil {
		return &ast.EmptyStmt{}
	}
	return tail
}

// usedAfter: v is read in the statements that follow (in this list; enclosing lists are
// covered by the enclosing outs)
func (c *fctx) liveAfter(v *varInfo, rest []ast.Stmt, outs []*varInfo) bool {
	for _, o := range outs {
		if o == v {
			return true
		}
	}
	nodes := make([]ast.Node, len(rest))
	for i, r := range rest {
		nodes[i] = r
	}
	if c.readsIn(nodes, v) {
		return true
	}
	// return statements of an exec-threading / pointer function read the hidden variables
	return false
}

func (c *fctx) loopVars(body *ast.BlockStmt, extra []ast.Node, rest []ast.Stmt, outs []*varInfo) []*varInfo {
	cand := c.assignedOuter(append([]ast.Node{body}, extra...), body.Pos(), body.End())
	L := []*varInfo{}
	for _, v := range cand {
		isPtr := false
		for _, p := range c.fi.ptrs {
			if p == v {
				isPtr = true
			}
		}
		isCapt := false
		for _, p := range c.capt {
			if p == v {
				isCapt = true
			}
		}
		if isPtr || isCapt || c.liveAfter(v, rest, outs) || c.carried(body.List, v) || c.readsIn(extra, v) {
			L = append(L, v)
		}
	}
	return L
}

func (c *fctx) loopText(kind, xs string, cond string, elem string, body *ast.BlockStmt, L []*varInfo, rest []ast.Stmt, outs []*varInfo) string {
	sub := *c
	sub.inLoop = true
	sub.loopL = L
	bodyText := sub.seq(body.List, L)
	lp := ""
	if kind == "while" {
		lp = "loop_while_range (fun " + pat(varNames(L)) + " => " + cond + ") " + xs + " " + tuple(varNames(L))
	} else {
		lp = "loop_range " + xs + " " + tuple(varNames(L))
	}
	return "bind_ctl (" + lp + "\n  (fun " + pat(varNames(L)) + " " + elem + " => " + bodyText + "))\n (fun " + pat(varNames(L)) + " => " + c.seq(rest, outs) + ")"
}

func (c *fctx) rangeStmt(t *ast.RangeStmt, rest []ast.Stmt, outs []*varInfo) string {
	if t.Tok != token.DEFINE {
		return c.x.bad("range without :=", t)
	}
	kid, ok := t.Key.(*ast.Ident)
	if !ok {
		return c.x.bad("range key", t)
	}
	vid, ok := t.Value.(*ast.Ident)
	if !ok {
		return c.x.bad("range value", t)
	}
	xt := c.typeOf(t.X)
	var et typ
	switch xt {
	case tStrs:
		et = tString
	case tDirents:
		et = tDirent
	default:
		return c.x.bad("range over "+string(xt), t)
	}
	if id, ok := t.X.(*ast.Ident); ok && id.Obj != nil && c.empty[id.Obj] {
		return c.seq(rest, outs) // range over a slice known to be empty
	}
	xs := c.expr(t.X)
	if kid.Name != "_" {
		// for i, x := range xs: the elements of enumerate 0 xs
		if xt != tStrs {
			return c.x.bad("range with an index over "+string(xt), t)
		}
		iv := c.newVar(kid.Obj, kid.Name, tInt)
		ev := c.newVar(vid.Obj, vid.Name, et)
		L := c.loopVars(t.Body, nil, rest, outs)
		return c.loopText("range", "(enumerate 0%Z "+xs+")", "", "'("+iv.name+", "+ev.name+")", t.Body, L, rest, outs)
	}
	ev := c.newVar(vid.Obj, vid.Name, et)
	L := c.loopVars(t.Body, nil, rest, outs)
	return c.loopText("range", xs, "", ev.name, t.Body, L, rest, outs)
}

func (c *fctx) forStmt(t *ast.ForStmt, rest []ast.Stmt, outs []*varInfo) string {
	// for s.Scan() / for cond && s.Scan()
	if t.Init == nil && t.Post == nil && t.Cond != nil {
		cond := t.Cond
		var guard ast.Expr
		if b, ok := cond.(*ast.BinaryExpr); ok && b.Op == token.LAND {
			guard, cond = b.X, b.Y
		}
		if call, ok := cond.(*ast.CallExpr); ok {
			if sel, ok := call.Fun.(*ast.SelectorExpr); ok && sel.Sel.Name == "Scan" && c.typeOf(sel.X) == tScanner {
				sid, ok := sel.X.(*ast.Ident)
				if !ok {
					return c.x.bad("scanner expression", t)
				}
				sv := c.lookup(sid)
				el := c.newVar(nil, "line", tString)
				if c.scanVar == nil {
					c.scanVar = map[*ast.Object]string{}
				}
				c.scanVar[sid.Obj] = el.name
				defer delete(c.scanVar, sid.Obj)
				var extra []ast.Node
				if guard != nil {
					extra = []ast.Node{guard}
				}
				L := c.loopVars(t.Body, extra, rest, outs)
				if guard != nil {
					return c.loopText("while", sv.name, c.expr(guard), el.name, t.Body, L, rest, outs)
				}
				return c.loopText("range", sv.name, "", el.name, t.Body, L, rest, outs)
			}
		}
	}
	// for i := 0; i < len(xs); i++ { ... xs[i] ... }
	if as, ok := t.Init.(*ast.AssignStmt); ok && as.Tok == token.DEFINE && len(as.Lhs) == 1 && len(as.Rhs) == 1 && isIntLit(as.Rhs[0], 0) {
		iv := as.Lhs[0].(*ast.Ident)
		cond, ok1 := t.Cond.(*ast.BinaryExpr)
		post, ok2 := t.Post.(*ast.IncDecStmt)
		if ok1 && ok2 && cond.Op == token.LSS && post.Tok == token.INC {
			ci, okA := cond.X.(*ast.Ident)
			pi, okB := post.X.(*ast.Ident)
			ln, okC := cond.Y.(*ast.CallExpr)
			if okA && okB && okC && ci.Obj == iv.Obj && pi.Obj == iv.Obj {
				if f, ok := ln.Fun.(*ast.Ident); ok && f.Name == "len" && len(ln.Args) == 1 {
					if xsID, ok := ln.Args[0].(*ast.Ident); ok && c.typeOf(xsID) == tStrs {
						// every use of i in the body must be xs[i]; xs itself must not be assigned
						okBody := true
						idxUses := map[*ast.Ident]bool{}
						ast.Inspect(t.Body, func(m ast.Node) bool {
							if ix, ok := m.(*ast.IndexExpr); ok {
								if a, ok := ix.X.(*ast.Ident); ok && a.Obj == xsID.Obj {
									if b, ok := ix.Index.(*ast.Ident); ok && b.Obj == iv.Obj {
										idxUses[b] = true
									}
								}
							}
							return true
						})
						ast.Inspect(t.Body, func(m ast.Node) bool {
							if id, ok := m.(*ast.Ident); ok && id.Obj == iv.Obj && !idxUses[id] {
								okBody = false
							}
							return true
						})
						xv := c.lookup(xsID)
						for _, v := range c.assignedOuter([]ast.Node{t.Body}, t.Body.Pos(), t.Body.End()) {
							if v == xv {
								okBody = false
							}
						}
						if okBody {
							el := c.newVar(nil, xsID.Name+"_i", tString)
							sub := *c
							sub.vars = map[*ast.Object]*varInfo{}
							for k, v := range c.vars {
								sub.vars[k] = v
							}
							// rewrite xs[i] -> element variable: declare a pseudo object
							obj := ast.NewObj(ast.Var, el.name)
							sub.vars[obj] = el
							el.obj = obj
							body := rewriteIndex(t.Body, xsID.Obj, iv.Obj, obj)
							L := sub.loopVars(body, nil, rest, outs)
							res := sub.loopText("range", xv.name, "", el.name, body, L, rest, outs)
							for k, v := range sub.vars {
								c.vars[k] = v
							}
							return res
						}
					}
				}
			}
		}
	}
	return c.x.bad("for loop form", t)
}

// rewriteIndex replaces xs[i] by an identifier bound to obj (in place; the AST is not reused)
func rewriteIndex(b *ast.BlockStmt, xs, i, obj *ast.Object) *ast.BlockStmt {
	repl := func(e ast.Expr) ast.Expr {
		if ix, ok := e.(*ast.IndexExpr); ok {
			if a, ok := ix.X.(*ast.Ident); ok && a.Obj == xs {
				if bb, ok := ix.Index.(*ast.Ident); ok && bb.Obj == i {
					return &ast.Ident{NamePos: ix.Pos(), Name: obj.Name, Obj: obj}
				}
			}
		}
		return e
	}
	ast.Inspect(b, func(m ast.Node) bool {
		switch n := m.(type) {
		case *ast.CallExpr:
			for k := range n.Args {
				n.Args[k] = repl(n.Args[k])
			}
		case *ast.BinaryExpr:
			n.X, n.Y = repl(n.X), repl(n.Y)
		case *ast.AssignStmt:
			for k := range n.Rhs {
				n.Rhs[k] = repl(n.Rhs[k])
			}
		case *ast.ReturnStmt:
			for k := range n.Results {
				n.Results[k] = repl(n.Results[k])
			}
		case *ast.IfStmt:
			n.Cond = repl(n.Cond)
		case *ast.CompositeLit:
			for k := range n.Elts {
				n.Elts[k] = repl(n.Elts[k])
			}
		case *ast.UnaryExpr:
			n.X = repl(n.X)
		case *ast.ParenExpr:
			n.X = repl(n.X)
		case *ast.IndexExpr:
			n.X = repl(n.X)
		case *ast.RangeStmt:
			n.X = repl(n.X)
		}
		return true
	})
	return b
}

// ---------------------------------------------------------------- functions

func (x *xl) collect() {
	x.funcs = map[string]*funcInfo{}
	x.consts = map[string]string{}
	var decls []ast.Decl
	for _, f := range x.files {
		decls = append(decls, f.Decls...)
	}
	for _, d := range decls {
		switch t := d.(type) {
		case *ast.GenDecl:
			for _, sp := range t.Specs {
				switch s := sp.(type) {
				case *ast.ValueSpec:
					if t.Tok == token.CONST {
						for i, n := range s.Names {
							if i < len(s.Values) {
								if b, ok := s.Values[i].(*ast.BasicLit); ok && b.Kind == token.STRING {
									v, _ := strconv.Unquote(b.Value)
									x.consts[n.Name] = coqStr(v)
								}
							}
						}
					}
				case *ast.TypeSpec:
					if s.Name.Name == "Generate" {
						if st, ok := s.Type.(*ast.StructType); ok {
							for _, f := range st.Fields.List {
								for _, n := range f.Names {
									x.fields = append(x.fields, [2]string{n.Name, string(x.typeExpr(f.Type))})
								}
							}
						}
					}
				}
			}
		case *ast.FuncDecl:
			fi := &funcInfo{decl: t, name: t.Name.Name, calls: map[string]bool{}}
			if t.Recv != nil {
				if len(t.Recv.List) != 1 || x.typeExpr(t.Recv.List[0].Type) != tRecv {
					continue // methods of other types (logPipe) are not part of the model
				}
				fi.method = true
			}
			if t.Type.Results != nil {
				for _, r := range t.Type.Results.List {
					n := len(r.Names)
					if n == 0 {
						n = 1
					}
					for i := 0; i < n; i++ {
						fi.results = append(fi.results, x.typeExpr(r.Type))
					}
				}
			}
			if t.Recv == nil && t.Type.Params != nil && len(t.Type.Params.List) == 1 && len(t.Type.Params.List[0].Names) == 1 &&
				x.typeExpr(t.Type.Params.List[0].Type) == tFile && len(fi.results) == 2 &&
				fi.results[0] == tBool && fi.results[1] == tError {
				fi.opaqueScan = true
				x.funcs[fi.name] = fi
				continue
			}
			ast.Inspect(t, func(m ast.Node) bool {
				if call, ok := m.(*ast.CallExpr); ok {
					switch f := call.Fun.(type) {
					case *ast.Ident:
						fi.calls[f.Name] = true
					case *ast.SelectorExpr:
						if id, ok := f.X.(*ast.Ident); ok && t.Recv != nil && len(t.Recv.List[0].Names) == 1 &&
							id.Obj != nil && id.Obj == t.Recv.List[0].Names[0].Obj {
							fi.calls[f.Sel.Name] = true
						}
						if selName(f) == "exec.Command" {
							fi.hasExec = true
						}
					}
				}
				return true
			})
			x.funcs[fi.name] = fi
		}
	}
}

// treeRecursive checks the shape "walk of a directory tree by hand": parameters (p string, d
// fs.DirEntry, ...); every os.ReadDir in the body reads p; every recursive call passes
// (filepath.Join(p, e.Name()), e, ...) for a range variable e.  Under the convention that (p, d)
// name the same file (kept by these calls, and by a root call with the Lstat of p), ReadDir(p)
// lists the children of d — the assumption the model of filepath.WalkDir rests on as well.
func (x *xl) treeRecursive(fi *funcInfo) bool {
	var p, d *ast.Ident
	for _, f := range fi.decl.Type.Params.List {
		t := x.typeExpr(f.Type)
		for _, n := range f.Names {
			if t == tString && p == nil && d == nil {
				p = n
			}
			if t == tDirent && d == nil {
				d = n
			}
		}
	}
	if p == nil || d == nil {
		return false
	}
	ok := true
	rangeVars := map[*ast.Object]bool{}
	ast.Inspect(fi.decl.Body, func(m ast.Node) bool {
		if r, isR := m.(*ast.RangeStmt); isR {
			if v, isI := r.Value.(*ast.Ident); isI && v.Obj != nil {
				rangeVars[v.Obj] = true
			}
		}
		return true
	})
	nparams, pi, di := 0, -1, -1
	for _, f := range fi.decl.Type.Params.List {
		for _, n := range f.Names {
			if n == p {
				pi = nparams
			}
			if n == d {
				di = nparams
			}
			nparams++
		}
	}
	ast.Inspect(fi.decl.Body, func(m ast.Node) bool {
		call, isC := m.(*ast.CallExpr)
		if !isC {
			return true
		}
		if isSel(call.Fun, "os", "ReadDir") {
			if id, isI := call.Args[0].(*ast.Ident); !isI || id.Obj != p.Obj {
				ok = false
			}
		}
		self := false
		switch f := call.Fun.(type) {
		case *ast.Ident:
			self = f.Name == fi.name
		case *ast.SelectorExpr:
			self = f.Sel.Name == fi.name && fi.decl.Recv != nil
		}
		if !self {
			return true
		}
		if len(call.Args) != nparams {
			ok = false
			return true
		}
		e, isI := call.Args[di].(*ast.Ident)
		if !isI || e.Obj == nil || !rangeVars[e.Obj] {
			ok = false
			return true
		}
		j, isJ := call.Args[pi].(*ast.CallExpr)
		if !isJ || !isSel(j.Fun, "filepath", "Join") || len(j.Args) != 2 {
			ok = false
			return true
		}
		a0, is0 := j.Args[0].(*ast.Ident)
		a1, is1 := j.Args[1].(*ast.CallExpr)
		if !is0 || a0.Obj != p.Obj || !is1 {
			ok = false
			return true
		}
		sel, isS := a1.Fun.(*ast.SelectorExpr)
		if !isS || sel.Sel.Name != "Name" {
			ok = false
			return true
		}
		if rid, isI := sel.X.(*ast.Ident); !isI || rid.Obj != e.Obj {
			ok = false
		}
		return true
	})
	if ok {
		fi.treeRec, fi.pathParam, fi.entParam = true, p.Name, d.Name
	}
	return ok
}

// packageChecks: what the translation of the three roots silently relies on, about the package as a
// whole.  Each root is declared exactly once in the files that take part in the build; no init()
// (it could change the working directory, the environment, flag defaults, package state); no
// package variable besides Logger (translated code reads none; a variable would be state the model
// does not have); no extra method on Generate with a pointer receiver (could mutate the flags).
func (x *xl) packageChecks(pkg *srcset.Pkg) {
	for _, r := range [][2]string{{"Generate", "Run"}, {"Generate", "findProtos"}, {"", "protoFileHasGoPackage"}} {
		if _, err := pkg.FuncDecl(r[0], r[1]); err != nil {
			x.fatal = append(x.fatal, err.Error())
		}
	}
	if len(pkg.Inits()) > 0 {
		x.fatal = append(x.fatal, fmt.Sprintf("package gen has %d init() function(s): %s", len(pkg.Inits()), pkg.FileOf(pkg.Inits()[0])))
	}
	for i, f := range pkg.Files {
		for _, d := range f.Decls {
			switch t := d.(type) {
			case *ast.GenDecl:
				if t.Tok != token.VAR {
					continue
				}
				for _, sp := range t.Specs {
					for _, n := range sp.(*ast.ValueSpec).Names {
						if n.Name != "Logger" && n.Name != "_" {
							x.fatal = append(x.fatal, "package variable "+n.Name+" in "+pkg.Names[i])
						}
					}
				}
			case *ast.FuncDecl:
				if t.Recv != nil && len(t.Recv.List) == 1 {
					if st, ok := t.Recv.List[0].Type.(*ast.StarExpr); ok {
						if id, ok := st.X.(*ast.Ident); ok && id.Name == "Generate" {
							x.fatal = append(x.fatal, "method "+t.Name.Name+" with a pointer receiver on Generate in "+pkg.Names[i])
						}
					}
				}
			}
		}
	}
	if w := pkg.WritesTo("Logger"); len(w) > 0 {
		_ = w // Logger is not part of the model; writes to it do not matter
	}
}

// mainChecks: cmd/gogenproto is the entry point the property speaks about; it must do nothing but
// fill a zero Generate from the flags and call Run on it once, after flag.Parse.
func (x *xl) mainChecks(dir string) {
	pkg, err := srcset.Load(dir, "verif")
	if err != nil {
		x.fatal = append(x.fatal, "cmd/gogenproto: "+err.Error())
		return
	}
	if len(pkg.Inits()) > 0 {
		x.fatal = append(x.fatal, "cmd/gogenproto has an init() function")
	}
	mainFn, err := pkg.FuncDecl("", "main")
	if err != nil {
		x.fatal = append(x.fatal, "cmd/gogenproto: "+err.Error())
		return
	}
	nFuncs := 0
	for _, f := range pkg.Files {
		for _, d := range f.Decls {
			if fd, ok := d.(*ast.FuncDecl); ok {
				nFuncs++
				_ = fd
			}
			if gd, ok := d.(*ast.GenDecl); ok && gd.Tok == token.VAR {
				x.fatal = append(x.fatal, "cmd/gogenproto declares a package variable")
			}
		}
	}
	if nFuncs != 1 {
		x.fatal = append(x.fatal, fmt.Sprintf("cmd/gogenproto declares %d functions besides/including main (expected main only)", nFuncs))
	}
	allowed := map[string]bool{"flagsfiller.New": true, "flag.Parse": true}
	var gvar *ast.Object
	runs, parsePos, runPos := 0, token.NoPos, token.NoPos
	ast.Inspect(mainFn.Body, func(m ast.Node) bool {
		switch t := m.(type) {
		case *ast.CompositeLit:
			if isSel(t.Type, "gen", "Generate") && len(t.Elts) != 0 {
				x.fatal = append(x.fatal, "cmd/gogenproto: gen.Generate literal with fields set")
			}
		case *ast.AssignStmt:
			for i, r := range t.Rhs {
				if cl, ok := r.(*ast.CompositeLit); ok && isSel(cl.Type, "gen", "Generate") && i < len(t.Lhs) {
					if id, ok := t.Lhs[i].(*ast.Ident); ok {
						gvar = id.Obj
					}
				}
			}
			for _, l := range t.Lhs {
				if se, ok := l.(*ast.SelectorExpr); ok {
					if id, ok := se.X.(*ast.Ident); ok && gvar != nil && id.Obj == gvar {
						x.fatal = append(x.fatal, "cmd/gogenproto assigns a field of the Generate value")
					}
				}
			}
		case *ast.CallExpr:
			name := exprString(t.Fun)
			switch {
			case allowed[name]:
				if name == "flag.Parse" {
					parsePos = t.Pos()
				}
			case strings.HasSuffix(name, ".Fill") || name == "gen.Logger.Fatal" || name == "gen.Logger.Fatalf":
			case strings.HasSuffix(name, ".Run"):
				if se, ok := t.Fun.(*ast.SelectorExpr); ok {
					if id, ok := se.X.(*ast.Ident); ok && gvar != nil && id.Obj == gvar {
						runs++
						runPos = t.Pos()
						return true
					}
				}
				x.fatal = append(x.fatal, "cmd/gogenproto calls "+name)
			default:
				x.fatal = append(x.fatal, "cmd/gogenproto calls "+name)
			}
		case *ast.GoStmt, *ast.DeferStmt, *ast.ForStmt, *ast.RangeStmt:
			x.fatal = append(x.fatal, "cmd/gogenproto: go/defer/loop in main")
		}
		return true
	})
	if runs != 1 || !parsePos.IsValid() || runPos < parsePos {
		x.fatal = append(x.fatal, fmt.Sprintf("cmd/gogenproto: Run is called %d time(s) on the Generate value, expected once after flag.Parse", runs))
	}
}

func (x *xl) propagateExec() {
	for changed := true; changed; {
		changed = false
		for _, fi := range x.funcs {
			if fi.hasExec {
				continue
			}
			for c := range fi.calls {
				if g, ok := x.funcs[c]; ok && g.hasExec {
					fi.hasExec, changed = true, true
				}
			}
		}
	}
}

func (x *xl) order(root string) []*funcInfo {
	out := []*funcInfo{}
	state := map[string]int{}
	var visit func(n string)
	visit = func(n string) {
		fi, ok := x.funcs[n]
		if !ok || state[n] == 2 || fi.opaqueScan {
			return
		}
		if state[n] == 1 {
			x.bad("recursive function "+n, fi.decl)
			return
		}
		state[n] = 1
		names := []string{}
		for c := range fi.calls {
			names = append(names, c)
		}
		sort.Strings(names)
		for _, c := range names {
			if c != n {
				visit(c)
			} else if !x.treeRecursive(fi) {
				x.bad("recursive function "+n, fi.decl)
			}
		}
		state[n] = 2
		out = append(out, fi)
	}
	visit(root)
	return out
}

func (x *xl) function(fi *funcInfo) string {
	c := &fctx{x: x, fi: fi, vars: map[*ast.Object]*varInfo{}, used: map[string]int{}, body: fi.decl.Body}
	params := []string{"(W : world)"}
	if fi.method {
		r := fi.decl.Recv.List[0]
		name := "g"
		var obj *ast.Object
		if len(r.Names) == 1 {
			name, obj = r.Names[0].Name, r.Names[0].Obj
		}
		v := c.newVar(obj, name, tRecv)
		params = append(params, "("+v.name+" : Generate)")
	}
	fi.params = nil
	fi.ptrs = nil
	for _, f := range fi.decl.Type.Params.List {
		t := x.typeExpr(f.Type)
		for _, n := range f.Names {
			v := c.newVar(n.Obj, n.Name, t)
			fi.params = append(fi.params, v)
			if t == tPtrStrs {
				fi.ptrs = append(fi.ptrs, v)
			}
			params = append(params, "("+v.name+" : "+coqType(t)+")")
		}
	}
	resT := []string{}
	def := []string{}
	for _, r := range fi.results {
		resT = append(resT, coqType(r))
		def = append(def, zero(r))
	}
	for _, p := range fi.ptrs {
		c.retTail = append(c.retTail, p.name)
		resT = append(resT, "list string")
		def = append(def, p.name)
	}
	pre := ""
	if fi.hasExec {
		c.retTail = append(c.retTail, "v_execlog")
		resT = append(resT, "list invocation")
		def = append(def, "[]")
		pre = "let v_execlog : list invocation := [] in\n"
	}
	rt := "unit"
	if len(resT) > 0 {
		rt = "(" + strings.Join(resT, " * ") + ")"
	}
	body := c.seq(fi.decl.Body.List, nil)
	d := tuple(def)
	if fi.treeRec {
		return fmt.Sprintf("Fixpoint gen_%s %s {struct %s} : %s :=\n%sfn_result (S:=unit) (L:=unit) %s (\n%s).\n", fi.name, strings.Join(params, " "), c.entName(), rt, pre, d, body)
	}
	return fmt.Sprintf("Definition gen_%s %s : %s :=\n%sfn_result (S:=unit) (L:=unit) %s (\n%s).\n", fi.name, strings.Join(params, " "), rt, pre, d, body)
}

func main() {
	src := flag.String("src", "", "path of gogenproto/gen/generate.go")
	repo := flag.String("repo", "", "repository root (alternative to -src)")
	out := flag.String("out", "ProtoGen.v", "output file")
	flag.Parse()
	if *src == "" && *repo != "" {
		*src = *repo + "/gogenproto/gen/generate.go"
	}
	x := &xl{fset: token.NewFileSet()}
	if *repo != "" {
		// the package as the compiler sees it: every non-test file of gogenproto/gen that matches the
		// build context of the harness build (tag verif), not one file by name
		pkg, err := srcset.Load(filepath.Join(*repo, "gogenproto", "gen"), "verif")
		if err != nil {
			fmt.Fprintln(os.Stderr, err)
			os.Exit(2)
		}
		x.fset, x.files = pkg.Fset, pkg.Files
		x.packageChecks(pkg)
		x.mainChecks(filepath.Join(*repo, "gogenproto", "cmd", "gogenproto"))
	} else {
		f, err := parser.ParseFile(x.fset, *src, nil, parser.ParseComments)
		if err != nil {
			fmt.Fprintln(os.Stderr, err)
			os.Exit(2)
		}
		x.files = []*ast.File{f}
	}
	x.collect()
	x.propagateExec()
	var b strings.Builder
	b.WriteString("(* ProtoGen.v — regenerated by harness/cmd/xlate_proto from gogenproto/gen/generate.go. *)\n")
	b.WriteString("From Coq Require Import String List Bool Arith Ascii ZArith.\nFrom GT Require Import ProtoPrims.\nImport ListNotations.\n")
	b.WriteString("Local Open Scope string_scope.\nLocal Open Scope list_scope.\nCreate HintDb protogen.\n\n")
	fl := []string{}
	for _, f := range x.fields {
		fl = append(fl, "("+coqStr(f[0])+", "+coqStr(f[1])+")")
	}
	b.WriteString("Definition gen_Generate_fields : list (string * string) :=\n  [" + strings.Join(fl, "; ") + "].\n\n")
	cn := []string{}
	for n := range x.consts {
		cn = append(cn, n)
	}
	sort.Strings(cn)
	for _, n := range cn {
		b.WriteString("Definition gen_const_" + sanitize(n) + " : string := " + x.consts[n] + ".\n")
		b.WriteString("#[global] Hint Unfold gen_const_" + sanitize(n) + " : protogen.\n")
	}
	b.WriteString("\n")
	if _, ok := x.funcs["Run"]; !ok {
		x.bad("no function Run", nil)
	}
	names := []string{}
	for _, fi := range x.order("Run") {
		b.WriteString(x.function(fi))
		if fi.name != "Run" && fi.name != "findProtos" && fi.name != "protoFileHasGoPackage" && !fi.treeRec {
			// helpers are unfolded on sight by the tie; the three anchors have tie lemmas of their own
			b.WriteString("#[global] Hint Unfold gen_" + fi.name + " : protogen.\n")
		}
		b.WriteString("\n")
		names = append(names, coqStr(fi.name))
	}
	b.WriteString("Definition gen_functions : list string := [" + strings.Join(names, "; ") + "].\n")
	for i, p := range x.fatal {
		// the package is not what the translation of its roots assumes: no tie
		x.problems = append(x.problems, p)
		b.WriteString(fmt.Sprintf("(* %s *)\nDefinition gen_package_problem_%d : unit := UNSUPPORTED_package_%d.\n", strings.ReplaceAll(p, "*)", "* )"), i, i))
	}
	if err := os.WriteFile(*out, []byte(b.String()), 0o644); err != nil {
		fmt.Fprintln(os.Stderr, err)
		os.Exit(2)
	}
	for _, p := range x.problems {
		fmt.Println("unsupported:", p)
	}
}
