// c16 — loads documents whose scalar positions hold env templates and near-misses with the
// real gconfig of the current tree, under environments where each referenced variable is set,
// set to the empty string, or unset; records FromBytes' outcome and Get at every path.
//
//	c16 -seed N -out PREFIX -mode corpus|matcher|docs|ood|replay -n COUNT [-in FILE]
//
// matcher: one-key documents {k: s} (the matcher alone, through the public API);
// docs: C03 documents with templates at map values, list items, selected and unselected
// switch branches; ood: strings outside the property's generator space (default without `|`,
// trailing text ending in `}}`, newline inside the default) — compared, never gating.
// Every case carries the generator's by-construction expectation.
package main

import (
	"flag"
	"math/rand/v2"
	"os"
	"sort"
	"strings"

	"gtverif/cmd/c03/gcx"
	"gtverif/internal/gal"
)

var varPool = []string{"GTV_A", "gtv_b", "GtvC9", "X9", "_u", "A", "GTV_LONG_NAME_0123456789", "0", "__"}

var spacings = []string{"", "", "", " ", " ", "  ", "\t", " \t ", "   ", "\n", " \r\n "}

var defaults = []string{"some-default", `""`, `"quoted"`, "a b c", "x", "0", `"""`, `"a"b"`, "http://h:1/p?q=1",
	"with | pipe", "}", "a}}b", "x}}", "|lead", "${{env:X9}}", "é", "-", `'single'`, "tab\tinside", `"  spaced  "`,
	// backslashes and escape-like sequences are ordinary characters of a default; only surrounding
	// DOUBLE quotes are stripped: single-quoted, back-quoted and nested-quote spellings stay as written
	`"C:\temp\new"`, `"a\\b"`, `"say \"hi\""`, `"tab\there"`, `"nl\nhere"`, `"\x41"`, `"\u00e9"`, `"\101"`, `"\""`, `"\\"`,
	`C:\temp\new`, `a\tb`, `\`, `\n`, `'x'`, `'\n'`, "`raw`", "`a\\tb`", `"'x'"`, `'"x"'`, `"nested "inner" quotes"`, `""x""`,
	`k=v`, `a=b=c==`, `"x=y"`}

const defaultChars = "abXY09\\\"'`=|{}$ tnxu-_./:é"

// randomDefault: random text of the documented grammar (non-empty, no line break, first and
// last character not blank), biased to backslashes and the three kinds of quotes.
func (t *tgen) randomDefault() string {
	rs := []rune(defaultChars)
	for {
		n := 1 + t.r.IntN(10)
		b := make([]rune, n)
		for i := range b {
			b[i] = rs[t.r.IntN(len(rs))]
		}
		if t.r.IntN(3) == 0 { // a quoted spelling
			q := []rune{'"', '\'', '`'}[t.r.IntN(3)]
			b = append(append([]rune{q}, b...), q)
		}
		s := string(b)
		if s[0] != ' ' && s[len(s)-1] != ' ' {
			return s
		}
	}
}

const wordChars = "ABCDEFGHIJKLMNOPQRSTUVWXYZabcdefghijklmnopqrstuvwxyz0123456789_"

type tgen struct {
	r    *rand.Rand
	env  map[string]string // variables that are set in this case (value may be "")
	refd map[string]bool   // names some template of this case refers to
}

// variants sets, for a referenced name with letters, the upper- and/or lower-case spelling of
// the name (where it differs from the name, is not itself referenced and is still free) to a
// value of its own: `${{env:NAME}}` is about NAME exactly, whatever other spellings hold.
func (t *tgen) variants(name string) {
	for _, v := range []string{strings.ToUpper(name), strings.ToLower(name)} {
		if v == name || t.refd[v] || t.r.IntN(3) == 0 {
			continue
		}
		if _, taken := t.env[v]; taken {
			continue
		}
		t.env[v] = "other-spelling:" + v
	}
}

func (t *tgen) ws() string { return spacings[t.r.IntN(len(spacings))] }

func (t *tgen) name() string {
	if t.r.IntN(10) == 0 && len(t.env) > 0 {
		// any variable of the case, the ones selecting dimension values included
		keys := make([]string, 0, len(t.env))
		for k := range t.env {
			keys = append(keys, k)
		}
		sort.Strings(keys)
		nm := keys[t.r.IntN(len(keys))]
		t.refd[nm] = true
		return nm
	}
	nm := varPool[t.r.IntN(len(varPool))]
	if t.r.IntN(4) == 0 {
		n := 1 + t.r.IntN(8)
		b := make([]byte, n)
		for i := range b {
			b[i] = wordChars[t.r.IntN(len(wordChars))]
		}
		nm = "GTVR" + string(b) // random names share a prefix no real variable has
	}
	if !t.refd[nm] {
		t.refd[nm] = true
		if t.r.IntN(2) == 0 {
			t.variants(nm) // NAME unset or set, other spellings of it set to something else
		}
	}
	return nm
}

// values of set variables: ordinary ones, values containing `=` (leading, trailing, several: base64
// padding, DSN-like option strings), values that look like templates or are quoted, blanks, line
// breaks, non-ASCII text, very long values, and random printable text.  (The value is handed on
// verbatim, whatever it contains; an environment value cannot hold a NUL.)
var envValues = []string{"value", "aws:secret", "  padded ", "${{env:GTV_A}}", "D1c", "3m", "é",
	"c2VjcmV0cGFk==", "host=db port=5432", "=x", "x=", "=", "a=b=c", "k=${{env:GTV_A|d}}", `"quoted"`, `'single'`,
	"${{env:X9 | \"d\"}}", "line1\nline2", "tab\tin", "C:\\temp\\new", "日本語=値", "}}", "|", "\\",
	// leading / trailing blanks and line breaks belong to the value
	"value\n", "value\r\n", "value\n\n", "\nvalue", "\r\nvalue\r\n", " value ", "\tvalue\t", "\n", "\r", " ", "v \n", "token==\n"}

const valueChars = "abcXYZ019 =:/\\\"'|{}$-_.,;é"

func (t *tgen) value() string {
	switch x := t.r.IntN(10); {
	case x < 6:
		return envValues[t.r.IntN(len(envValues))]
	case x < 7: // very long, with `=` somewhere inside
		return strings.Repeat("long-value-", 150+t.r.IntN(150)) + "=" + strings.Repeat("z", t.r.IntN(40))
	}
	rs := []rune(valueChars)
	n := 1 + t.r.IntN(14)
	b := make([]rune, n)
	for i := range b {
		b[i] = rs[t.r.IntN(len(rs))]
	}
	return string(b)
}

// setupEnv decides, per pool variable, set / set-empty / unset (on top of the dimension env).
func (t *tgen) setupEnv(dimEnv map[string]string) {
	t.env = map[string]string{}
	t.refd = map[string]bool{}
	for k, v := range dimEnv {
		t.env[k] = v
	}
	for _, n := range varPool {
		if _, taken := t.env[n]; taken {
			continue
		}
		switch t.r.IntN(3) {
		case 0:
			t.env[n] = t.value()
		case 1:
			t.env[n] = ""
		}
	}
}

// template renders a string of the documented grammar and its expected resolution.
func (t *tgen) template() (s string, exp string, ok bool) {
	name := t.name()
	var sb strings.Builder
	sb.WriteString("${{" + t.ws() + "env:" + t.ws() + name + t.ws())
	dflt := ""
	switch t.r.IntN(5) {
	case 0, 1:
		dflt = defaults[t.r.IntN(len(defaults))]
		if t.r.IntN(4) == 0 {
			dflt = t.randomDefault()
		}
		sb.WriteString("|" + t.ws() + dflt)
	case 2:
		sb.WriteString("|") // a pipe without default
	}
	sb.WriteString(t.ws() + "}}")
	if v, set := t.env[name]; set {
		return sb.String(), v, true
	}
	if dflt != "" {
		return sb.String(), strings.Trim(dflt, `"`), true
	}
	return sb.String(), "", false
}

// nearMiss: strings the property says must be left untouched.
func (t *tgen) nearMiss() string {
	n := t.name()
	base := "${{env:" + n + "}}"
	forms := []string{
		"x" + base, " " + base, "say " + base, "$" + base, base + " y", base + "x", base + " ", base + "\n",
		"${env:" + n + "}", "{{env:" + n + "}}", "$ {{env:" + n + "}}", "${ {env:" + n + "}}", "${{env:" + n + "} }",
		"$[[env:" + n + "]]", "${{" + n + "}}", "${{ " + n + " | d }}", "${{env" + n + "}}", "${{env " + n + "}}",
		"${{Env:" + n + "}}", "${{ENV:" + n + "}}", "${{env:}}", "${{env: }}", "${{env:|d}}", "${{env: | d }}",
		"${{env:" + n + "}", "${{env:" + n, "{env:" + n + "}}", "${{en v:" + n + "}}", "${{}}", "${{env}}", "$", "${{", "}}",
		"text with ${{ inside", "a ${{env:" + n + "}} b",
		// other "schemes": only env: is a template, everything else is an ordinary string
		"${{file:/etc/hostname}}", "${{file:/nonexistent/gtv}}", "${{ file: /etc/hostname | d }}", "${{file:" + n + "}}",
		"${{secret:" + n + "}}", "${{vault:a/b}}", "${{env2:" + n + "}}", "${{envfile:" + n + "}}", "${{sys:" + n + "}}", "${{cmd:true}}",
		"${{http://h/p}}", "${{" + n + ":env}}",
	}
	return forms[t.r.IntN(len(forms))]
}

// quirk: accepted by the pattern but outside the documented grammar, or rejected for a reason
// the grammar does not name; exp = what the regular expression does (measured on regexp).
func (t *tgen) quirk() (s, exp string, ok bool) {
	n := t.name()
	v, set := t.env[n]
	res := func(d string) (string, bool) {
		if set {
			return v, true
		}
		if d != "" {
			return strings.Trim(d, `"`), true
		}
		return "", false
	}
	switch t.r.IntN(7) {
	case 0:
		s = "${{env:" + n + " B}}"
		exp, ok = res("B")
	case 1:
		s = "${{env:" + n + "}}}}"
		exp, ok = res("}}")
	case 2:
		s = "${{env:" + n + "-B}}"
		exp, ok = res("-B")
	case 3:
		s = "${{env:" + n + "}}}"
		exp, ok = res("}")
	case 4:
		s = "${{env:" + n + "|a\nb}}"
		exp, ok = s, true
	case 5:
		s = "${{env:" + n + " | x }} }}"
		exp, ok = res("x }}")
	default:
		s = "${{env:" + n + " |\n d }}"
		exp, ok = res("d")
	}
	return s, exp, ok
}

func (t *tgen) leaf(mode string) func(g *gcx.Gen) (gcx.Tree, gcx.Tree, bool, bool) {
	return func(g *gcx.Gen) (gcx.Tree, gcx.Tree, bool, bool) {
		switch x := t.r.IntN(100); {
		case x < 40:
			s, exp, ok := t.template()
			return gcx.Str(s), gcx.Str(exp), ok, true
		case x < 60:
			s := t.nearMiss()
			return gcx.Str(s), gcx.Str(s), true, true
		case x < 70 && mode == "ood":
			s, exp, ok := t.quirk()
			return gcx.Str(s), gcx.Str(exp), ok, true
		}
		return gcx.Tree{}, gcx.Tree{}, false, false
	}
}

func oracleOf(exp gcx.Tree, ok bool) *gcx.Oracle {
	o := &gcx.Oracle{Ok: ok}
	if ok {
		o.Cfg = &exp
	}
	return o
}

func main() {
	seed := flag.Uint64("seed", 1, "PRNG seed")
	prefix := flag.String("out", "c16", "output prefix")
	mode := flag.String("mode", "docs", "corpus|matcher|docs|ood|replay")
	n := flag.Int("n", 300, "number of cases")
	in := flag.String("in", "", "replay: JSON-lines file of inputs")
	flag.Parse()
	gcx.CleanEnv()
	for _, n := range varPool { // "unset" must mean unset, whatever the ambient environment holds
		os.Unsetenv(n)
		os.Unsetenv(strings.ToUpper(n))
		os.Unsetenv(strings.ToLower(n))
	}
	out := gal.NewOut(*prefix)
	defer out.Close()
	r := gal.NewRand(*seed)
	t := &tgen{r: r}
	g := &gcx.Gen{R: r}
	d1 := []gcx.DimReg{{Enum: 1, Name: "gtvDimOne", Default: 0}}
	switch *mode {
	case "corpus":
		s, m := gcx.Str, gcx.M
		run := func(env map[string]string, doc gcx.Tree) {
			gcx.RunCase(out, "corpus", gcx.Input{Dims: d1, Env: env, Doc: doc}, nil, nil, true)
		}
		set := map[string]string{"GTV_A": "aws:secret", "gtv_b": ""}
		// the repository's own examples
		for _, str := range []string{"4m3s2ms", "${{env:GTV_A}}", "${{env:GTV_NOT|some-default}}", `${{env:GTV_NOT|""}}`,
			"${{ env:GTV_A }}", "${{env: GTV_A}}", "${{   env:   GTV_A   }}", "${{  env:GTV_NOT  |  some-default  }}",
			"${{env:gtv_b}}", "${{env:gtv_b|d}}"} {
			run(set, m("k", s(str)))
		}
		// unset without default fails; the same in an unselected branch does not
		run(set, m("k", s("${{env:GTV_NOT}}")))
		run(set, m("k", m("D1b", s("${{env:GTV_NOT}}"), "default", gcx.List(s("${{env:GTV_A}}"), s("x${{env:GTV_NOT}}")))))
		run(set, m("k", m("D1a", s("${{env:GTV_NOT}}"), "default", s("fine"))))
		// strings of other "schemes" are not templates
		run(set, m("k", s("${{file:/etc/hostname}}"), "l", gcx.List(s("${{file:/nonexistent/gtv}}"), s("${{secret:GTV_A}}")), "m", s("${{ file: /etc/hostname | d }}")))
		// keys are never templates
		run(set, m("${{env:GTV_A}}", s("v")))
		// defaults with backslashes / escape-like sequences / other quote characters: only the
		// surrounding double quotes go, nothing is interpreted
		for _, d := range []string{`"C:\temp\new"`, `"a\\b"`, `"say \"hi\""`, `"\x41\u00e9\101"`, `'x'`, "`raw`", `a\tb`, `"k=v"`} {
			run(set, m("k", s("${{env:GTV_NOT | "+d+" }}"), "l", gcx.List(s("${{env:GTV_NOT|"+d+"}}"))))
		}
		// values of set variables are taken verbatim: `=` anywhere, template-like, quoted, long
		for _, v := range []string{"c2VjcmV0cGFk==", "host=db port=5432", "=x", "x=", "=", "a=b=c", "${{env:GTV_A}}", `"q"`,
			strings.Repeat("long=", 400), "value\n", "value\r\n", "\nvalue", " padded ", "\n"} {
			run(map[string]string{"GTV_A": v, "X9": "plain"}, m("k", s("${{env:GTV_A}}"), "l", gcx.List(s("${{ env: GTV_A | d }}"), s("${{env:X9}}"))))
		}
		// measured quirks of the pattern (outside the property's space)
		run(set, m("k", s("${{env:GTV_NOT}}}}"), "l", s("${{env:GTV_NOT B}}")))
	case "replay":
		for _, ri := range gcx.ReadInputs(*in) {
			gcx.RunCase(out, "replay", ri.Input, nil, ri.Keys, true)
		}
	case "matcher":
		for i := 0; i < *n; i++ {
			t.setupEnv(nil)
			var s, exp string
			ok := true
			switch x := r.IntN(10); {
			case x < 6:
				s, exp, ok = t.template()
			default:
				s = t.nearMiss()
				exp = s
			}
			gcx.RunCase(out, "matcher", gcx.Input{Dims: d1, Env: t.env, Doc: gcx.M("k", gcx.Str(s))},
				oracleOf(gcx.M("k", gcx.Str(exp)), ok), nil, true)
		}
	default: // docs, ood
		kind := *mode
		g.Leaf = t.leaf(kind)
		for i := 0; i < *n; i++ {
			dimEnv := g.Setup()
			t.setupEnv(dimEnv)
			doc, exp, ok := g.Document()
			gcx.RunCase(out, kind, gcx.Input{Dims: g.Regs, Env: t.env, Doc: doc}, oracleOf(exp, ok), nil, true)
		}
	}
}
