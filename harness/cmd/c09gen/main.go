// c09gen — writes the generator farm of property C09 into a package directory: extension
// struct definitions embedding gerror.GError with 0-6 extra fields of assorted types and every
// kind of print/clone/rename tag, half of them for -skipConvertGen (with the hand-written
// Convert/ConvertS the option asks the user for), plus a registry (constructors, field
// accessors, tag descriptions) for the c09 harness.  The gerror CLI of the current tree is then
// run on farm_gen.go and farm_skip.go by the check.
//
//	c09gen -seed N -n COUNT -dir DIR        prints {"gen":[type names],"skip":[type names]}
package main

import (
	"encoding/json"
	"flag"
	"fmt"
	"math/rand/v2"
	"os"
	"path/filepath"
	"strconv"
	"strings"
)

type goType struct {
	typ   string
	exprs []string // non-zero values
}

var goTypes = []goType{
	{"string", []string{`"hello, world"`, `"100% \"q\" é"`, `" padded "`}},
	{"int", []string{"42", "-7"}},
	{"bool", []string{"true"}},
	{"float64", []string{"2.5"}},
	{"time.Duration", []string{"1500 * time.Millisecond"}},
	{"Status", []string{"Status(3)", "Status(9)"}},
	{"[]string", []string{`[]string{"a", "b"}`}},
	{"map[string]int", []string{`map[string]int{"k": 1, "a": 2}`}},
	{"pair", []string{`pair{1, "x"}`}},
	{"error", []string{`errors.New("inner")`}},
	{"[2]int", []string{"[2]int{1, 2}"}},
	{"rune", []string{"'x'"}},
	{"uint8", []string{"7"}},
}

type tagChoice struct {
	raw     string // full struct tag text ("" = no tag)
	tagged  bool
	tagname string
	opts    []string
}

var tagChoices = []tagChoice{
	{"", false, "", nil},
	{"", false, "", nil},
	{`gerror:"_,print"`, true, "_", []string{"print"}},
	{`gerror:"_,clone"`, true, "_", []string{"clone"}},
	{`gerror:"_,print,clone"`, true, "_", []string{"print", "clone"}},
	{`gerror:"_,clone,print"`, true, "_", []string{"clone", "print"}},
	{`gerror:"Renamed,print"`, true, "Renamed", []string{"print"}},
	{`gerror:"re_named,print,clone"`, true, "re_named", []string{"print", "clone"}},
	{`gerror:"with space,print"`, true, "with space", []string{"print"}},
	{`gerror:"_"`, true, "_", nil},
	{`gerror:"just_name"`, true, "just_name", nil},
	{`gerror:"other,clone"`, true, "other", []string{"clone"}},
	{`json:"j,omitempty" gerror:"_,print"`, true, "_", []string{"print"}},
	{`gerror:"_,print,print,clone"`, true, "_", []string{"print", "print", "clone"}},
	{`json:"only"`, false, "", nil},
	{`gerror:"_,clone,print" json:"k,omitempty"`, true, "_", []string{"clone", "print"}},
	{`gerror:"-,print,clone"`, true, "-", []string{"print", "clone"}},
	{`gerror:"-,clone"`, true, "-", []string{"clone"}},
	{`gerror:"-x,print"`, true, "-x", []string{"print"}},
	{`gerror:".,print,clone"`, true, ".", []string{"print", "clone"}},
	{`gerror:"-"`, true, "-", nil},
	{`gerror:"pct%d,print"`, true, "pct%d", []string{"print"}},
	{`gerror:"50%,print,clone"`, true, "50%", []string{"print", "clone"}},
}

var fieldNames = []string{"Code", "Status2", "detail", "aField", "Z9", "Ünï", "b", "B", "Ab", "aB", "Message2",
	"name_x", "X1", "x1", "Zz", "zz", "Äb", "Timeout",
	// names of GError's own exported fields: an extension field of that name shadows the promoted one
	"Name", "Source", "Message"}

type field struct {
	Name    string   `json:"name"`
	Type    string   `json:"type"`
	Expr    string   `json:"expr"`
	Tag     string   `json:"tag"`
	Tagged  bool     `json:"tagged"`
	TagName string   `json:"tagname"`
	Opts    []string `json:"opts"`
	// Embedded: an anonymous field (the field name is the type name without * and package)
	Embedded bool `json:"embedded,omitempty"`
	// JoinNext: declared together with the next field (`A, B int `+"`tag`"+`): same type and tag
	JoinNext bool `json:"join_next,omitempty"`
}

type typ struct {
	Name   string  `json:"name"`
	Skip   bool    `json:"skip"`
	Fields []field `json:"fields"`
	// BasePos: how many of the extra fields are declared BEFORE the embedded gerror.GError
	BasePos int `json:"base_pos,omitempty"`
}

func randType(r *rand.Rand, name string, skip bool, nfields int) typ {
	t := typ{Name: name, Skip: skip}
	perm := r.Perm(len(fieldNames))
	used := map[string]bool{}
	for i := 0; i < nfields; i++ {
		gt := goTypes[r.IntN(len(goTypes))]
		tc := tagChoices[r.IntN(len(tagChoices))]
		fd := field{Name: fieldNames[perm[i]], Type: gt.typ, Expr: gt.exprs[r.IntN(len(gt.exprs))],
			Tag: tc.raw, Tagged: tc.tagged, TagName: tc.tagname, Opts: tc.opts}
		if r.IntN(5) == 0 { // an anonymous field (each embeddable name once per struct)
			et := embeddable[r.IntN(len(embeddable))]
			if n := embeddedName(et.typ); !used[n] {
				used[n] = true
				fd.Name, fd.Type, fd.Expr, fd.Embedded = n, et.typ, et.exprs[r.IntN(len(et.exprs))], true
			}
		}
		t.Fields = append(t.Fields, fd)
	}
	if nfields > 0 && r.IntN(3) == 0 { // the embedded GError somewhere else than first
		t.BasePos = 1 + r.IntN(nfields)
	}
	return t
}

func f(name, typ, expr, tag string, tagged bool, tagname string, opts ...string) field {
	return field{Name: name, Type: typ, Expr: expr, Tag: tag, Tagged: tagged, TagName: tagname, Opts: opts}
}

// embeddable field types: an anonymous field of the extension struct next to gerror.GError
var embeddable = []goType{
	{"Status", []string{"Status(3)", "Status(9)"}},
	{"pair", []string{`pair{1, "x"}`}},
	{"*pair", []string{`&pair{2, "y"}`}},
	{"time.Duration", []string{"1500 * time.Millisecond"}},
}

// embeddedName: the field name Go gives an anonymous field.
func embeddedName(typ string) string {
	n := strings.TrimPrefix(typ, "*")
	if i := strings.LastIndex(n, "."); i >= 0 {
		n = n[i+1:]
	}
	return n
}

// emb: an embedded extra field with the k-th tag kind (none / print / clone / print+clone /
// renamed print+clone).
func emb(gt goType, k int) field {
	fd := field{Name: embeddedName(gt.typ), Type: gt.typ, Expr: gt.exprs[0], Embedded: true}
	switch k % 5 {
	case 1:
		fd.Tag, fd.Tagged, fd.TagName, fd.Opts = `gerror:"_,print"`, true, "_", []string{"print"}
	case 2:
		fd.Tag, fd.Tagged, fd.TagName, fd.Opts = `gerror:"_,clone"`, true, "_", []string{"clone"}
	case 3:
		fd.Tag, fd.Tagged, fd.TagName, fd.Opts = `gerror:"_,print,clone"`, true, "_", []string{"print", "clone"}
	case 4:
		fd.Tag, fd.Tagged, fd.TagName, fd.Opts = `gerror:"emb,print,clone"`, true, "emb", []string{"print", "clone"}
	}
	return fd
}

// embedStruct: anonymous extra fields of a named basic type, a struct type (by value for even
// k, by pointer for odd k) and a package-qualified type, tag kinds rotated by k, plus one
// ordinary named field.
func embedStruct(k int) []field {
	st := embeddable[1]
	if k%2 == 1 {
		st = embeddable[2]
	}
	return []field{
		emb(embeddable[0], k),
		f("Code", "int", "42", `gerror:"_,print"`, true, "_", "print"),
		emb(st, k+1),
		emb(embeddable[3], k+2),
	}
}

// orderStruct: three fields named Aa < Bb < Cc whose kinds (C clone-only, P print-only, B both)
// are given in name order.
func orderStruct(kinds ...string) []field {
	names := []string{"Aa", "Bb", "Cc"}
	var out []field
	for i, k := range kinds {
		switch k {
		case "C":
			out = append(out, f(names[i], "string", strconv.Quote("clone-"+names[i]), `gerror:"_,clone"`, true, "_", "clone"))
		case "P":
			out = append(out, f(names[i], "int", strconv.Itoa(10+i), `gerror:"_,print"`, true, "_", "print"))
		default:
			out = append(out, f(names[i], "Status", "Status(3)", `gerror:"_,print,clone"`, true, "_", "print", "clone"))
		}
	}
	return out
}

// shadowStruct: string fields named Name, Source, Message (the exported fields of GError) whose
// tag kinds are rotated by k over none / print / clone / print+clone / renamed print+clone.
func shadowStruct(k int) []field {
	names := []string{"Name", "Source", "Message"}
	var out []field
	for i, n := range names {
		val := strconv.Quote("field-" + strings.ToLower(n))
		switch (k + i) % 5 {
		case 0:
			out = append(out, f(n, "string", val, "", false, ""))
		case 1:
			out = append(out, f(n, "string", val, `gerror:"_,print"`, true, "_", "print"))
		case 2:
			out = append(out, f(n, "string", val, `gerror:"_,clone"`, true, "_", "clone"))
		case 3:
			out = append(out, f(n, "string", val, `gerror:"_,print,clone"`, true, "_", "print", "clone"))
		default:
			out = append(out, f(n, "string", val, `gerror:"origin,print,clone"`, true, "origin", "print", "clone"))
		}
	}
	return out
}

// fixedTypes: the repository's own fixtures and the corner cases of the tag handling.
func fixedTypes() []typ {
	return []typ{
		{Name: "G0", Fields: nil},
		{Name: "G1", Fields: []field{ // gerror/internal GRPCError
			f("GRPCStatus", "Status", "Status(3)", `gerror:"_,print,clone"`, true, "_", "print", "clone"),
			f("CustomerMessage", "string", `"Print this message"`, `gerror:"_,print,clone"`, true, "_", "print", "clone"),
			f("Timeout", "time.Duration", "1500 * time.Millisecond", `gerror:"_,clone"`, true, "_", "clone"),
			f("DoNotPrint", "string", `"this is for internal issue only"`, "", false, "")}},
		{Name: "K0", Skip: true, Fields: []field{ // gerror/internal ErrWithCustomConvert
			f("Property", "Status", "Status(2)", `gerror:"_,print,clone"`, true, "_", "print", "clone")}},
		{Name: "G2", Fields: []field{ // print order is by field name (bytes): B < Zz < aB < b < Ünï
			f("b", "int", "1", `gerror:"_,print"`, true, "_", "print"),
			f("Ünï", "string", `"u"`, `gerror:"_,print,clone"`, true, "_", "print", "clone"),
			f("Zz", "bool", "true", `gerror:"z,print"`, true, "z", "print"),
			f("B", "[]string", `[]string{"a", "b"}`, `gerror:"_,clone,print"`, true, "_", "clone", "print"),
			f("aB", "map[string]int", `map[string]int{"k": 1, "a": 2}`, `gerror:"with space,print"`, true, "with space", "print"),
			f("X1", "error", `errors.New("inner")`, `gerror:"_,clone"`, true, "_", "clone")}},
		{Name: "K1", Skip: true, Fields: nil},
		// clone-only (C), print-only (P) and print+clone (B) fields in every relative name order
		// (fields are sorted by name before the print and clone lists are derived from them)
		{Name: "O1", Fields: orderStruct("C", "P", "B")},
		{Name: "O2", Fields: orderStruct("C", "B", "P")},
		{Name: "O3", Fields: orderStruct("P", "C", "B")},
		{Name: "O4", Fields: orderStruct("P", "B", "C")},
		{Name: "O5", Fields: orderStruct("B", "C", "P")},
		{Name: "O6", Skip: true, Fields: orderStruct("B", "P", "C")},
		{Name: "O7", Fields: []field{ // two clone-only fields around a renamed print-only one
			f("Account", "string", `"acct-42"`, `gerror:"_,clone"`, true, "_", "clone"),
			f("Limit", "int", "100", `gerror:"limit,print"`, true, "limit", "print"),
			f("Window", "time.Duration", "1500 * time.Millisecond", `gerror:"_,clone"`, true, "_", "clone")}},
		{Name: "O8", Skip: true, Fields: []field{ // the same with untagged fields in between, declared unsorted
			f("Window", "time.Duration", "1500 * time.Millisecond", `gerror:"_,clone"`, true, "_", "clone"),
			f("note", "string", `"n"`, "", false, ""),
			f("Limit", "int", "100", `gerror:"_,print"`, true, "_", "print"),
			f("Account", "string", `"acct-42"`, `gerror:"_,clone"`, true, "_", "clone"),
			f("Burst", "bool", "true", `gerror:"_,print,clone"`, true, "_", "print", "clone")}},
		{Name: "R1", Fields: []field{ // rename values that are punctuation are print names like any other
			f("Dash", "string", `"d"`, `gerror:"-,print,clone"`, true, "-", "print", "clone"),
			f("DashC", "int", "5", `gerror:"-,clone"`, true, "-", "clone"),
			f("DashP", "bool", "true", `gerror:"-,print"`, true, "-", "print"),
			f("DashX", "int", "6", `gerror:"-x,print"`, true, "-x", "print"),
			f("Dot", "string", `"p"`, `gerror:".,print,clone"`, true, ".", "print", "clone"),
			f("Under", "string", `"u"`, `gerror:"_,print,clone"`, true, "_", "print", "clone")}},
		{Name: "R2", Skip: true, Fields: []field{ // a bare name, also "-", selects nothing
			f("Bare", "string", `"b"`, `gerror:"-"`, true, "-"),
			f("Spaced", "int", "7", `gerror:"two words,print,clone"`, true, "two words", "print", "clone"),
			f("Pct", "string", `"v"`, `gerror:"100%,clone,print"`, true, "100%", "clone", "print")}},
		// extension fields named like GError's own exported fields (Name, Source, Message): the
		// struct's field shadows the promoted one; accessors and the base part of Error() must keep
		// reading the embedded GError.  H1-H5: the three names as string fields in every pairing with
		// the five tag kinds (none, print, clone, print+clone, renamed print+clone), a Latin square;
		// H6/H7: the same names with non-string types; H8: empty string values.
		{Name: "H1", Fields: shadowStruct(0)},
		{Name: "H2", Skip: true, Fields: shadowStruct(1)},
		{Name: "H3", Fields: shadowStruct(2)},
		{Name: "H4", Fields: shadowStruct(3)},
		{Name: "H5", Skip: true, Fields: shadowStruct(4)},
		{Name: "H6", Fields: []field{
			f("Name", "int", "42", `gerror:"_,print,clone"`, true, "_", "print", "clone"),
			f("Source", "[]string", `[]string{"a", "b"}`, `gerror:"_,clone"`, true, "_", "clone"),
			f("Message", "map[string]int", `map[string]int{"k": 1, "a": 2}`, "", false, "")}},
		{Name: "H7", Skip: true, Fields: []field{
			f("Message", "Status", "Status(3)", `gerror:"msg,print"`, true, "msg", "print"),
			f("Source", "error", `errors.New("inner")`, `gerror:"_,print,clone"`, true, "_", "print", "clone"),
			f("Name", "bool", "true", `gerror:"_,clone"`, true, "_", "clone")}},
		{Name: "H8", Fields: []field{
			f("Source", "string", `""`, `gerror:"origin,print,clone"`, true, "origin", "print", "clone"),
			f("Name", "string", `""`, `gerror:"_,clone"`, true, "_", "clone"),
			f("Message", "string", `"field-message"`, `gerror:"_,print"`, true, "_", "print")}},
		// EMBEDDED (anonymous) extra fields with gerror tags, besides the embedded GError: E1-E5 =
		// a named basic type, a struct type (value / pointer) and a package-qualified type in every
		// pairing with the five tag kinds
		{Name: "E1", Fields: embedStruct(0)},
		{Name: "E2", Skip: true, Fields: embedStruct(1)},
		{Name: "E3", Fields: embedStruct(2)},
		{Name: "E4", Fields: embedStruct(3)},
		{Name: "E5", Skip: true, Fields: embedStruct(4)},
		// the embedded gerror.GError is NOT the first field: tagged fields declared before it, around
		// it, all before it; multi-name declarations; the gerror key before / after another tag key
		{Name: "P1", BasePos: 1, Fields: orderStruct("B", "C", "P")},
		{Name: "P2", BasePos: 2, Skip: true, Fields: orderStruct("C", "B", "P")},
		{Name: "P3", BasePos: 3, Fields: orderStruct("P", "B", "C")},
		{Name: "P4", BasePos: 2, Fields: []field{
			{Name: "Lo", Type: "int", Expr: "3", Tag: `gerror:"_,print,clone"`, Tagged: true, TagName: "_", Opts: []string{"print", "clone"}, JoinNext: true},
			f("Hi", "int", "9", `gerror:"_,print,clone"`, true, "_", "print", "clone"),
			f("After", "string", `"a"`, `gerror:"after,clone,print" json:"after,omitempty"`, true, "after", "clone", "print"),
			f("Both", "string", `"b"`, `json:"both" yaml:"both" gerror:"_,clone"`, true, "_", "clone")}},
		{Name: "P5", BasePos: 4, Skip: true, Fields: embedStruct(3)},
		{Name: "G3", Fields: []field{ // a print name is text, not a format
			f("A", "int", "3", `gerror:"pct%d,print,clone"`, true, "pct%d", "print", "clone"),
			f("B", "string", `"bee"`, `gerror:"50%,print,clone"`, true, "50%", "print", "clone")}},
	}
}

func render(ts []typ, skip bool) string {
	var sb strings.Builder
	sb.WriteString("//go:build gerrgen\n\n// Code generated by c09gen DO NOT EDIT.\npackage main\n\nimport (\n\t\"errors\"\n\t\"fmt\"\n\t\"time\"\n\n\t\"github.com/drshriveer/gtools/gerror\"\n)\n\n")
	sb.WriteString("var _ = errors.New\nvar _ = fmt.Sprint\nvar _ time.Duration\n\n")
	for _, t := range ts {
		if t.Skip != skip {
			continue
		}
		fmt.Fprintf(&sb, "type %s struct {\n", t.Name)
		joined := ""
		for fi, fd := range t.Fields {
			if fi == t.BasePos {
				sb.WriteString("\tgerror.GError\n")
			}
			if fd.JoinNext && fi+1 < len(t.Fields) && fi+1 != t.BasePos {
				joined += fd.Name + ", "
				continue
			}
			decl := joined + fd.Name + " " + fd.Type
			joined = ""
			if fd.Embedded {
				decl = fd.Type
			}
			if fd.Tag != "" {
				fmt.Fprintf(&sb, "\t%s `%s`\n", decl, fd.Tag)
			} else {
				fmt.Fprintf(&sb, "\t%s\n", decl)
			}
		}
		if t.BasePos >= len(t.Fields) {
			sb.WriteString("\tgerror.GError\n")
		}
		sb.WriteString("}\n\n")
		if skip {
			for _, m := range [][2]string{{"Convert", "SourceStack"}, {"ConvertS", "DefaultStack"}} {
				fmt.Fprintf(&sb, "func (e *%s) %s(err error) gerror.Error {\n\tif gerr, ok := err.(gerror.Error); ok {\n\t\treturn gerr\n\t}\n"+
					"\tclone := gerror.CloneBase(e, gerror.%s, \"\", \"\", fmt.Sprintf(\"originalError: %%+v\", err), err)\n\treturn e.toPrimaryType(clone)\n}\n\n", t.Name, m[0], m[1])
			}
		}
	}
	return sb.String()
}

func registry(ts []typ) string {
	var sb strings.Builder
	sb.WriteString("//go:build gerrgen\n\n// Code generated by c09gen DO NOT EDIT.\npackage main\n\nimport (\n\t\"errors\"\n\t\"time\"\n\n\t\"github.com/drshriveer/gtools/gerror\"\n)\n\n")
	sb.WriteString("var _ = errors.New\nvar _ time.Duration\n\n")
	sb.WriteString("// Status is a Stringer-typed field type (as in gerror/internal).\ntype Status int\n\nfunc (s Status) String() string {\n\tswitch s {\n\tcase 2:\n\t\treturn \"Unknown\"\n\tcase 3:\n\t\treturn \"InvalidArgument\"\n\t}\n\treturn \"UNKNOWN\"\n}\n\ntype pair struct {\n\tA int\n\tB string\n}\n\n")
	sb.WriteString("var farm = []farmType{\n")
	for _, t := range ts {
		fmt.Fprintf(&sb, "\t{\n\t\tName: %q, Skip: %v,\n\t\tFields: []fieldDesc{\n", t.Name, t.Skip)
		for _, fd := range t.Fields {
			opts := "nil"
			if len(fd.Opts) > 0 {
				q := make([]string, len(fd.Opts))
				for i, o := range fd.Opts {
					q[i] = strconv.Quote(o)
				}
				opts = "[]string{" + strings.Join(q, ", ") + "}"
			}
			fmt.Fprintf(&sb, "\t\t\t{Name: %q, Type: %q, Tag: %q, Tagged: %v, TagName: %q, Opts: %s, Embedded: %v},\n", fd.Name, fd.Type, fd.Tag, fd.Tagged, fd.TagName, opts, fd.Embedded)
		}
		sb.WriteString("\t\t},\n")
		fmt.Fprintf(&sb, "\t\tNew: func(g gerror.GError) gerror.Factory {\n\t\t\treturn gerror.FactoryOf(&%s{\n\t\t\t\tGError: g,\n", t.Name)
		for _, fd := range t.Fields {
			fmt.Fprintf(&sb, "\t\t\t\t%s: %s,\n", fd.Name, fd.Expr)
		}
		sb.WriteString("\t\t\t})\n\t\t},\n")
		fmt.Fprintf(&sb, "\t\tGet: func(e any) []any {\n\t\t\tt := e.(*%s)\n\t\t\t_ = t\n\t\t\treturn []any{", t.Name)
		for i, fd := range t.Fields {
			if i > 0 {
				sb.WriteString(", ")
			}
			sb.WriteString("t." + fd.Name)
		}
		sb.WriteString("}\n\t\t},\n")
		fmt.Fprintf(&sb, "\t\tZero: func() []any {\n\t\t\tvar t %s\n\t\t\t_ = t\n\t\t\treturn []any{", t.Name)
		for i, fd := range t.Fields {
			if i > 0 {
				sb.WriteString(", ")
			}
			sb.WriteString("t." + fd.Name)
		}
		sb.WriteString("}\n\t\t},\n\t},\n")
	}
	sb.WriteString("}\n")
	return sb.String()
}

func main() {
	seed := flag.Uint64("seed", 1, "PRNG seed")
	n := flag.Int("n", 20, "number of random struct definitions (besides the fixed ones)")
	dir := flag.String("dir", ".", "package directory to write into")
	exclude := flag.String("exclude", "", "comma-separated struct names to leave out (structs whose generated code does not compile)")
	flag.Parse()
	r := rand.New(rand.NewPCG(*seed, 0x9e3779b97f4a7c15))
	ts := fixedTypes()
	for i := 0; i < *n; i++ {
		skip := i%2 == 1
		name := "T" + strconv.Itoa(i)
		if skip {
			name = "S" + strconv.Itoa(i)
		}
		ts = append(ts, randType(r, name, skip, i%7)) // 0..6 extra fields
	}
	if *exclude != "" {
		skip := map[string]bool{}
		for _, n := range strings.Split(*exclude, ",") {
			skip[n] = true
		}
		kept := ts[:0:0]
		for _, t := range ts {
			if !skip[t.Name] {
				kept = append(kept, t)
			}
		}
		ts = kept
	}
	must := func(err error) {
		if err != nil {
			panic(err)
		}
	}
	must(os.WriteFile(filepath.Join(*dir, "farm_gen.go"), []byte(render(ts, false)), 0o644))
	must(os.WriteFile(filepath.Join(*dir, "farm_skip.go"), []byte(render(ts, true)), 0o644))
	must(os.WriteFile(filepath.Join(*dir, "farm_reg.go"), []byte(registry(ts)), 0o644))
	gen, skip, defs := []string{}, []string{}, map[string]typ{}
	for _, t := range ts {
		if t.Skip {
			skip = append(skip, t.Name)
		} else {
			gen = append(gen, t.Name)
		}
		defs[t.Name] = t
	}
	b, _ := json.Marshal(map[string]any{"gen": gen, "skip": skip, "defs": defs})
	fmt.Println(string(b))
}
