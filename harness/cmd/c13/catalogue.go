package main

import (
	"fmt"
	"math/rand/v2"
	"os"
	"path/filepath"
	"regexp"
	"sort"
	"strings"
)

// ---------------------------------------------------------------- enum definitions

var underlyings = []string{"int", "int8", "int16", "int32", "int64", "uint", "uint8", "uint16", "uint32", "uint64"}

var maxOf = map[string]string{"int": "9223372036854775807", "int8": "127", "int16": "32767",
	"int32": "2147483647", "int64": "9223372036854775807", "uint": "18446744073709551615", "uint8": "255",
	"uint16": "65535", "uint32": "4294967295", "uint64": "18446744073709551615"}

func plainEnum(label, underlying string, n int) *EnumSpec {
	e := &EnumSpec{Type: "Color", Underlying: underlying, Label: label}
	for i := 0; i < n; i++ {
		e.Lines = append(e.Lines, EnumLine{Name: fmt.Sprintf("V%d", i), Value: fmt.Sprint(i)})
	}
	return e
}

// withTraits adds trait columns of the given kinds and fills every line's cells.
func withTraits(e *EnumSpec, kindsOf ...string) *EnumSpec {
	for j, k := range kindsOf {
		name := fmt.Sprintf("_T%d%s", j, strings.ReplaceAll(k, "_", ""))
		if j%3 == 2 {
			name = strings.TrimPrefix(name, "_") // an exported trait constant
		}
		e.Traits = append(e.Traits, TraitCol{Name: name, Kind: k})
	}
	for i := range e.Lines {
		e.Lines[i].Cells = nil
		for _, k := range kindsOf {
			e.Lines[i].Cells = append(e.Lines[i].Cells, cellOf(k, i))
		}
	}
	return e
}

// noTraitDefs are documented-valid definitions without traits.
func noTraitDefs() []*EnumSpec {
	var out []*EnumSpec
	for _, u := range underlyings {
		e := plainEnum("plain_"+u, u, 3)
		if strings.HasPrefix(u, "int") {
			e.Lines = append(e.Lines, EnumLine{Name: "Neg", Value: "-1"})
		}
		e.Lines = append(e.Lines, EnumLine{Name: "Top", Value: maxOf[u]})
		out = append(out, e)
	}
	out = append(out, plainEnum("seventeen_values", "int", 17))
	d := plainEnum("duplicates_undeprecated", "int", 3)
	d.Lines = append(d.Lines, EnumLine{Name: "Alias1", Value: "1"}, EnumLine{Name: "Alias2", Value: "1"})
	out = append(out, d)
	d = plainEnum("duplicates_deprecated", "uint8", 3)
	d.Lines = append(d.Lines, EnumLine{Name: "Old0", Value: "0", Deprecated: true}, EnumLine{Name: "Old2", Value: "2", Deprecated: true})
	out = append(out, d)
	d = plainEnum("gaps_unordered", "int16", 0)
	d.Lines = []EnumLine{{Name: "Seven", Value: "7"}, {Name: "Zero", Value: "0"}, {Name: "MinusTwo", Value: "-2"}, {Name: "Three", Value: "3"}}
	out = append(out, d)
	return out
}

// traitDefs are documented-valid definitions with traits and none of the shapes another
// property's group owns.
func traitDefs() []*EnumSpec {
	var out []*EnumSpec
	for _, k := range kindOrder {
		rows := 3
		out = append(out, withTraits(plainEnum("trait_"+k, "int", rows), k))
	}
	out = append(out,
		withTraits(plainEnum("traits_untyped_mix", "uint16", 4), "ustring", "uint", "ufloat"),
		withTraits(plainEnum("traits_imported_mix", "int", 3), "tstring", "duration", "reflect_kind"),
		withTraits(plainEnum("traits_rune_bool_two_rows", "int8", 2), "urune", "ubool"),
		withTraits(plainEnum("traits_other_enum_and_string", "int", 3), "other_enum", "ustring"),
		withTraits(plainEnum("traits_typed_numbers", "int64", 3), "named_int", "tint64", "tfloat32", "tfloat64"),
		withTraits(plainEnum("traits_seventeen_rows", "int", 17), "ustring", "uint"),
	)
	// lines lacking cells and undeprecated duplicates (rows of non-primary names are dropped)
	e := withTraits(plainEnum("traits_lines_lacking_cells", "int", 4), "ustring", "uint")
	e.Lines[2].Cells = nil
	e.Lines[3].Cells = nil
	out = append(out, e)
	e = withTraits(plainEnum("traits_undeprecated_duplicate", "int", 3), "ustring", "ufloat")
	e.Lines = append(e.Lines, EnumLine{Name: "Zalias", Value: "1", Cells: []string{`"zz"`, "9.5"}})
	out = append(out, e)
	e = withTraits(plainEnum("traits_deprecated_duplicate_without_cells", "int", 3), "ustring")
	e.Lines = append(e.Lines, EnumLine{Name: "Zold", Value: "1", Deprecated: true})
	out = append(out, e)
	return out
}

// specialDefs carry the shapes other groups own (C12) plus this property's own witnesses.
func specialDefs() []struct {
	E        *EnumSpec
	Parsable []string
} {
	type sp = struct {
		E        *EnumSpec
		Parsable []string
	}
	var out []sp
	e := withTraits(plainEnum("deprecated_duplicate_with_trait_cells", "int", 3), "uint")
	e.Lines = append(e.Lines, EnumLine{Name: "Zold", Value: "1", Deprecated: true, Cells: []string{"99"}})
	out = append(out, sp{e, nil})
	e = withTraits(plainEnum("parsable_with_duplicates", "int", 3), "ustring")
	e.Lines = append(e.Lines, EnumLine{Name: "Zalias", Value: "2", Cells: []string{`"zz"`}})
	out = append(out, sp{e, []string{traitName(e.Traits[0])}})
	e = withTraits(plainEnum("parsable_with_lines_lacking_cells", "int", 3), "ustring")
	e.Lines[2].Cells = nil
	out = append(out, sp{e, []string{traitName(e.Traits[0])}})
	e = withTraits(plainEnum("two_own_unmarshaler_parsable_traits", "int", 3), "other_enum", "other_enum2")
	out = append(out, sp{e, []string{traitName(e.Traits[0]), traitName(e.Traits[1])}})
	e = withTraits(plainEnum("parsable_traits_equal_cells", "int", 3), "uint", "uint")
	out = append(out, sp{e, []string{traitName(e.Traits[0]), traitName(e.Traits[1])}})
	return out
}

// caseDefs: parsable string traits whose cells are distinct as Go strings but run into one another,
// or into the names of the values, once letter case is ignored — valid definitions (the cells
// are pairwise distinct), with and without -caseInsensitive: cells differing only by case, a cell
// that is the lower-cased name of ANOTHER value, of its OWN value, of a value's name in upper
// case, the same across two parsable traits, and on a named string type.
func caseDefs() []struct {
	E        *EnumSpec
	Parsable []string
} {
	type sp = struct {
		E        *EnumSpec
		Parsable []string
	}
	mk := func(label, kind string, names []string, cols ...[]string) sp {
		e := &EnumSpec{Type: "Unit", Underlying: "int", Label: label}
		var parsable []string
		for j := range cols {
			n := fmt.Sprintf("_Sym%d", j)
			e.Traits = append(e.Traits, TraitCol{Name: n, Kind: kind})
			parsable = append(parsable, strings.TrimPrefix(n, "_"))
		}
		for i, name := range names {
			l := EnumLine{Name: name, Value: fmt.Sprint(i)}
			for _, col := range cols {
				c := fmt.Sprintf("%q", col[i])
				if kind == "tstring" {
					c = "Label(" + c + ")"
				}
				l.Cells = append(l.Cells, c)
			}
			e.Lines = append(e.Lines, l)
		}
		return sp{e, parsable}
	}
	return []sp{
		mk("parsable_cells_differ_only_by_case", "ustring", []string{"Metre", "Mega", "Kilo"}, []string{"m", "M", "k"}),
		mk("parsable_cell_is_lowercased_other_name", "ustring", []string{"Red", "Green", "Blue"}, []string{"green", "BLUE", "x"}),
		mk("parsable_cell_is_lowercased_own_name", "ustring", []string{"Red", "Green", "Blue"}, []string{"red", "GREEN", "bLUE"}),
		mk("parsable_cells_collide_across_traits_by_case", "ustring", []string{"Red", "Green", "Blue"}, []string{"x", "y", "z"}, []string{"Y", "Z", "X"}),
		mk("parsable_named_string_cells_differ_by_case", "tstring", []string{"Ab", "Cd", "Ef"}, []string{"aB", "AB", "cD"}),
	}
}

// repoDir is the scratch copy of the tree under test (set by main from -repo).
var repoDir = "/repo"

var tmplLocals []string
var tmplLocalsRead bool

var (
	reAction  = regexp.MustCompile(`(?s)\{\{.*?\}\}`)
	reDefine  = regexp.MustCompile(`([A-Za-z_]\w*(?:\s*,\s*[A-Za-z_]\w*)*)\s*:=`)
	reVarDecl = regexp.MustCompile(`\bvar\s+([A-Za-z_]\w*)`)
	reFunc    = regexp.MustCompile(`func\s*(?:\(\s*([A-Za-z_]\w*)\s+[^)]*\))?\s*\w*\s*\(([^)]*)\)`)
)

// templateLocals reads genum's template from the tree under test and returns the identifiers its Go
// text binds inside function bodies: `x, y :=`, `var x`, parameters and receivers.  Read from the
// CURRENT template, so that a renamed or new local is tried as a constant name in the very next run.
func templateLocals() []string {
	if tmplLocalsRead {
		return tmplLocals
	}
	tmplLocalsRead = true
	b, err := os.ReadFile(filepath.Join(repoDir, "genum", "gen", "enumTemplate.gotmpl"))
	if err != nil {
		return nil
	}
	goText := reAction.ReplaceAllString(string(b), " ")
	set := map[string]bool{}
	for _, m := range reDefine.FindAllStringSubmatch(goText, -1) {
		for _, x := range strings.Split(m[1], ",") {
			set[strings.TrimSpace(x)] = true
		}
	}
	for _, m := range reVarDecl.FindAllStringSubmatch(goText, -1) {
		set[m[1]] = true
	}
	for _, m := range reFunc.FindAllStringSubmatch(goText, -1) {
		if m[1] != "" {
			set[m[1]] = true
		}
		for _, prm := range strings.Split(m[2], ",") {
			if f := strings.Fields(prm); len(f) >= 2 {
				set[f[0]] = true
			}
		}
	}
	delete(set, "_")
	for k := range set {
		tmplLocals = append(tmplLocals, k)
	}
	sort.Strings(tmplLocals)
	return tmplLocals
}

// localNameDefs: for every identifier the current template binds, a definition with a constant of that
// name - without traits, and with parsable untyped string and integer traits (every decoder family and
// the Parse switch are emitted).
func localNameDefs() []struct {
	E        *EnumSpec
	Parsable []string
} {
	type sp = struct {
		E        *EnumSpec
		Parsable []string
	}
	var out []sp
	for _, id := range templateLocals() {
		e := plainEnum("const_named_like_template_local_"+id, "int", 3)
		e.Lines[1].Name = id
		out = append(out, sp{e, nil})
		t := withTraits(plainEnum("const_named_like_template_local_traits_"+id, "int", 3), "ustring", "uint")
		t.Lines[1].Name = id
		out = append(out, sp{t, eligibleParsable(t)})
	}
	return out
}

// sameConstDefs: two parsable traits whose cells on one line are the SAME constant for a switch on `any`
// although they are written differently - an untyped string next to a conversion to the builtin string
// type, an untyped integer next to int(..): the Parse case must list the constant once (round 8, C13-81).
func sameConstDefs() []struct {
	E        *EnumSpec
	Parsable []string
} {
	type sp = struct {
		E        *EnumSpec
		Parsable []string
	}
	var out []sp
	e := withTraits(plainEnum("parsable_same_constant_untyped_and_builtin_string", "int", 3), "ustring", "tstringb")
	for i := range e.Lines {
		e.Lines[i].Cells = []string{fmt.Sprintf("%q", fmt.Sprintf("r%d", i)), fmt.Sprintf("string(%q)", fmt.Sprintf("r%d", i))}
	}
	out = append(out, sp{e, []string{traitName(e.Traits[0]), traitName(e.Traits[1])}})
	e = withTraits(plainEnum("parsable_same_constant_untyped_and_builtin_int", "int", 3), "uint", "uint")
	for i := range e.Lines {
		e.Lines[i].Cells = []string{fmt.Sprint(40 + i), fmt.Sprintf("int(%d)", 40+i)}
	}
	out = append(out, sp{e, []string{traitName(e.Traits[0]), traitName(e.Traits[1])}})
	return out
}

func ciCollision() *EnumSpec {
	e := plainEnum("names_differ_only_by_case", "int", 0)
	e.Lines = []EnumLine{{Name: "Red", Value: "0"}, {Name: "RED", Value: "1"}, {Name: "Blue", Value: "2"}}
	return e
}

// nearMissDefs are definitions the generator documents as errors.
func nearMissDefs() []struct {
	E        *EnumSpec
	Parsable []string
} {
	type sp = struct {
		E        *EnumSpec
		Parsable []string
	}
	var out []sp
	e := withTraits(plainEnum("inconsistent_trait_count", "int", 3), "uint", "ustring")
	e.Lines[1].Cells = e.Lines[1].Cells[:1]
	out = append(out, sp{e, nil})
	e = withTraits(plainEnum("unnamed_traits", "int", 3), "uint", "ustring")
	e.Traits[0].Name, e.Traits[1].Name = "_", "_"
	out = append(out, sp{e, nil})
	e = withTraits(plainEnum("parsable_values_not_unique", "int", 3), "ustring")
	e.Lines[2].Cells[0] = e.Lines[0].Cells[0]
	out = append(out, sp{e, []string{traitName(e.Traits[0])}})
	return out
}

// eligibleParsable lists the traits whose cells are pairwise distinct (documented requirement
// of parsableByTraits).
func eligibleParsable(e *EnumSpec) []string {
	var out []string
	for j, c := range e.Traits {
		seen := map[string]bool{}
		ok := true
		for _, l := range e.Lines {
			if j >= len(l.Cells) {
				continue
			}
			if seen[l.Cells[j]] {
				ok = false
			}
			seen[l.Cells[j]] = true
		}
		if ok {
			out = append(out, traitName(c))
		}
	}
	return out
}

func subsets(xs []string, limit int, r *rand.Rand) [][]string {
	n := len(xs)
	var all [][]string
	for m := 1; m < 1<<n; m++ {
		var s []string
		for i := 0; i < n; i++ {
			if m&(1<<i) != 0 {
				s = append(s, xs[i])
			}
		}
		all = append(all, s)
	}
	if len(all) > limit {
		r.Shuffle(len(all), func(i, j int) { all[i], all[j] = all[j], all[i] })
		all = all[:limit]
	}
	return all
}

func allSettings() []GenumOpts {
	var out []GenumOpts
	for m := 0; m < 32; m++ {
		out = append(out, GenumOpts{JSON: m&1 == 0, YAML: m&2 == 0, Text: m&4 == 0, CI: m&8 != 0, DisableTraits: m&16 != 0})
	}
	return out
}

func withParsable(o GenumOpts, p []string) *GenumOpts {
	o.Parsable = append([]string(nil), p...)
	return &o
}

func cloneEnum(e *EnumSpec) *EnumSpec {
	c := *e
	c.Traits = append([]TraitCol(nil), e.Traits...)
	c.Lines = nil
	for _, l := range e.Lines {
		l.Cells = append([]string(nil), l.Cells...)
		c.Lines = append(c.Lines, l)
	}
	return &c
}

// ---------------------------------------------------------------- gerror / gsort definitions

func errDefs() []*ErrSpec {
	fields := []ErrField{
		{"Status", "Status", "_,print,clone"}, {"CustomerMessage", "string", "_,print,clone"},
		{"Timeout", "time.Duration", "_,clone"}, {"Attempts", "*int", "tries,print"},
		{"Tags", "[]string", "_,print,clone"}, {"Meta", "map[string]any", "_,clone"},
		{"DoNotPrint", "string", ""}, {"hidden", "int", "_,print"},
	}
	var out []*ErrSpec
	for _, skip := range []bool{false, true} {
		out = append(out,
			&ErrSpec{Types: []string{"MyErr"}, Fields: fields, SkipConvert: skip, Label: "all_field_kinds"},
			&ErrSpec{Types: []string{"MyErr"}, Fields: nil, SkipConvert: skip, Label: "no_fields"},
			&ErrSpec{Types: []string{"MyErr", "OtherErr"}, Fields: fields[:3], SkipConvert: skip, Label: "two_types"},
		)
	}
	out = append(out, &ErrSpec{Types: []string{"MyErr"}, Fields: fields[:2], SkipConvert: true, CustomConvert: true, Label: "custom_convert"})
	// extension fields named like members of the embedded GError (they shadow the promoted
	// field): exported fields Name / Source / Message of string and non-string types, and names
	// that only look like GError's unexported members
	for _, skip := range []bool{false, true} {
		out = append(out,
			&ErrSpec{Types: []string{"MyErr"}, SkipConvert: skip, Label: "shadow_name_source_nonstring", Fields: []ErrField{
				{"Name", "struct{ Queue, ID string }", "_,print,clone"}, {"Source", "map[string]int", "_,print,clone"}}},
			&ErrSpec{Types: []string{"MyErr"}, SkipConvert: skip, Label: "shadow_message_nonstring", Fields: []ErrField{
				{"Message", "int", "_,print,clone"}}},
		)
	}
	out = append(out,
		&ErrSpec{Types: []string{"MyErr"}, Label: "shadow_all_string_untagged", Fields: []ErrField{
			{"Name", "string", ""}, {"Source", "string", "_,clone"}, {"Message", "string", "msg,print"}}},
		&ErrSpec{Types: []string{"MyErr"}, Label: "shadow_unexported_lookalikes", Fields: []ErrField{
			{"DetailTag", "string", "_,print"}, {"detailTag", "int", "_,clone"}, {"stack", "[]string", ""}, {"factoryRef", "bool", ""}}},
		&ErrSpec{Types: []string{"MyErr"}, Label: "shadow_source_int_untagged", Fields: []ErrField{{"Source", "int", ""}, {"Name", "[]byte", ""}}},
	)
	return out
}

func errNearMiss() []*ErrSpec {
	return []*ErrSpec{
		{Types: []string{"MyErr"}, Fields: []ErrField{{"Code", "int", "_,print"}}, NoEmbed: true, Label: "no_embed"},
		{Types: []string{"MyErr"}, NotStruct: true, Label: "not_struct"},
		{Types: []string{"MyErr"}, Fields: []ErrField{{"Code", "int", "_,shout"}}, Label: "unsupported_option"},
	}
}

func sortDefs() []*SortSpec {
	return []*SortSpec{
		{Type: "Rec", Label: "value_three_keys_accessor", Fields: []SortField{
			{"Cat", "Category", []string{"Recs,1,String()"}}, {"Name", "string", []string{"Recs,2"}},
			{"N", "int", []string{"Recs,3"}}, {"Unsorted", "string", nil}}},
		{Type: "Rec", Label: "pointer_sorter", Fields: []SortField{
			{"Name", "string", []string{"*RecPtrs,1"}}, {"N", "float64", []string{"*RecPtrs,2"}}}},
		{Type: "Rec", Label: "value_and_pointer_multi", Fields: []SortField{
			{"A", "string", []string{"ByA,1", "*ByBA,2"}}, {"B", "uint8", []string{"*ByBA,1"}},
			{"when", "time.Duration", []string{"ByA,2"}}}},
		{Type: "Rec", Label: "bool_first_and_middle", Fields: []SortField{
			{"Flag", "bool", []string{"Flagged,1"}}, {"Name", "string", []string{"Flagged,2"}},
			{"On", "bool", []string{"*Mid,2"}}, {"X", "int", []string{"*Mid,1"}}, {"Y", "int", []string{"*Mid,3"}}}},
		{Type: "Rec", Label: "bool_last", Fields: []SortField{
			{"Name", "string", []string{"Recs,1"}}, {"Flag", "bool", []string{"Recs,2"}}}},
		{Type: "Rec", Label: "single_key_value", Fields: []SortField{{"K", "int32", []string{"Ks,1"}}}},
		{Type: "Rec", Label: "single_key_pointer", Fields: []SortField{{"K", "rune", []string{"*Ks,1"}}}},
		{Type: "Rec", Label: "time_accessor", Fields: []SortField{
			{"At", "time.Time", []string{"ByTime,1,UnixNano()"}}, {"ID", "string", []string{"ByTime,2"}}}},
	}
}

// sortNamed: the named key types of the gsort catalogue (each gets a String() method in the
// definition file): one per kind of underlying type a struct field can have.
var sortNamed = [][2]string{{"Category", "int"}, {"State", "bool"}, {"Label", "string"}, {"Score", "float64"},
	{"Level", "uint8"}, {"Glyph", "rune"}, {"Span", "time.Duration"},
	// not comparable (no ==, no <): keys only through the accessor, and they make the element
	// struct itself non-comparable
	{"Labels", "[]string"}, {"Index", "map[string]int"}}

// sortKeyDefs: every named key type read through its String() accessor — and, where the type
// has a `<` of its own (everything but bool), also plainly — as the only, first, middle and last
// key of a sorter, value and pointer forms.  whole=true: one package per named type holding all
// of it (the key field carries up to eight gsort tags, with and without accessor); otherwise
// one package per (type, position, access, form).
func sortKeyDefs(whole bool) []*SortSpec {
	var out []*SortSpec
	pos := []string{"only", "first", "last", "mid"}
	for _, nt := range sortNamed {
		typ, under := nt[0], nt[1]
		var all *SortSpec
		if whole {
			all = &SortSpec{Type: "Rec", Label: "named_" + under + "_all_positions", Fields: []SortField{
				{"K", typ, nil}, {"A", "string", nil}, {"B", "int", nil}}}
			out = append(out, all)
		}
		n := 0
		for _, acc := range []string{",String()", ""} {
			if acc == "" && (under == "bool" || strings.HasPrefix(under, "[]") || strings.HasPrefix(under, "map[")) {
				continue // a named bool / slice / map is a key only through an accessor
			}
			for pi, p := range pos {
				name := strings.ToUpper(p[:1]) + p[1:]
				if acc == "" {
					name = "Plain" + name
				}
				if (pi+n)%2 == 1 {
					name = "*" + name
				}
				s := all
				if !whole {
					lab := "named_" + under + "_" + p
					if acc == "" {
						lab += "_plain"
					}
					s = &SortSpec{Type: "Rec", Label: lab, Fields: []SortField{
						{"K", typ, nil}, {"A", "string", nil}, {"B", "int", nil}}}
					out = append(out, s)
				}
				k := map[string]string{"only": "1", "first": "1", "last": "2", "mid": "2"}[p]
				s.Fields[0].Tags = append(s.Fields[0].Tags, name+","+k+acc)
				switch p {
				case "first":
					s.Fields[1].Tags = append(s.Fields[1].Tags, name+",2")
				case "last":
					s.Fields[1].Tags = append(s.Fields[1].Tags, name+",1")
				case "mid":
					s.Fields[1].Tags = append(s.Fields[1].Tags, name+",1")
					s.Fields[2].Tags = append(s.Fields[2].Tags, name+",3")
				}
			}
			n++
		}
	}
	// built-in key kinds that the other entries do not use: every one as first and as last key
	basics := []string{"int8", "int16", "int64", "uint", "uint16", "uint32", "uint64", "uintptr", "float32", "byte", "rune", "string", "bool"}
	s := &SortSpec{Type: "Rec", Label: "every_basic_kind", Fields: []SortField{{"Z", "int", nil}}}
	for i, b := range basics {
		f := SortField{Name: fmt.Sprintf("F%d", i), Type: b, Tags: []string{fmt.Sprintf("By%d,1", i), fmt.Sprintf("*Then%d,2", i)}}
		s.Fields = append(s.Fields, f)
		s.Fields[0].Tags = append(s.Fields[0].Tags, fmt.Sprintf("By%d,2", i), fmt.Sprintf("*Then%d,1", i))
	}
	out = append(out, s)
	// element structs that are not comparable because of UNTAGGED fields: value and pointer
	// sorters, with and without an accessor key
	out = append(out,
		&SortSpec{Type: "Rec", Label: "noncomparable_untagged_fields", Fields: []SortField{
			{"Cat", "Category", []string{"ByCat,1,String()", "*PByCat,1,String()", "Plain,2"}},
			{"Tags", "[]string", nil}, {"Attrs", "map[string]any", nil}, {"Hook", "func() error", nil},
			{"Name", "string", []string{"ByCat,2", "*PByCat,2", "Plain,1", "*PPlain,1"}}}})
	return out
}

func sortNearMiss() []*SortSpec {
	return []*SortSpec{
		{Type: "Rec", Label: "duplicate_priority", Fields: []SortField{
			{"A", "string", []string{"Recs,1"}}, {"B", "string", []string{"Recs,1"}}}},
		{Type: "Rec", Label: "notstruct"},
		// one sorter name in the value and in the pointer form: two sorters, one type name
		{Type: "Rec", Label: "sorter_in_both_forms", Fields: []SortField{
			{"A", "int", []string{"*Recs,1"}}, {"B", "string", []string{"Recs,1"}}}},
		{Type: "Rec", Label: "bad_priority", Fields: []SortField{{"A", "int", []string{"Recs,one"}}}},
	}
}

// ---------------------------------------------------------------- several invocations in one package

func partEnum(typ, sfx, kind string, cells [2]string, parsable bool) *Spec {
	tn := "_T" + sfx
	e := &EnumSpec{Type: typ, Underlying: "int", Label: "part_" + sfx,
		Traits: []TraitCol{{Name: tn, Kind: kind}},
		Lines:  []EnumLine{{Name: "A" + sfx, Value: "0", Cells: []string{cells[0]}}, {Name: "B" + sfx, Value: "1", Cells: []string{cells[1]}}}}
	o := defaultOpts()
	if parsable {
		o.Parsable = []string{strings.TrimPrefix(tn, "_")}
	}
	return &Spec{Tool: "genum", Enum: e, GOpts: &o}
}

func partErr(typ string) *Spec {
	return &Spec{Tool: "gerror", Err: &ErrSpec{Types: []string{typ}, Label: "part_" + typ,
		Fields: []ErrField{{"Code", "int", "_,print,clone"}}}}
}

func partSort(typ, sorter string) *Spec {
	return &Spec{Tool: "gsort", Sort: &SortSpec{Type: typ, Label: "part_" + typ, Fields: []SortField{
		{"K", "string", []string{sorter + ",1"}}, {"N", "int", []string{sorter + ",2"}}}}}
}

// multiDefs: packages with two or three generator invocations, each with its own definition
// file, //go:generate line and output file ("compiles together with its package").
func multiDefs() []*Spec {
	m := func(label string, parts ...*Spec) *Spec {
		return &Spec{Tool: "multi", Kind: "multi", Label: label, Parts: parts}
	}
	return []*Spec{
		m("genum_x2_parsable_int", partEnum("Color", "C", "uint", [2]string{"10", "11"}, true),
			partEnum("Shape", "S", "uint", [2]string{"20", "21"}, true)),
		m("genum_x2_parsable_string", partEnum("Color", "C", "ustring", [2]string{`"a"`, `"b"`}, true),
			partEnum("Shape", "S", "ustring", [2]string{`"c"`, `"d"`}, true)),
		m("genum_x3_int64_uint8_duration", partEnum("Color", "C", "tint64", [2]string{"int64(1)", "int64(2)"}, true),
			partEnum("Shape", "S", "tuint8", [2]string{"uint8(3)", "uint8(4)"}, true),
			partEnum("Size", "Z", "duration", [2]string{"1 * xtime.Second", "2 * xtime.Second"}, true)),
		m("genum_x2_unparsable_float", partEnum("Color", "C", "ufloat", [2]string{"1.5", "2.5"}, false),
			partEnum("Shape", "S", "tfloat32", [2]string{"float32(1)", "float32(2)"}, true)),
		m("gsort_x2", partSort("RecA", "ByA"), partSort("RecB", "*ByB")),
		m("gerror_x2", partErr("ErrA"), partErr("ErrB")),
		m("genum_gsort_gerror", partEnum("Color", "C", "uint", [2]string{"10", "11"}, true), partSort("RecA", "ByA"), partErr("ErrA")),
	}
}

// doubleImportDefs: definition files that import one package twice (plain + renamed, renamed +
// plain, two renamed) or use an import name only inside trait cells, with cells written through
// each name.
func doubleImportDefs() []*EnumSpec {
	dur := []TraitCol{{Name: "_Timeout", Kind: "tdur"}}
	lim := []TraitCol{{Name: "_Lim", Kind: "uint"}}
	mk := func(label string, traits []TraitCol, imports [][2]string, cells ...string) *EnumSpec {
		e := &EnumSpec{Type: "Color", Underlying: "int", Label: label, Traits: traits, Imports: imports}
		for i, c := range cells {
			e.Lines = append(e.Lines, EnumLine{Name: fmt.Sprintf("V%d", i), Value: fmt.Sprint(i), Cells: []string{c}})
		}
		return e
	}
	return []*EnumSpec{
		mk("import_plain_then_renamed", dur, [][2]string{{"", "time"}, {"stdtime", "time"}},
			"1 * time.Second", "2 * stdtime.Second", "3 * time.Second"),
		mk("import_renamed_then_plain", dur, [][2]string{{"stdtime", "time"}, {"", "time"}},
			"1 * stdtime.Second", "2 * stdtime.Second", "3 * time.Second"),
		mk("import_two_renamed", dur, [][2]string{{"ta", "time"}, {"tb", "time"}},
			"1 * ta.Second", "2 * tb.Second", "3 * ta.Second"),
		mk("import_two_renamed_first_line_second_name", dur, [][2]string{{"ta", "time"}, {"tb", "time"}},
			"1 * tb.Second", "2 * ta.Second"),
		mk("import_name_only_in_cells_renamed", lim, [][2]string{{"m", "math"}}, "m.MaxInt8", "m.MaxInt16"),
		mk("import_name_only_in_cells_plain", lim, [][2]string{{"", "math"}}, "math.MaxInt8", "math.MaxInt16"),
	}
}

func doubleImportOtherTools() []*Spec {
	return []*Spec{
		{Tool: "gerror", Kind: "imports", Err: &ErrSpec{Types: []string{"MyErr"}, Label: "fields_through_two_import_names", Fields: []ErrField{
			{"At", "time.Time", "_,print,clone"}, {"Wait", "stdtime.Duration", "_,print,clone"}}}},
		{Tool: "gsort", Kind: "imports", Sort: &SortSpec{Type: "Rec", Label: "fields_through_two_import_names", Fields: []SortField{
			{"At", "stdtime.Time", []string{"ByTime,1,UnixNano()"}}, {"Wait", "time.Duration", []string{"ByTime,2"}}}}},
	}
}

// ---------------------------------------------------------------- the three tiers

func defaultOpts() GenumOpts { return GenumOpts{JSON: true, YAML: true, Text: true} }

// quickSpecs: every one of the 32 settings at least twice (a definition without parsable traits —
// alternately without and with traits — and one with a parsable subset), definitions rotating
// through the whole catalogue; one special shape and the near-miss shapes; gerror with/without skipConvertGen; gsort value/pointer.
func quickSpecs(r *rand.Rand) []*Spec {
	var out []*Spec
	add := func(kind string, e *EnumSpec, o *GenumOpts) {
		out = append(out, &Spec{Tool: "genum", Kind: kind, Enum: cloneEnum(e), GOpts: o})
	}
	nt, td := noTraitDefs(), traitDefs()
	settings := allSettings()
	off := r.IntN(1000)
	var pd []*EnumSpec // definitions on which parsable traits are documented-valid
	for _, e := range td {
		if !hasLackingOrDup(e) && len(eligibleParsable(e)) > 0 {
			pd = append(pd, e)
		}
	}
	for i, s := range settings {
		if i%2 == 0 {
			add("cover", nt[(i/2+off)%len(nt)], withParsable(s, nil))
		} else {
			add("cover", td[(i/2+off)%len(td)], withParsable(s, nil))
		}
		e := pd[(i*7+off+3)%len(pd)]
		sub := subsets(eligibleParsable(e), 1, r)[0]
		add("cover", e, withParsable(s, sub))
	}
	// every trait kind once at the default setting (the kinds table is about these)
	for i := range kindOrder {
		add("kinds", td[i], withParsable(defaultOpts(), nil))
	}
	// the special shapes (C12-owned ones, the case-insensitive collision) at the default setting are
	// corpus entries (corpus/C13); here each is tried under one drawn setting
	sps := specialDefs()
	sp := sps[r.IntN(len(sps))]
	add("special", sp.E, withParsable(settings[r.IntN(32)], sp.Parsable))
	ci := settings[r.IntN(32)]
	ci.CI = true
	add("special", ciCollision(), withParsable(ci, nil))
	for _, sp := range nearMissDefs() {
		add("nearmiss", sp.E, withParsable(defaultOpts(), sp.Parsable))
	}
	// letter case: every shape with -caseInsensitive, the first two also without
	for i, sp := range caseDefs() {
		on := settings[r.IntN(32)]
		on.CI, on.DisableTraits = true, false
		add("case", sp.E, withParsable(on, sp.Parsable))
		if i < 2 {
			add("case", sp.E, withParsable(defaultOpts(), sp.Parsable))
		}
	}
	for i, e := range doubleImportDefs() {
		add("imports", e, withParsable(defaultOpts(), nil))
		if i%2 == 0 {
			add("imports", e, withParsable(settings[r.IntN(32)], []string{traitName(e.Traits[0])}))
		}
	}
	for _, sp := range sameConstDefs() {
		add("special", sp.E, withParsable(defaultOpts(), sp.Parsable))
	}
	// constants named like the locals of the current template: every one with -caseInsensitive and all
	// codecs (the largest set of emitted scopes), a rotating third also at the default setting
	for i, sp := range localNameDefs() {
		on := defaultOpts()
		on.CI = true
		add("locals", sp.E, withParsable(on, sp.Parsable))
		if (i+off)%3 == 0 {
			add("locals", sp.E, withParsable(defaultOpts(), sp.Parsable))
		}
	}
	out = append(out, multiDefs()...)
	out = append(out, otherToolSpecs(false)...)
	return out
}

func hasLackingOrDup(e *EnumSpec) bool {
	seen := map[string]bool{}
	for _, l := range e.Lines {
		if len(l.Cells) == 0 || seen[l.Value] {
			return true
		}
		seen[l.Value] = true
	}
	return false
}

func otherToolSpecs(thorough bool) []*Spec {
	var out []*Spec
	for _, e := range errDefs() {
		out = append(out, &Spec{Tool: "gerror", Kind: "cover", Err: e})
	}
	for _, e := range errNearMiss() {
		out = append(out, &Spec{Tool: "gerror", Kind: "nearmiss", Err: e})
	}
	for _, s := range sortDefs() {
		out = append(out, &Spec{Tool: "gsort", Kind: "cover", Sort: s})
	}
	for _, s := range sortKeyDefs(!thorough) {
		out = append(out, &Spec{Tool: "gsort", Kind: "keys", Sort: s})
	}
	for _, s := range sortNearMiss() {
		out = append(out, &Spec{Tool: "gsort", Kind: "nearmiss", Sort: s})
	}
	out = append(out, doubleImportOtherTools()...)
	return out
}

// thoroughSpecs: the full cross product — every catalogue definition x all 32 settings x
// (no parsable trait + every non-empty subset of the value-distinct traits, at most `cap` per
// definition and setting), specials and near-misses under all 32 settings.
func thoroughSpecs(r *rand.Rand, cap int) []*Spec {
	var out []*Spec
	add := func(kind string, e *EnumSpec, o *GenumOpts) {
		out = append(out, &Spec{Tool: "genum", Kind: kind, Enum: cloneEnum(e), GOpts: o})
	}
	settings := allSettings()
	for _, e := range noTraitDefs() {
		for _, s := range settings {
			add("cross", e, withParsable(s, nil))
		}
	}
	for _, e := range traitDefs() {
		el := eligibleParsable(e)
		for _, s := range settings {
			add("cross", e, withParsable(s, nil))
			if s.DisableTraits || hasLackingOrDup(e) {
				continue // parsable names are not inspected / shape owned by C12 (covered by specials)
			}
			for _, sub := range subsets(el, cap, r) {
				add("cross", e, withParsable(s, sub))
			}
		}
	}
	for _, s := range settings {
		for _, sp := range specialDefs() {
			add("special", sp.E, withParsable(s, sp.Parsable))
		}
		add("special", ciCollision(), withParsable(s, nil))
		for _, sp := range nearMissDefs() {
			add("nearmiss", sp.E, withParsable(s, sp.Parsable))
		}
		for _, sp := range caseDefs() {
			add("case", sp.E, withParsable(s, sp.Parsable))
		}
	}
	for _, e := range doubleImportDefs() {
		for _, st := range settings {
			add("imports", e, withParsable(st, nil))
			if !st.DisableTraits {
				add("imports", e, withParsable(st, []string{traitName(e.Traits[0])}))
			}
		}
	}
	out = append(out, multiDefs()...)
	out = append(out, otherToolSpecs(true)...)
	return out
}
