package main

import (
	"encoding"
	"encoding/json"
	"fmt"
	"os"
	"reflect"
	"sort"
	"strings"

	"github.com/drshriveer/gtools/genum"
	"github.com/drshriveer/gtools/gerror"
	"gopkg.in/yaml.v3"
)

// probeEnum instantiates genum.TypedEnum; it is printed as the placeholder <T>.
type probeEnum int

// renderType prints a reflect.Type the way source code of a generated file would write it
// (package-qualified names, any for interface{}, byte for uint8), with the probe type as <T>.
func renderType(t reflect.Type) string {
	if t == reflect.TypeOf(probeEnum(0)) {
		return "<T>"
	}
	if t.Name() != "" {
		if t.PkgPath() == "" {
			if t.Kind() == reflect.Uint8 {
				return "byte"
			}
			return t.Name()
		}
		return t.String() // pkg.Name
	}
	switch t.Kind() {
	case reflect.Slice:
		return "[]" + renderType(t.Elem())
	case reflect.Ptr:
		return "*" + renderType(t.Elem())
	case reflect.Array:
		return fmt.Sprintf("[%d]%s", t.Len(), renderType(t.Elem()))
	case reflect.Map:
		return "map[" + renderType(t.Key()) + "]" + renderType(t.Elem())
	case reflect.Interface:
		if t.NumMethod() == 0 {
			return "any"
		}
	}
	return t.String()
}

type ifaceSig struct {
	Iface, Method   string
	Params, Results []string
}

func sigsOf(name string, t reflect.Type) []ifaceSig {
	var out []ifaceSig
	for i := 0; i < t.NumMethod(); i++ {
		m := t.Method(i)
		s := ifaceSig{Iface: name, Method: m.Name, Params: []string{}, Results: []string{}}
		for j := 0; j < m.Type.NumIn(); j++ {
			p := renderType(m.Type.In(j))
			if m.Type.IsVariadic() && j == m.Type.NumIn()-1 {
				p = "..." + renderType(m.Type.In(j).Elem())
			}
			s.Params = append(s.Params, p)
		}
		for j := 0; j < m.Type.NumOut(); j++ {
			s.Results = append(s.Results, renderType(m.Type.Out(j)))
		}
		out = append(out, s)
	}
	sort.Slice(out, func(i, j int) bool { return out[i].Method < out[j].Method })
	return out
}

func elem[T any]() reflect.Type { return reflect.TypeOf((*T)(nil)).Elem() }

// writeIfaceSigs regenerates IfaceSigsGen.v: the method signatures of the interfaces the
// generated code must implement, read from the compiled packages of the current tree and of the
// libraries through reflection (the compiler's own view of the interface types).
func writeIfaceSigs(path string) error {
	var all []ifaceSig
	all = append(all, sigsOf("genum.Enum", elem[genum.Enum]())...)
	all = append(all, sigsOf("genum.TypedEnum", elem[genum.TypedEnum[probeEnum]]())...)
	all = append(all, sigsOf("gerror.Error", elem[gerror.Error]())...)
	all = append(all, sigsOf("gerror.Factory", elem[gerror.Factory]())...)
	all = append(all, sigsOf("json.Marshaler", elem[json.Marshaler]())...)
	all = append(all, sigsOf("json.Unmarshaler", elem[json.Unmarshaler]())...)
	all = append(all, sigsOf("encoding.TextMarshaler", elem[encoding.TextMarshaler]())...)
	all = append(all, sigsOf("encoding.TextUnmarshaler", elem[encoding.TextUnmarshaler]())...)
	all = append(all, sigsOf("yaml.Marshaler", elem[yaml.Marshaler]())...)
	all = append(all, sigsOf("yaml.Unmarshaler", elem[yaml.Unmarshaler]())...)
	all = append(all, sigsOf("sort.Interface", elem[sort.Interface]())...)
	q := func(s string) string { return "\"" + strings.ReplaceAll(s, "\"", "\"\"") + "\"" }
	ql := func(xs []string) string {
		o := make([]string, len(xs))
		for i, x := range xs {
			o[i] = q(x)
		}
		return "[" + strings.Join(o, "; ") + "]"
	}
	var sb strings.Builder
	sb.WriteString("(* IfaceSigsGen.v — REGENERATED on every run by harness/cmd/c13 -mode sigs (reflection over the\n" +
		"   interface types of the current tree and of the libraries).  Do not edit. *)\n" +
		"From Coq Require Import String List.\nFrom GT Require Import GenBuildModel.\nImport ListNotations.\nLocal Open Scope string_scope.\n\n" +
		"Definition gen_iface_sigs : list (string * sigreq) := [\n")
	for i, s := range all {
		sep := ";"
		if i == len(all)-1 {
			sep = ""
		}
		fmt.Fprintf(&sb, "  (%s, mk_sig %s %s %s)%s\n", q(s.Iface), q(s.Method), ql(s.Params), ql(s.Results), sep)
	}
	sb.WriteString("].\n")
	return os.WriteFile(path, []byte(sb.String()), 0o644)
}
