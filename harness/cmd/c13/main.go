// c13 — build farm of property C13 (generators: every option combination yields code that
// builds).  Each case is one package of a scratch Go module: a definition file carrying a
// `//go:generate <tool> <flags>` directive.  The real CLIs (built by the driver from the scratch
// copy of the current tree and found through PATH) are run by `go generate ./<pkg>` — exactly
// the way users run them (cwd = package directory, $GOFILE set by go generate) — 16 packages in
// parallel.  Observables per package: exit status of go generate, whether the output file
// exists, `gofmt -l`, and `go build` of the package together with a file of compile-time
// interface assertions written after generation (genum.Enum, genum.TypedEnum, the requested
// json/text/yaml marshaler interfaces, trait accessors; gerror.Error, gerror.Factory,
// FactoryOf; sort.Interface and the sorter's element type).  `go vet` output is recorded but
// does not gate (the property speaks about building).
//
//	c13 -seed N -out PREFIX -mode quick|thorough|spec [-in FILE] -repo DIR -bin DIR -farm DIR
package main

import (
	"bufio"
	"bytes"
	"context"
	"encoding/json"
	"flag"
	"fmt"
	"go/ast"
	"go/parser"
	"go/printer"
	"go/token"
	"os"
	"os/exec"
	"path/filepath"
	"regexp"
	"sort"
	"strings"
	"sync"
	"time"

	"gtverif/internal/gal"
)

// ErrClass is one canonicalised build problem.
type ErrClass struct {
	Class  string `json:"class"`
	Detail string `json:"detail,omitempty"`
	Where  string `json:"where,omitempty"`
}

// Obs is what the farm observed for one package.
type Obs struct {
	Exit       int        `json:"exit"`
	File       bool       `json:"file_written"`
	GofmtClean bool       `json:"gofmt_clean"`
	BuildOK    bool       `json:"build_ok"`
	Outcome    string     `json:"outcome"`         // built | err | bad
	Fallback   bool       `json:"format_fallback"` // gencommon.Write logged that formatting failed and wrote the raw template output
	Errors     []string   `json:"errors,omitempty"`
	Classes    []ErrClass `json:"classes,omitempty"`
	Vet        []string   `json:"vet,omitempty"`
	GenLog     string     `json:"gen_log,omitempty"`
	Secs       float64    `json:"secs"`
	// Regen: the observed run was a REgeneration: the first output was put back lengthened by the second
	// half of itself (a longer previous output, as after removing values / switching codecs off) and the
	// generator was run again over it; what is judged is the file this second run left.
	Regen bool `json:"regenerated_over_longer_previous_output,omitempty"`
}

// Ref records how the generated file refers to the type of one trait column (the result type
// of the trait accessor), next to what go/types says the type is.
type Ref struct {
	Trait    string `json:"trait"`
	Kind     string `json:"basic_kind"` // go/types kind name for an unnamed basic type, else ""
	PkgPath  string `json:"pkg_path"`   // package of a named type
	PkgName  string `json:"pkg_name"`
	TypeName string `json:"type_name"`
	Observed string `json:"observed"`
}

// Case is the JSON form of one farm case.
type Case struct {
	ID       string            `json:"id"`
	Tool     string            `json:"tool"`
	Kind     string            `json:"kind"`
	Label    string            `json:"label"`
	Flags    map[string]bool   `json:"flags"`
	Parsable bool              `json:"parsable_some"`
	Kinds    []string          `json:"trait_kinds"`
	Shapes   []string          `json:"shapes"`
	Generate string            `json:"go_generate"`
	Own      string            `json:"own_pkg"`
	Imports  [][2]string       `json:"file_imports"` // path, alias of the definition file's imports
	Refs     []Ref             `json:"type_refs"`    // how each trait type is referenced in the generated file
	Spec     *Spec             `json:"spec"`
	Files    map[string]string `json:"files"` // the definition files as written (for the reader of a replay)
	Obs      Obs               `json:"obs"`
}

type pkgState struct {
	spec     *Spec
	dir      string
	genFile  string   // path of the generated file of the (first) definition under test
	genFiles []string // all generated files under test (one per generator invocation)
	parts    []*Spec  // the invocations of the package (the spec itself unless Tool is "multi")
	c        Case
}

func goEnv(bin string) []string {
	env := []string{}
	for _, kv := range os.Environ() {
		if strings.HasPrefix(kv, "PATH=") || strings.HasPrefix(kv, "GOFLAGS=") || strings.HasPrefix(kv, "GOWORK=") ||
			strings.HasPrefix(kv, "GOPROXY=") || strings.HasPrefix(kv, "GOSUMDB=") || strings.HasPrefix(kv, "GOTOOLCHAIN=") ||
			strings.HasPrefix(kv, "PWD=") || strings.HasPrefix(kv, "GOFILE=") {
			continue
		}
		env = append(env, kv)
	}
	return append(env, "PATH="+bin+":"+os.Getenv("PATH"), "GOFLAGS=-mod=mod", "GOWORK=off", "GOPROXY=off",
		"GOSUMDB=off", "GOTOOLCHAIN=local")
}

func run(dir string, env []string, timeout time.Duration, name string, args ...string) (int, string) {
	ctx, cancel := context.WithTimeout(context.Background(), timeout)
	defer cancel()
	cmd := exec.CommandContext(ctx, name, args...)
	cmd.Dir = dir
	cmd.Env = append(env, "PWD="+dir)
	var buf bytes.Buffer
	cmd.Stdout, cmd.Stderr = &buf, &buf
	err := cmd.Run()
	if err == nil {
		return 0, buf.String()
	}
	if ee, ok := err.(*exec.ExitError); ok {
		return ee.ExitCode(), buf.String()
	}
	return 125, buf.String() + "\n" + err.Error()
}

func writeModule(farm, repo string) error {
	mods := []string{}
	ents, _ := os.ReadDir(repo)
	sums := map[string]bool{}
	addSum := func(p string) {
		b, err := os.ReadFile(p)
		if err != nil {
			return
		}
		for _, l := range strings.Split(string(b), "\n") {
			if strings.TrimSpace(l) != "" {
				sums[l] = true
			}
		}
	}
	addSum(filepath.Join(repo, "go.work.sum"))
	for _, e := range ents {
		if !e.IsDir() {
			continue
		}
		if _, err := os.Stat(filepath.Join(repo, e.Name(), "go.mod")); err == nil {
			mods = append(mods, e.Name())
			addSum(filepath.Join(repo, e.Name(), "go.sum"))
		}
	}
	var sb strings.Builder
	sb.WriteString("module farm\n\ngo 1.23.0\n\nrequire (\n")
	for _, m := range mods {
		fmt.Fprintf(&sb, "\tgithub.com/drshriveer/gtools/%s v0.0.0\n", m)
	}
	sb.WriteString("\tgopkg.in/yaml.v3 v3.0.1\n)\n\n")
	for _, m := range mods {
		fmt.Fprintf(&sb, "replace github.com/drshriveer/gtools/%s => %s\n", m, filepath.Join(repo, m))
	}
	if err := os.WriteFile(filepath.Join(farm, "go.mod"), []byte(sb.String()), 0o644); err != nil {
		return err
	}
	var lines []string
	for l := range sums {
		lines = append(lines, l)
	}
	sort.Strings(lines)
	return os.WriteFile(filepath.Join(farm, "go.sum"), []byte(strings.Join(lines, "\n")+"\n"), 0o644)
}

// renderPart renders one generator invocation: its files (definition file = "b_def.go"), the
// name of its output file, the go:generate command, label, shapes and basic trait kinds.
func renderPart(pkg string, s *Spec) (files map[string]string, gen, cmd, label string, shapes, ks []string, err error) {
	switch s.Tool {
	case "genum":
		files = renderEnum(pkg, s.Enum, s.GOpts)
		return files, "b_def.genum.go", "genum " + strings.Join(genumArgs(s.Enum, s.GOpts), " "), s.Enum.Label,
			enumShapes(s.Enum, s.GOpts), enumKinds(s.Enum), nil
	case "gerror":
		cmd = "gerror --types=" + strings.Join(s.Err.Types, ",")
		if s.Err.SkipConvert {
			cmd += " --skipConvertGen"
		}
		return renderErr(pkg, s.Err), "b_def.gerror.go", cmd, s.Err.Label, errShapes(s.Err), nil, nil
	case "gsort":
		return renderSort(pkg, s.Sort), "b_def.gsort.go", "gsort -types=" + s.Sort.Type, s.Sort.Label, sortShapes(s.Sort), nil, nil
	case "canary":
		files = map[string]string{"b_def.go": "package " + pkg + "\n\n//go:generate cp gen.txt b_def.canary.go\n\n// T is a canary.\ntype T int\n",
			"gen.txt": strings.ReplaceAll(canaryBodies[s.Kind], "PKG", pkg)}
		return files, "b_def.canary.go", "cp gen.txt b_def.canary.go", s.Kind, nil, nil, nil
	}
	return nil, "", "", "", nil, nil, fmt.Errorf("unknown tool %q", s.Tool)
}

func (p *pkgState) prepare(farm string) error {
	s := p.spec
	p.dir = filepath.Join(farm, s.ID)
	if err := os.MkdirAll(p.dir, 0o755); err != nil {
		return err
	}
	c := Case{ID: s.ID, Tool: s.Tool, Kind: s.Kind, Spec: s, Flags: map[string]bool{}, Kinds: []string{}, Shapes: []string{},
		Own: "farm/" + s.ID, Imports: [][2]string{}, Refs: []Ref{}}
	p.parts = []*Spec{s}
	if s.Tool == "multi" {
		p.parts = s.Parts
		c.Label = s.Label
		c.Shapes = append(c.Shapes, "multi_invocation")
	}
	files := map[string]string{}
	var cmds []string
	for i, ps := range p.parts {
		fs, gen, cmd, label, shapes, ks, err := renderPart(s.ID, ps)
		if err != nil {
			return err
		}
		suffix := ""
		if s.Tool == "multi" {
			suffix = fmt.Sprint(i + 1)
			for _, sh := range shapes {
				if !contains(c.Shapes, sh) {
					c.Shapes = append(c.Shapes, sh)
				}
			}
			if !contains(c.Shapes, "part_"+ps.Tool) {
				c.Shapes = append(c.Shapes, "part_"+ps.Tool)
			} else if !contains(c.Shapes, "two_"+ps.Tool+"_invocations") {
				c.Shapes = append(c.Shapes, "two_"+ps.Tool+"_invocations")
			}
		} else {
			c.Label = label
			c.Shapes = append(c.Shapes, shapes...)
		}
		for _, k := range ks {
			if !contains(c.Kinds, k) {
				c.Kinds = append(c.Kinds, k)
			}
		}
		for n, body := range fs {
			if n == "b_def.go" {
				n = "b_def" + suffix + ".go"
			}
			files[n] = body
		}
		gen = strings.Replace(gen, "b_def.", "b_def"+suffix+".", 1)
		p.genFiles = append(p.genFiles, filepath.Join(p.dir, gen))
		cmds = append(cmds, cmd)
	}
	p.genFile = p.genFiles[0]
	c.Generate = strings.Join(cmds, " ; ")
	switch s.Tool {
	case "genum":
		c.Flags = map[string]bool{"GenJSON": s.GOpts.JSON, "GenYAML": s.GOpts.YAML, "GenText": s.GOpts.Text,
			"CaseInsensitive": s.GOpts.CI, "DisableTraits": s.GOpts.DisableTraits}
		c.Parsable = len(s.GOpts.Parsable) > 0
	case "gerror":
		c.Flags = map[string]bool{"SkipConvertGen": s.Err.SkipConvert}
	}
	c.Files = files
	p.c = c
	for n, body := range files {
		if err := os.WriteFile(filepath.Join(p.dir, n), []byte(body), 0o644); err != nil {
			return err
		}
	}
	return nil
}

func assertionsOf(pkg string, s *Spec) string {
	switch s.Tool {
	case "genum":
		return assertEnum(pkg, s.Enum, s.GOpts)
	case "gerror":
		return assertErr(pkg, s.Err)
	case "canary":
		return "package " + pkg + "\n"
	default:
		return assertSort(pkg, s.Sort)
	}
}

// collectRefs reads the result types of the trait accessors out of the generated file.
func (p *pkgState) collectRefs() {
	s := p.spec
	if s.Tool != "genum" || s.GOpts.DisableTraits || !p.c.Obs.File || p.c.Obs.Exit != 0 {
		return
	}
	fset := token.NewFileSet()
	f, err := parser.ParseFile(fset, p.genFile, nil, parser.SkipObjectResolution)
	if err != nil {
		return
	}
	results := map[string]string{}
	for _, d := range f.Decls {
		fd, ok := d.(*ast.FuncDecl)
		if !ok || fd.Recv == nil || fd.Type.Results == nil || len(fd.Type.Results.List) != 1 {
			continue
		}
		var b bytes.Buffer
		if err := printer.Fprint(&b, fset, fd.Type.Results.List[0].Type); err == nil {
			results[fd.Name.Name] = b.String()
		}
	}
	seenPath := map[string]bool{}
	for _, im := range enumImports(s.Enum) {
		if seenPath[im[1]] {
			// a package imported under two names: which of the valid names the generator uses for
			// type references is not the property's business — judged by the build alone
			p.c.Imports, p.c.Refs = [][2]string{}, []Ref{}
			return
		}
		seenPath[im[1]] = true
	}
	for _, im := range enumImports(s.Enum) {
		alias := im[0]
		if alias == "" {
			alias = im[1][strings.LastIndex(im[1], "/")+1:] // package name of the std packages used here
		}
		p.c.Imports = append(p.c.Imports, [2]string{im[1], alias})
	}
	sl := sortedLines(s.Enum)
	if len(sl) == 0 {
		return
	}
	for j := range sl[0].Cells {
		if j >= len(s.Enum.Traits) || s.Enum.Traits[j].Name == "_" || s.Enum.Traits[j].Name == "" {
			continue
		}
		tc := s.Enum.Traits[j]
		obs, ok := results[traitName(tc)]
		if !ok {
			continue
		}
		r := Ref{Trait: traitName(tc), Kind: kinds[tc.Kind].basic, Observed: obs}
		if r.Kind == "" {
			r.PkgPath, r.PkgName = p.c.Own, s.ID
			switch tc.Kind {
			case "tstring":
				r.TypeName = "Label"
			case "named_int":
				r.TypeName = "Level"
			case "other_enum":
				r.TypeName = "Other"
			case "other_enum2":
				r.TypeName = "Extra"
			case "duration", "dot_duration", "tdur":
				r.PkgPath, r.PkgName, r.TypeName = "time", "time", "Duration"
			case "reflect_kind":
				r.PkgPath, r.PkgName, r.TypeName = "reflect", "reflect", "Kind"
			}
		}
		p.c.Refs = append(p.c.Refs, r)
	}
}

var errLine = regexp.MustCompile(`^(\S+\.go):(\d+):(\d+): (.*)$`)

// enclosingFunc maps a line of a Go file to the name of the function declaration around it.
func enclosingFunc(path string, line int) string {
	fset := token.NewFileSet()
	f, err := parser.ParseFile(fset, path, nil, parser.SkipObjectResolution)
	if err != nil || f == nil {
		return ""
	}
	for _, d := range f.Decls {
		if fd, ok := d.(*ast.FuncDecl); ok {
			a, b := fset.Position(fd.Pos()).Line, fset.Position(fd.End()).Line
			if a <= line && line <= b {
				return fd.Name.Name
			}
		}
	}
	return ""
}

var (
	reMissing    = regexp.MustCompile(`missing method (\w+)`)
	reUndefined  = regexp.MustCompile(`undefined: (\w+)`)
	reRedecl     = regexp.MustCompile(`(\w+) redeclared in this block`)
	reNotType    = regexp.MustCompile(`^(\w+) is not a type`)
	reNoMember   = regexp.MustCompile(`has no field or method (\w+)`)
	reInvalidArg = regexp.MustCompile(`invalid argument: (\w+) `)
	reSelector   = regexp.MustCompile(`\be\.\w+(\.\w+)*`)
	reWrongType  = regexp.MustCompile(`wrong type for method (\w+)`)
)

func (p *pkgState) classify(msgs []string) []ErrClass {
	var out []ErrClass
	add := func(c ErrClass) {
		for _, x := range out {
			if x == c {
				return
			}
		}
		out = append(out, c)
	}
	parseNames := map[string]bool{}
	traitNames := map[string]bool{}
	for _, ps := range p.parts {
		if ps.Tool == "genum" {
			parseNames["Parse"+ps.Enum.Type] = true
			for _, t := range ps.Enum.Traits {
				traitNames[traitName(t)] = true
			}
		}
	}
	for _, m := range msgs {
		mm := errLine.FindStringSubmatch(strings.TrimSpace(m))
		if mm == nil || strings.HasPrefix(m, "\t") {
			continue // continuation lines ("previous case", "other declaration of")
		}
		file, msg := filepath.Base(mm[1]), mm[4]
		var line int
		fmt.Sscan(mm[2], &line)
		where := "definition"
		switch {
		case strings.HasPrefix(file, "zz_assert"):
			where = "assertion"
		case strings.Contains(file, ".genum.go") || strings.Contains(file, ".gerror.go") || strings.Contains(file, ".gsort.go"):
			fn := enclosingFunc(filepath.Join(p.dir, file), line)
			switch {
			case fn == "":
				where = "generated:top-level"
			case parseNames[fn]:
				where = "generated:Parse<T>"
			case traitNames[fn]:
				where = "generated:<trait accessor>"
			default:
				where = "generated:" + fn
			}
		}
		switch {
		case reWrongType.MatchString(msg):
			add(ErrClass{"wrong_method_signature", reWrongType.FindStringSubmatch(msg)[1], where})
		case reMissing.MatchString(msg):
			add(ErrClass{"missing_method", reMissing.FindStringSubmatch(msg)[1], where})
		case reUndefined.MatchString(msg):
			add(ErrClass{"undefined", reUndefined.FindStringSubmatch(msg)[1], where})
		case reNotType.MatchString(msg):
			add(ErrClass{"undefined", reNotType.FindStringSubmatch(msg)[1], where})
		case strings.Contains(msg, "duplicate case"):
			add(ErrClass{"duplicate_case", "", where})
		case reRedecl.MatchString(msg):
			add(ErrClass{"redeclared", "", where})
		case strings.Contains(msg, "no new variables"):
			add(ErrClass{"redeclared", "", where})
		case strings.Contains(msg, "declared and not used"):
			add(ErrClass{"declared_not_used", "", where})
		case strings.Contains(msg, "imported and not used"):
			add(ErrClass{"unused_import", "", where})
		case strings.Contains(msg, "already declared") || strings.Contains(msg, "duplicate method"):
			add(ErrClass{"duplicate_declaration", "", where})
		case reNoMember.MatchString(msg):
			add(ErrClass{"undefined_member", reNoMember.FindStringSubmatch(msg)[1], where})
		case strings.Contains(msg, "mismatched types") || strings.Contains(msg, "invalid argument"):
			// which expression: the selector e.X, or the variable named in "invalid argument: x (...)"
			d := ""
			if m := reInvalidArg.FindStringSubmatch(msg); m != nil {
				d = m[1]
			} else if m := reSelector.FindStringSubmatch(msg); m != nil {
				d = m[0]
			}
			add(ErrClass{"type_mismatch", d, where})
		case strings.Contains(msg, "syntax error"):
			add(ErrClass{"syntax_error", "", where})
		case strings.Contains(msg, "too many errors"):
		default:
			add(ErrClass{"other", msg, where})
		}
	}
	return out
}

// parseSections splits `go build`/`go vet` output into per-package message lists.
func parseSections(out string) map[string][]string {
	res := map[string][]string{}
	cur := ""
	sc := bufio.NewScanner(strings.NewReader(out))
	sc.Buffer(make([]byte, 1<<20), 1<<26)
	for sc.Scan() {
		l := sc.Text()
		if strings.HasPrefix(l, "# ") {
			f := strings.Fields(l)
			cur = ""
			if len(f) >= 2 {
				cur = strings.TrimPrefix(f[1], "farm/")
			}
			continue
		}
		if cur == "" {
			// messages without header, e.g. "p0001/b_def.go:3:1: ..." from the loader
			if m := errLine.FindStringSubmatch(l); m != nil {
				if i := strings.Index(m[1], "/"); i > 0 {
					res[m[1][:i]] = append(res[m[1][:i]], l)
				}
			}
			continue
		}
		res[cur] = append(res[cur], l)
	}
	return res
}

// galDef: the definition itself, from which the Coq model derives the generators' documented
// error conditions (GenBuildModel.derived_shapes).
func galDef(s *Spec) string {
	if s == nil {
		return "DNone"
	}
	switch s.Tool {
	case "gsort":
		fs := gal.ListOf(s.Sort.Fields, func(f SortField) string {
			return "{| rf_name := " + gal.Str(f.Name) + "; rf_isbool := " + gal.Bool(f.Type == "bool") + "; rf_tag := " +
				gal.ListOf(f.Tags, func(t string) string { return gal.Pair(gal.Str("gsort"), gal.Str(t)) }) + " |}"
		})
		return "(DSort " + gal.Str(s.Sort.Type) + " " + gal.Bool(!strings.HasPrefix(s.Sort.Label, "notstruct")) + " " + fs + ")"
	case "gerror":
		return "(DErr " + gal.Bool(!s.Err.NotStruct) + " " + gal.Bool(!s.Err.NoEmbed) + " " +
			gal.ListOf(s.Err.Fields, func(f ErrField) string { return gal.Str(f.Tag) }) + ")"
	case "genum":
		lines := gal.ListOf(s.Enum.Lines, func(l EnumLine) string {
			return "{| el_name := " + gal.Str(l.Name) + "; el_value := (" + bigOf(l.Value).String() + ")%Z; el_cells := " +
				gal.ListOf(l.Cells, gal.Str) + " |}"
		})
		traits := gal.ListOf(s.Enum.Traits, func(t TraitCol) string { return gal.Str(t.Name) })
		var parsable []string
		if s.GOpts != nil {
			parsable = s.GOpts.Parsable
		}
		return "(DEnum " + lines + " " + traits + " " + gal.ListOf(parsable, gal.Str) + ")"
	}
	return "DNone"
}

func galCase(c Case) string {
	tool := map[string]string{"genum": "TGenum", "gerror": "TGerror", "gsort": "TGsort", "multi": "TMulti"}[c.Tool]
	var names []string
	for n := range c.Flags {
		names = append(names, n)
	}
	sort.Strings(names)
	fl := make([]string, len(names))
	for i, n := range names {
		fl[i] = gal.Pair(gal.Str(n), gal.Bool(c.Flags[n]))
	}
	obs := map[string]string{"built": "ObsBuilt", "err": "ObsErr", "bad": "ObsBad"}[c.Obs.Outcome]
	return "{| gc_tool := " + tool + "; gc_flags := " + gal.List(fl) + "; gc_parsable := " + gal.Bool(c.Parsable) +
		"; gc_kinds := " + gal.ListOf(c.Kinds, gal.Str) + "; gc_shapes := " + gal.ListOf(c.Shapes, gal.Str) +
		"; gc_def := " + galDef(c.Spec) +
		"; gc_own := " + gal.Str(c.Own) +
		"; gc_imports := " + gal.ListOf(c.Imports, func(p [2]string) string { return gal.Pair(gal.Str(p[0]), gal.Str(p[1])) }) +
		"; gc_refs := " + gal.ListOf(c.Refs, func(r Ref) string {
		pkg := "None"
		if r.Kind == "" {
			pkg = "(Some " + gal.Pair(gal.Str(r.PkgPath), gal.Str(r.PkgName)) + ")"
		}
		return "(mk_tref " + gal.Str(r.Kind) + " " + pkg + " " + gal.Str(r.TypeName) + " " + gal.Str(r.Observed) + ")"
	}) +
		"; gc_fallback := " + gal.Bool(c.Obs.Fallback) +
		"; gc_obs := " + obs + " |}"
}

// canaries: packages whose "generated" file is known to be bad; they check that the farm's own
// observation pipeline (gofmt -l, go build attribution) flags what it must flag.
var canaryBodies = map[string]string{
	"canary_gofmt":  "package PKG\n\nfunc   Unformatted( )  int {return 1}\n",
	"canary_syntax": "package PKG\n\nfunc Broken() ..int {\n",
	"canary_type":   "package PKG\n\nfunc IllTyped() float { return 1 }\n",
	"canary_good":   "package PKG\n\n// Fine is fine.\nfunc Fine() int { return 1 }\n",
}

func canarySpecs() []*Spec {
	var out []*Spec
	for _, k := range []string{"canary_gofmt", "canary_syntax", "canary_type", "canary_good"} {
		out = append(out, &Spec{Tool: "canary", Kind: k})
	}
	return out
}

func maskOf(o *GenumOpts) int {
	m := 0
	if !o.JSON {
		m |= 1
	}
	if !o.YAML {
		m |= 2
	}
	if !o.Text {
		m |= 4
	}
	if o.CI {
		m |= 8
	}
	if o.DisableTraits {
		m |= 16
	}
	return m
}

func tail(s string, n int) string {
	if len(s) > n {
		return "..." + s[len(s)-n:]
	}
	return s
}

func main() {
	seed := flag.Uint64("seed", 1, "seed")
	outp := flag.String("out", "cases", "output prefix")
	mode := flag.String("mode", "quick", "quick | thorough | spec")
	in := flag.String("in", "", "spec file (JSON lines): the whole input of -mode spec, run first in the other modes")
	repo := flag.String("repo", "/repo", "scratch copy of the tree (replace targets)")
	bin := flag.String("bin", "", "directory holding the genum/gerror/gsort binaries")
	farm := flag.String("farm", "", "directory of the scratch module (created)")
	par := flag.Int("par", 16, "parallel go generate runs")
	subsetCap := flag.Int("subsets", 7, "thorough: parsable subsets per definition and setting")
	vet := flag.Bool("vet", true, "also record go vet output")
	settingsF := flag.String("settings", "", "keep only genum cases whose switch setting is in this comma-separated list of masks (bit0 json off, bit1 yaml off, bit2 text off, bit3 caseInsensitive, bit4 disableTraits)")
	maxN := flag.Int("max", 0, "keep at most this many generated cases (seeded sample; corpus/-in specs are always kept)")
	flag.Parse()
	repoDir = *repo
	if *mode == "sigs" {
		if err := writeIfaceSigs(*outp); err != nil {
			fmt.Fprintln(os.Stderr, err)
			os.Exit(1)
		}
		return
	}
	r := gal.NewRand(*seed)

	var specs []*Spec
	if *in != "" {
		// corpus / replay / minimisation specs: run first
		f, err := os.Open(*in)
		if err != nil {
			fmt.Fprintln(os.Stderr, err)
			os.Exit(2)
		}
		sc := bufio.NewScanner(f)
		sc.Buffer(make([]byte, 1<<20), 1<<26)
		for sc.Scan() {
			if strings.TrimSpace(sc.Text()) == "" {
				continue
			}
			s := &Spec{}
			if err := json.Unmarshal(sc.Bytes(), s); err != nil {
				fmt.Fprintln(os.Stderr, "bad spec:", err)
				os.Exit(2)
			}
			specs = append(specs, s)
		}
		f.Close()
	}
	var gen []*Spec
	switch *mode {
	case "quick":
		gen = quickSpecs(r)
	case "thorough":
		gen = thoroughSpecs(r, *subsetCap)
	case "spec":
	default:
		fmt.Fprintln(os.Stderr, "unknown mode")
		os.Exit(2)
	}
	if *settingsF != "" {
		keep := map[int]bool{}
		for _, f := range strings.Split(*settingsF, ",") {
			var m int
			if _, err := fmt.Sscan(strings.TrimSpace(f), &m); err == nil {
				keep[m] = true
			}
		}
		var g2 []*Spec
		for _, s := range gen {
			if s.Tool == "genum" && keep[maskOf(s.GOpts)] {
				g2 = append(g2, s)
			}
		}
		gen = g2
	}
	if *maxN > 0 && len(gen) > *maxN {
		r.Shuffle(len(gen), func(i, j int) { gen[i], gen[j] = gen[j], gen[i] })
		gen = gen[:*maxN]
	}
	specs = append(specs, gen...)
	ncanary := 0
	if *mode != "spec" {
		cs := canarySpecs()
		ncanary = len(cs)
		specs = append(specs, cs...)
	}
	for i, s := range specs {
		s.ID = fmt.Sprintf("p%04d", i)
	}
	if err := os.MkdirAll(*farm, 0o755); err != nil {
		panic(err)
	}
	if err := writeModule(*farm, *repo); err != nil {
		panic(err)
	}
	env := goEnv(*bin)
	pk := make([]*pkgState, len(specs))
	for i, s := range specs {
		pk[i] = &pkgState{spec: s}
		if err := pk[i].prepare(*farm); err != nil {
			panic(err)
		}
	}
	// 1. go generate, in parallel
	t0 := time.Now()
	var wg sync.WaitGroup
	sem := make(chan struct{}, *par)
	for pi, p := range pk {
		wg.Add(1)
		go func(pi int, p *pkgState) {
			defer wg.Done()
			sem <- struct{}{}
			defer func() { <-sem }()
			t := time.Now()
			rc, log := run(*farm, env, 5*time.Minute, "go", "generate", "./"+p.spec.ID)
			if rc == 0 && (p.spec.Regen || (*mode != "spec" && (pi+int(*seed))%6 == 0)) {
				p.spec.Regen = true
				// a generator is normally run over its own previous output: lengthen what it just wrote
				// and run it again; the result must be the same file (nothing of the old content left)
				ok := len(p.genFiles) > 0
				for _, g := range p.genFiles {
					b, err := os.ReadFile(g)
					if err != nil || len(b) < 40 {
						ok = false
						break
					}
					if os.WriteFile(g, append(append([]byte{}, b...), b[len(b)/2:]...), 0o644) != nil {
						ok = false
					}
				}
				if ok {
					rc, log = run(*farm, env, 5*time.Minute, "go", "generate", "./"+p.spec.ID)
					p.c.Obs.Regen = true
				}
			}
			p.c.Obs.Exit = rc
			p.c.Obs.Fallback = strings.Contains(log, "formatting of source file failed")
			p.c.Obs.GenLog = tail(log, 1500)
			p.c.Obs.Secs = time.Since(t).Seconds()
			p.c.Obs.File = true
			for _, g := range p.genFiles {
				if _, err := os.Stat(g); err != nil {
					p.c.Obs.File = false
				}
			}
		}(pi, p)
	}
	wg.Wait()
	fmt.Fprintf(os.Stderr, "c13: go generate of %d packages: %.1fs\n", len(pk), time.Since(t0).Seconds())
	// 2. gofmt -l over the generated files
	t0 = time.Now()
	unformatted := map[string]bool{}
	var gens []string
	for _, p := range pk {
		for _, g := range p.genFiles {
			if _, err := os.Stat(g); err == nil {
				gens = append(gens, g)
			}
		}
	}
	for i := 0; i < len(gens); i += 400 {
		j := min(i+400, len(gens))
		_, out := run(*farm, env, 5*time.Minute, "gofmt", append([]string{"-l"}, gens[i:j]...)...)
		for _, l := range strings.Split(out, "\n") {
			l = strings.TrimSpace(l)
			if l == "" {
				continue
			}
			// "path" (unformatted) or "path:line:col: msg" (does not parse)
			if k := strings.Index(l, ".go"); k > 0 {
				unformatted[l[:k+3]] = true
			}
		}
	}
	// 3. assertions next to every file that was generated without an error report
	for _, p := range pk {
		if p.c.Obs.Exit == 0 && p.c.Obs.File {
			for i, ps := range p.parts {
				name := "zz_assert.go"
				if len(p.parts) > 1 {
					name = fmt.Sprintf("zz_assert%d.go", i+1)
				}
				if err := os.WriteFile(filepath.Join(p.dir, name), []byte(assertionsOf(p.spec.ID, ps)), 0o644); err != nil {
					panic(err)
				}
			}
		}
	}
	// 4. one go build for the whole farm, messages attributed per package
	_, bout := run(*farm, env, 60*time.Minute, "go", "build", "./...")
	bsec := parseSections(bout)
	fmt.Fprintf(os.Stderr, "c13: gofmt + go build: %.1fs\n", time.Since(t0).Seconds())
	vsec := map[string][]string{}
	if *vet {
		t0 = time.Now()
		_, vout := run(*farm, env, 60*time.Minute, "go", "vet", "./...")
		vsec = parseSections(vout)
		fmt.Fprintf(os.Stderr, "c13: go vet: %.1fs\n", time.Since(t0).Seconds())
	}
	out := gal.NewOut(*outp)
	canaries := []Case{}
	for _, p := range pk {
		o := &p.c.Obs
		o.GofmtClean = o.File
		for _, g := range p.genFiles {
			if unformatted[g] {
				o.GofmtClean = false
			}
		}
		msgs := bsec[p.spec.ID]
		o.BuildOK = len(msgs) == 0
		if len(msgs) > 12 {
			msgs = msgs[:12]
		}
		o.Errors = msgs
		o.Classes = p.classify(bsec[p.spec.ID])
		if o.BuildOK {
			if v := vsec[p.spec.ID]; len(v) > 0 {
				if len(v) > 6 {
					v = v[:6]
				}
				o.Vet = v
			}
		}
		switch {
		case o.Exit != 0:
			o.Outcome = "err"
			if !o.BuildOK {
				// an error report must not leave the package broken either
				o.Outcome = "bad"
				o.Classes = append(o.Classes, ErrClass{"error_report_left_broken_package", "", ""})
			}
		case !o.File:
			o.Outcome = "bad"
			o.Classes = append(o.Classes, ErrClass{"no_output_file", "", ""})
		case !o.GofmtClean || !o.BuildOK:
			o.Outcome = "bad"
			if !o.GofmtClean {
				o.Classes = append(o.Classes, ErrClass{"not_gofmt_clean", "", ""})
			}
			if !o.BuildOK && len(o.Classes) == 0 {
				o.Classes = append(o.Classes, ErrClass{"other", "build failed", ""})
			}
		default:
			o.Outcome = "built"
		}
		if o.Outcome == "built" {
			o.GenLog = ""
		}
		p.collectRefs()
		if p.spec.Tool == "canary" {
			canaries = append(canaries, p.c)
			continue
		}
		out.Case(galCase(p.c), p.c)
	}
	out.Close()
	_ = ncanary
	cb, _ := json.Marshal(canaries)
	if err := os.WriteFile(*outp+".canary.json", cb, 0o644); err != nil {
		panic(err)
	}
}
