package main

import (
	"fmt"
	"math/big"
	"sort"
	"strings"
)

// ---------------------------------------------------------------- spec types (JSON = replay format)

// Spec is one package of the farm: a definition file plus generator options.
type Spec struct {
	ID    string     `json:"id"`
	Tool  string     `json:"tool"` // genum | gerror | gsort
	Kind  string     `json:"kind"` // corpus | cover | cross | special | nearmiss | min
	Enum  *EnumSpec  `json:"enum,omitempty"`
	GOpts *GenumOpts `json:"genum_opts,omitempty"`
	Err   *ErrSpec   `json:"gerror,omitempty"`
	Sort  *SortSpec  `json:"gsort,omitempty"`
	// Parts: for Tool "multi" — several generator invocations (each with its own definition file and
	// //go:generate line, each writing its own output file) inside ONE package
	Parts []*Spec `json:"parts,omitempty"`
	Label string  `json:"label,omitempty"`
	// Regen: the generator is run a second time over its own output lengthened by half of itself
	Regen bool `json:"regen,omitempty"`
}

// GenumOpts are genum's documented switches.
type GenumOpts struct {
	JSON          bool     `json:"json"`
	YAML          bool     `json:"yaml"`
	Text          bool     `json:"text"`
	CI            bool     `json:"caseInsensitive"`
	DisableTraits bool     `json:"disableTraits"`
	Parsable      []string `json:"parsableByTraits"`
}

// TraitCol is one trait column; Kind selects how cells look (see cellOf).
type TraitCol struct {
	Name string `json:"name"` // constant name on the lowest line, e.g. "_Weight" or "CatLegs"
	Kind string `json:"kind"`
}

// EnumLine is one constant specification.
type EnumLine struct {
	Name       string   `json:"name"`
	Value      string   `json:"value"` // decimal
	Deprecated bool     `json:"deprecated,omitempty"`
	Cells      []string `json:"cells,omitempty"` // Go expressions, one per trait column (or fewer)
}

// EnumSpec is an enum definition.
type EnumSpec struct {
	Type       string     `json:"type"`
	Underlying string     `json:"underlying"`
	Traits     []TraitCol `json:"traits,omitempty"`
	Lines      []EnumLine `json:"lines"`
	Label      string     `json:"label,omitempty"` // name of the catalogue entry
	// Imports, when given, is the import list of the definition file in source order (alias ""
	// = plain import); otherwise the imports follow from the trait kinds
	Imports [][2]string `json:"imports,omitempty"` // alias, path
}

// ErrField is a field of a gerror extension struct.
type ErrField struct {
	Name string `json:"name"`
	Type string `json:"type"`
	Tag  string `json:"tag,omitempty"` // content of the gerror:"..." tag, "" = no tag
}

// ErrSpec is a gerror extension struct.
type ErrSpec struct {
	Types         []string   `json:"types"`
	Fields        []ErrField `json:"fields"`
	SkipConvert   bool       `json:"skipConvertGen"`
	CustomConvert bool       `json:"customConvert"` // the package defines Convert/ConvertS itself
	NoEmbed       bool       `json:"noEmbed,omitempty"`
	NotStruct     bool       `json:"notStruct,omitempty"`
	Label         string     `json:"label,omitempty"`
}

// SortField is a field of a gsort struct; Tags are the contents of its gsort:"..." tags.
type SortField struct {
	Name string   `json:"name"`
	Type string   `json:"type"`
	Tags []string `json:"tags,omitempty"`
}

// SortSpec is a gsort struct.
type SortSpec struct {
	Type   string      `json:"type"`
	Fields []SortField `json:"fields"`
	Label  string      `json:"label,omitempty"`
}

// ---------------------------------------------------------------- trait kinds

type kindInfo struct {
	basic  string // go/types kind name when the cell's type is an (unnamed) basic type
	unique bool   // cells are pairwise distinct over any number of rows
	own    bool   // the type brings its own json/yaml/text unmarshalers (another generated enum)
}

var kinds = map[string]kindInfo{
	"ustring": {"UntypedString", true, false}, "uint": {"UntypedInt", true, false},
	"urune": {"UntypedRune", true, false}, "ubool": {"UntypedBool", false, false},
	"ufloat": {"UntypedFloat", true, false}, "ucomplex": {"UntypedComplex", true, false},
	"tstringb": {"String", true, false}, "tint64": {"Int64", true, false},
	"tuint8": {"Uint8", true, false}, "tbyte": {"Alias_byte", true, false},
	"trune": {"Alias_rune", true, false}, "tbool": {"Bool", false, false},
	"tfloat32": {"Float32", true, false}, "tfloat64": {"Float64", true, false},
	"tstring": {"", true, false}, "named_int": {"", true, false}, "duration": {"", true, false},
	"tdur": {"", true, false}, "reflect_kind": {"", true, false}, "dot_duration": {"", true, false}, "other_enum": {"", true, true}, "other_enum2": {"", true, true},
}

var kindOrder = []string{"ustring", "uint", "urune", "ubool", "ufloat", "ucomplex", "tstringb", "tint64",
	"tuint8", "tbyte", "trune", "tbool", "tfloat32", "tfloat64", "tstring", "named_int", "duration",
	"reflect_kind", "dot_duration", "other_enum", "other_enum2"}

var reflectKinds = []string{"reflect.String", "reflect.Uint64", "reflect.Bool", "reflect.Int",
	"reflect.Float32", "reflect.Slice", "reflect.Map", "reflect.Ptr"}

// cellOf is the r-th cell of a trait column of the given kind.
func cellOf(kind string, r int) string {
	switch kind {
	case "ustring":
		return fmt.Sprintf("%q", fmt.Sprintf("s%d", r))
	case "uint":
		return fmt.Sprint(10 + r)
	case "urune":
		return fmt.Sprintf("'%c'", rune('a'+r%26))
	case "ubool":
		if r%2 == 0 {
			return "true"
		}
		return "false"
	case "ufloat":
		return fmt.Sprintf("%d.5", r+1)
	case "ucomplex":
		return fmt.Sprintf("%di", r+1)
	case "tstringb":
		return fmt.Sprintf("string(%q)", fmt.Sprintf("t%d", r))
	case "tint64":
		return fmt.Sprintf("int64(%d)", 100+r)
	case "tuint8":
		return fmt.Sprintf("uint8(%d)", 1+r)
	case "tbyte":
		return fmt.Sprintf("byte(%d)", 65+r)
	case "trune":
		return fmt.Sprintf("rune(%d)", 107+r)
	case "tbool":
		if r%2 == 0 {
			return "bool(true)"
		}
		return "bool(false)"
	case "tfloat32":
		return fmt.Sprintf("float32(%d.25)", r)
	case "tfloat64":
		return fmt.Sprintf("float64(%d.75)", r)
	case "tstring":
		return fmt.Sprintf("Label(%q)", fmt.Sprintf("l%d", r))
	case "named_int":
		return fmt.Sprintf("Level(%d)", r+1)
	case "duration":
		return fmt.Sprintf("%d * xtime.Minute", r+1)
	case "dot_duration":
		return fmt.Sprintf("%d * Second", r+1)
	case "reflect_kind":
		return reflectKinds[r%len(reflectKinds)]
	case "other_enum":
		return fmt.Sprintf("Other%d", r%20)
	case "other_enum2":
		return fmt.Sprintf("Extra%d", r%20)
	}
	return "0"
}

func traitName(c TraitCol) string { return strings.TrimPrefix(c.Name, "_") }

// ---------------------------------------------------------------- shapes of an enum definition

func bigOf(s string) *big.Int {
	v, ok := new(big.Int).SetString(s, 10)
	if !ok {
		return big.NewInt(0)
	}
	return v
}

// sortedLines orders lines the way genum does (by value, then by name).
func sortedLines(e *EnumSpec) []EnumLine {
	out := append([]EnumLine(nil), e.Lines...)
	sort.SliceStable(out, func(i, j int) bool {
		c := bigOf(out[i].Value).Cmp(bigOf(out[j].Value))
		if c != 0 {
			return c < 0
		}
		return out[i].Name < out[j].Name
	})
	return out
}

func contains(xs []string, s string) bool {
	for _, x := range xs {
		if x == s {
			return true
		}
	}
	return false
}

// enumShapes computes the shape features of a definition + options (the features the model
// and the known findings speak about).  Everything is derived from the spec itself so that a
// minimised variant is classified afresh.
func enumShapes(e *EnumSpec, o *GenumOpts) []string {
	var shapes []string
	add := func(s string) {
		if !contains(shapes, s) {
			shapes = append(shapes, s)
		}
	}
	lines := sortedLines(e)
	// names differing only by case
	seenLower := map[string]bool{}
	for _, l := range lines {
		lc := strings.ToLower(l.Name)
		if seenLower[lc] {
			add("ci_collision")
		}
		seenLower[lc] = true
	}
	// a constant named like an identifier the template binds in a function body (a local variable, a
	// parameter, the receiver): the generator must refuse it or keep its own identifier out of the way
	for _, l := range lines {
		if contains(templateLocals(), l.Name) {
			add("const_named_like_template_local")
		}
	}
	groups := map[string][]EnumLine{}
	for _, l := range lines {
		groups[l.Value] = append(groups[l.Value], l)
	}
	hasDup := false
	for _, g := range groups {
		if len(g) > 1 {
			hasDup = true
		}
	}
	if hasDup {
		add("duplicate_values")
	}
	if len(lines) > 15 {
		add("more_than_15_values")
	}
	for _, l := range lines {
		if bigOf(l.Value).Sign() < 0 {
			add("negative_value")
		}
	}
	if len(e.Traits) == 0 || len(lines) == 0 {
		return shapes
	}
	nt := len(lines[0].Cells) // trait descriptions come from the lowest line
	named := 0
	for j := 0; j < nt && j < len(e.Traits); j++ {
		if n := e.Traits[j].Name; n != "_" && n != "" {
			named++
		}
	}
	if nt > 0 && named == 0 {
		add("unnamed_traits")
	}
	// inconsistent trait counts (extractTraitDescs' validation)
	valid := map[string]bool{}
	for _, l := range lines {
		if len(l.Cells) == named {
			valid[l.Value] = true
		}
	}
	for _, l := range lines {
		if !valid[l.Value] && len(l.Cells) > 0 && named > 0 {
			add("inconsistent_trait_count")
		}
	}
	lacking := false
	for _, l := range lines {
		if len(l.Cells) == 0 {
			lacking = true
		}
	}
	if lacking {
		add("lines_lacking_cells")
	}
	// a safe duplicate group (exactly one non-deprecated name) in which two lines carry cells
	for _, g := range groups {
		if len(g) < 2 {
			continue
		}
		nonDep, withCells := 0, 0
		for _, l := range g {
			if !l.Deprecated {
				nonDep++
			}
			if len(l.Cells) > 0 {
				withCells++
			}
		}
		if nonDep == 1 && withCells >= 2 {
			add("deprecated_duplicate_with_trait_cells")
		}
	}
	var parsable []int
	for j, c := range e.Traits {
		if contains(o.Parsable, traitName(c)) {
			parsable = append(parsable, j)
		}
	}
	if len(parsable) > 0 {
		if hasDup {
			add("parsable_with_duplicates")
		}
		if lacking {
			add("parsable_with_lines_lacking_cells")
		}
		own := 0
		for _, j := range parsable {
			if kinds[e.Traits[j].Kind].own {
				own++
			}
		}
		if own >= 2 {
			add("two_own_unmarshaler_parsable_traits")
		}
		// the same cell for two different names (in any parsable trait) / on one line twice
		owner := map[string]string{}
		for _, l := range lines {
			seenOnLine := map[string]bool{}
			for _, j := range parsable {
				if j >= len(l.Cells) {
					continue
				}
				c := l.Cells[j]
				if prev, ok := owner[c]; ok && prev != l.Name {
					add("parsable_values_not_unique")
				}
				owner[c] = l.Name
				if seenOnLine[c] {
					add("parsable_traits_equal_cells")
				}
				seenOnLine[c] = true
			}
		}
	}
	return shapes
}

func enumKinds(e *EnumSpec) []string {
	var out []string
	for _, c := range e.Traits {
		if b := kinds[c.Kind].basic; b != "" && !contains(out, b) {
			out = append(out, b)
		}
	}
	return out
}

// ---------------------------------------------------------------- rendering: genum

func hasKind(e *EnumSpec, k string) bool {
	for _, c := range e.Traits {
		if c.Kind == k {
			return true
		}
	}
	return false
}

func otherEnumFile(pkg, typ, prefix string) string {
	var sb strings.Builder
	fmt.Fprintf(&sb, "package %s\n\n//go:generate genum -types=%s\n\n// %s is another generated enum used as a trait type.\ntype %s int\n\nconst (\n", pkg, typ, typ, typ)
	for i := 0; i < 20; i++ {
		if i == 0 {
			fmt.Fprintf(&sb, "\t%s%d %s = iota\n", prefix, i, typ)
		} else {
			fmt.Fprintf(&sb, "\t%s%d\n", prefix, i)
		}
	}
	sb.WriteString(")\n")
	return sb.String()
}

func genumArgs(e *EnumSpec, o *GenumOpts) []string {
	args := []string{"-types=" + e.Type,
		fmt.Sprintf("-json=%v", o.JSON), fmt.Sprintf("-yaml=%v", o.YAML), fmt.Sprintf("-text=%v", o.Text),
		fmt.Sprintf("-caseInsensitive=%v", o.CI), fmt.Sprintf("-disableTraits=%v", o.DisableTraits)}
	if len(o.Parsable) > 0 {
		args = append(args, "-parsableByTraits="+strings.Join(o.Parsable, ","))
	}
	return args
}

// enumImports is the import list (alias, path) of the definition file, in source order.
func enumImports(e *EnumSpec) [][2]string {
	if len(e.Imports) > 0 {
		return e.Imports
	}
	var out [][2]string
	if hasKind(e, "duration") {
		out = append(out, [2]string{"xtime", "time"})
	}
	if hasKind(e, "reflect_kind") {
		out = append(out, [2]string{"", "reflect"})
	}
	if hasKind(e, "dot_duration") {
		out = append(out, [2]string{".", "time"})
	}
	return out
}

// renderEnum returns the files of a genum package (name -> content); the definition file is
// b_def.go so that helper enums (a_*.go) are generated first by `go generate`.
func renderEnum(pkg string, e *EnumSpec, o *GenumOpts) map[string]string {
	files := map[string]string{}
	var sb strings.Builder
	fmt.Fprintf(&sb, "package %s\n\n", pkg)
	var imps []string
	for _, im := range enumImports(e) {
		if im[0] == "" {
			imps = append(imps, fmt.Sprintf("\t%q", im[1]))
		} else {
			imps = append(imps, fmt.Sprintf("\t%s %q", im[0], im[1]))
		}
	}
	if len(imps) > 0 {
		sb.WriteString("import (\n" + strings.Join(imps, "\n") + "\n)\n\n")
	}
	fmt.Fprintf(&sb, "//go:generate genum %s\n\n", strings.Join(genumArgs(e, o), " "))
	if hasKind(e, "tstring") {
		sb.WriteString("// Label is a locally named string type.\ntype Label string\n\n")
	}
	if hasKind(e, "named_int") {
		sb.WriteString("// Level is a locally named integer type.\ntype Level int\n\n")
	}
	fmt.Fprintf(&sb, "// %s is the enum under test.\ntype %s %s\n\nconst (\n", e.Type, e.Type, e.Underlying)
	lowest := ""
	if sl := sortedLines(e); len(sl) > 0 {
		lowest = sl[0].Name
	}
	for _, l := range e.Lines {
		if l.Deprecated {
			sb.WriteString("\t// Deprecated: kept for compatibility.\n")
		}
		names := []string{l.Name}
		vals := []string{fmt.Sprintf("%s(%s)", e.Type, l.Value)}
		for j, c := range l.Cells {
			n := "_"
			if l.Name == lowest && j < len(e.Traits) && e.Traits[j].Name != "" {
				n = e.Traits[j].Name
			}
			names = append(names, n)
			vals = append(vals, c)
		}
		fmt.Fprintf(&sb, "\t%s = %s\n", strings.Join(names, ", "), strings.Join(vals, ", "))
	}
	sb.WriteString(")\n")
	files["b_def.go"] = sb.String()
	if hasKind(e, "other_enum") {
		files["a_other.go"] = otherEnumFile(pkg, "Other", "Other")
	}
	if hasKind(e, "other_enum2") {
		files["a_other2.go"] = otherEnumFile(pkg, "Extra", "Extra")
	}
	return files
}

// assertEnum is the file of compile-time assertions added after generation.
func assertEnum(pkg string, e *EnumSpec, o *GenumOpts) string {
	var sb strings.Builder
	fmt.Fprintf(&sb, "package %s\n\nimport (\n", pkg)
	if o.Text {
		sb.WriteString("\t\"encoding\"\n")
	}
	if o.JSON {
		sb.WriteString("\t\"encoding/json\"\n")
	}
	sb.WriteString("\n\t\"github.com/drshriveer/gtools/genum\"\n")
	if o.YAML {
		sb.WriteString("\t\"gopkg.in/yaml.v3\"\n")
	}
	sb.WriteString(")\n\n")
	t := e.Type
	fmt.Fprintf(&sb, "var _ genum.Enum = %s(0)\nvar _ genum.TypedEnum[%s] = %s(0)\n", t, t, t)
	if o.JSON {
		fmt.Fprintf(&sb, "var _ json.Marshaler = %s(0)\nvar _ json.Unmarshaler = (*%s)(nil)\n", t, t)
	}
	if o.Text {
		fmt.Fprintf(&sb, "var _ encoding.TextMarshaler = %s(0)\nvar _ encoding.TextUnmarshaler = (*%s)(nil)\n", t, t)
	}
	if o.YAML {
		fmt.Fprintf(&sb, "var _ yaml.Marshaler = %s(0)\nvar _ yaml.Unmarshaler = (*%s)(nil)\n", t, t)
	}
	fmt.Fprintf(&sb, "var _ func(any) (%s, error) = Parse%s\n", t, t)
	if !o.DisableTraits {
		sl := sortedLines(e)
		if len(sl) > 0 {
			for j := range sl[0].Cells {
				if j < len(e.Traits) && e.Traits[j].Name != "_" && e.Traits[j].Name != "" {
					fmt.Fprintf(&sb, "var _ = %s.%s\n", t, traitName(e.Traits[j]))
				}
			}
		}
	}
	return sb.String()
}

// ---------------------------------------------------------------- rendering: gerror

func errShapes(s *ErrSpec) []string {
	var out []string
	if s.NoEmbed {
		out = append(out, "no_gerror_embed")
	}
	if s.NotStruct {
		out = append(out, "not_a_struct")
	}
	for _, f := range s.Fields {
		if f.Tag == "" {
			continue
		}
		parts := strings.Split(f.Tag, ",")
		for _, p := range parts[1:] {
			if p != "clone" && p != "print" && !contains(out, "unsupported_tag_option") {
				out = append(out, "unsupported_tag_option")
			}
		}
	}
	if s.CustomConvert {
		out = append(out, "custom_convert")
	}
	for _, f := range s.Fields {
		switch f.Name {
		case "Name", "Source", "Message":
			if !contains(out, "shadows_gerror_field") {
				out = append(out, "shadows_gerror_field")
			}
			if f.Type != "string" && !contains(out, "shadows_gerror_field_nonstring") {
				out = append(out, "shadows_gerror_field_nonstring")
			}
		}
	}
	if len(s.Types) > 1 {
		out = append(out, "two_types")
	}
	return out
}

func renderErr(pkg string, s *ErrSpec) map[string]string {
	var sb strings.Builder
	fmt.Fprintf(&sb, "package %s\n\nimport (\n", pkg)
	if s.CustomConvert {
		sb.WriteString("\t\"fmt\"\n")
	}
	needTime := false
	for _, f := range s.Fields {
		if strings.Contains(strings.ReplaceAll(f.Type, "stdtime.", ""), "time.") || f.Type == "Span" {
			needTime = true
		}
	}
	if needTime {
		sb.WriteString("\t\"time\"\n")
	}
	for _, f := range s.Fields {
		if strings.Contains(f.Type, "stdtime.") {
			sb.WriteString("\tstdtime \"time\"\n")
			break
		}
	}
	sb.WriteString("\n\t\"github.com/drshriveer/gtools/gerror\"\n)\n\n")
	args := "--types=" + strings.Join(s.Types, ",")
	if s.SkipConvert {
		args += " --skipConvertGen"
	}
	fmt.Fprintf(&sb, "//go:generate gerror %s\n\n", args)
	for _, f := range s.Fields {
		if f.Type == "Status" {
			sb.WriteString("// Status is a local enum-like field type.\ntype Status int\n\n")
			break
		}
	}
	if s.NotStruct || s.NoEmbed {
		sb.WriteString("var _ = gerror.NoStack // keeps the import in use\n\n")
	}

	for _, t := range s.Types {
		if s.NotStruct {
			fmt.Fprintf(&sb, "// %s is not a struct.\ntype %s int\n\n", t, t)
			continue
		}
		fmt.Fprintf(&sb, "// %s is the extension type under test.\ntype %s struct {\n", t, t)
		if !s.NoEmbed {
			sb.WriteString("\tgerror.GError\n")
		}
		for _, f := range s.Fields {
			if f.Tag != "" {
				fmt.Fprintf(&sb, "\t%s %s `gerror:\"%s\"`\n", f.Name, f.Type, f.Tag)
			} else {
				fmt.Fprintf(&sb, "\t%s %s\n", f.Name, f.Type)
			}
		}
		sb.WriteString("}\n\n")
		if s.CustomConvert {
			fmt.Fprintf(&sb, `// Convert is written by hand.
func (e *%[1]s) Convert(err error) gerror.Error {
	if gerr, ok := err.(gerror.Error); ok {
		return gerr
	}
	clone := gerror.CloneBase(e, gerror.SourceStack, "", "", fmt.Sprintf("originalError: %%+v", err), err)
	return e.toPrimaryType(clone)
}

// ConvertS is written by hand.
func (e *%[1]s) ConvertS(err error) gerror.Error {
	if gerr, ok := err.(gerror.Error); ok {
		return gerr
	}
	clone := gerror.CloneBase(e, gerror.DefaultStack, "", "", fmt.Sprintf("originalError: %%+v", err), err)
	return e.toPrimaryType(clone)
}

`, t)
		}
	}
	return map[string]string{"b_def.go": sb.String()}
}

func assertErr(pkg string, s *ErrSpec) string {
	var sb strings.Builder
	fmt.Fprintf(&sb, "package %s\n\nimport \"github.com/drshriveer/gtools/gerror\"\n\n", pkg)
	for _, t := range s.Types {
		fmt.Fprintf(&sb, "var _ gerror.Error = (*%s)(nil)\nvar _ gerror.Factory = (*%s)(nil)\nvar _ gerror.Factory = gerror.FactoryOf(&%s{})\nvar _ error = (*%s)(nil)\n", t, t, t, t)
	}
	return sb.String()
}

// ---------------------------------------------------------------- rendering: gsort

type sorter struct {
	Name    string
	Pointer bool
}

func sortersOf(s *SortSpec) []sorter {
	var out []sorter
	seen := map[string]bool{}
	for _, f := range s.Fields {
		for _, t := range f.Tags {
			n := strings.Split(t, ",")[0]
			if seen[n] {
				continue
			}
			seen[n] = true
			out = append(out, sorter{strings.TrimPrefix(n, "*"), strings.HasPrefix(n, "*")})
		}
	}
	return out
}

func sortShapes(s *SortSpec) []string {
	var out []string
	add := func(x string) {
		if !contains(out, x) {
			out = append(out, x)
		}
	}
	prio := map[string]map[string]bool{}
	for _, so := range sortersOf(s) {
		if so.Pointer {
			add("pointer_sorter")
		} else {
			add("value_sorter")
		}
	}
	for _, f := range s.Fields {
		for _, t := range f.Tags {
			p := strings.Split(t, ",")
			if len(p) >= 2 {
				if prio[p[0]] == nil {
					prio[p[0]] = map[string]bool{}
				}
				if prio[p[0]][p[1]] {
					add("duplicate_priority")
				}
				prio[p[0]][p[1]] = true
			}
			if len(p) == 3 {
				add("accessor")
			}
			if f.Type == "bool" {
				add("bool_key")
			}
			for _, nt := range sortNamed {
				if f.Type == nt[0] {
					add("named_" + nt[1] + "_key")
				}
			}
		}
		if len(f.Tags) > 1 {
			add("multi_sorter_field")
		}
	}
	if strings.HasPrefix(s.Label, "notstruct") {
		add("not_a_struct")
	}
	forms := map[string]string{}
	for _, f := range s.Fields {
		for _, t := range f.Tags {
			n := strings.Split(t, ",")[0]
			base := strings.TrimPrefix(n, "*")
			if prev, ok := forms[base]; ok && prev != n {
				add("sorter_in_both_forms")
			}
			forms[base] = n
		}
	}
	return out
}

func renderSort(pkg string, s *SortSpec) map[string]string {
	var sb strings.Builder
	fmt.Fprintf(&sb, "package %s\n\n", pkg)
	needTime := false
	for _, f := range s.Fields {
		if strings.Contains(strings.ReplaceAll(f.Type, "stdtime.", ""), "time.") || f.Type == "Span" {
			needTime = true
		}
	}
	needStd := false
	for _, f := range s.Fields {
		if strings.Contains(f.Type, "stdtime.") {
			needStd = true
		}
	}
	switch {
	case needTime && needStd:
		sb.WriteString("import (\n\t\"time\"\n\tstdtime \"time\"\n)\n\n")
	case needStd:
		sb.WriteString("import stdtime \"time\"\n\n")
	case needTime:
		sb.WriteString("import \"time\"\n\n")
	}
	fmt.Fprintf(&sb, "//go:generate gsort -types=%s\n\n", s.Type)
	declared := map[string]bool{}
	for _, f := range s.Fields {
		for _, nt := range sortNamed {
			if f.Type == nt[0] && !declared[f.Type] {
				declared[f.Type] = true
				if strings.HasPrefix(nt[1], "[]") || strings.HasPrefix(nt[1], "map[") {
					fmt.Fprintf(&sb, "// %s has a String accessor.\ntype %s %s\n\n// String names the value.\nfunc (c %s) String() string {\n\tif len(c) == 0 {\n\t\treturn \"zero\"\n\t}\n\treturn \"other\"\n}\n\n", nt[0], nt[0], nt[1], nt[0])
					continue
				}
				fmt.Fprintf(&sb, "// %s has a String accessor.\ntype %s %s\n\n// String names the value.\nfunc (c %s) String() string {\n\tvar zero %s\n\tif c == zero {\n\t\treturn \"zero\"\n\t}\n\treturn \"other\"\n}\n\n", nt[0], nt[0], nt[1], nt[0], nt[0])
			}
		}
	}
	if strings.HasPrefix(s.Label, "notstruct") {
		fmt.Fprintf(&sb, "// %s is not a struct.\ntype %s []int\n", s.Type, s.Type)
		return map[string]string{"b_def.go": sb.String()}
	}
	fmt.Fprintf(&sb, "// %s is the struct under test.\ntype %s struct {\n", s.Type, s.Type)
	for _, f := range s.Fields {
		if len(f.Tags) == 0 {
			fmt.Fprintf(&sb, "\t%s %s\n", f.Name, f.Type)
			continue
		}
		tags := make([]string, len(f.Tags))
		for i, t := range f.Tags {
			tags[i] = fmt.Sprintf("gsort:\"%s\"", t)
		}
		fmt.Fprintf(&sb, "\t%s %s `%s`\n", f.Name, f.Type, strings.Join(tags, " "))
	}
	sb.WriteString("}\n")
	return map[string]string{"b_def.go": sb.String()}
}

func assertSort(pkg string, s *SortSpec) string {
	var sb strings.Builder
	fmt.Fprintf(&sb, "package %s\n\nimport \"sort\"\n\n", pkg)
	for _, so := range sortersOf(s) {
		el := s.Type
		if so.Pointer {
			el = "*" + s.Type
		}
		fmt.Fprintf(&sb, "var _ sort.Interface = %s(nil)\nvar _ []%s = []%s(%s(nil))\n", so.Name, el, el, so.Name)
	}
	return sb.String()
}
