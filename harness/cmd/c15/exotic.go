package main

import (
	"github.com/drshriveer/gtools/gerror"

	extgerror "gtverif/cmd/c15/ext/gerror"
	"gtverif/cmd/c15/gerror/inner"
)

// Call sites whose frame names have less usual shapes (generic functions and methods, nested
// closures, package-level function values, interface dispatch).  The expected (frame, derived
// source) pairs are what the pinned gerror renders for them; they tie the Coq model of
// stack.go's SourceInfo/Metric (GErrMetric.v) to the code on shapes the regular sites lack.

func siteG[T any](_ T, f gerror.Factory, m int, a *callArgs) gerror.Error {
	switch m {
	case 1:
		return f.SourceOnly()
	case 2:
		return f.Stack()
	case 5:
		return f.Msg(a.Format, a.Elems...)
	}
	return f.Base()
}

type genT[T any] struct{ v T }

func (g genT[T]) siteGM(f gerror.Factory, m int, a *callArgs) gerror.Error {
	switch m {
	case 1:
		return f.SourceOnly()
	case 2:
		return f.Stack()
	case 5:
		return f.Msg(a.Format, a.Elems...)
	}
	return f.Base()
}

func (g *genT[T]) siteGP(f gerror.Factory, m int, a *callArgs) gerror.Error {
	switch m {
	case 1:
		return f.SourceOnly()
	case 2:
		return f.Stack()
	case 5:
		return f.Msg(a.Format, a.Elems...)
	}
	return f.Base()
}

func siteN(f gerror.Factory, m int, a *callArgs) gerror.Error {
	return func() gerror.Error {
		return func() gerror.Error {
			switch m {
			case 1:
				return f.SourceOnly()
			case 2:
				return f.Stack()
			case 5:
				return f.Msg(a.Format, a.Elems...)
			}
			return f.Base()
		}()
	}()
}

var globFn = func(f gerror.Factory, m int, a *callArgs) gerror.Error {
	switch m {
	case 1:
		return f.SourceOnly()
	case 2:
		return f.Stack()
	case 5:
		return f.Msg(a.Format, a.Elems...)
	}
	return f.Base()
}

type siteIface interface {
	siteI(f gerror.Factory, m int, a *callArgs) gerror.Error
}
type implT struct{}

func (implT) siteI(f gerror.Factory, m int, a *callArgs) gerror.Error {
	switch m {
	case 1:
		return f.SourceOnly()
	case 2:
		return f.Stack()
	case 5:
		return f.Msg(a.Format, a.Elems...)
	}
	return f.Base()
}

const firstExotic = 36

func init() {
	var i siteIface = implT{}
	sites = append(sites,
		site{func(f gerror.Factory, m int, a *callArgs) gerror.Error { return siteG(1, f, m, a) }, "main.siteG[...]", "main:siteG"},
		site{genT[int]{}.siteGM, "main.genT[...].siteGM", "main:genT["},
		site{(&genT[string]{}).siteGP, "main.(*genT[...]).siteGP", "main:(*genT["},
		site{siteN, "main.siteN.siteN.func1.func2", "main:siteN"},
		site{globFn, "main.init.func1", "main:init"},
		site{i.siteI, "main.implT.siteI", "main:implT:siteI"},
		// call sites in other packages of the harness module: a package NAMED gerror and a package
		// under a .../gerror/... path (neither is gtools' gerror): function, method, method value
		site{func(f gerror.Factory, m int, a *callArgs) gerror.Error {
			return extgerror.Call(f, m, a.Format, a.Elems)
		},
			"gtverif/cmd/c15/ext/gerror.Call", "gerror:Call"},
		site{func(f gerror.Factory, m int, a *callArgs) gerror.Error {
			return extgerror.Svc{}.Handle(f, m, a.Format, a.Elems)
		},
			"gtverif/cmd/c15/ext/gerror.Svc.Handle", "gerror:Svc:Handle"},
		site{func(f gerror.Factory, m int, a *callArgs) gerror.Error {
			return extgerror.ViaValue(f, m, a.Format, a.Elems)
		},
			"gtverif/cmd/c15/ext/gerror.ViaValue", "gerror:ViaValue"},
		site{func(f gerror.Factory, m int, a *callArgs) gerror.Error { return inner.Call(f, m, a.Format, a.Elems) },
			"gtverif/cmd/c15/gerror/inner.Call", "inner:Call"},
		site{func(f gerror.Factory, m int, a *callArgs) gerror.Error {
			return inner.Svc{}.Handle(f, m, a.Format, a.Elems)
		},
			"gtverif/cmd/c15/gerror/inner.Svc.Handle", "inner:Svc:Handle"},
		site{func(f gerror.Factory, m int, a *callArgs) gerror.Error {
			return inner.ViaValue(f, m, a.Format, a.Elems)
		},
			"gtverif/cmd/c15/gerror/inner.ViaValue", "inner:ViaValue"},
	)
}
