// Package inner holds call sites of gerror Factory methods OUTSIDE package main: the derived source
// of an error must name the function that called the Factory method, whatever the name or import
// path of its package (this one is gerror/inner: a package that is NOT gtools' gerror but shares its name /
// has it on its path).
package inner

import "github.com/drshriveer/gtools/gerror"

// Call: a plain function.
func Call(f gerror.Factory, m int, format string, elems []any) gerror.Error {
	switch m {
	case 1:
		return f.SourceOnly()
	case 2:
		return f.Stack()
	case 5:
		return f.Msg(format, elems...)
	}
	return f.Base()
}

// Svc: a method.
type Svc struct{}

func (Svc) Handle(f gerror.Factory, m int, format string, elems []any) gerror.Error {
	switch m {
	case 1:
		return f.SourceOnly()
	case 2:
		return f.Stack()
	case 5:
		return f.Msg(format, elems...)
	}
	return f.Base()
}

// ViaValue derives through method values of the factory.
func ViaValue(f gerror.Factory, m int, format string, elems []any) gerror.Error {
	switch m {
	case 1:
		g := f.SourceOnly
		return g()
	case 2:
		g := f.Stack
		return g()
	case 5:
		g := f.Msg
		return g(format, elems...)
	}
	g := f.Base
	return g()
}
