// c15 — runs chains of the 19 gerror.Factory methods of the current tree from generated
// factories and records, after every step, the accessor values of the derived error, and the
// factory's accessor values after the chain.
//
//	c15 -seed N -out PREFIX -mode corpus|random|nearmiss|replay|conc [-n COUNT] [-in FILE]
//
// Every step of a chain is issued from its own call-site function (sites_gen.go), so the
// source gerror derives and the first frame of a stack identify the step that made them.
// mode conc additionally runs the generated chains from 16 goroutines against shared
// package-level factories and compares every goroutine's observations with the sequential
// ones (built with -race in the thorough tier); it writes PREFIX.conc.json.
package main

import (
	"encoding/json"
	"errors"
	"flag"
	"fmt"
	"math/rand/v2"
	"os"
	"strconv"
	"strings"
	"sync"
	"unicode/utf16"

	"github.com/drshriveer/gtools/gerror"

	"gtverif/internal/gal"
)

// ---------------------------------------------------------------- case description (JSON)

type elem struct {
	K string `json:"k"` // int | string | float | bool | nil
	V string `json:"v"`
}

type errDesc struct {
	Kind string `json:"kind"` // none | new | wrap | ptr | slice | map
	Msg  string `json:"msg"`
}

type stepDesc struct {
	M       string  `json:"m"`
	Src     string  `json:"src"`
	DTag    string  `json:"dtag"`
	Format  string  `json:"format"`
	Elems   []elem  `json:"elems"`
	Err     errDesc `json:"err"`
	Flavour int     `json:"flavour"`
	Site    int     `json:"site,omitempty"` // >= 36: one of the exotic call sites, used as is
	// FactoryOf: the result of this step is turned into a factory (gerror.FactoryOf) before the
	// chain continues from it ("a factory cloned from another"); the accessors must not change.
	FactoryOf bool `json:"factory_of,omitempty"`
	// recorded, not inputs:
	Rendered string `json:"rendered,omitempty"` // fmt.Sprintf(format, elems...)
	Orig     string `json:"orig,omitempty"`     // fmt.Sprintf("originalError: %+v", err)
}

type facDesc struct {
	Name  string `json:"name"`
	Msg   string `json:"msg"`
	Src   string `json:"src"`
	IsFac bool   `json:"isfac"` // made with FactoryOf (else a bare *GError)
}

type viewJ struct {
	Name  string `json:"name"`
	Msg   string `json:"msg"`
	Src   string `json:"src"`
	DTag  string `json:"dtag"`
	Stack int64  `json:"stack"` // -1: none; else the site id of the first frame (999999 unknown)
}

type caseJ struct {
	Kind     string     `json:"kind"`
	Fac      facDesc    `json:"fac"`
	Steps    []stepDesc `json:"steps"`
	Obs      []viewJ    `json:"obs"`
	FacAfter viewJ      `json:"fac_after"`
	Panic    string     `json:"panic,omitempty"`
	Changed  []int      `json:"changed_after_later_derivations,omitempty"`
}

type callArgs struct {
	Src, DTag, Format string
	Elems             []any
	Err               error
}

// ---------------------------------------------------------------- foreign errors

type ptrErr struct{ msg string }

func (e *ptrErr) Error() string { return e.msg }

type sliceErr []string

func (e sliceErr) Error() string { return strings.Join(e, "|") }

type mapErr map[string]int

func (e mapErr) Error() string { return fmt.Sprint(len(e)) }

func mkErr(d errDesc) error {
	switch d.Kind {
	case "new":
		return errors.New(d.Msg)
	case "wrap":
		return fmt.Errorf("wrapped %s: %w", d.Msg, errors.New(d.Msg))
	case "ptr":
		return &ptrErr{d.Msg}
	case "slice":
		return sliceErr{d.Msg, "x"}
	case "map":
		return mapErr{d.Msg: 1}
	}
	return nil
}

func mkElems(es []elem) []any {
	out := make([]any, len(es))
	for i, e := range es {
		switch e.K {
		case "int":
			v, _ := strconv.Atoi(e.V)
			out[i] = v
		case "float":
			v, _ := strconv.ParseFloat(e.V, 64)
			out[i] = v
		case "bool":
			out[i] = e.V == "true"
		case "nil":
			out[i] = nil
		default:
			out[i] = e.V
		}
	}
	return out
}

func methodIndex(name string) int {
	for i, m := range MethodNames {
		if m == name {
			return i
		}
	}
	return -1
}

// ---------------------------------------------------------------- running a chain

// siteID: step k of a chain is issued from sites[4*k+flavour], unless an exotic site is named.
func siteID(k int, s *stepDesc) int {
	if s.Site >= firstExotic && s.Site < len(sites) {
		return s.Site
	}
	return 4*(k%9) + s.Flavour%4
}

func siteOfFrame(name string) int64 {
	for i, s := range sites {
		if s.frame == name {
			return int64(i)
		}
	}
	return 999999
}

func viewOf(e gerror.Error) viewJ {
	v := viewJ{Name: e.ErrName(), Msg: e.ErrMessage(), Src: e.ErrSource(), DTag: e.ErrDetailTag(), Stack: -1}
	if st := e.ErrStack(); len(st) > 0 {
		v.Stack = siteOfFrame(st[0].Name)
	}
	return v
}

func mkFactory(d facDesc) gerror.Factory {
	g := &gerror.GError{Name: d.Name, Message: d.Msg, Source: d.Src}
	if d.IsFac {
		return gerror.FactoryOf(g)
	}
	return g
}

func argsOf(s *stepDesc) *callArgs {
	return &callArgs{Src: s.Src, DTag: s.DTag, Format: s.Format, Elems: mkElems(s.Elems), Err: mkErr(s.Err)}
}

// runChain executes the steps from the factory; step k is issued from sites[4*k+flavour].
// The history is a tree, not only a chain: after the chain, further errors are derived from
// EVERY intermediate value and from the factory (siblings of the chain's own successors), and
// only then are the intermediate values observed (obs[k] = accessor values of the k-th value after
// all later derivations); Reprobe lists the values whose accessors changed since they were made.
func runChain(f gerror.Factory, steps []stepDesc) (obs []viewJ, pan string) {
	obs, _, pan = runChainReprobe(f, steps)
	return obs, pan
}

func runChainReprobe(f gerror.Factory, steps []stepDesc) (obs []viewJ, changed []int, pan string) {
	defer func() {
		if r := recover(); r != nil {
			pan = fmt.Sprint(r)
		}
	}()
	cur := f
	var vals []gerror.Error
	var first []viewJ
	for k := range steps {
		s := &steps[k]
		a := argsOf(s)
		s.Rendered = fmt.Sprintf(s.Format, a.Elems...)
		s.Orig = fmt.Sprintf("originalError: %+v", a.Err)
		e := sites[siteID(k, s)].fn(cur, methodIndex(s.M), a)
		vals = append(vals, e)
		first = append(first, viewOf(e))
		obs = append(obs, first[k]) // replaced below; kept when a later step panics
		cur = e.(gerror.Factory)
		if s.FactoryOf {
			if g, ok := e.(*gerror.GError); ok {
				cur = gerror.FactoryOf(g)
			}
		}
	}
	// siblings: derive again from every earlier value, newest first and oldest first
	sib := func(p gerror.Factory, tag string) {
		p.DTag("sib-" + tag)
		p.Msg("  sibling %s ", tag)
		p.Stack()
		p.SrcDTagMsgS("sib:src", tag, "s")
		p.Convert(errors.New("sib " + tag)).(gerror.Factory).Convert(errors.New("sib2 " + tag))
		p.ConvertS(&ptrErr{"sib3 " + tag})
		p.Base()
	}
	for k := len(vals) - 1; k >= 0; k-- {
		sib(vals[k].(gerror.Factory), "down"+strconv.Itoa(k))
	}
	sib(f, "factory")
	for k := range vals {
		sib(vals[k].(gerror.Factory), "up"+strconv.Itoa(k))
	}
	for k, e := range vals {
		obs[k] = viewOf(e)
		if obs[k] != first[k] {
			changed = append(changed, k)
		}
	}
	return obs, changed, ""
}

// ---------------------------------------------------------------- Gallina rendering

func gstr(s string) string {
	rs := []rune(s)
	out := make([]string, len(rs))
	for i, r := range rs {
		out[i] = strconv.Itoa(int(r))
	}
	return "[" + strings.Join(out, ";") + "]"
}

func gview(v viewJ) string {
	st := "None"
	if v.Stack >= 0 {
		st = "(Some " + strconv.FormatInt(v.Stack, 10) + ")"
	}
	return "(mkV " + gstr(v.Name) + " " + gstr(v.Msg) + " " + gstr(v.Src) + " " + gstr(v.DTag) + " " + st + ")"
}

func gerrVal(d errDesc) string {
	switch d.Kind {
	case "new":
		return "(VF 1 true 1 VNil)"
	case "wrap":
		return "(VF 2 true 2 (VF 1 true 3 VNil))"
	case "ptr":
		return "(VF 3 true 4 VNil)"
	case "slice":
		return "(VF 4 false 5 VNil)"
	case "map":
		return "(VF 5 false 6 VNil)"
	}
	return "VNil"
}

func gstep(k int, s stepDesc) string {
	id := siteID(k, &s)
	return "(M" + s.M + ", mkA " + gstr(s.Src) + " " + gstr(s.DTag) + " " + gstr(s.Rendered) + " " +
		gerrVal(s.Err) + " " + gstr(s.Orig) + " " + strconv.Itoa(id) + " " + gstr(sites[id].derived) + ")"
}

func emit(out *gal.Out, kind string, fd facDesc, steps []stepDesc) caseJ {
	f := mkFactory(fd)
	obs, changed, pan := runChainReprobe(f, steps)
	after := viewOf(f.(gerror.Error))
	gs := make([]string, len(steps))
	fr := make([]string, len(steps))
	for k, s := range steps {
		gs[k] = gstep(k, s)
		fr[k] = gstr(sites[siteID(k, &steps[k])].frame)
	}
	g := "({| k_name := " + gstr(fd.Name) + "; k_msg := " + gstr(fd.Msg) + "; k_src := " + gstr(fd.Src) +
		"; k_isfac := " + gal.Bool(fd.IsFac) + "; k_steps := " + gal.List(gs) + "; k_frames := " + gal.List(fr) +
		"; k_obs := " + gal.ListOf(obs, gview) + "; k_fac_after := " + gview(after) + " |})%N"
	c := caseJ{kind, fd, steps, obs, after, pan, changed}
	out.Case(g, asciiJSON(c))
	return c
}

// asciiJSON marshals v with every non-ASCII rune escaped, so that the one-case-per-line files
// survive line splitting on U+0085, U+2028 and the like.
func asciiJSON(v any) json.RawMessage {
	b, err := json.Marshal(v)
	if err != nil {
		panic(err)
	}
	var sb strings.Builder
	for _, r := range string(b) {
		switch {
		case r < 0x80:
			sb.WriteRune(r)
		case r >= 0x10000:
			r1, r2 := utf16.EncodeRune(r)
			fmt.Fprintf(&sb, "\\u%04x\\u%04x", r1, r2)
		default:
			fmt.Fprintf(&sb, "\\u%04x", r)
		}
	}
	return json.RawMessage(sb.String())
}

// ---------------------------------------------------------------- generators

var spaces = []rune{' ', ' ', '\t', '\n', '\v', '\f', '\r', 0x85, 0xA0, 0x1680, 0x2000, 0x2003, 0x200A,
	0x2028, 0x2029, 0x202F, 0x205F, 0x3000}

// not white space for Go, though adjacent to or often mistaken for it
var nearSpaces = []rune{0x08, 0x0E, 0x1C, 0x1F, 0x84, 0x86, 0x9F, 0xA1, 0x167F, 0x1681, 0x180E, 0x1FFF,
	0x200B, 0x200C, 0x2027, 0x202A, 0x202E, 0x2060, 0x2FFF, 0x3001, 0xFEFF}

var letters = []rune("abcXYZ019_.:-/é世界😀ñ́")

var verbs = []string{"%d", "%s", "%v", "%%", "%+v", "%q", "%x", "%5.2f", "%", "%!", "%z", "%[2]d", "%*d"}

func pick[T any](r *rand.Rand, xs []T) T { return xs[r.IntN(len(xs))] }

func randWord(r *rand.Rand, near bool) string {
	n := 1 + r.IntN(6)
	var sb strings.Builder
	for i := 0; i < n; i++ {
		switch {
		case near && r.IntN(3) == 0:
			sb.WriteRune(pick(r, nearSpaces))
		case r.IntN(8) == 0:
			sb.WriteRune(pick(r, spaces)) // inner white space must survive
		default:
			sb.WriteRune(pick(r, letters))
		}
	}
	return sb.String()
}

func randSpaces(r *rand.Rand, max int) string {
	n := r.IntN(max + 1)
	var sb strings.Builder
	for i := 0; i < n; i++ {
		sb.WriteRune(pick(r, spaces))
	}
	return sb.String()
}

// randText: optional white-space padding around words; sometimes blank or empty.
func randText(r *rand.Rand, near bool) string {
	switch r.IntN(10) {
	case 0:
		return ""
	case 1:
		return randSpaces(r, 4)
	}
	s := randSpaces(r, 3)
	k := 1 + r.IntN(3)
	for i := 0; i < k; i++ {
		if i > 0 {
			s += pick(r, []string{" ", "  ", "\t", "\u3000", "-"})
		}
		s += randWord(r, near)
	}
	s += randSpaces(r, 3)
	if near {
		// a near-space rune at the very edge must not be trimmed
		if r.IntN(2) == 0 {
			s = string(pick(r, nearSpaces)) + s
		} else {
			s += string(pick(r, nearSpaces))
		}
		if r.IntN(2) == 0 {
			s = randSpaces(r, 2) + s + randSpaces(r, 2)
		}
	}
	return s
}

func randFormat(r *rand.Rand, near bool) (string, []elem) {
	s := randText(r, near)
	var es []elem
	nv := r.IntN(3)
	for i := 0; i < nv; i++ {
		v := pick(r, verbs)
		pos := r.IntN(len([]rune(s)) + 1)
		rs := []rune(s)
		s = string(rs[:pos]) + v + string(rs[pos:])
	}
	ne := r.IntN(3)
	if r.IntN(3) > 0 {
		ne = nv // mostly matching counts
	}
	for i := 0; i < ne; i++ {
		switch r.IntN(5) {
		case 0:
			es = append(es, elem{"int", strconv.Itoa(r.IntN(2000) - 1000)})
		case 1:
			es = append(es, elem{"string", randText(r, near)})
		case 2:
			es = append(es, elem{"float", strconv.FormatFloat(r.Float64()*100, 'f', 3, 64)})
		case 3:
			es = append(es, elem{"bool", strconv.FormatBool(r.IntN(2) == 0)})
		default:
			es = append(es, elem{"nil", ""})
		}
	}
	return s, es
}

func randTag(r *rand.Rand, near bool) string {
	switch r.IntN(6) {
	case 0:
		return ""
	case 1:
		return pick(r, []string{"-", " ", "a-b", "\t", "x y"})
	}
	return randWord(r, near)
}

func randSource(r *rand.Rand, near bool) string {
	switch r.IntN(5) {
	case 0, 1:
		return ""
	case 2:
		return pick(r, []string{" ", "pkg:Type:fn", "main:siteP0", "\u00a0"})
	}
	return randWord(r, near)
}

func randErr(r *rand.Rand) errDesc {
	kinds := []string{"none", "new", "new", "wrap", "ptr", "slice", "map"}
	return errDesc{pick(r, kinds), randWord(r, false)}
}

func randStep(r *rand.Rand, near bool) stepDesc {
	m := MethodNames[r.IntN(len(MethodNames))]
	if r.IntN(4) == 0 { // favour the message/tag/source carrying ones
		m = pick(r, []string{"Msg", "DTag", "Src", "SrcDTagMsg", "MsgS", "SrcS", "Base", "Stack"})
	}
	f, es := randFormat(r, near)
	return stepDesc{M: m, Src: randSource(r, near), DTag: randTag(r, near), Format: f, Elems: es,
		Err: randErr(r), Flavour: r.IntN(4)}
}

func randFactory(r *rand.Rand, near bool) facDesc {
	fd := facDesc{Name: "Err" + randWord(r, false), IsFac: r.IntN(3) > 0}
	if r.IntN(8) == 0 {
		fd.Name = ""
	}
	switch r.IntN(4) {
	case 0:
	case 1:
		fd.Msg = pick(r, []string{" ", "base ", " padded base  ", "\u2003"})
	default:
		fd.Msg = "base " + randWord(r, near)
	}
	if r.IntN(2) == 0 {
		fd.Src = pick(r, []string{"preset:Source", " ", "svc:" + randWord(r, false)})
	}
	return fd
}

func randCase(r *rand.Rand, near bool) (facDesc, []stepDesc) {
	n := r.IntN(9) // 0..8
	steps := make([]stepDesc, n)
	for i := range steps {
		steps[i] = randStep(r, near)
	}
	return randFactory(r, near), steps
}

func st(m string) stepDesc { return stepDesc{M: m, Err: errDesc{Kind: "none"}} }
func msg(m, f string, es ...elem) stepDesc {
	return stepDesc{M: m, Format: f, Elems: es, Err: errDesc{Kind: "none"}}
}

func corpus(out *gal.Out) {
	noMsg := facDesc{Name: "ErrBase", IsFac: true}
	// the four cases of the repository's TestCloneBase
	emit(out, "corpus", noMsg, []stepDesc{msg("Msg", "hi! blah")})
	emit(out, "corpus", noMsg, []stepDesc{msg("Msg", " hi! blah ")})
	emit(out, "corpus", noMsg, []stepDesc{msg("Msg", " hi! blah "), msg("Msg", "   \t bye! ")})
	emit(out, "corpus", noMsg, []stepDesc{msg("Msg", "     hi! blah  \n")})
	// tag joining, source precedence over several steps, stack persistence, Base
	full := facDesc{Name: "ErrFull", Msg: "base", IsFac: true}
	emit(out, "corpus", full, []stepDesc{
		{M: "DTag", DTag: "a", Err: errDesc{Kind: "none"}},
		{M: "SrcDTag", Src: "first", DTag: "b", Err: errDesc{Kind: "none"}},
		{M: "SrcS", Src: "second", Err: errDesc{Kind: "none"}},
		st("Stack"), st("Base"),
		msg("MsgS", "\u3000%d items\u2003", elem{"int", "3"}),
		{M: "Convert", Err: errDesc{Kind: "slice", Msg: "boom"}},
		{M: "ConvertS", Err: errDesc{Kind: "none"}}})
	emit(out, "corpus", facDesc{Name: "ErrBare", Msg: " ", Src: ""}, []stepDesc{
		st("Base"), st("Base"), msg("Msg", "\u00a0\u1680"), st("SourceOnly"),
		{M: "Src", Src: "late", Err: errDesc{Kind: "none"}}, st("Stack")})
	emit(out, "corpus", facDesc{Name: "", Msg: "", Src: "preset", IsFac: true}, []stepDesc{
		st("Stack"), {M: "SrcDTagMsgS", Src: "x", DTag: "t", Format: "100%", Err: errDesc{Kind: "none"}},
		msg("Msg", "%d %s", elem{"string", "oops"}), msg("Msg", "\u200b"), msg("Msg", "\ufeff x \u001f")})
	emit(out, "corpus", full, nil)
}

// shapes: the deterministic families a regression would most plausibly break.
func shapes(out *gal.Out) {
	none := errDesc{Kind: "none"}
	plain := facDesc{Name: "ErrShape", Msg: "base", IsFac: true}
	empty := facDesc{Name: "ErrShape", IsFac: true}
	one := func(m, src, dtag, format string, es ...elem) stepDesc {
		return stepDesc{M: m, Src: src, DTag: dtag, Format: format, Elems: es, Err: none}
	}
	// 1. white-space-only and Unicode-white-space extensions, one code point at a time
	// (all 25 code points of unicode.IsSpace)
	allSpaces := []rune{'\t', '\n', '\v', '\f', '\r', ' ', 0x85, 0xA0, 0x1680, 0x2028, 0x2029, 0x202F, 0x205F, 0x3000}
	for c := rune(0x2000); c <= 0x200A; c++ {
		allSpaces = append(allSpaces, c)
	}
	for _, c := range allSpaces {
		s := string(c)
		for _, f := range []facDesc{plain, empty, {Name: "ErrShape", Msg: s, IsFac: true}} {
			emit(out, "shape/blank", f, []stepDesc{one("Msg", "", "", s)})
			emit(out, "shape/blank", f, []stepDesc{one("Msg", "", "", s+s+"\t"), one("MsgS", "", "", "kept"+s+"inner"), one("Msg", "", "", s)})
			emit(out, "shape/blank", f, []stepDesc{one("SrcDTagMsg", "src", "t", s+"x"+s)})
		}
	}
	for _, c := range nearSpaces { // not white space: must be kept, also at the edges
		s := string(c)
		emit(out, "shape/nearblank", empty, []stepDesc{one("Msg", "", "", s), one("Msg", "", "", " "+s+" ")})
	}
	// 2. format verbs inside tags, sources and the base message are text, inside messages operands apply
	verbFac := facDesc{Name: "Err%d", Msg: "100% of %s", Src: "", IsFac: true}
	for _, v := range verbs {
		emit(out, "shape/verbs", verbFac, []stepDesc{one("DTag", "", v, ""), one("Src", "src"+v, "", ""),
			one("DTagMsg", "", v+"-"+v, "m "+v, elem{"int", "7"}), one("SrcDTagMsgS", v, v, v),
			one("Msg", "", "", v+" "+v, elem{"string", "op"}, elem{"int", "3"}, elem{"nil", ""})})
	}
	// 3. empty detail tag / source arguments change nothing
	for _, f := range []facDesc{plain, {Name: "ErrShape", Msg: "base", Src: "preset", IsFac: true}} {
		emit(out, "shape/empty", f, []stepDesc{one("DTag", "", "", ""), one("Src", "", "", ""), one("SrcDTag", "", "", ""),
			one("SrcDTagMsg", "", "", ""), one("DTag", "", "t", ""), one("DTagS", "", "", ""), one("SrcS", "", "", ""),
			one("DTag", "", "u", "")})
	}
	// 4. Src twice (and every pair of source-carrying methods): the first one wins
	srcMethods := []string{"Src", "SrcDTag", "SrcMsg", "SrcDTagMsg", "SrcS", "SrcDTagS", "SrcMsgS", "SrcDTagMsgS"}
	for _, m1 := range srcMethods {
		for _, m2 := range srcMethods {
			emit(out, "shape/srctwice", plain, []stepDesc{one(m1, "first", "a", "x"), one(m2, "second", "b", "y")})
			emit(out, "shape/srctwice", plain, []stepDesc{one("SourceOnly", "", "", ""), one(m1, "late", "", ""), one(m2, "later", "", "")})
			emit(out, "shape/srctwice", plain, []stepDesc{one("Base", "", "", ""), one(m1, "", "", ""), one(m2, "explicit", "", "")})
		}
	}
	// 5. a stack-taking method followed by Base (and by everything else): the stack persists
	for _, m1 := range []string{"Stack", "SrcS", "DTagS", "MsgS", "SrcDTagMsgS", "SrcDTagS", "SrcMsgS", "DTagMsgS", "ConvertS"} {
		for _, m2 := range MethodNames {
			s1 := stepDesc{M: m1, Src: "s", DTag: "t", Format: "f", Err: errDesc{Kind: "new", Msg: "e"}, Flavour: 1}
			s2 := stepDesc{M: m2, Src: "s2", DTag: "t2", Format: "f2", Err: errDesc{Kind: "ptr", Msg: "e2"}, Flavour: 2}
			emit(out, "shape/stackthen", empty, []stepDesc{s1, one("Base", "", "", ""), s2, one("Base", "", "", "")})
		}
	}
	// 6. a factory cloned from another factory: FactoryOf on a derived error, then further derivations
	for _, m1 := range MethodNames {
		s1 := stepDesc{M: m1, Src: "parent:src", DTag: "p", Format: " parent ", Err: errDesc{Kind: "new", Msg: "e"}, FactoryOf: true}
		s2 := stepDesc{M: "SrcDTagMsgS", Src: "child:src", DTag: "c", Format: "child", Err: none, FactoryOf: true}
		emit(out, "shape/subfactory", plain, []stepDesc{s1, s2, one("Msg", "", "", "leaf"), one("Base", "", "", "")})
		emit(out, "shape/subfactory", facDesc{Name: "ErrBare"}, []stepDesc{s1, one("Stack", "", "", ""), s2})
	}
}

// ---------------------------------------------------------------- concurrency

type concResult struct {
	Goroutines      int      `json:"goroutines"`
	Chains          int      `json:"chains"`
	Factories       int      `json:"factories"`
	Rounds          int      `json:"rounds"`
	Mismatches      int      `json:"mismatches"`
	FactoryChanged  int      `json:"factory_changed"`
	Panics          int      `json:"panics"`
	FirstMismatches []string `json:"first_mismatches,omitempty"`
}

// package-level factories shared by all goroutines (as programs using gerror have them)
var sharedFactories []gerror.Factory

func conc(r *rand.Rand, out *gal.Out, n, rounds int, prefix string) {
	const G = 16
	var coldBad []string
	facs := make([]facDesc, 8)
	for i := range facs {
		facs[i] = randFactory(r, false)
	}
	sharedFactories = make([]gerror.Factory, len(facs))
	before := make([]viewJ, len(facs))
	for i, fd := range facs {
		sharedFactories[i] = mkFactory(fd)
		before[i] = viewOf(sharedFactories[i].(gerror.Error))
	}
	type chain struct {
		fac   int
		steps []stepDesc
		want  []viewJ
	}
	chains := make([]chain, n)
	for i := range chains {
		_, steps := randCase(r, i%3 == 0)
		chains[i] = chain{fac: r.IntN(len(facs)), steps: steps}
	}
	// Cold start: the very first derivations of the process, one goroutine each, released together,
	// with NOTHING that synchronises goroutines around them (no fmt, no locks, no channels until
	// the end): lazily initialised package state (a cached package name, a memo of rendered frame
	// names) is written by one goroutine and read by another without any happens-before edge, which
	// the race detector reports whatever the scheduling.  The derived sources must agree too.
	{
		var cold sync.WaitGroup
		release := make(chan struct{})
		srcs := make([][2]string, G)
		for g := 0; g < G; g++ {
			cold.Add(1)
			go func(g int) {
				defer cold.Done()
				<-release
				f := sharedFactories[g%len(sharedFactories)]
				a, b := f.SourceOnly(), f.Stack()
				srcs[g] = [2]string{a.ErrSource(), b.ErrSource()}
			}(g)
		}
		close(release)
		cold.Wait()
		for g := range srcs {
			if facs[g%len(facs)].Src == "" && (srcs[g][0] != "main:conc" || srcs[g][1] != "main:conc") {
				coldBad = append(coldBad, fmt.Sprintf("goroutine %d: derived sources %q / %q, expected main:conc", g, srcs[g][0], srcs[g][1]))
			}
		}
	}
	// The CONCURRENT phase comes first: nothing has been derived in this process yet, so whatever
	// the package initialises lazily (caches in stack.go and friends) is first touched by 16
	// goroutines at once.  The sequential reference run follows; a pre-warmed process would hide
	// races and wrong results of first use.
	type rec struct {
		k   int
		got []viewJ
		pan string
	}
	results := make([][]rec, G)
	res := concResult{Goroutines: G, Chains: n, Factories: len(facs), Rounds: rounds}
	for _, m := range coldBad {
		res.Mismatches++
		if len(res.FirstMismatches) < 3 {
			res.FirstMismatches = append(res.FirstMismatches, "cold start: "+m)
		}
	}
	var wg sync.WaitGroup
	start := make(chan struct{})
	for g := 0; g < G; g++ {
		wg.Add(1)
		go func(g int) {
			defer wg.Done()
			<-start
			for round := 0; round < rounds; round++ {
				for k := range chains {
					ci := (k*7 + g*13 + round) % len(chains)
					c := &chains[ci]
					steps := append([]stepDesc(nil), c.steps...)
					got, pan := runChain(sharedFactories[c.fac], steps)
					results[g] = append(results[g], rec{ci, got, pan})
				}
			}
		}(g)
	}
	close(start)
	wg.Wait()
	// sequential reference run on a private factory of the same description: also emitted as an
	// ordinary case, so it is judged against model and spec
	for i := range chains {
		c := emit(out, "conc-seq", facs[chains[i].fac], chains[i].steps)
		chains[i].want = c.Obs
	}
	for g := range results {
		for _, rc := range results[g] {
			c := &chains[rc.k]
			bad := rc.pan != "" || len(rc.got) != len(c.want)
			for i := 0; !bad && i < len(rc.got); i++ {
				bad = rc.got[i] != c.want[i]
			}
			if bad {
				res.Mismatches++
				if rc.pan != "" {
					res.Panics++
				}
				if len(res.FirstMismatches) < 3 {
					b, _ := json.Marshal(map[string]any{"goroutine": g, "fac": facs[c.fac], "steps": c.steps, "got": rc.got, "want": c.want, "panic": rc.pan})
					res.FirstMismatches = append(res.FirstMismatches, string(b))
				}
			}
		}
	}
	for i := range facs {
		if viewOf(sharedFactories[i].(gerror.Error)) != before[i] {
			res.FactoryChanged++
		}
	}
	b, _ := json.Marshal(res)
	if err := os.WriteFile(prefix+".conc.json", b, 0o644); err != nil {
		panic(err)
	}
}

// ---------------------------------------------------------------- main

func main() {
	seed := flag.Uint64("seed", 1, "PRNG seed")
	prefix := flag.String("out", "c15", "output prefix")
	mode := flag.String("mode", "random", "corpus|random|nearmiss|sweep|shapes|exotic|replay|conc")
	n := flag.Int("n", 300, "number of cases")
	rounds := flag.Int("rounds", 3, "conc: how often every goroutine runs every chain")
	in := flag.String("in", "", "replay: JSON file with a list of {fac, steps}")
	flag.Parse()
	r := gal.NewRand(*seed)
	out := gal.NewOut(*prefix)
	defer out.Close()
	switch *mode {
	case "corpus":
		corpus(out)
	case "replay":
		b, err := os.ReadFile(*in)
		if err != nil {
			panic(err)
		}
		var cs []caseJ
		if err := json.Unmarshal(b, &cs); err != nil {
			panic(err)
		}
		for _, c := range cs {
			emit(out, "replay", c.Fac, c.Steps)
		}
	case "conc":
		conc(r, out, *n, *rounds, *prefix)
	case "sweep":
		// every ordered pair of the 19 methods as a two-step chain, from n of the 4 factory presets
		presets := []facDesc{{Name: "ErrS", IsFac: true}, {Name: "ErrS", Msg: "base", Src: "preset:src", IsFac: true},
			{Name: "ErrS", Msg: "base"}, {Name: "", Src: "preset:src", IsFac: true}}
		for pi := 0; pi < *n && pi < len(presets); pi++ {
			for i, m1 := range MethodNames {
				for j, m2 := range MethodNames {
					s1 := stepDesc{M: m1, Src: "s1", DTag: "t1", Format: " f1\t", Err: errDesc{Kind: "new", Msg: "e1"}, Flavour: i % 4}
					s2 := stepDesc{M: m2, Src: "s2", DTag: "t2", Format: "f%d", Elems: []elem{{"int", "2"}}, Err: errDesc{Kind: "slice", Msg: "e2"}, Flavour: j % 4}
					emit(out, "sweep", presets[pi], []stepDesc{s1, s2})
				}
			}
		}
	case "shapes":
		shapes(out)
	case "exotic":
		// less usual frame-name shapes: one step from a source-less factory
		for id := firstExotic; id < len(sites); id++ {
			for _, m := range []string{"SourceOnly", "Stack", "Msg", "Base"} {
				emit(out, "exotic", facDesc{Name: "ErrE", Msg: "m", IsFac: true},
					[]stepDesc{{M: m, Format: "x", Err: errDesc{Kind: "none"}, Site: id}})
			}
		}
	case "nearmiss":
		for i := 0; i < *n; i++ {
			fd, steps := randCase(r, true)
			emit(out, "nearmiss", fd, steps)
		}
	default:
		for i := 0; i < *n; i++ {
			fd, steps := randCase(r, false)
			emit(out, "random", fd, steps)
		}
	}
}
