// genumfarm — generator farm for the genum properties C04, C05, C12.
//
// Draws enum definition files (or loads them from -defs), writes each as its own package of a
// scratch module, runs the real genum CLI built from the scratch copy of the current tree on
// every package (in parallel), compiles all outputs once together with a generated observer,
// runs it, and writes one case per enum type: the definition, the options, the outcome
// (generated / generator error / compile error) and the observed behaviour.
//
//	genumfarm -seed N -out PREFIX -mode c04|c05|c12 -n FILES -repo DIR -work DIR -gosum FILE [-defs FILE] [-corpus]
//
// Order of the definition files of a run: those of -defs, the built-in corpus (-corpus), -n random ones.
package main

import (
	_ "embed"
	"encoding/json"
	"flag"
	"fmt"
	"os"
	"os/exec"
	"path/filepath"
	"regexp"
	"sort"
	"strings"
	"sync"
	"time"

	"gtverif/internal/gal"
)

//go:embed dumplib.go.txt
var dumplibSrc string

type farm struct {
	work, repo, dir, genum string
	env                    []string
}

func must(err error) {
	if err != nil {
		fmt.Fprintln(os.Stderr, "genumfarm:", err)
		os.Exit(2)
	}
}

func (f *farm) run(dir string, timeout time.Duration, name string, args ...string) (string, error) {
	cmd := exec.Command(name, args...)
	cmd.Dir = dir
	cmd.Env = append(append([]string{}, f.env...), "PWD="+dir)
	done := make(chan struct{})
	var out []byte
	var err error
	go func() { out, err = cmd.CombinedOutput(); close(done) }()
	select {
	case <-done:
	case <-time.After(timeout):
		if cmd.Process != nil {
			cmd.Process.Kill()
		}
		<-done
		return string(out), fmt.Errorf("timeout")
	}
	return string(out), err
}

func (f *farm) setup(gosum string) {
	f.dir = filepath.Join(f.work, "farm")
	must(os.MkdirAll(filepath.Join(f.dir, "dumplib"), 0o755))
	must(os.MkdirAll(filepath.Join(f.dir, "cmd", "dump"), 0o755))
	mods := []string{"genum", "gencommon", "set", "rutils"}
	var b strings.Builder
	b.WriteString("module farm\n\ngo 1.23.0\n\nrequire (\n")
	for _, m := range mods {
		fmt.Fprintf(&b, "\tgithub.com/drshriveer/gtools/%s v0.0.0\n", m)
	}
	b.WriteString(")\n\n")
	for _, m := range mods {
		fmt.Fprintf(&b, "replace github.com/drshriveer/gtools/%s => %s\n", m, filepath.Join(f.repo, m))
	}
	must(os.WriteFile(filepath.Join(f.dir, "go.mod"), []byte(b.String()), 0o644))
	sum, err := os.ReadFile(gosum)
	must(err)
	must(os.WriteFile(filepath.Join(f.dir, "go.sum"), sum, 0o644))
	must(os.WriteFile(filepath.Join(f.dir, "dumplib", "dumplib.go"), []byte(dumplibSrc), 0o644))
	f.env = os.Environ()
	for _, kv := range []string{"GOWORK=off", "GOFLAGS=-mod=mod", "GOPROXY=off", "GOSUMDB=off", "GOTOOLCHAIN=local", "CGO_ENABLED=0"} {
		f.env = append(f.env, kv)
	}
	f.genum = filepath.Join(f.work, "bin", "genum")
	out, err := f.run(f.dir, 10*time.Minute, "go", "build", "-o", f.genum, "github.com/drshriveer/gtools/genum/cmd/genum")
	if err != nil {
		fmt.Fprintln(os.Stderr, "genumfarm: building the genum CLI from the scratch copy failed:\n"+out)
		os.Exit(3)
	}
}

// result of one package
type pkgResult struct {
	GenOK    bool
	Wrote    bool // the CLI failed but left an output file
	GenLog   string
	BuildOK  bool
	BuildLog string
	Enums    map[string]*enumOut // by type name
}

func cliArgs(fd *FileDef, in string) []string {
	types := make([]string, len(fd.Enums))
	for i, e := range fd.Enums {
		types[i] = e.Type
	}
	args := []string{"-in", in, "-types=" + strings.Join(types, ",")}
	if !fd.Opts.JSON {
		args = append(args, "-json=false")
	}
	if !fd.Opts.YAML {
		args = append(args, "-yaml=false")
	}
	if !fd.Opts.Text {
		args = append(args, "-text=false")
	}
	if fd.Opts.CI {
		args = append(args, "-caseInsensitive")
	}
	if fd.Opts.NoTraits {
		args = append(args, "-disableTraits")
	}
	if len(fd.Opts.Parsable) > 0 {
		args = append(args, "-parsableByTraits="+strings.Join(fd.Opts.Parsable, ","))
	}
	return args
}

func parallel(n, workers int, fn func(i int)) {
	var wg sync.WaitGroup
	ch := make(chan int)
	for w := 0; w < workers; w++ {
		wg.Add(1)
		go func() {
			defer wg.Done()
			for i := range ch {
				fn(i)
			}
		}()
	}
	for i := 0; i < n; i++ {
		ch <- i
	}
	close(ch)
	wg.Wait()
}

var pkgErrRe = regexp.MustCompile(`(?m)^(?:# farm/|\./|farm/)?(p\d+)(?:/|\s|$)`)

func failingPkgs(log string) map[string]bool {
	out := map[string]bool{}
	for _, m := range pkgErrRe.FindAllStringSubmatch(log, -1) {
		out[m[1]] = true
	}
	return out
}

func pkgLog(log, pkg string) string {
	var keep []string
	for _, l := range strings.Split(log, "\n") {
		if strings.Contains(l, pkg+"/") || strings.Contains(l, "farm/"+pkg) {
			keep = append(keep, l)
		}
	}
	if len(keep) > 12 {
		keep = keep[:12]
	}
	return strings.Join(keep, "\n")
}

func (f *farm) process(files []FileDef, mode string, plan map[string]*enumPlan) []pkgResult {
	res := make([]pkgResult, len(files))
	t0 := time.Now()
	lap := func(what string) {
		fmt.Fprintf(os.Stderr, "genumfarm: %-28s %6.1fs\n", what, time.Since(t0).Seconds())
		t0 = time.Now()
	}
	// 1. sources
	for i := range files {
		fd := &files[i]
		dir := filepath.Join(f.dir, fd.Pkg)
		must(os.MkdirAll(dir, 0o755))
		fd.Source = render(fd)
		must(os.WriteFile(filepath.Join(dir, "defs.go"), []byte(fd.Source), 0o644))
		if fd.uses("pkg.") {
			must(os.WriteFile(filepath.Join(dir, "aux.go"), []byte(auxSource(fd.Pkg)), 0o644))
		}
	}
	// 2. auxiliary enums (trait types that bring their own unmarshalers) are generated first
	parallel(len(files), 16, func(i int) {
		fd := &files[i]
		if !fd.uses("pkg.Aux") {
			return
		}
		dir := filepath.Join(f.dir, fd.Pkg)
		out, err := f.run(dir, 2*time.Minute, f.genum, "-in", filepath.Join(dir, "aux.go"), "-types=AuxA,AuxB")
		if err != nil {
			fmt.Fprintln(os.Stderr, "genumfarm: generating the auxiliary enums failed:\n"+out)
			os.Exit(3)
		}
	})
	lap("auxiliary enums")
	// 3. the CLI under test
	parallel(len(files), 16, func(i int) {
		fd := &files[i]
		dir := filepath.Join(f.dir, fd.Pkg)
		out, err := f.run(dir, 2*time.Minute, f.genum, cliArgs(fd, filepath.Join(dir, "defs.go"))...)
		res[i].GenOK = err == nil
		res[i].GenLog = tail(out, 1500)
		if err == nil {
			if _, serr := os.Stat(filepath.Join(dir, "defs.genum.go")); serr != nil {
				res[i].GenOK = false
				res[i].GenLog += "\n(no output file written)"
			}
		} else if _, serr := os.Stat(filepath.Join(dir, "defs.genum.go")); serr == nil {
			// a refused definition must not leave an output file behind
			res[i].Wrote = true
			os.Remove(filepath.Join(dir, "defs.genum.go"))
		}
	})
	lap("genum CLI runs")
	// 4. compile the generated packages as they are (attributes compile errors to the generator's output)
	var okPkgs []string
	idx := map[string]int{}
	for i := range files {
		idx[files[i].Pkg] = i
		if res[i].GenOK {
			okPkgs = append(okPkgs, "./"+files[i].Pkg)
			res[i].BuildOK = true
		}
	}
	for round := 0; round < 6 && len(okPkgs) > 0; round++ {
		out, err := f.run(f.dir, 15*time.Minute, "go", append([]string{"build"}, okPkgs...)...)
		if err == nil {
			break
		}
		bad := failingPkgs(out)
		if len(bad) == 0 {
			fmt.Fprintln(os.Stderr, "genumfarm: go build of the farm failed without a package attribution:\n"+tail(out, 3000))
			os.Exit(3)
		}
		var next []string
		for _, p := range okPkgs {
			name := strings.TrimPrefix(p, "./")
			if bad[name] {
				res[idx[name]].BuildOK = false
				res[idx[name]].BuildLog = pkgLog(out, name)
			} else {
				next = append(next, p)
			}
		}
		okPkgs = next
	}
	lap("go build of the outputs")
	// 5. observers
	var mainImports, mainCalls []string
	for i := range files {
		fd := &files[i]
		if !res[i].GenOK || !res[i].BuildOK {
			continue
		}
		must(os.WriteFile(filepath.Join(f.dir, fd.Pkg, "zz_dump.go"), []byte(dumpSource(fd)), 0o644))
		mainImports = append(mainImports, fmt.Sprintf("\t%q", "farm/"+fd.Pkg))
		mainCalls = append(mainCalls, fmt.Sprintf("\tcall(%q, %s.DumpAll, s)", fd.Pkg, fd.Pkg))
	}
	if len(mainCalls) > 0 {
		src := "package main\n\nimport (\n\t\"os\"\n\n\t\"farm/dumplib\"\n" + strings.Join(mainImports, "\n") + "\n)\n\n" +
			"var only = map[string]bool{}\n\nfunc call(name string, f func(*dumplib.Sink), s *dumplib.Sink) {\n\tif len(only) > 0 && !only[name] {\n\t\treturn\n\t}\n\tdefer func() {\n\t\tif r := recover(); r != nil {\n\t\t\tos.Stderr.WriteString(\"dump panic\\n\")\n\t\t}\n\t}()\n\tf(s)\n}\n\n" +
			"func main() {\n\tfor _, a := range os.Args[3:] {\n\t\tonly[a] = true\n\t}\n\ts := dumplib.NewSink(os.Args[1], os.Args[2])\n" + strings.Join(mainCalls, "\n") + "\n\ts.Close()\n}\n"
		must(os.WriteFile(filepath.Join(f.dir, "cmd", "dump", "main.go"), []byte(src), 0o644))
		pb, err := json.Marshal(plan)
		must(err)
		planPath := filepath.Join(f.work, "plan.json")
		must(os.WriteFile(planPath, pb, 0o644))
		bin := filepath.Join(f.work, "bin", "dump")
		out, err := f.run(f.dir, 15*time.Minute, "go", "build", "-o", bin, "./cmd/dump")
		if err != nil {
			fmt.Fprintln(os.Stderr, "genumfarm: building the observer failed (harness defect):\n"+tail(out, 4000))
			os.Exit(3)
		}
		lap("go build of the observer")
		outPath := filepath.Join(f.work, "dump.jsonl")
		// watchdog: an observer that hangs (unbounded loop in generated code) is killed and treated like one that died
		out, err = f.run(f.work, 4*time.Minute, bin, planPath, outPath)
		var data []byte
		if err != nil {
			// the observer died (a fatal error of generated code — e.g. unbounded recursion — cannot be recovered
			// in-process): observe every package in a process of its own; a package whose observer dies has
			// no observations (outcome observer_failed), the others are judged as usual
			fmt.Fprintln(os.Stderr, "genumfarm: observer run failed, observing package by package:\n"+head(out, 600))
			var mu sync.Mutex
			var pkgs []int
			for i := range files {
				if res[i].GenOK && res[i].BuildOK {
					pkgs = append(pkgs, i)
				}
			}
			parallel(len(pkgs), 8, func(k int) {
				i := pkgs[k]
				op := filepath.Join(f.work, "dump-"+files[i].Pkg+".jsonl")
				o, e := f.run(f.work, 90*time.Second, bin, planPath, op, files[i].Pkg)
				mu.Lock()
				defer mu.Unlock()
				if e != nil {
					res[i].BuildLog = "observer process died or hung (" + e.Error() + "): " + head(o, 400)
					return
				}
				if b, rerr := os.ReadFile(op); rerr == nil {
					data = append(data, b...)
				}
			})
		} else {
			data, err = os.ReadFile(outPath)
			must(err)
		}
		lap("observer run")
		for _, line := range strings.Split(string(data), "\n") {
			if strings.TrimSpace(line) == "" {
				continue
			}
			var eo enumOut
			must(json.Unmarshal([]byte(line), &eo))
			parts := strings.SplitN(eo.Key, ".", 2)
			i := idx[parts[0]]
			if res[i].Enums == nil {
				res[i].Enums = map[string]*enumOut{}
			}
			e := eo
			res[i].Enums[parts[1]] = &e
		}
	}
	return res
}

func head(s string, n int) string {
	if len(s) > n {
		return s[:n]
	}
	return s
}

func tail(s string, n int) string {
	if len(s) > n {
		return s[len(s)-n:]
	}
	return s
}

// dumpSource writes the package's observer file.
func dumpSource(fd *FileDef) string {
	var b strings.Builder
	fmt.Fprintf(&b, "package %s\n\nimport \"farm/dumplib\"\n\n// DumpAll observes every enum of the package.\nfunc DumpAll(zzSinkParam0 *dumplib.Sink) {\n", fd.Pkg)
	for _, e := range fd.Enums {
		fmt.Fprintf(&b, "\tdumplib.DumpEnum[%s](zzSinkParam0, %q, Parse%s, []dumplib.NamedConst[%s]{\n", e.Type, fd.Pkg+"."+e.Type, e.Type, e.Type)
		for _, c := range e.Consts {
			fmt.Fprintf(&b, "\t\t{%q, %s},\n", c.Name, c.Name)
		}
		fmt.Fprintf(&b, "\t}, []dumplib.Accessor[%s]{\n", e.Type)
		if !fd.Opts.NoTraits {
			for _, col := range columnsOf(&e) {
				fmt.Fprintf(&b, "\t\t{%q, func(e %s) any { return e.%s() }},\n", col, e.Type, col)
			}
		}
		b.WriteString("\t}, []dumplib.Native{\n")
		for _, t := range e.Types {
			if t.JSONOwn || t.YAMLOwn || t.TextOwn {
				fmt.Fprintf(&b, "\t\tdumplib.NativeOf[%s](%q),\n", t.Ref, t.Ty)
			}
		}
		b.WriteString("\t})\n")
	}
	b.WriteString("}\n")
	return b.String()
}

// ---------------------------------------------------------------- main

func main() {
	seed := flag.Uint64("seed", 1, "PRNG seed")
	prefix := flag.String("out", "genumfarm", "output prefix")
	mode := flag.String("mode", "c04", "c04|c05|c12")
	n := flag.Int("n", 40, "number of random definition files")
	repo := flag.String("repo", "", "scratch copy of the repository")
	work := flag.String("work", "", "scratch working directory")
	gosum := flag.String("gosum", "", "go.sum for the farm module")
	defsPath := flag.String("defs", "", "JSON file with a list of definition files to run before the corpus / random ones")
	corpus := flag.Bool("corpus", false, "prepend the fixed corpus")
	wide := flag.Bool("wide", false, "widened search: sizes, shapes and names beyond the ordinary generator's caps")
	steerArg := flag.String("steer", "", "comma-separated integer literals of the source under test (sizes and values to aim at)")
	flag.Parse()
	if *repo == "" || *work == "" || *gosum == "" {
		must(fmt.Errorf("-repo, -work and -gosum are required"))
	}
	wideMode = *wide
	for _, x := range strings.Split(*steerArg, ",") {
		var v int64
		if _, err := fmt.Sscan(strings.TrimSpace(x), &v); err == nil {
			steer = append(steer, v)
		}
	}
	r := gal.NewRand(*seed)
	var files []FileDef
	if *defsPath != "" {
		// definitions given by the driver (stored corpus, minimisation candidates, replay): run first
		b, err := os.ReadFile(*defsPath)
		must(err)
		must(json.Unmarshal(b, &files))
	}
	if *corpus {
		files = append(files, corpusFiles(*mode)...)
	}
	for i := 0; i < *n; i++ {
		files = append(files, randomFile(r, *mode))
	}
	for i := range files {
		files[i].Pkg = fmt.Sprintf("p%04d", i)
		markReserved(&files[i])
		tagParsable(&files[i])
	}
	plan := map[string]*enumPlan{}
	for i := range files {
		for j := range files[i].Enums {
			plan[files[i].Pkg+"."+files[i].Enums[j].Type] = planFor(r, &files[i], &files[i].Enums[j], *mode)
		}
	}
	f := &farm{work: *work, repo: *repo}
	f.setup(*gosum)
	res := f.process(files, *mode, plan)
	out := gal.NewOut(*prefix)
	defer out.Close()
	for i := range files {
		for j := range files[i].Enums {
			emitCase(out, *mode, &files[i], j, &res[i], plan[files[i].Pkg+"."+files[i].Enums[j].Type])
		}
	}
	_ = sort.Strings
}
