package main

import (
	"fmt"
	"math/big"
	"math/rand/v2"
	"sort"
	"strconv"
)

// colKind describes one kind of trait column of the quantified space.
type colKind struct {
	id    string
	ty    string // dynamic type id (dumplib naming: farm package types are "pkg.X")
	bkind string
	own   bool   // brings its own JSON/YAML/text unmarshalers
	ref   string // how the type is written inside the package
	pk    string // payload kind: str | int | bool
	lo    int64  // integer range used when drawing values
	hi    int64
}

var colKinds = []colKind{
	{id: "ustr", ty: "string", bkind: "BUntypedString", pk: "str", ref: "string"},
	{id: "tstr", ty: "string", bkind: "BString", pk: "str", ref: "string"},
	{id: "Str", ty: "pkg.Str", bkind: "BString", pk: "str", ref: "Str"},
	{id: "uint_", ty: "int", bkind: "BUntypedInt", pk: "int", ref: "int", lo: -50, hi: 5000},
	{id: "tint", ty: "int", bkind: "BInt", pk: "int", ref: "int", lo: -1 << 40, hi: 1 << 40},
	{id: "int64", ty: "int64", bkind: "BInt64", pk: "int", ref: "int64", lo: -1 << 61, hi: 1 << 61},
	{id: "uint64", ty: "uint64", bkind: "BUint64", pk: "int", ref: "uint64", lo: 0, hi: 1 << 62},
	{id: "uint", ty: "uint", bkind: "BUint", pk: "int", ref: "uint", lo: 0, hi: 100000},
	{id: "Num", ty: "pkg.Num", bkind: "BInt", pk: "int", ref: "Num", lo: -100, hi: 100000},
	{id: "dur", ty: "time.Duration", bkind: "BInt64", pk: "int", ref: "tm.Duration", lo: 0, hi: 7200},
	{id: "int8", ty: "int8", bkind: "BInt8", pk: "int", ref: "int8", lo: -128, hi: 127},
	{id: "uint8", ty: "uint8", bkind: "BUint8", pk: "int", ref: "uint8", lo: 0, hi: 255},
	{id: "int32", ty: "int32", bkind: "BInt32", pk: "int", ref: "int32", lo: -1 << 31, hi: 1<<31 - 1},
	{id: "uint16", ty: "uint16", bkind: "BUint16", pk: "int", ref: "uint16", lo: 0, hi: 65535},
	{id: "int16", ty: "int16", bkind: "BInt16", pk: "int", ref: "int16", lo: -32768, hi: 32767},
	{id: "uint32", ty: "uint32", bkind: "BUint32", pk: "int", ref: "uint32", lo: 0, hi: 1<<32 - 1},
	{id: "urune", ty: "int32", bkind: "BUntypedRune", pk: "int", ref: "rune", lo: 'a', hi: 'z'},
	{id: "trune", ty: "int32", bkind: "BInt32", pk: "int", ref: "rune", lo: 'A', hi: 'Z'},
	{id: "ubool", ty: "bool", bkind: "BUntypedBool", pk: "bool", ref: "bool"},
	{id: "tbool", ty: "bool", bkind: "BBool", pk: "bool", ref: "bool"},
	{id: "AuxA", ty: "pkg.AuxA", bkind: "BInt", own: true, pk: "int", ref: "AuxA", lo: 0, hi: 47},
	{id: "AuxB", ty: "pkg.AuxB", bkind: "BUint8", own: true, pk: "int", ref: "AuxB", lo: 0, hi: 47},
}

func kindByID(id string) colKind {
	for _, k := range colKinds {
		if k.id == id {
			return k
		}
	}
	panic(id)
}

// cellOf renders a cell of kind k holding the given value.
func cellOf(k colKind, varName string, s string, i int64, b bool) Cell {
	c := Cell{Var: varName, Ty: k.ty, Kind: k.pk}
	switch k.pk {
	case "str":
		c.Str = s
		q := strconv.Quote(s)
		switch k.id {
		case "ustr":
			c.Expr = q
		case "tstr":
			c.Expr = "string(" + q + ")"
		default:
			c.Expr = "Str(" + q + ")"
		}
	case "bool":
		c.Bool = b
		c.Expr = strconv.FormatBool(b)
		if k.id == "tbool" {
			c.Expr = "bool(" + c.Expr + ")"
		}
	default:
		return cellInt(k, varName, big.NewInt(i))
	}
	return c
}

// cellInt renders an integer cell of kind k holding v (any magnitude the kind's type admits).
func cellInt(k colKind, varName string, v *big.Int) Cell {
	c := Cell{Var: varName, Ty: k.ty, Kind: k.pk}
	c.Int = v.String()
	switch k.id {
	case "uint_":
		c.Expr = c.Int
	case "urune":
		c.Expr = "'" + string(rune(v.Int64())) + "'"
	case "trune":
		c.Expr = "rune('" + string(rune(v.Int64())) + "')"
	case "dur":
		i := v.Int64()
		if i%2 == 0 {
			c.Expr = fmt.Sprintf("%d * tm.Second", i)
			c.Int = strconv.FormatInt(i*1000000000, 10)
		} else {
			c.Expr = fmt.Sprintf("tm.Duration(%d)", i)
		}
	case "AuxA", "AuxB":
		c.Expr = fmt.Sprintf("%s%s", k.id, v.String())
	default:
		c.Expr = fmt.Sprintf("%s(%s)", k.ref, v.String())
	}
	return c
}

// typeBounds gives the extremes of the integer type behind a column kind (ok = false for the
// kinds whose cells are not free-form integer literals: runes, Duration, other enums).
func typeBounds(k colKind) (lo, hi *big.Int, ok bool) {
	switch k.id {
	case "urune", "trune", "dur", "AuxA", "AuxB":
		return nil, nil, false
	}
	if k.pk != "int" {
		return nil, nil, false
	}
	bits, signed := 64, true
	switch k.bkind {
	case "BUntypedInt", "BInt", "BInt64":
	case "BUint", "BUint64":
		signed = false
	case "BInt8":
		bits = 8
	case "BInt16":
		bits = 16
	case "BInt32":
		bits = 32
	case "BUint8":
		bits, signed = 8, false
	case "BUint16":
		bits, signed = 16, false
	case "BUint32":
		bits, signed = 32, false
	default:
		return nil, nil, false
	}
	u := under{"", signed, bits}
	return tyMin(u), tyMax(u), true
}

// boundaryValues are the values of an integer trait type where the decoders' 64-bit readings and
// the wrap-around checks change behaviour: the type's extremes and their neighbours, the
// int64/uint64 seam 2^63, and -1 / 0.
func boundaryValues(k colKind) []*big.Int {
	lo, hi, ok := typeBounds(k)
	if !ok {
		return nil
	}
	var out []*big.Int
	add := func(v *big.Int) {
		if v.Cmp(lo) >= 0 && v.Cmp(hi) <= 0 {
			out = append(out, v)
		}
	}
	add(lo)
	add(hi)
	add(new(big.Int).Add(lo, bigOf(1)))
	add(new(big.Int).Sub(hi, bigOf(1)))
	seam := new(big.Int).Lsh(bigOf(1), 63)
	add(seam)
	add(new(big.Int).Sub(seam, bigOf(1)))
	add(new(big.Int).Add(seam, bigOf(1)))
	add(bigOf(-1))
	add(bigOf(0))
	half := new(big.Int).Rsh(new(big.Int).Add(new(big.Int).Sub(hi, lo), bigOf(1)), 1)
	add(half) // 2^(bits-1): the sign seam of the narrow types
	return out
}

func typeInfoOf(k colKind) TypeInfo {
	return TypeInfo{Ty: k.ty, BKind: k.bkind, JSONOwn: k.own, YAMLOwn: k.own, TextOwn: k.own, Ref: k.ref}
}

// escapeProne are prefixes of trait strings whose JSON (and partly YAML) rendering needs escapes.
var escapeProne = []string{"q\"", "b\\", "t\t", "<x>", "a&", "\u00e9", "\u2028", "\"\\<&>\t\u00fc", "'", "#", ": "}

// yamlSignificant are string trait values whose plain YAML scalar has a non-string tag (or is
// otherwise special): the decoders must still read them as the strings they are.
var yamlSignificant = []string{"404", "1.1", "0x1F", "1e3", ".5", "-7", "+3", "007", "0o17", "1_000", "0b101",
	"true", "false", "True", "FALSE", "null", "Null", "~", "yes", "No", "on", "OFF", "y", "N", ".inf", "-.Inf", ".nan",
	"2001-01-01", "12:30:45", "1 ", " 1", "", "<<", "=", "9223372036854775808", "-9223372036854775809", "1e400"}

var methodNames = []string{"string", "isvalid", "values", "stringvalues", "parsestring", "parsegeneric", "isenum",
	"marshaljson", "unmarshaljson", "marshaltext", "unmarshaltext", "marshalyaml", "unmarshalyaml", "str", "num",
	"auxa", "auxb"}

func newNamer(r *rand.Rand) *namer {
	nm := &namer{r: r, used: map[string]bool{}}
	for _, m := range methodNames {
		nm.used[m] = true
	}
	for i := 0; i < 8; i++ {
		nm.used[fmt.Sprintf("e%d", i)] = true // the enum type names E0, E1, …
	}
	for i := 0; i < 48; i++ {
		nm.used[fmt.Sprintf("auxa%d", i)] = true
		nm.used[fmt.Sprintf("auxb%d", i)] = true
	}
	return nm
}

// traitSpec says how a trait enum is drawn.
type traitSpec struct {
	kinds        []string // admissible column kinds
	maxCols      int
	maxConsts    int
	dupCells     int // percent chance of a duplicate line that carries trait cells
	dupNoCells   int // percent chance of duplicate lines without cells
	plainNoCells int // percent chance of a non-duplicate line without cells
	namedCells   int // percent chance that a later line binds its cells to names
}

// genTraitEnum draws one enum with trait columns.  Returns the enum and, per column, whether
// its values are pairwise distinct over the primary lines (candidates for -parsableByTraits).
func genTraitEnum(r *rand.Rand, nm *namer, typeName string, nextBlock *int, sp traitSpec) (EnumDef, []string) {
	u := underlyings[r.IntN(len(underlyings))]
	e := EnumDef{Type: typeName, Under: u.name, Signed: u.signed, Bits: u.bits}
	shape := map[string]bool{"traits": true}
	if wideMode {
		sp.maxCols, sp.maxConsts = 8, 45
	}
	n := 1 + r.IntN(sp.maxConsts)
	ncols := 1 + r.IntN(sp.maxCols)
	cols := make([]colKind, ncols)
	colNames := make([]string, ncols)
	colVars := make([]string, ncols)
	kindOfTy := map[string]string{}
	for j := range cols {
		for {
			cols[j] = kindByID(sp.kinds[r.IntN(len(sp.kinds))])
			if bk, ok := kindOfTy[cols[j].ty]; !ok || bk == cols[j].bkind {
				kindOfTy[cols[j].ty] = cols[j].bkind
				break
			}
		}
		name := nm.fresh(7)
		for !cellIdentOK(name) {
			name = nm.fresh(7)
		}
		colNames[j] = name
		if r.IntN(3) > 0 {
			colVars[j] = "_" + name
		} else {
			colVars[j] = name
		}
		shape["col_"+cols[j].id] = true
	}
	// distinct enum values: a run from a small start, sometimes negative / sparse
	start := int64(0)
	if u.signed && r.IntN(3) == 0 {
		start = -int64(r.IntN(4))
	}
	step := int64(1)
	if r.IntN(4) == 0 {
		step = int64(2 + r.IntN(3))
	}
	useIota := step == 1 && start == 0 && r.IntN(2) == 0
	// per-column value pools (pairwise distinct within a column with high probability)
	usedStr := map[string]bool{}
	drawStr := func() string {
		for {
			var s string
			switch r.IntN(7) {
			case 0:
				s = strconv.Itoa(r.IntN(40)) // numeric-looking string
			case 6:
				// spellings that YAML resolves to something other than a string when written plain
				// (numbers in several notations, booleans, null, timestamps) and the empty string
				s = yamlSignificant[r.IntN(len(yamlSignificant))]
			case 1:
				s = "tv-" + randWord(r)
			case 2:
				// characters that encoding/json escapes (quote, backslash, control characters, <, >, &,
				// U+2028) and non-ASCII: the JSON form of the value differs from the value
				s = escapeProne[r.IntN(len(escapeProne))] + randWord(r)
			default:
				s = "t." + randWord(r)
			}
			if !usedStr[s] {
				usedStr[s] = true
				return s
			}
		}
	}
	type colState struct {
		ints     map[string]bool
		distinct bool
		nbool    int
	}
	st := make([]colState, ncols)
	for j := range st {
		st[j] = colState{ints: map[string]bool{}, distinct: true}
	}
	// owner: the name of the constant the cell is written next to ("" on duplicate lines)
	owner := ""
	drawCell := func(j int, varName string, forceDup bool) Cell {
		k := cols[j]
		switch k.pk {
		case "str":
			// a string cell (untyped or of a named string type) that spells the name of its own
			// constant: Parse must still return the owner for the typed value (round 5, C12-51)
			if owner != "" && !usedStr[owner] && r.IntN(12) == 0 {
				usedStr[owner] = true
				shape["str_cell_spells_own_name"] = true
				return cellOf(k, varName, owner, 0, false)
			}
			return cellOf(k, varName, drawStr(), 0, false)
		case "bool":
			b := st[j].nbool%2 == 1
			if r.IntN(4) == 0 {
				b = !b
			}
			st[j].nbool++
			bi := "0"
			if b {
				bi = "1"
			}
			if st[j].ints[bi] {
				st[j].distinct = false
			}
			st[j].ints[bi] = true
			return cellOf(k, varName, "", 0, b)
		}
		bounds := boundaryValues(k)
		for tries := 0; ; tries++ {
			span := k.hi - k.lo + 1
			var v int64
			var bv *big.Int
			switch r.IntN(6) {
			case 0:
				v = int64(r.IntN(4)) // small values, 0 included (the YAML `garbage` witness needs a 0)
			case 1:
				v = k.lo + int64(r.Uint64()%uint64(span))
			case 2:
				// boundary values of the trait's type (extremes, the int64/uint64 seam, -1)
				if len(bounds) > 0 {
					bv = bounds[r.IntN(len(bounds))]
				} else {
					v = int64(r.IntN(int(min(span, 300))))
				}
			default:
				v = int64(r.IntN(int(min(span, 300))))
			}
			if bv == nil {
				if v < k.lo || v > k.hi {
					continue
				}
				bv = big.NewInt(v)
			}
			key := bv.String()
			if st[j].ints[key] && tries < 50 && !(forceDup || r.IntN(12) == 0) {
				continue
			}
			if st[j].ints[key] {
				st[j].distinct = false
			}
			st[j].ints[key] = true
			return cellInt(k, varName, bv)
		}
	}
	blk := *nextBlock
	*nextBlock++
	for i := 0; i < n; i++ {
		v := start + int64(i)*step
		if !inRange(u, big.NewInt(v)) {
			break
		}
		c := Const{Name: nm.fresh(9), Val: strconv.FormatInt(v, 10), Block: blk, Form: "explicit", Rhs: strconv.FormatInt(v, 10)}
		if useIota {
			c.Form, c.Rhs = "iota", "iota"
		}
		if i > 0 && r.IntN(100) < sp.plainNoCells {
			// a line without trait cells
			shape["line_without_trait_cells"] = true
			e.Consts = append(e.Consts, c)
			continue
		}
		owner = c.Name
		for j := range cols {
			varName := "_"
			if i == 0 {
				varName = colVars[j]
			} else if r.IntN(100) < sp.namedCells {
				varName = nm.fresh(9)
				for !cellIdentOK(varName) {
					varName = nm.fresh(9)
				}
				shape["named_cells"] = true
			}
			c.Cells = append(c.Cells, drawCell(j, varName, false))
		}
		e.Consts = append(e.Consts, c)
	}
	owner = ""
	// duplicates
	if len(e.Consts) > 0 && r.IntN(100) < sp.dupNoCells {
		k := 1 + r.IntN(2)
		for i := 0; i < k; i++ {
			t := e.Consts[r.IntN(len(e.Consts))]
			c := Const{Name: nm.fresh(9), Val: t.Val, Block: blk, Form: "alias", Rhs: t.Name, Dep: r.IntN(2) == 0}
			for t.Val == e.Consts[0].Val && c.Name < e.Consts[0].Name {
				c.Name = nm.fresh(9) // keep the line that names the traits the least (value, name)
			}
			e.Consts = append(e.Consts, c)
		}
		shape["dup_without_trait_cells"] = true
	}
	if len(e.Consts) > 0 && r.IntN(100) < sp.dupCells {
		t := e.Consts[r.IntN(len(e.Consts))]
		c := Const{Name: nm.fresh(9), Val: t.Val, Block: blk, Form: "alias", Rhs: t.Name, Dep: r.IntN(3) > 0}
		// the line that names the traits must stay the least (value, name): a duplicate of the
		// lowest value gets a name that sorts after it
		for t.Val == e.Consts[0].Val && c.Name < e.Consts[0].Name {
			c.Name = nm.fresh(9)
		}
		for j := range cols {
			// a duplicate line repeats or changes the trait values
			cl := drawCell(j, "_", false)
			if len(t.Cells) == len(cols) && r.IntN(2) == 0 {
				cl = t.Cells[j]
				cl.Var = "_"
			}
			c.Cells = append(c.Cells, cl)
		}
		e.Consts = append(e.Consts, c)
		if c.Dep {
			shape["deprecated_duplicate_with_trait_cells"] = true
		} else {
			shape["live_duplicate_with_trait_cells"] = true
		}
	}
	// trait type oracle
	seenTy := map[string]bool{}
	for _, k := range cols {
		if !seenTy[k.ty+k.bkind] {
			seenTy[k.ty+k.bkind] = true
			e.Types = append(e.Types, typeInfoOf(k))
		}
	}
	// one type id must map to one basic kind inside an enum (string: untyped vs typed, int32: rune):
	// keep the first kind drawn for a type id
	e.Types = dedupTypes(e.Types)
	markDupShapes(&e, shape)
	for k := range shape {
		e.Shape = append(e.Shape, k)
	}
	sort.Strings(e.Shape)
	var distinct []string
	for j := range cols {
		if st[j].distinct {
			distinct = append(distinct, colNames[j])
		}
	}
	return e, distinct
}

func dedupTypes(ts []TypeInfo) []TypeInfo {
	seen := map[string]bool{}
	var out []TypeInfo
	for _, t := range ts {
		if !seen[t.Ty] {
			seen[t.Ty] = true
			out = append(out, t)
		}
	}
	return out
}

// kinds are drawn per file: the common ones always, the expensive ones (renamed time import,
// other generated enums: each makes every CLI run of the package several seconds slower) for
// a fraction of the files
var kindsC05 = []string{"ustr", "tstr", "Str", "uint_", "tint", "int64", "uint64", "uint", "Num",
	"int8", "uint8", "int16", "uint16", "int32", "uint32", "urune", "trune"}
var kindsC12 = []string{"ustr", "tstr", "Str", "uint_", "tint", "int64", "uint64", "uint", "Num", "int8", "uint8",
	"int16", "uint16", "int32", "uint32", "urune", "trune", "ubool", "tbool"}

func fileKinds(r *rand.Rand, base []string, own []string) []string {
	out := append([]string{}, base...)
	if r.IntN(5) == 0 {
		out = append(out, "dur", "dur")
	}
	if r.IntN(6) == 0 {
		out = append(out, own...)
		out = append(out, own...)
	}
	return out
}

// pickParsable draws a subset of the value-distinct columns; columns whose type id is shared
// with another parsable column are left out when their values could collide.
func pickParsable(r *rand.Rand, distinct []string) []string {
	var out []string
	for _, c := range distinct {
		if r.IntN(3) > 0 {
			out = append(out, c)
		}
	}
	return out
}

func randomCodecOpts(r *rand.Rand) Opts {
	o := Opts{JSON: r.IntN(4) > 0, YAML: r.IntN(4) > 0, Text: r.IntN(4) > 0, CI: r.IntN(2) == 0}
	if !o.JSON && !o.YAML && !o.Text {
		switch r.IntN(3) {
		case 0:
			o.JSON = true
		case 1:
			o.YAML = true
		default:
			o.Text = true
		}
	}
	return o
}

func randomFileC05(r *rand.Rand) FileDef {
	fd := FileDef{Kind: "random", Opts: randomCodecOpts(r), Traits: true}
	nm := newNamer(r)
	blk := 0
	nt := 1 + r.IntN(2)
	var parsable []string
	kinds := fileKinds(r, kindsC05, []string{"AuxA"})
	for i := 0; i < nt; i++ {
		if r.IntN(3) == 0 {
			// an enum without traits (C04 shape, fewer constants)
			e := genEnum(r, nm, fmt.Sprintf("E%d", i), &blk)
			fd.Enums = append(fd.Enums, e)
			continue
		}
		e, distinct := genTraitEnum(r, nm, fmt.Sprintf("E%d", i), &blk,
			traitSpec{kinds: kinds, maxCols: 3, maxConsts: 8})
		fd.Enums = append(fd.Enums, e)
		parsable = append(parsable, pickParsable(r, distinct)...)
	}
	if len(parsable) > 0 && len(fd.Enums) > 1 {
		// a generator refusal (uniqueness of parsable trait values) concerns the whole CLI run and
		// cannot be attributed to one enum: files with parsable traits hold a single enum, the
		// one owning the first parsable trait
		keep := 0
		for ei := range fd.Enums {
			for _, col := range columnsOf(&fd.Enums[ei]) {
				if col == parsable[0] {
					keep = ei
				}
			}
		}
		fd.Enums = []EnumDef{fd.Enums[keep]}
	}
	fd.Opts.Parsable = parsable
	tagParsable(&fd)
	return fd
}

func randomFileC12(r *rand.Rand) FileDef {
	fd := FileDef{Kind: "random", Opts: randomCodecOpts(r), Traits: true}
	if r.IntN(3) > 0 {
		fd.Opts.JSON, fd.Opts.YAML, fd.Opts.Text = true, true, true
	}
	nm := newNamer(r)
	blk := 0
	nt := 1 + r.IntN(2)
	var parsable []string
	kinds := fileKinds(r, kindsC12, []string{"AuxA", "AuxB"})
	for i := 0; i < nt; i++ {
		e, distinct := genTraitEnum(r, nm, fmt.Sprintf("E%d", i), &blk,
			traitSpec{kinds: kinds, maxCols: 5, maxConsts: 10, dupCells: 22, dupNoCells: 15, plainNoCells: 4, namedCells: 8})
		fd.Enums = append(fd.Enums, e)
		if r.IntN(5) > 0 {
			parsable = append(parsable, pickParsable(r, distinct)...)
		}
	}
	if len(parsable) > 0 && len(fd.Enums) > 1 {
		// a generator refusal (uniqueness of parsable trait values) concerns the whole CLI run and
		// cannot be attributed to one enum: files with parsable traits hold a single enum, the
		// one owning the first parsable trait
		keep := 0
		for ei := range fd.Enums {
			for _, col := range columnsOf(&fd.Enums[ei]) {
				if col == parsable[0] {
					keep = ei
				}
			}
		}
		fd.Enums = []EnumDef{fd.Enums[keep]}
	}
	fd.Opts.Parsable = parsable
	tagParsable(&fd)
	return fd
}

// ---------------------------------------------------------------- corpus

func traitEnum(typ string, u under, blk int, types []TypeInfo, consts ...Const) EnumDef {
	e := explicitEnum(typ, u, blk, consts...)
	e.Types = types
	shape := map[string]bool{"traits": true}
	for _, s := range e.Shape {
		shape[s] = true
	}
	markDupShapes(&e, shape)
	e.Shape = nil
	for k := range shape {
		e.Shape = append(e.Shape, k)
	}
	sort.Strings(e.Shape)
	return e
}

func corpusC05() []FileDef {
	ki := kindByID("uint_")
	ks := kindByID("ustr")
	// DESIGN §5: YAML `garbage` decodes to the value whose parsable numeric trait is 0; YAML `7` fails
	o := defaultOpts()
	o.Parsable = []string{"Code"}
	f1 := FileDef{Kind: "corpus", Opts: o, Traits: true, Enums: []EnumDef{
		traitEnum("E0", uByName("int"), 0, []TypeInfo{typeInfoOf(ki), typeInfoOf(ks)},
			Const{Name: "P0", Val: "0", Cells: []Cell{cellOf(ki, "_Code", "", 0, false), cellOf(ks, "_Label", "t.zero", 0, false)}},
			Const{Name: "P1", Val: "1", Cells: []Cell{cellOf(ki, "_", "", 7, false), cellOf(ks, "_", "t.seven", 0, false)}},
			Const{Name: "P2", Val: "2", Cells: []Cell{cellOf(ki, "_", "", 9, false), cellOf(ks, "_", "t.nine", 0, false)}}),
	}}
	// no traits at all, text only / json only
	o2 := Opts{JSON: true, Text: false, YAML: true, CI: true}
	f2 := FileDef{Kind: "corpus", Opts: o2, Enums: []EnumDef{
		explicitEnum("E0", uByName("uint8"), 0, Const{Name: "Red", Val: "1"}, Const{Name: "Green", Val: "2"},
			Const{Name: "Blue", Val: "255"}, Const{Name: "Rouge", Val: "1", Dep: true}),
	}}
	return []FileDef{f1, f2}
}

func corpusC12() []FileDef {
	ki := kindByID("uint_")
	ks := kindByID("ustr")
	kb := kindByID("ubool")
	kr := kindByID("urune")
	ka := kindByID("AuxA")
	kb2 := kindByID("AuxB")
	var out []FileDef
	// 1. YAML numeric trait values do not decode on the pinned code (inverted guard)
	o := defaultOpts()
	o.Parsable = []string{"Code"}
	out = append(out, FileDef{Kind: "corpus", Opts: o, Traits: true, Enums: []EnumDef{
		traitEnum("E0", uByName("int"), 0, []TypeInfo{typeInfoOf(ki)},
			Const{Name: "Q0", Val: "0", Cells: []Cell{cellOf(ki, "_Code", "", 3, false)}},
			Const{Name: "Q1", Val: "1", Cells: []Cell{cellOf(ki, "_", "", 2, false)}}),
	}})
	// 2. deprecated duplicate carrying trait cells: duplicate `case` on the pinned code
	out = append(out, FileDef{Kind: "corpus", Opts: defaultOpts(), Traits: true, Enums: []EnumDef{
		traitEnum("E0", uByName("int"), 0, []TypeInfo{typeInfoOf(ki)},
			Const{Name: "Cat", Val: "1", Cells: []Cell{cellOf(ki, "_Legs", "", 4, false)}},
			Const{Name: "Feline", Val: "1", Dep: true, Form: "alias", Rhs: "Cat", Cells: []Cell{cellOf(ki, "_", "", 5, false)}},
			Const{Name: "Ant", Val: "2", Cells: []Cell{cellOf(ki, "_", "", 6, false)}}),
	}})
	// 3. parsable trait + duplicated value without cells / line lacking cells: index out of range
	o3 := defaultOpts()
	o3.Parsable = []string{"Legs"}
	out = append(out, FileDef{Kind: "corpus", Opts: o3, Traits: true, Enums: []EnumDef{
		traitEnum("E0", uByName("int"), 0, []TypeInfo{typeInfoOf(ki)},
			Const{Name: "Cat", Val: "1", Cells: []Cell{cellOf(ki, "_Legs", "", 4, false)}},
			Const{Name: "Ant", Val: "2", Cells: []Cell{cellOf(ki, "_", "", 6, false)}},
			Const{Name: "Feline", Val: "1", Dep: true, Form: "alias", Rhs: "Cat"}),
		traitEnum("E1", uByName("uint8"), 1, []TypeInfo{typeInfoOf(ks)},
			Const{Name: "Aa", Val: "0", Cells: []Cell{cellOf(ks, "_Tag", "t.a", 0, false)}},
			Const{Name: "Bb", Val: "3"}),
	}})
	o3.Parsable = []string{"Legs", "Tag"}
	out[len(out)-1].Opts = o3
	// 4. two parsable traits whose types bring their own unmarshalers: v0 declared twice
	o4 := defaultOpts()
	o4.Parsable = []string{"First", "Second"}
	out = append(out, FileDef{Kind: "corpus", Opts: o4, Traits: true, Enums: []EnumDef{
		traitEnum("E0", uByName("int"), 0, []TypeInfo{typeInfoOf(ka), typeInfoOf(kb2)},
			Const{Name: "Xa", Val: "0", Cells: []Cell{cellOf(ka, "_First", "", 1, false), cellOf(kb2, "_Second", "", 2, false)}},
			Const{Name: "Xb", Val: "1", Cells: []Cell{cellOf(ka, "_", "", 3, false), cellOf(kb2, "_", "", 4, false)}}),
	}})
	// 5. parsable bool and rune traits
	o5 := defaultOpts()
	o5.Parsable = []string{"Flag", "Letter"}
	out = append(out, FileDef{Kind: "corpus", Opts: o5, Traits: true, Enums: []EnumDef{
		traitEnum("E0", uByName("int"), 0, []TypeInfo{typeInfoOf(kb), typeInfoOf(kr)},
			Const{Name: "No", Val: "0", Cells: []Cell{cellOf(kb, "_Flag", "", 0, false), cellOf(kr, "_Letter", "", 'n', false)}},
			Const{Name: "Yes", Val: "1", Cells: []Cell{cellOf(kb, "_", "", 0, true), cellOf(kr, "_", "", 'y', false)}}),
	}})
	// 7. the same constant in two parsable traits of DIFFERENT values, spelled differently on the first
	//    line (ExactString) and later lines (ExprString): must be refused with the uniqueness diagnostic
	kt := kindByID("tint")
	o7 := defaultOpts()
	o7.Parsable = []string{"Da", "Db"}
	out = append(out, FileDef{Kind: "corpus", Opts: o7, Traits: true, Enums: []EnumDef{
		traitEnum("E0", uByName("uint"), 0, []TypeInfo{typeInfoOf(kt)},
			Const{Name: "Oa", Val: "0", Cells: []Cell{cellOf(kt, "_Da", "", 80, false), cellOf(kt, "_Db", "", 3, false)}},
			Const{Name: "Ob", Val: "1", Cells: []Cell{cellOf(kt, "_", "", 225, false), cellOf(kt, "_", "", 80, false)}}),
	}})
	// 8. parsable string traits whose JSON form contains escapes: the JSON documents are produced by
	//    json.Marshal of the trait value, so the decoder must really unescape
	kS := kindByID("Str")
	o8 := defaultOpts()
	o8.Parsable = []string{"Lbl", "Tag"}
	out = append(out, FileDef{Kind: "corpus", Opts: o8, Traits: true, Enums: []EnumDef{
		traitEnum("E0", uByName("int"), 0, []TypeInfo{typeInfoOf(ks), typeInfoOf(kS)},
			Const{Name: "Qa", Val: "0", Cells: []Cell{cellOf(ks, "_Lbl", "say \"hi\"", 0, false), cellOf(kS, "_Tag", "a\\b", 0, false)}},
			Const{Name: "Qb", Val: "1", Cells: []Cell{cellOf(ks, "_", "x<y>&z", 0, false), cellOf(kS, "_", "tab\there", 0, false)}},
			Const{Name: "Qc", Val: "2", Cells: []Cell{cellOf(ks, "_", "caf\u00e9\u2028", 0, false), cellOf(kS, "_", "plain", 0, false)}}),
	}})
	// 9. a parsable plain-string trait that spells its value's own name (must generate, Parse returns
	//    the owner) / the name of another definition (must be refused)
	o9 := defaultOpts()
	o9.Parsable = []string{"Label"}
	out = append(out, FileDef{Kind: "corpus", Opts: o9, Traits: true, Enums: []EnumDef{
		traitEnum("E0", uByName("int"), 0, []TypeInfo{typeInfoOf(ks)},
			Const{Name: "Red", Val: "0", Cells: []Cell{cellOf(ks, "_Label", "Red", 0, false)}},
			Const{Name: "Blue", Val: "1", Cells: []Cell{cellOf(ks, "_", "blu", 0, false)}}),
	}})
	out = append(out, FileDef{Kind: "corpus", Opts: o9, Traits: true, Enums: []EnumDef{
		traitEnum("E0", uByName("int"), 0, []TypeInfo{typeInfoOf(ks)},
			Const{Name: "Red", Val: "0", Cells: []Cell{cellOf(ks, "_Label", "Blue", 0, false)}},
			Const{Name: "Blue", Val: "1", Cells: []Cell{cellOf(ks, "_", "x", 0, false)}}),
	}})
	// 10. a deprecated alias that sorts BEFORE the live name of its value and carries other trait
	//     constants: the accessors must return the live (primary) line's cells
	o10 := defaultOpts()
	o10.Parsable = []string{"Legs"}
	out = append(out, FileDef{Kind: "corpus", Opts: o10, Traits: true, Enums: []EnumDef{
		traitEnum("E0", uByName("int"), 0, []TypeInfo{typeInfoOf(ki), typeInfoOf(ks)},
			Const{Name: "Ant", Val: "0", Cells: []Cell{cellOf(ki, "_Legs", "", 6, false), cellOf(ks, "_Sound", "t.none", 0, false)}},
			Const{Name: "Cat", Val: "1", Cells: []Cell{cellOf(ki, "_", "", 4, false), cellOf(ks, "_", "t.meow", 0, false)}},
			Const{Name: "Abe", Val: "1", Dep: true, Form: "alias", Rhs: "Cat", Cells: []Cell{cellOf(ki, "_", "", 5, false), cellOf(ks, "_", "t.old", 0, false)}}),
	}})
	// 6. two parsable traits with equal cells on one line: the Parse case lists the constant twice
	o6 := defaultOpts()
	o6.Parsable = []string{"Wa", "Wb"}
	out = append(out, FileDef{Kind: "corpus", Opts: o6, Traits: true, Enums: []EnumDef{
		traitEnum("E0", uByName("int"), 0, []TypeInfo{typeInfoOf(ki)},
			Const{Name: "Ua", Val: "0", Cells: []Cell{cellOf(ki, "_Wa", "", 10, false), cellOf(ki, "_Wb", "", 10, false)}},
			Const{Name: "Ub", Val: "1", Cells: []Cell{cellOf(ki, "_", "", 11, false), cellOf(ki, "_", "", 12, false)}}),
	}})
	return out
}

func bigStr(s string) *big.Int {
	v, ok := new(big.Int).SetString(s, 10)
	if !ok {
		panic(s)
	}
	return v
}

// corpusClasses: one fixed definition file per CLASS of input that some seeded change needed, run in
// every quick check of C05 and C12 independently of the random stream.
func corpusClasses() []FileDef {
	ks, kS := kindByID("ustr"), kindByID("Str")
	ku64, ki64, kuint, kint, kun := kindByID("uint64"), kindByID("int64"), kindByID("uint"), kindByID("tint"), kindByID("uint_")
	ku8, ki8, ku16, ki32 := kindByID("uint8"), kindByID("int8"), kindByID("uint16"), kindByID("int32")
	kb, ktb := kindByID("ubool"), kindByID("tbool")
	str := func(k colKind, v, s string) Cell { return cellOf(k, v, s, 0, false) }
	num := func(k colKind, v, dec string) Cell { return cellInt(k, v, bigStr(dec)) }
	var out []FileDef
	// 9b. the same with a NAMED string type: `Label("Red")` next to Red is not the plain string the
	//     Parse switch lists for the name, so it needs its own case entry (round 5, C12-51)
	o9b := defaultOpts()
	o9b.Parsable = []string{"Label", "Code"}
	out = append(out, FileDef{Kind: "corpus", Opts: o9b, Traits: true, Enums: []EnumDef{
		traitEnum("E0", uByName("int"), 0, []TypeInfo{typeInfoOf(kS), typeInfoOf(kun)},
			Const{Name: "Apple", Val: "0", Cells: []Cell{cellOf(kS, "_Label", "apple", 0, false), cellOf(kun, "_Code", "", 10, false)}},
			Const{Name: "Pear", Val: "1", Cells: []Cell{cellOf(kS, "_", "Pear", 0, false), cellOf(kun, "_", "", 20, false)}},
			Const{Name: "Plum", Val: "2", Cells: []Cell{cellOf(kS, "_", "plum", 0, false), cellOf(kun, "_", "", 30, false)}}),
	}})
	// 9c. a NAMED string cell that spells the name of ANOTHER value: the decoders hand the scalar to
	//     Parse as a plain string first, so the name wins and the owner is unreachable (round 6, C05-61)
	out = append(out, FileDef{Kind: "corpus", Opts: o9b, Traits: true, Enums: []EnumDef{
		traitEnum("E0", uByName("int"), 0, []TypeInfo{typeInfoOf(kS), typeInfoOf(kun)},
			Const{Name: "Up", Val: "0", Cells: []Cell{cellOf(kS, "_Label", "Down", 0, false), cellOf(kun, "_Code", "", 10, false)}},
			Const{Name: "Down", Val: "1", Cells: []Cell{cellOf(kS, "_", "Up", 0, false), cellOf(kun, "_", "", 20, false)}},
			Const{Name: "Left", Val: "2", Cells: []Cell{cellOf(kS, "_", "left", 0, false), cellOf(kun, "_", "", 30, false)}}),
	}})
	// 9d. two traits whose NAMES differ only by case, ONE of them declared parsable: the numerals of the other
	//     are not documents of the enum and must be rejected by every decoder (round 8, C05-82)
	o9d := defaultOpts()
	o9d.Parsable = []string{"Id"}
	out = append(out, FileDef{Kind: "corpus", Opts: o9d, Traits: true, Enums: []EnumDef{
		traitEnum("E0", uByName("int"), 0, []TypeInfo{typeInfoOf(kun)},
			Const{Name: "Low", Val: "0", Cells: []Cell{num(kun, "_Id", "1"), num(kun, "_ID", "10")}},
			Const{Name: "Mid", Val: "1", Cells: []Cell{num(kun, "_", "2"), num(kun, "_", "20")}},
			Const{Name: "High", Val: "2", Cells: []Cell{num(kun, "_", "3"), num(kun, "_", "30")}}),
	}})
	// A. -caseInsensitive together with parsable string traits (untyped and named type) whose values
	//    contain upper-case letters: Parse must match trait constants exactly, names in any case
	oa := defaultOpts()
	oa.CI = true
	oa.Parsable = []string{"Code", "Zone"}
	out = append(out, FileDef{Kind: "corpus", Opts: oa, Traits: true, Enums: []EnumDef{
		traitEnum("E0", uByName("int"), 0, []TypeInfo{typeInfoOf(ks), typeInfoOf(kS)},
			Const{Name: "EuWest", Val: "0", Cells: []Cell{str(ks, "_Code", "EU-W1"), str(kS, "_Zone", "Zone-A")}},
			Const{Name: "ApSouth", Val: "1", Cells: []Cell{str(ks, "_", "Ap-S1"), str(kS, "_", "zone-b")}},
			Const{Name: "Unknown", Val: "2", Cells: []Cell{str(ks, "_", "XX"), str(kS, "_", "ZONE-C")}}),
	}})
	// B0. ONE parsable trait of a 64-bit unsigned type (uint, then uint64) with cells at and above 2^63 and no signed
	//     trait next to it: the wrap-around neighbours (-1, -2^63, ..) are held by no other cell, so they must be
	//     rejected whatever reading family the decoders use for the type (round 8, C05-81)
	for _, k := range []colKind{kindByID("uint"), kindByID("uint64")} {
		ob0 := defaultOpts()
		ob0.Parsable = []string{"Cnt"}
		out = append(out, FileDef{Kind: "corpus", Opts: ob0, Traits: true, Enums: []EnumDef{
			traitEnum("E0", uByName("int"), 0, []TypeInfo{typeInfoOf(k)},
				Const{Name: "High", Val: "0", Cells: []Cell{num(k, "_Cnt", "18446744073709551615")}},
				Const{Name: "Half", Val: "1", Cells: []Cell{num(k, "_", "9223372036854775808")}},
				Const{Name: "Some", Val: "2", Cells: []Cell{num(k, "_", "7")}}),
		}})
	}
	// B. integer traits at the extremes of their types and at the int64/uint64 seam (64-bit kinds)
	ob := defaultOpts()
	ob.Parsable = []string{"Mask", "Off", "Cnt", "Idx", "Lit"}
	out = append(out, FileDef{Kind: "corpus", Opts: ob, Traits: true, Enums: []EnumDef{
		traitEnum("E0", uByName("uint8"), 0,
			[]TypeInfo{typeInfoOf(ku64), typeInfoOf(ki64), typeInfoOf(kuint), typeInfoOf(kint)},
			// (values pairwise distinct across the rows: a number held by cells of two different values is ambiguous
			// and carries no decoding obligation)
			Const{Name: "All", Val: "0", Cells: []Cell{num(ku64, "_Mask", "18446744073709551615"), num(ki64, "_Off", "-9223372036854775808"),
				num(kuint, "_Cnt", "18446744073709551614"), num(kint, "_Idx", "-9223372036854775807")}},
			Const{Name: "Top", Val: "1", Cells: []Cell{num(ku64, "_", "9223372036854775808"), num(ki64, "_", "-1"),
				num(kuint, "_", "9223372036854775809"), num(kint, "_", "-2")}},
			Const{Name: "Low", Val: "2", Cells: []Cell{num(ku64, "_", "9223372036854775807"), num(ki64, "_", "9223372036854775807"),
				num(kuint, "_", "0"), num(kint, "_", "9223372036854775806")}}),
	}})
	// B'. … the narrow kinds and an untyped integer column
	ob2 := defaultOpts()
	ob2.Parsable = []string{"Ba", "Bb", "Bc", "Bd", "Be"}
	out = append(out, FileDef{Kind: "corpus", Opts: ob2, Traits: true, Enums: []EnumDef{
		traitEnum("E0", uByName("int16"), 0,
			[]TypeInfo{typeInfoOf(ku8), typeInfoOf(ki8), typeInfoOf(ku16), typeInfoOf(ki32), typeInfoOf(kun)},
			Const{Name: "Na", Val: "-1", Cells: []Cell{num(ku8, "_Ba", "255"), num(ki8, "_Bb", "-128"), num(ku16, "_Bc", "65535"),
				num(ki32, "_Bd", "-2147483648"), num(kun, "_Be", "-9223372036854775808")}},
			Const{Name: "Nb", Val: "0", Cells: []Cell{num(ku8, "_", "128"), num(ki8, "_", "127"), num(ku16, "_", "32768"),
				num(ki32, "_", "2147483647"), num(kun, "_", "9223372036854775807")}},
			Const{Name: "Nc", Val: "1", Cells: []Cell{num(ku8, "_", "0"), num(ki8, "_", "-1"), num(ku16, "_", "0"),
				num(ki32, "_", "-1"), num(kun, "_", "-1")}}),
	}})
	// C. string traits whose plain YAML scalar resolves to a number / bool / null / timestamp; enum names
	//    that look like YAML keywords
	oc := defaultOpts()
	oc.Parsable = []string{"Status", "Proto", "Word"}
	out = append(out, FileDef{Kind: "corpus", Opts: oc, Traits: true, Enums: []EnumDef{
		traitEnum("E0", uByName("int"), 0, []TypeInfo{typeInfoOf(ks), typeInfoOf(kS)},
			Const{Name: "Inf", Val: "0", Cells: []Cell{str(ks, "_Status", "404"), str(kS, "_Proto", "1.1"), str(kS, "_Word", "true")}},
			Const{Name: "NaN", Val: "1", Cells: []Cell{str(ks, "_", "0x1F"), str(kS, "_", "1e3"), str(kS, "_", "~")}},
			Const{Name: "On", Val: "2", Cells: []Cell{str(ks, "_", ".5"), str(kS, "_", "-7"), str(kS, "_", "2001-01-01")}},
			Const{Name: "E1", Val: "3", Cells: []Cell{str(ks, "_", "007"), str(kS, "_", "1_000"), str(kS, "_", "")}}),
	}})
	od := defaultOpts()
	od.CI = true
	out = append(out, FileDef{Kind: "corpus", Opts: od, Enums: []EnumDef{
		explicitEnum("E0", uByName("uint8"), 0, Const{Name: "True", Val: "1"}, Const{Name: "False", Val: "0"},
			Const{Name: "Null", Val: "2"}, Const{Name: "Yes", Val: "3"}, Const{Name: "Y", Val: "4"}, Const{Name: "Off", Val: "5"},
			Const{Name: "_1e3", Val: "6"}, Const{Name: "NaN", Val: "7"}),
	}})
	// E. every remaining integer-like kind as a parsable trait: untyped and typed runes (32 bits), a
	//    locally named int type, time.Duration through the renamed import, another generated enum —
	//    the rejection stream holds their wrap-around neighbours
	kur, ktr, kNum, kdur, kAux := kindByID("urune"), kindByID("trune"), kindByID("Num"), kindByID("dur"), kindByID("AuxA")
	of := defaultOpts()
	of.Parsable = []string{"Ltr", "Cap", "Qty"}
	out = append(out, FileDef{Kind: "corpus", Opts: of, Traits: true, Enums: []EnumDef{
		traitEnum("E0", uByName("int32"), 0, []TypeInfo{typeInfoOf(kur), typeInfoOf(kNum)},
			Const{Name: "Ra", Val: "-2", Cells: []Cell{num(kur, "_Ltr", "97"), num(ktr, "_Cap", "65"), num(kNum, "_Qty", "-100")}},
			Const{Name: "Rb", Val: "0", Cells: []Cell{num(kur, "_", "122"), num(ktr, "_", "90"), num(kNum, "_", "0")}},
			Const{Name: "Rc", Val: "5", Cells: []Cell{num(kur, "_", "109"), num(ktr, "_", "81"), num(kNum, "_", "100000")}}),
	}})
	og := defaultOpts()
	og.Parsable = []string{"Wait", "Peer"}
	out = append(out, FileDef{Kind: "corpus", Opts: og, Traits: true, Enums: []EnumDef{
		traitEnum("E0", uByName("uint"), 0, []TypeInfo{typeInfoOf(kdur), typeInfoOf(kAux)},
			Const{Name: "Da", Val: "0", Cells: []Cell{num(kdur, "_Wait", "0"), num(kAux, "_Peer", "3")}},
			Const{Name: "Db", Val: "1", Cells: []Cell{num(kdur, "_", "2"), num(kAux, "_", "0")}},
			Const{Name: "Dc", Val: "2", Cells: []Cell{num(kdur, "_", "7201"), num(kAux, "_", "47")}}),
	}})
	// F. several enums generated by ONE invocation that refer to each other: an enum with a parsable trait of its
	//    OWN type (decoded through its underlying integer: it cannot decode through itself) and an enum with a
	//    parsable trait typed as that enum (decoded through that enum's own unmarshalers, which this invocation
	//    generates) — in both orders of -types
	ownTy := func(own bool, o Opts) TypeInfo {
		return TypeInfo{Ty: "pkg.E0", BKind: "BInt", JSONOwn: own && o.JSON, YAMLOwn: own && o.YAML, TextOwn: false, Ref: "E0"}
	}
	e0c := func(v, name string, val int) Cell {
		return Cell{Var: v, Expr: name, Ty: "pkg.E0", Kind: "int", Int: strconv.Itoa(val)}
	}
	for _, order := range [][2]int{{0, 1}, {1, 0}} {
		oh := defaultOpts()
		oh.Parsable = []string{"Fb", "Peer"}
		mode := traitEnum("E0", uByName("int"), 0, []TypeInfo{ownTy(false, oh)},
			Const{Name: "Strict", Val: "0", Cells: []Cell{e0c("_Fb", "Lenient", 1)}},
			Const{Name: "Lenient", Val: "1", Cells: []Cell{e0c("_", "Loose", 2)}},
			Const{Name: "Loose", Val: "2", Cells: []Cell{e0c("_", "Strict", 0)}})
		policy := traitEnum("E1", uByName("uint8"), 1, []TypeInfo{ownTy(true, oh)},
			Const{Name: "Pa", Val: "0", Cells: []Cell{e0c("_Peer", "Lenient", 1)}},
			Const{Name: "Pb", Val: "1", Cells: []Cell{e0c("_", "Strict", 0)}},
			Const{Name: "Pc", Val: "7", Cells: []Cell{e0c("_", "Loose", 2)}})
		both := []EnumDef{mode, policy}
		out = append(out, FileDef{Kind: "corpus", Opts: oh, Traits: true, Enums: []EnumDef{both[order[0]], both[order[1]]}})
	}
	// D. parsable bool traits (untyped and typed): at most one value per boolean
	oe := defaultOpts()
	oe.Parsable = []string{"Up"}
	out = append(out, FileDef{Kind: "corpus", Opts: oe, Traits: true, Enums: []EnumDef{
		traitEnum("E0", uByName("int"), 0, []TypeInfo{typeInfoOf(kb)},
			Const{Name: "Stopped", Val: "0", Cells: []Cell{cellOf(kb, "_Up", "", 0, false)}},
			Const{Name: "Running", Val: "1", Cells: []Cell{cellOf(kb, "_", "", 0, true)}}),
	}})
	oe2 := defaultOpts()
	oe2.Parsable = []string{"Live", "Tag"}
	out = append(out, FileDef{Kind: "corpus", Opts: oe2, Traits: true, Enums: []EnumDef{
		traitEnum("E0", uByName("uint16"), 0, []TypeInfo{typeInfoOf(ktb), typeInfoOf(ks)},
			Const{Name: "Dead", Val: "7", Cells: []Cell{cellOf(ktb, "_Live", "", 0, false), str(ks, "_Tag", "yes")}},
			Const{Name: "Alive", Val: "9", Cells: []Cell{cellOf(ktb, "_", "", 0, true), str(ks, "_", "no")}}),
	}})
	return out
}

// tagParsable adds the shape tags that depend on which columns are declared parsable.
func tagParsable(fd *FileDef) {
	par := map[string]bool{}
	for _, p := range fd.Opts.Parsable {
		par[p] = true
	}
	for ei := range fd.Enums {
		e := &fd.Enums[ei]
		names := columnsOf(e)
		add := func(tag string) {
			if !contains(e.Shape, tag) {
				e.Shape = append(e.Shape, tag)
				sort.Strings(e.Shape)
			}
		}
		any := false
		for _, c := range e.Consts {
			seen := map[string]bool{}
			for j, cl := range c.Cells {
				if j >= len(names) || !par[names[j]] {
					continue
				}
				any = true
				if cl.Kind == "bool" {
					add("parsable_bool_trait")
				}
				if cl.Ty == "time.Duration" {
					add("parsable_duration_trait")
				}
				if narrowBits(cl.Ty) > 0 {
					add("parsable_narrow_int_trait")
				}
				if cl.Kind == "str" && cl.Ty == "string" {
					for _, k := range e.Consts {
						if k.Name == cl.Str {
							add("parsable_trait_equals_name")
						}
					}
				}
				key := cl.Ty + "|" + cl.Kind + "|" + cl.Str + "|" + cl.Int + "|" + strconv.FormatBool(cl.Bool)
				if seen[key] {
					add("parsable_traits_equal_cells")
				}
				seen[key] = true
			}
		}
		if any {
			add("parsable_traits")
		}
	}
}

// narrowBits is the width of the integer trait types narrower than 64 bits (0 otherwise).
func narrowBits(ty string) int {
	switch ty {
	case "int8", "uint8":
		return 8
	case "int16", "uint16":
		return 16
	case "int32", "uint32":
		return 32
	}
	return 0
}
