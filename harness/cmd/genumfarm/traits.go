package main

import "math/rand/v2"

func corpusC05() []FileDef { return nil }
func corpusC12() []FileDef { return nil }

func randomFileC05(r *rand.Rand) FileDef { return randomFile(r, "c04") }
func randomFileC12(r *rand.Rand) FileDef { return randomFile(r, "c04") }
