package main

import (
	"fmt"
	"math/big"
	"math/rand/v2"
	"sort"
	"strings"
)

// ---------------------------------------------------------------- definition data (JSON = replay format)

// Cell is one trait cell on a constant's line.
type Cell struct {
	Var  string `json:"var"`  // name bound on the left-hand side, or "_"
	Expr string `json:"expr"` // source text (canonical: equals types.ExprString of the parsed expression)
	Ty   string `json:"ty"`   // dynamic type id of the constant (default type when untyped)
	Kind string `json:"kind"` // str | int | bool
	Str  string `json:"str,omitempty"`
	Int  string `json:"int,omitempty"`
	Bool bool   `json:"bool,omitempty"`
}

// Const is one enum constant, in source order.
type Const struct {
	Name  string `json:"name"`
	Val   string `json:"val"` // intended value, decimal
	Dep   bool   `json:"dep"`
	Cells []Cell `json:"cells,omitempty"`
	Block int    `json:"block"`         // const block the line is written in (file-wide numbering)
	Form  string `json:"form"`          // explicit | conv | iota | implicit | alias
	Rhs   string `json:"rhs,omitempty"` // right-hand side text for explicit/conv/iota/alias forms
	Skip  int    `json:"skip,omitempty"`
}

// TypeInfo is the go/types oracle for one trait type.
type TypeInfo struct {
	Ty      string `json:"ty"`
	BKind   string `json:"bkind"`
	JSONOwn bool   `json:"json_own"`
	YAMLOwn bool   `json:"yaml_own"`
	TextOwn bool   `json:"text_own"`
	Ref     string `json:"ref"` // how the type is written in package source
}

// EnumDef is one enum type of a file.
type EnumDef struct {
	Type   string     `json:"type"`
	Under  string     `json:"under"`
	Signed bool       `json:"signed"`
	Bits   int        `json:"bits"`
	Consts []Const    `json:"consts"`
	Types  []TypeInfo `json:"types,omitempty"`
	Shape  []string   `json:"shape,omitempty"` // feature tags of the definition (for findings / histograms)
}

// Opts are the CLI options of one generator run.
type Opts struct {
	JSON     bool     `json:"json"`
	YAML     bool     `json:"yaml"`
	Text     bool     `json:"text"`
	CI       bool     `json:"ci"`
	NoTraits bool     `json:"notraits"`
	Parsable []string `json:"parsable,omitempty"`
}

// FileDef is one definition file = one package directory of the farm = one CLI run.
type FileDef struct {
	Pkg    string    `json:"pkg"`
	Kind   string    `json:"kind"` // corpus | random | minimise
	Opts   Opts      `json:"opts"`
	Enums  []EnumDef `json:"enums"`
	Traits bool      `json:"traits,omitempty"` // needs the auxiliary trait-type file
	Source string    `json:"source,omitempty"` // rendered defs.go (filled by render)
}

// uses reports whether some trait cell of the file has the given type id (prefix match).
func (f *FileDef) uses(tyPrefix string) bool {
	for _, e := range f.Enums {
		for _, c := range e.Consts {
			for _, cl := range c.Cells {
				if strings.HasPrefix(cl.Ty, tyPrefix) {
					return true
				}
			}
		}
	}
	return false
}

type under struct {
	name   string
	signed bool
	bits   int
}

var underlyings = []under{
	{"int8", true, 8}, {"uint8", false, 8}, {"int16", true, 16}, {"uint16", false, 16},
	{"int32", true, 32}, {"uint32", false, 32}, {"int64", true, 64}, {"uint64", false, 64},
	{"int", true, 64}, {"uint", false, 64},
}

func tyMin(u under) *big.Int {
	if !u.signed {
		return big.NewInt(0)
	}
	return new(big.Int).Neg(new(big.Int).Lsh(big.NewInt(1), uint(u.bits-1)))
}

func tyMax(u under) *big.Int {
	b := u.bits
	if u.signed {
		b--
	}
	return new(big.Int).Sub(new(big.Int).Lsh(big.NewInt(1), uint(b)), big.NewInt(1))
}

func inRange(u under, v *big.Int) bool { return v.Cmp(tyMin(u)) >= 0 && v.Cmp(tyMax(u)) <= 0 }

// ---------------------------------------------------------------- names

var reserved = map[string]bool{}

func init() {
	for _, w := range strings.Fields(`break default func interface select case defer go map struct chan else goto
 package switch const fallthrough if range type continue for import return var any bool byte comparable
 complex64 complex128 error float32 float64 int int8 int16 int32 int64 rune string uint uint8 uint16 uint32
 uint64 uintptr true false iota nil append cap clear close complex copy delete imag len make max min new
 panic print println real recover json yaml fmt slices strings strconv genum dumplib aux tm`) {
		reserved[w] = true
	}
}

// templateIdentifiers are the identifiers enumTemplate.gotmpl binds where it refers to the definitions by
// name (generate.go reservedIdentifiers): a constant of such a name must be refused by the generator —
// `text` and `ok` only with -caseInsensitive.  The farm draws them as ordinary names (near-miss stream).
func reservedName(name string, ci bool) bool {
	return name == "e" || name == "input" || (ci && (name == "text" || name == "ok"))
}

// cellIdentOK: identifiers bound to trait cells must not be e / input (outside the modelled space)
func cellIdentOK(name string) bool { return name != "e" && name != "input" && name != "_e" && name != "_input" }

// markReserved tags enums holding a constant the generator must refuse; the refusal concerns the whole CLI
// run, so such a file is reduced to that one enum.
func markReserved(fd *FileDef) {
	for ei := range fd.Enums {
		e := &fd.Enums[ei]
		hit := false
		for _, c := range e.Consts {
			if reservedName(c.Name, fd.Opts.CI) {
				hit = true
			}
		}
		if hit {
			if !contains(e.Shape, "reserved_identifier_name") {
				e.Shape = append(e.Shape, "reserved_identifier_name")
				sort.Strings(e.Shape)
			}
			if len(fd.Enums) > 1 {
				fd.Enums = []EnumDef{*e}
			}
			return
		}
	}
}

type namer struct {
	r    *rand.Rand
	used map[string]bool // lower-cased
}

const letters = "abcdefghijklmnopqrstuvwxyz"

func (n *namer) fresh(exportedBias int) string {
	for {
		l := 1 + n.r.IntN(7)
		if wideMode && n.r.IntN(4) == 0 {
			l = 40 + n.r.IntN(60) // long names
		}
		b := make([]byte, 0, l+1)
		for i := 0; i < l; i++ {
			c := letters[n.r.IntN(26)]
			switch n.r.IntN(8) {
			case 0, 1, 2:
				c = c - 'a' + 'A'
			case 3:
				if i > 0 {
					c = "0123456789"[n.r.IntN(10)]
				}
			case 4:
				if i > 0 && n.r.IntN(3) == 0 {
					c = '_'
				}
			}
			b = append(b, c)
		}
		if n.r.IntN(10) < exportedBias && b[0] >= 'a' && b[0] <= 'z' {
			b[0] = b[0] - 'a' + 'A'
		}
		s := string(b)
		if wideMode && n.r.IntN(6) == 0 {
			// identifiers with Latin-1 letters (the model's to_lower covers the Latin-1 Supplement)
			s += []string{"\u00c4", "\u00e9", "\u00d6x", "\u00fc", "\u00c5"}[n.r.IntN(5)]
		}
		if n.take(s) {
			return s
		}
	}
}

// take reserves a name; false when it is unusable or collides (case-insensitively).
func (n *namer) take(s string) bool {
	low := strings.ToLower(s)
	if reserved[s] || reserved[low] || n.used[low] || s == "_" || strings.HasPrefix(low, "parse") ||
		strings.HasPrefix(low, "dumpall") || strings.HasPrefix(low, "undefined") {
		return false
	}
	n.used[low] = true
	return true
}

// ---------------------------------------------------------------- random enum definitions (C04 shape)

// wideMode: the widened search after a broken tie goes beyond the caps of the ordinary generator — more than 40
// constants (sizes 9, 17, 33, 41, 65, 129 …), up to 8 trait columns, long and non-ASCII names, values around
// every width boundary — and is steered by the integer literals found in the source of the tree under test
// (thresholds such as 15 or 64: sizes and values n-1, n, n+1).
var (
	wideMode bool
	steer    []int64
)

func pickCount(r *rand.Rand) int {
	if wideMode {
		sizes := []int{9, 17, 33, 41, 65, 129}
		for _, l := range steer {
			if l >= 2 && l <= 160 {
				sizes = append(sizes, int(l)-1, int(l), int(l)+1)
			}
		}
		return sizes[r.IntN(len(sizes))]
	}
	switch x := r.IntN(100); {
	case x < 3:
		return 1
	case x < 15:
		return 2 + r.IntN(4)
	case x < 33:
		return 6 + r.IntN(8)
	case x < 80:
		return 14 + r.IntN(5) // straddles the binary-search threshold (len > 15)
	default:
		return 19 + r.IntN(22)
	}
}

func bigOf(i int64) *big.Int { return big.NewInt(i) }

// pickValues draws m distinct in-range values: an arithmetic run (rendered with iota) plus
// explicit extras (extremes, negatives, powers of two, random).  Returns run (may be empty),
// its step, and the extras.
func pickValues(r *rand.Rand, u under, m int) (run []*big.Int, step int64, extras []*big.Int) {
	seen := map[string]bool{}
	add := func(dst *[]*big.Int, v *big.Int) bool {
		if !inRange(u, v) || seen[v.String()] {
			return false
		}
		seen[v.String()] = true
		*dst = append(*dst, new(big.Int).Set(v))
		return true
	}
	runLen := 0
	switch r.IntN(10) {
	case 0:
		runLen = 0
	case 1, 2:
		runLen = m
	default:
		runLen = r.IntN(m + 1)
	}
	step = 1
	switch r.IntN(8) {
	case 0:
		step = 2
	case 1:
		step = 3
	case 2:
		if u.signed {
			step = -1
		}
	}
	var start *big.Int
	switch r.IntN(8) {
	case 0, 1, 2, 3:
		start = bigOf(0)
	case 4:
		start = bigOf(1)
	case 5:
		if u.signed {
			start = bigOf(-int64(r.IntN(5)) - 1)
		} else {
			start = bigOf(int64(r.IntN(5)))
		}
	case 6:
		if step > 0 {
			start = tyMin(u)
		} else {
			start = tyMax(u)
		}
	default:
		// end the run exactly at the type's maximum
		start = new(big.Int).Sub(tyMax(u), bigOf(int64(runLen-1)*abs64(step)))
		if step < 0 {
			start = new(big.Int).Add(tyMin(u), bigOf(int64(runLen-1)*abs64(step)))
		}
	}
	for i := 0; i < runLen; i++ {
		v := new(big.Int).Add(start, bigOf(int64(i)*step))
		if !add(&run, v) {
			break
		}
	}
	tries := 0
	for len(run)+len(extras) < m && tries < 10000 {
		tries++
		var v *big.Int
		if wideMode && r.IntN(3) == 0 {
			// around a literal of the source, or around a width boundary
			if len(steer) > 0 && r.IntN(2) == 0 {
				v = bigOf(steer[r.IntN(len(steer))] + int64(r.IntN(3)) - 1)
			} else {
				v = new(big.Int).Add(new(big.Int).Lsh(bigOf(1), uint([]int{6, 7, 8, 15, 16, 31, 32, 63}[r.IntN(8)])), bigOf(int64(r.IntN(3)-1)))
			}
			add(&extras, v)
			continue
		}
		switch r.IntN(12) {
		case 0:
			v = tyMin(u)
		case 1:
			v = tyMax(u)
		case 2:
			v = new(big.Int).Add(tyMin(u), bigOf(int64(1+r.IntN(3))))
		case 3:
			v = new(big.Int).Sub(tyMax(u), bigOf(int64(1+r.IntN(3))))
		case 4:
			v = bigOf(-int64(1 + r.IntN(20)))
		case 5:
			v = new(big.Int).Lsh(bigOf(1), uint(r.IntN(u.bits)))
		case 6:
			v = new(big.Int).Sub(new(big.Int).Lsh(bigOf(1), uint(r.IntN(u.bits))), bigOf(1))
		case 7:
			// the unsigned/signed boundary 2^(bits-1) and neighbours
			v = new(big.Int).Add(new(big.Int).Lsh(bigOf(1), uint(u.bits-1)), bigOf(int64(r.IntN(3)-1)))
		case 8, 9:
			v = bigOf(int64(r.IntN(60)))
		default:
			v = randInRange(r, u)
		}
		add(&extras, v)
	}
	return run, step, extras
}

// randInRange draws a value of the type (uniform up to a negligible modulo bias).
func randInRange(r *rand.Rand, u under) *big.Int {
	x := new(big.Int).SetUint64(r.Uint64())
	if u.bits < 64 {
		x.Mod(x, new(big.Int).Lsh(bigOf(1), uint(u.bits)))
	}
	return x.Add(x, tyMin(u))
}

func abs64(x int64) int64 {
	if x < 0 {
		return -x
	}
	return x
}

// litOf renders an integer literal in one of several spellings (all canonical constant
// expressions evaluating to v).
func litOf(r *rand.Rand, v *big.Int) string {
	if v.Sign() >= 0 && r.IntN(5) == 0 {
		return "0x" + v.Text(16)
	}
	return v.String()
}

// genEnum draws one enum definition without traits.  Blocks are numbered from *nextBlock.
func genEnum(r *rand.Rand, nm *namer, typeName string, nextBlock *int) EnumDef {
	u := underlyings[r.IntN(len(underlyings))]
	n := pickCount(r)
	maxDistinct := n
	if u.bits == 8 && maxDistinct > 200 {
		maxDistinct = 200
	}
	dups := 0
	if n > 1 && r.IntN(10) < 6 {
		dups = 1 + r.IntN(min(6, n-1))
	}
	m := maxDistinct - dups
	run, step, extras := pickValues(r, u, m)
	e := EnumDef{Type: typeName, Under: u.name, Signed: u.signed, Bits: u.bits}
	shape := map[string]bool{}

	// --- the iota run: its own block (or the head of a block shared with the extras)
	var blocks [][]Const
	if len(run) > 0 {
		var blk []Const
		lead := 0
		if r.IntN(4) == 0 {
			lead = 1 + r.IntN(2) // other constants before the run inside the block: iota starts above 0
		}
		for i := 0; i < lead && len(extras) > 0; i++ {
			v := extras[0]
			extras = extras[1:]
			blk = append(blk, Const{Name: nm.fresh(8), Val: v.String(), Form: "explicit", Rhs: litOf(r, v)})
		}
		pos := len(blk) // iota value of the first line of the run
		// value = start + step*(iota-pos)  ==  step*iota + (start - step*pos)
		off := new(big.Int).Sub(run[0], bigOf(step*int64(pos)))
		var expr string
		switch {
		case step == 1:
			expr = "iota"
		case step == -1:
			expr = "-iota"
		default:
			expr = fmt.Sprintf("iota * %d", step)
		}
		if off.Sign() > 0 {
			expr += " + " + off.String()
		} else if off.Sign() < 0 {
			expr += " - " + new(big.Int).Neg(off).String()
		}
		if step == -1 && off.Sign() > 0 {
			expr = off.String() + " - iota"
		}
		skipsLeft := 0
		if r.IntN(3) == 0 {
			skipsLeft = 1 + r.IntN(2)
		}
		// skipping a line drops one value of the progression: realise gaps by removing run values
		for i := 0; i < len(run); i++ {
			c := Const{Name: nm.fresh(8), Val: run[i].String()}
			if i == 0 {
				c.Form, c.Rhs = "iota", expr
			} else {
				c.Form = "implicit"
			}
			if i > 0 && i < len(run)-1 && skipsLeft > 0 && r.IntN(4) == 0 {
				// replace this constant by a blank line `_`: the value is simply not defined
				skipsLeft--
				blk[len(blk)-1].Skip++
				shape["iota_gap"] = true
				continue
			}
			blk = append(blk, c)
		}
		shape["iota"] = true
		if pos > 0 {
			shape["iota_offset_block"] = true
		}
		blocks = append(blocks, blk)
	}
	// --- explicit extras in 1..2 blocks
	if len(extras) > 0 {
		r.Shuffle(len(extras), func(i, j int) { extras[i], extras[j] = extras[j], extras[i] })
		nb := 1 + r.IntN(2)
		if len(blocks) > 0 && r.IntN(3) == 0 {
			nb = 0 // append to the run's block
		}
		per := (len(extras) + max(nb, 1) - 1) / max(nb, 1)
		for i, v := range extras {
			c := Const{Name: nm.fresh(8), Val: v.String(), Form: "explicit", Rhs: litOf(r, v)}
			if r.IntN(4) == 0 {
				c.Form = "conv"
			}
			if v.Sign() < 0 {
				shape["negative"] = true
			}
			if v.Cmp(tyMin(u)) == 0 || v.Cmp(tyMax(u)) == 0 {
				shape["extreme"] = true
			}
			if nb == 0 {
				blocks[len(blocks)-1] = append(blocks[len(blocks)-1], c)
			} else {
				if i%per == 0 {
					blocks = append(blocks, nil)
				}
				blocks[len(blocks)-1] = append(blocks[len(blocks)-1], c)
			}
		}
	}
	// --- duplicates: aliases of existing constants, with and without Deprecated markers
	var all []*Const
	for bi := range blocks {
		for ci := range blocks[bi] {
			all = append(all, &blocks[bi][ci])
		}
	}
	if dups > 0 && len(all) > 0 {
		shape["duplicates"] = true
		var dupBlk []Const
		ngroups := 1 + r.IntN(min(3, dups))
		targets := make([]*Const, ngroups)
		for i := range targets {
			targets[i] = all[r.IntN(len(all))]
		}
		pattern := r.IntN(6)
		for i := 0; i < dups; i++ {
			t := targets[i%ngroups]
			c := Const{Name: nm.fresh(8), Val: t.Val, Form: "alias", Rhs: t.Name}
			switch pattern {
			case 0: // originals deprecated, aliases not
				t.Dep = true
			case 1: // aliases deprecated
				c.Dep = true
			case 2: // everything deprecated
				t.Dep, c.Dep = true, true
			case 3: // nothing deprecated
			default:
				c.Dep = r.IntN(2) == 0
				if r.IntN(3) == 0 {
					t.Dep = true
				}
			}
			if r.IntN(5) == 0 {
				// spelled as a literal instead of a reference
				v, _ := new(big.Int).SetString(t.Val, 10)
				c.Form, c.Rhs = "explicit", litOf(r, v)
			}
			if r.IntN(3) == 0 && len(blocks) > 0 {
				bi := r.IntN(len(blocks))
				// only at the end of a block (never inside an iota run)
				blocks[bi] = append(blocks[bi], c)
			} else {
				dupBlk = append(dupBlk, c)
			}
		}
		if len(dupBlk) > 0 {
			if r.IntN(2) == 0 {
				blocks = append(blocks, dupBlk)
			} else {
				blocks = append([][]Const{dupBlk}, blocks...)
			}
		}
	}
	for _, blk := range blocks {
		for _, c := range blk {
			c.Block = *nextBlock
			e.Consts = append(e.Consts, c)
		}
		*nextBlock++
	}
	markDupShapes(&e, shape)
	for k := range shape {
		e.Shape = append(e.Shape, k)
	}
	sort.Strings(e.Shape)
	return e
}

// markDupShapes tags the duplicate groups of a definition (used for histograms and findings).
func markDupShapes(e *EnumDef, shape map[string]bool) {
	groups := map[string][]Const{}
	for _, c := range e.Consts {
		groups[c.Val] = append(groups[c.Val], c)
	}
	for _, g := range groups {
		if len(g) < 2 {
			continue
		}
		sort.Slice(g, func(i, j int) bool { return g[i].Name < g[j].Name })
		nd := 0
		for _, c := range g {
			if c.Dep {
				nd++
			}
		}
		switch {
		case nd == len(g):
			shape["dup_all_deprecated"] = true
		case nd == 0:
			shape["dup_none_deprecated"] = true
		default:
			shape["dup_some_deprecated"] = true
		}
		// a deprecated name sorts before two or more live ones (the A/B/C shape)
		live := 0
		seenDep := false
		for _, c := range g {
			if c.Dep {
				seenDep = true
			} else if seenDep {
				live++
			}
		}
		if live >= 2 {
			shape["dup_deprecated_before_two_live"] = true
		}
		for _, c := range g {
			if len(c.Cells) > 0 {
				shape["dup_with_trait_cells"] = true
			}
		}
	}
}

// ---------------------------------------------------------------- rendering

// render writes the package's defs.go: type declarations, then the const blocks in block
// order.  Constants of different enums that share a block number are written in one block.
func render(f *FileDef) string {
	var b strings.Builder
	fmt.Fprintf(&b, "package %s\n\n", f.Pkg)
	if f.uses("time.Duration") {
		b.WriteString("import tm \"time\"\n\nvar _ = tm.Second\n\n")
	}
	for _, e := range f.Enums {
		fmt.Fprintf(&b, "type %s %s\n\n", e.Type, e.Under)
	}
	type entry struct {
		e *EnumDef
		c *Const
	}
	blocks := map[int][]entry{}
	var order []int
	for ei := range f.Enums {
		e := &f.Enums[ei]
		for ci := range e.Consts {
			c := &e.Consts[ci]
			if _, ok := blocks[c.Block]; !ok {
				order = append(order, c.Block)
			}
			blocks[c.Block] = append(blocks[c.Block], entry{e, c})
		}
	}
	sort.Ints(order)
	for _, bi := range order {
		b.WriteString("const (\n")
		for _, en := range blocks[bi] {
			c, e := en.c, en.e
			if c.Dep {
				fmt.Fprintf(&b, "\t// Deprecated: kept for compatibility.\n")
			}
			lhs := c.Name
			rhsExtra := ""
			for _, cl := range c.Cells {
				lhs += ", " + cl.Var
				rhsExtra += ", " + cl.Expr
			}
			switch c.Form {
			case "implicit":
				fmt.Fprintf(&b, "\t%s\n", lhs)
			case "conv":
				fmt.Fprintf(&b, "\t%s = %s(%s)%s\n", lhs, e.Type, c.Rhs, rhsExtra)
			case "alias":
				if len(c.Cells) > 0 {
					fmt.Fprintf(&b, "\t%s = %s%s\n", lhs, c.Rhs, rhsExtra)
				} else {
					fmt.Fprintf(&b, "\t%s %s = %s\n", lhs, e.Type, c.Rhs)
				}
			default: // explicit, iota
				if len(c.Cells) > 0 {
					fmt.Fprintf(&b, "\t%s = %s(%s)%s\n", lhs, e.Type, c.Rhs, rhsExtra)
				} else {
					fmt.Fprintf(&b, "\t%s %s = %s\n", lhs, e.Type, c.Rhs)
				}
			}
			for i := 0; i < c.Skip; i++ {
				b.WriteString("\t_\n")
			}
		}
		b.WriteString(")\n\n")
	}
	return b.String()
}

// explicitForm rewrites a definition so that every constant is spelled `Name T = value`
// in one block per enum (used when minimising: dropping constants must not shift iota).
func explicitForm(f *FileDef) {
	blk := 0
	for ei := range f.Enums {
		e := &f.Enums[ei]
		for ci := range e.Consts {
			c := &e.Consts[ci]
			c.Form, c.Rhs, c.Skip, c.Block = "explicit", c.Val, 0, blk
		}
		blk++
	}
}
