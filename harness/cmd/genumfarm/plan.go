package main

import (
	"encoding/json"
	"math/big"
	"math/rand/v2"
	"sort"
	"strings"
)

// enumPlan mirrors dumplib.EnumPlan.
type enumPlan struct {
	Probes []string `json:"probes"`
	Strs   []string `json:"strs"`
	JSON   bool     `json:"json"`
	Text   bool     `json:"text"`
	YAML   bool     `json:"yaml"`
	JDocs  []string `json:"jdocs"`
	TDocs  []string `json:"tdocs"`
	YDocs  []string `json:"ydocs"`
	Cols   []string `json:"cols"`
	PCols  []string `json:"pcols"`
	StrCol []string `json:"strcols"`
}

// mirrors of dumplib's output records
type payloadJ struct {
	K string `json:"k"`
	S string `json:"s,omitempty"`
	I string `json:"i,omitempty"`
	B bool   `json:"b,omitempty"`
}
type dynJ struct {
	Ty string   `json:"ty"`
	P  payloadJ `json:"p"`
}
type probeOut struct {
	E     string `json:"e"`
	Valid bool   `json:"valid"`
	Str   string `json:"str"`
}
type parseOut struct {
	S  string `json:"s"`
	P  string `json:"p"`
	PS string `json:"ps"`
	PG string `json:"pg"`
}
type nativeOut struct {
	Ty string    `json:"ty"`
	Ok bool      `json:"ok"`
	P  *payloadJ `json:"p,omitempty"`
}
type docOut struct {
	Codec  string      `json:"codec"`
	Doc    string      `json:"doc"`
	From   string      `json:"from,omitempty"`
	Called bool        `json:"called"`
	Null   bool        `json:"null,omitempty"`
	Str    *string     `json:"str,omitempty"`
	U64    *string     `json:"u64,omitempty"`
	I64    *string     `json:"i64,omitempty"`
	Bool   *bool       `json:"bool,omitempty"`
	Native []nativeOut `json:"native,omitempty"`
	Res    string      `json:"res"`
}
type encOut struct {
	E    string  `json:"e"`
	JSON *string `json:"json,omitempty"`
	Text *string `json:"text,omitempty"`
	YAML *string `json:"yaml,omitempty"`
}
type accOut struct {
	Col string     `json:"col"`
	E   []string   `json:"e"`
	P   []payloadJ `json:"p"`
}
type tparseOut struct {
	Col string `json:"col"`
	E   string `json:"e"`
	In  dynJ   `json:"in"`
	Res string `json:"res"`
}
type oddOut struct {
	In dynJ   `json:"in"`
	P  string `json:"p"`
	PG string `json:"pg"`
}
type histEv struct {
	What string `json:"what"`
	I    int    `json:"i"`
	X    string `json:"x"`
}
type enumOut struct {
	Key        string      `json:"key"`
	Consts     [][2]string `json:"consts"`
	Values     []string    `json:"values"`
	StrValues  []string    `json:"strvalues"`
	Probes     []probeOut  `json:"probes"`
	Parses     []parseOut  `json:"parses"`
	Odd        []oddOut    `json:"odd,omitempty"`
	Hist       []histEv    `json:"hist,omitempty"`
	Values2    []string    `json:"values2"`
	StrValues2 []string    `json:"strvalues2"`
	Probes2    []probeOut  `json:"probes2"`
	Enc       []encOut    `json:"enc,omitempty"`
	Docs      []docOut    `json:"docs,omitempty"`
	Acc       []accOut    `json:"acc,omitempty"`
	TParse    []tparseOut `json:"tparse,omitempty"`
}

func underOf(e *EnumDef) under { return under{e.Under, e.Signed, e.Bits} }

func valOf(c *Const) *big.Int {
	v, ok := new(big.Int).SetString(c.Val, 10)
	if !ok {
		panic("bad value " + c.Val)
	}
	return v
}

// lowest returns the constant the generator takes trait names from: least (value, name).
func lowest(e *EnumDef) *Const {
	var best *Const
	for i := range e.Consts {
		c := &e.Consts[i]
		if best == nil {
			best = c
			continue
		}
		switch valOf(c).Cmp(valOf(best)) {
		case -1:
			best = c
		case 0:
			if c.Name < best.Name {
				best = c
			}
		}
	}
	return best
}

// columnsOf lists the trait accessor names the generator is expected to emit.
func columnsOf(e *EnumDef) []string {
	l := lowest(e)
	if l == nil {
		return nil
	}
	var out []string
	for _, cl := range l.Cells {
		if cl.Var == "_" || cl.Var == "__" {
			// the line of the lowest value does not name its traits: outside the documented shape
			// (the generator skips such columns); no accessors are expected or observed
			return nil
		}
		out = append(out, strings.TrimPrefix(cl.Var, "_"))
	}
	return out
}

func swapCase(s string) string {
	b := []byte(s)
	for i, c := range b {
		switch {
		case c >= 'a' && c <= 'z':
			b[i] = c - 'a' + 'A'
		case c >= 'A' && c <= 'Z':
			b[i] = c - 'A' + 'a'
		}
	}
	return string(b)
}

func randWord(r *rand.Rand) string {
	l := 1 + r.IntN(8)
	b := make([]byte, l)
	for i := range b {
		b[i] = "abcdefghijklmnopqrstuvwxyzABCDEFGHIJKLMNOPQRSTUVWXYZ0123456789_"[r.IntN(63)]
	}
	return string(b)
}

// nearMisses derives strings close to the names of the definition.
func nearMisses(r *rand.Rand, e *EnumDef, k int) []string {
	var out []string
	names := make([]string, len(e.Consts))
	for i, c := range e.Consts {
		names[i] = c.Name
	}
	for i := 0; i < k && len(names) > 0; i++ {
		n := names[r.IntN(len(names))]
		switch r.IntN(10) {
		case 9:
			// code points whose Unicode lower-case form is an ASCII letter (U+212A KELVIN SIGN -> k,
			// U+0130 -> i) or is not (U+212B ANGSTROM SIGN -> U+00E5, U+017F long s, U+00C4): under
			// -caseInsensitive strings.ToLower folds the first two into the name
			out = append(out, unicodeVariant(r, n))
		case 0:
			out = append(out, n+"x")
		case 1:
			out = append(out, "x"+n)
		case 2:
			if len(n) > 1 {
				out = append(out, n[:len(n)-1])
			} else {
				out = append(out, n+n)
			}
		case 3:
			out = append(out, " "+n)
		case 4:
			out = append(out, n+" ")
		case 5:
			out = append(out, swapCase(n))
		case 6:
			b := []byte(n)
			j := r.IntN(len(b))
			if b[j] >= 'a' && b[j] <= 'z' {
				b[j] = b[j] - 'a' + 'A'
			} else if b[j] >= 'A' && b[j] <= 'Z' {
				b[j] = b[j] - 'A' + 'a'
			} else {
				b[j] = 'q'
			}
			out = append(out, string(b))
		case 7:
			out = append(out, e.Type+"."+n)
		default:
			out = append(out, n+"_")
		}
	}
	return out
}

// unicodeVariant replaces one letter of the name by a non-ASCII code point related to it by case mapping.
func unicodeVariant(r *rand.Rand, n string) string {
	subst := map[byte][]string{
		'k': {"\u212a"}, 'K': {"\u212a"}, 'i': {"\u0130"}, 'I': {"\u0130"},
		'a': {"\u212b", "\u00c4", "\u00c5"}, 'A': {"\u212b", "\u00c4", "\u00e5"},
		's': {"\u017f", "\u1e9e"}, 'S': {"\u017f", "\u1e9e"}, 'y': {"\u0178"}, 'Y': {"\u0178", "\u00ff"},
		'o': {"\u00d6"}, 'O': {"\u00f6"}, 'e': {"\u00c9"}, 'E': {"\u00e9"},
	}
	var idx []int
	for i := 0; i < len(n); i++ {
		if _, ok := subst[n[i]]; ok {
			idx = append(idx, i)
		}
	}
	if len(idx) == 0 {
		return n + "\u212a"
	}
	i := idx[r.IntN(len(idx))]
	alts := subst[n[i]]
	return n[:i] + alts[r.IntN(len(alts))] + n[i+1:]
}

// undefinedFamily: the spelling String() gives undefined values, `Undefined<Type>:<n>`, for defined and
// undefined n, with signs, leading zeros, numbers that wrap to a defined value at the enum's width, other
// type names and other case — none of them is a name: every parser and decoder must reject them.
func undefinedFamily(e *EnumDef) []string {
	var nums []string
	u := underOf(e)
	width := new(big.Int).Lsh(bigOf(1), uint(u.bits))
	hi := tyMin(u)
	for i := range e.Consts {
		v := valOf(&e.Consts[i])
		if v.Cmp(hi) > 0 {
			hi = v
		}
		if i < 3 {
			nums = append(nums, v.String(), "+"+v.String(), "0"+v.String(), new(big.Int).Add(v, width).String(), new(big.Int).Sub(v, width).String())
		}
	}
	nums = append(nums, new(big.Int).Add(hi, bigOf(1)).String(), "77", "-77", "4611686018427387904", "", "x", "0x1", "1.0", " 1")
	var out []string
	for _, n := range nums {
		out = append(out, "Undefined"+e.Type+":"+n)
	}
	first := "0"
	if len(e.Consts) > 0 {
		first = e.Consts[0].Val
	}
	out = append(out, "Undefined"+e.Type, "undefined"+e.Type+":"+first, "UNDEFINED"+strings.ToUpper(e.Type)+":"+first,
		"UndefinedOther:"+first, "Undefined:"+first, "Undefined"+e.Type+": "+first, "Undefined"+e.Type+":"+first+" ",
		"Undefined"+strings.ToLower(e.Type)+":"+first)
	return out
}

// whiteSpaces: every kind of white space a document may carry around an accepted spelling
var whiteSpaces = []string{" ", "\t", "\r", "\n", "\r\n", "\v", "\u00a0", "\ufeff"}

// wsVariants: s with leading / trailing white space of each kind — none of them is s
func wsVariants(s string) []string {
	var out []string
	for _, w := range whiteSpaces {
		out = append(out, s+w, w+s)
	}
	return out
}

// jsonQuote renders a JSON (and YAML double-quoted) string literal
func jsonQuote(s string) string {
	b, err := json.Marshal(s)
	if err != nil {
		panic(err)
	}
	return string(b)
}

// yamlPlainSafe: the word can be written as a plain YAML scalar holding exactly the word
func yamlPlainSafe(w string) bool {
	if w == "" || strings.ContainsAny(w, " #{}[],&*!|>'\"%@`~") || w[0] == '-' || w[0] == ':' || w[len(w)-1] == ':' || strings.Contains(w, ": ") {
		return false
	}
	return true
}

func uniq(xs []string) []string {
	seen := map[string]bool{}
	var out []string
	for _, x := range xs {
		if !seen[x] {
			seen[x] = true
			out = append(out, x)
		}
	}
	return out
}

// printable: no control characters (non-ASCII UTF-8 is fine inside quoted JSON / YAML strings)
func printable(s string) bool {
	for i := 0; i < len(s); i++ {
		if s[i] < 32 || s[i] == 127 {
			return false
		}
	}
	return !strings.Contains(s, "\u2028") && !strings.Contains(s, "\u2029")
}

// foldVariants: the name with the first k / i / a / s (either case) replaced by a code point that
// strings.ToLower maps to that letter (KELVIN SIGN, U+0130) or to something else (ANGSTROM SIGN, long s)
func foldVariants(n string) []string {
	var out []string
	for _, p := range []struct{ set, rep string }{{"kK", "\u212a"}, {"iI", "\u0130"}, {"aA", "\u212b"}, {"sS", "\u017f"}} {
		if i := strings.IndexAny(n, p.set); i >= 0 {
			out = append(out, n[:i]+p.rep+n[i+1:])
		}
	}
	return out
}

// planFor chooses the inputs tried on one enum.
func planFor(r *rand.Rand, fd *FileDef, e *EnumDef, mode string) *enumPlan {
	u := underOf(e)
	p := &enumPlan{}
	// ---- probe values
	if u.bits == 8 {
		lo := tyMin(u).Int64()
		for i := int64(0); i < 256; i++ {
			p.Probes = append(p.Probes, big.NewInt(lo+i).String())
		}
	} else {
		var ps []*big.Int
		add := func(v *big.Int) {
			if inRange(u, v) {
				ps = append(ps, v)
			}
		}
		add(tyMin(u))
		add(tyMax(u))
		add(new(big.Int).Add(tyMin(u), bigOf(1)))
		add(new(big.Int).Sub(tyMax(u), bigOf(1)))
		for _, k := range []int64{-2, -1, 0, 1, 2} {
			add(bigOf(k))
		}
		for i := range e.Consts {
			v := valOf(&e.Consts[i])
			add(v)
			add(new(big.Int).Add(v, bigOf(1)))
			add(new(big.Int).Sub(v, bigOf(1)))
		}
		nr := 64
		if mode != "c04" {
			nr = 8
		}
		for i := 0; i < nr; i++ {
			if i%2 == 0 && len(e.Consts) > 0 {
				v := valOf(&e.Consts[r.IntN(len(e.Consts))])
				add(new(big.Int).Add(v, bigOf(int64(r.IntN(9)-4))))
			} else {
				add(randInRange(r, u))
			}
		}
		seen := map[string]bool{}
		for _, v := range ps {
			if !seen[v.String()] {
				seen[v.String()] = true
				p.Probes = append(p.Probes, v.String())
			}
		}
	}
	// ---- strings for the parsers
	var strs []string
	for i, c := range e.Consts {
		strs = append(strs, c.Name, strings.ToLower(c.Name), strings.ToUpper(c.Name), swapCase(c.Name))
		if i < 8 {
			strs = append(strs, foldVariants(c.Name)...)
		}
	}
	nm := 50
	if mode != "c04" {
		nm = 12
	}
	strs = append(strs, nearMisses(r, e, nm)...)
	strs = append(strs, "", " ", "0", "1", "-1", "Undefined"+e.Type+":0", e.Type)
	strs = append(strs, undefinedFamily(e)...)
	for i, c := range e.Consts {
		if i < 2 {
			strs = append(strs, wsVariants(c.Name)...)
		}
	}
	for i := 0; i < 6; i++ {
		strs = append(strs, randWord(r))
	}
	for _, c := range e.Consts {
		if r.IntN(4) == 0 {
			strs = append(strs, c.Val)
		}
		for _, cl := range c.Cells {
			if cl.Kind == "str" {
				strs = append(strs, cl.Str)
			} else if cl.Kind == "int" {
				strs = append(strs, cl.Int)
			}
		}
	}
	p.Strs = uniq(strs)
	// ---- traits
	if !fd.Opts.NoTraits {
		p.Cols = columnsOf(e)
		for _, c := range p.Cols {
			for _, q := range fd.Opts.Parsable {
				if q == c {
					p.PCols = append(p.PCols, c)
				}
			}
		}
		if l := lowest(e); l != nil {
			for i, cl := range l.Cells {
				name := strings.TrimPrefix(cl.Var, "_")
				if cl.Kind == "str" && i < len(p.Cols) {
					for _, q := range p.PCols {
						if q == name {
							p.StrCol = append(p.StrCol, name)
						}
					}
				}
			}
		}
	}
	// ---- codecs
	if mode == "c05" || mode == "c12" {
		p.JSON, p.Text, p.YAML = fd.Opts.JSON, fd.Opts.Text, fd.Opts.YAML
	}
	if mode == "c05" {
		var words []string
		words = append(words, nearMisses(r, e, 10)...)
		for i := 0; i < 6; i++ {
			words = append(words, randWord(r))
		}
		words = append(words, "", "garbage", "0", "1", "7", "-1", "255", "256", "257", "65537", "4294967297",
			"18446744073709551615", "-9223372036854775808", "1.5", "1e3", "0x10", "+3", "007", "true", "~x",
			// what strconv.ParseBool / YAML 1.1 accept as booleans, other number notations, the int64/uint64 seam
			"false", "t", "f", "T", "F", "TRUE", "FALSE", "True", "False", "yes", "no", "on", "off", "y", "n", "Y", "N",
			"0o17", "0b101", "1_000", "-0", "1.0", "2.0", ".5", ".inf", ".nan", "9223372036854775807", "9223372036854775808",
			"-9223372036854775809", "18446744073709551616", "-18446744073709551615")
		for _, c := range e.Consts {
			if r.IntN(3) == 0 {
				words = append(words, c.Val)
			}
			if r.IntN(3) == 0 {
				words = append(words, strings.ToLower(c.Name), swapCase(c.Name))
				words = append(words, foldVariants(c.Name)...)
			}
			for _, cl := range c.Cells {
				// numerals / strings of traits (parsable or not)
				if cl.Kind == "str" {
					words = append(words, cl.Str)
				} else if cl.Kind == "int" {
					words = append(words, cl.Int)
					// numbers that WRAP to the trait value under Go's conversions at the trait type's width
					// and at 64 bits (the width of the decoders' readings): out of range, must be rejected
					// (not silently mapped).  For a uint64 trait 2^64-1 that is -1, for 2^63 it is -2^63.
					v, _ := new(big.Int).SetString(cl.Int, 10)
					widths := []int{64}
					if b := narrowBits(cl.Ty); b > 0 {
						widths = append(widths, b)
					}
					for _, b := range widths {
						m := new(big.Int).Lsh(bigOf(1), uint(b))
						words = append(words, new(big.Int).Add(v, m).String(), new(big.Int).Sub(v, m).String())
						if b < 64 {
							words = append(words, new(big.Int).Add(v, new(big.Int).Lsh(m, 1)).String())
						}
					}
				} else if cl.Kind == "bool" {
					if cl.Bool {
						words = append(words, "true")
					} else {
						words = append(words, "false")
					}
				}
			}
		}
		words = append(words, undefinedFamily(e)...)
		// every accepted spelling with leading / trailing white space of each kind (per decoder: raw text, JSON
		// and YAML double-quoted strings with escapes)
		var accepted []string
		for i, c := range e.Consts {
			if i < 2 {
				accepted = append(accepted, c.Name)
			}
			if i == 0 {
				accepted = append(accepted, strings.ToLower(c.Name))
			}
			for _, cl := range c.Cells {
				if cl.Kind == "str" && i < 2 {
					accepted = append(accepted, cl.Str)
				}
			}
		}
		for _, a := range uniq(accepted) {
			for _, w := range wsVariants(a) {
				p.TDocs = append(p.TDocs, w)
				p.JDocs = append(p.JDocs, jsonQuote(w))
				p.YDocs = append(p.YDocs, jsonQuote(w))
			}
		}
		// the literal null: json.Unmarshal "reads" "" and 0 from it; YAML null never reaches the decoder
		p.JDocs = append(p.JDocs, "null", " null ")
		p.YDocs = append(p.YDocs, "null", "~")
		// documents that hold no scalar at all: JSON arrays / objects, YAML sequences / mappings (yaml.v3
		// hands those nodes to UnmarshalYAML with Value ""), also with a defined name inside
		first := ""
		if len(e.Consts) > 0 {
			first = e.Consts[0].Name
		}
		p.JDocs = append(p.JDocs, "[]", "{}", "[1]", `{"a": 1}`, `["`+first+`"]`, `{"`+first+`": 0}`, "[[]]")
		p.YDocs = append(p.YDocs, "[]", "{}", "[1, 2]", "{a: b}", "- x\n- y", "["+first+"]", first+": 1", "[[]]", "- ''")
		words = uniq(words)
		sort.Strings(words)
		numeric := func(w string) bool {
			if w == "" {
				return false
			}
			_, ok := new(big.Float).SetString(w)
			return ok && !strings.ContainsAny(w, "xX_") && w[0] != '+' && !(len(w) > 1 && w[0] == '0' && w[1] != '.')
		}
		for _, w := range words {
			if !printable(w) {
				continue
			}
			q := `"` + strings.ReplaceAll(strings.ReplaceAll(w, `\`, `\\`), `"`, `\"`) + `"`
			p.JDocs = append(p.JDocs, q)
			if numeric(w) || w == "true" || w == "false" {
				p.JDocs = append(p.JDocs, w)
			}
			p.TDocs = append(p.TDocs, w)
			p.YDocs = append(p.YDocs, q)
			if yamlPlainSafe(w) || numeric(w) {
				p.YDocs = append(p.YDocs, w)
			}
		}
	}
	return p
}
