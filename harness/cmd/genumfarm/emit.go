package main

import (
	"fmt"
	"strings"

	"gtverif/internal/gal"
)

// gStr renders a Coq string.  Strings with bytes outside printable ASCII (TAB, non-ASCII, U+2028 …)
// are written as str_of_bytes [..] so that the cases file stays one plain ASCII line per case.
func gStr(s string) string {
	plain := true
	for i := 0; i < len(s); i++ {
		if s[i] < 32 || s[i] > 126 {
			plain = false
			break
		}
	}
	if plain {
		return gal.Str(s)
	}
	var b strings.Builder
	b.WriteString("(str_of_bytes [")
	for i := 0; i < len(s); i++ {
		if i > 0 {
			b.WriteString("; ")
		}
		fmt.Fprintf(&b, "%d", s[i])
	}
	b.WriteString("]%N)")
	return b.String()
}

func gZ(dec string) string { return "(" + dec + ")%Z" }

func gRes(s string) string {
	switch {
	case strings.HasPrefix(s, "ok:"):
		return "(ROk " + gZ(s[3:]) + ")"
	case s == "err":
		return "RErr"
	default:
		return "RPanic"
	}
}

func gOptStr(s *string) string {
	if s == nil {
		return "None"
	}
	return "(Some " + gStr(*s) + ")"
}

func gOptBool(b *bool) string {
	if b == nil {
		return "None"
	}
	return "(Some " + gal.Bool(*b) + ")"
}

func gOptZ(s *string) string {
	if s == nil {
		return "None"
	}
	return "(Some " + gZ(*s) + ")"
}

func gPayload(k, s, i string, b bool) string {
	switch k {
	case "str":
		return "(PStr " + gStr(s) + ")"
	case "int":
		return "(PInt " + gZ(i) + ")"
	case "bool":
		return "(PBool " + gal.Bool(b) + ")"
	}
	return "(PStr " + gStr("?"+s) + ")"
}

func gPayloadJ(p payloadJ) string { return gPayload(p.K, p.S, p.I, p.B) }

func gCell(c Cell) string {
	return "{| cl_var := " + gStr(c.Var) + "; cl_expr := " + gStr(c.Expr) + "; cl_val := {| dty := " +
		gStr(c.Ty) + "; dval := " + gPayload(c.Kind, c.Str, c.Int, c.Bool) + " |} |}"
}

func gConst(c Const) string {
	return "{| c_name := " + gStr(c.Name) + "; c_val := " + gZ(c.Val) + "; c_dep := " + gal.Bool(c.Dep) +
		"; c_cells := " + gal.ListOf(c.Cells, gCell) + " |}"
}

func gTypeInfo(t TypeInfo) string {
	return "(" + gStr(t.Ty) + ", {| ti_bkind := " + t.BKind + "; ti_json_own := " + gal.Bool(t.JSONOwn) +
		"; ti_yaml_own := " + gal.Bool(t.YAMLOwn) + "; ti_text_own := " + gal.Bool(t.TextOwn) + " |})"
}

func gDef(e *EnumDef) string {
	return "{| d_ty := {| ty_name := " + gStr(e.Type) + "; ty_signed := " + gal.Bool(e.Signed) +
		"; ty_bits := " + gZ(fmt.Sprint(e.Bits)) + " |}; d_consts := " + gal.ListOf(e.Consts, gConst) +
		"; d_types := " + gal.ListOf(e.Types, gTypeInfo) + " |}"
}

func gOpts(o Opts) string {
	return "{| o_json := " + gal.Bool(o.JSON) + "; o_yaml := " + gal.Bool(o.YAML) + "; o_text := " + gal.Bool(o.Text) +
		"; o_ci := " + gal.Bool(o.CI) + "; o_notraits := " + gal.Bool(o.NoTraits) + "; o_parsable := " +
		gal.ListOf(o.Parsable, gStr) + " |}"
}

// jsonCase is the replay / evidence form of a case.
type jsonCase struct {
	Mode     string   `json:"mode"`
	Kind     string   `json:"kind"`
	Pkg      string   `json:"pkg"`
	Enum     int      `json:"enum"`
	Type     string   `json:"type"`
	File     *FileDef `json:"file"`
	Outcome  string   `json:"outcome"`
	GenLog   string   `json:"gen_log,omitempty"`
	BuildLog string   `json:"build_log,omitempty"`
	Shape    []string `json:"shape,omitempty"`
	Obs      *enumOut `json:"obs,omitempty"`
	NConsts  int      `json:"nconsts"`
	Bits     int      `json:"bits"`
	Signed   bool     `json:"signed"`
	Mismatch string   `json:"const_value_mismatch,omitempty"`
}

func gFrom(s string) string {
	switch {
	case strings.HasPrefix(s, "value:"):
		return "(FromValue " + gZ(s[6:]) + ")"
	case strings.HasPrefix(s, "trait:"):
		rest := s[6:]
		i := strings.LastIndex(rest, ":")
		return "(FromTrait " + gStr(rest[:i]) + " " + gZ(rest[i+1:]) + ")"
	}
	return "FromNone"
}

func gDoc(d docOut) string {
	codec := map[string]string{"json": "CJson", "text": "CText", "yaml": "CYaml"}[d.Codec]
	nat := gal.ListOf(d.Native, func(n nativeOut) string {
		if n.Ok && n.P != nil {
			return "(" + gStr(n.Ty) + ", Some " + gPayloadJ(*n.P) + ")"
		}
		return "(" + gStr(n.Ty) + ", None)"
	})
	return "{| do_codec := " + codec + "; do_from := " + gFrom(d.From) + "; do_called := " + gal.Bool(d.Called) + "; do_null := " + gal.Bool(d.Null) +
		"; do_str := " + gOptStr(d.Str) + "; do_u64 := " + gOptZ(d.U64) + "; do_i64 := " + gOptZ(d.I64) + "; do_bool := " + gOptBool(d.Bool) +
		"; do_native := " + nat + "; do_res := " + gRes(d.Res) + " |}"
}

func emitCase(out *gal.Out, mode string, fd *FileDef, ei int, res *pkgResult, plan *enumPlan) {
	e := &fd.Enums[ei]
	jc := jsonCase{Mode: mode, Kind: fd.Kind, Pkg: fd.Pkg, Enum: ei, Type: e.Type, File: fd, Shape: e.Shape,
		NConsts: len(e.Consts), Bits: e.Bits, Signed: e.Signed}
	outcome := 0
	var obs *enumOut
	switch {
	case !res.GenOK && res.Wrote:
		outcome, jc.Outcome, jc.GenLog = 5, "generator_error_but_file_written", res.GenLog
	case !res.GenOK:
		outcome, jc.Outcome, jc.GenLog = 1, "generator_error", res.GenLog
	case !res.BuildOK:
		outcome, jc.Outcome, jc.BuildLog = 2, "compile_error", res.BuildLog
	default:
		obs = res.Enums[e.Type]
		if obs == nil {
			outcome, jc.Outcome, jc.BuildLog = 3, "observer_failed", res.BuildLog
		} else {
			jc.Outcome = "built"
		}
	}
	if obs == nil {
		obs = &enumOut{}
	} else {
		// cross-check of the intended constant values against what the compiler computed
		for _, nv := range obs.Consts {
			for _, c := range e.Consts {
				if c.Name == nv[0] && c.Val != nv[1] {
					jc.Mismatch = fmt.Sprintf("%s: intended %s, compiled %s", c.Name, c.Val, nv[1])
					outcome = 4
				}
			}
		}
	}
	jc.Obs = obs
	pre := map[string]string{"c04": "k_", "c05": "k5_", "c12": "k12_"}[mode]
	head := pre + "def := " + gDef(e) + "; " + pre + "opts := " + gOpts(fd.Opts) + "; " + pre + "outcome := " + gal.Nat(outcome)
	var g string
	switch mode {
	case "c04":
		g = "{| " + head +
			"; k_values := " + gal.ListOf(obs.Values, gZ) +
			"; k_strvalues := " + gal.ListOf(obs.StrValues, gStr) +
			"; k_probes := " + gal.ListOf(obs.Probes, func(p probeOut) string {
			return "(" + gZ(p.E) + ", (" + gal.Bool(p.Valid) + ", " + gStr(p.Str) + "))"
		}) +
			"; k_parses := " + gal.ListOf(obs.Parses, func(p parseOut) string {
			return "(" + gStr(p.S) + ", (" + gRes(p.P) + ", (" + gRes(p.PS) + ", " + gRes(p.PG) + ")))"
		}) +
			"; k_odd := " + gal.ListOf(obs.Odd, func(o oddOut) string {
			return "({| dty := " + gStr(o.In.Ty) + "; dval := " + gPayloadJ(o.In.P) + " |}, (" + gRes(o.P) + ", " + gRes(o.PG) + "))"
		}) +
			"; k_hist := " + gal.ListOf(obs.Hist, func(h histEv) string {
			if h.What == "values" {
				return "(HWriteValues " + gal.Nat(h.I) + " " + gZ(h.X) + ")"
			}
			return "(HWriteStringValues " + gal.Nat(h.I) + " " + gStr(h.X) + ")"
		}) +
			"; k_values2 := " + gal.ListOf(obs.Values2, gZ) +
			"; k_strvalues2 := " + gal.ListOf(obs.StrValues2, gStr) +
			"; k_probes2 := " + gal.ListOf(obs.Probes2, func(p probeOut) string {
			return "(" + gZ(p.E) + ", (" + gal.Bool(p.Valid) + ", " + gStr(p.Str) + "))"
		}) + " |}"
	case "c05":
		g = "{| " + head +
			"; k5_values := " + gal.ListOf(obs.Values2, gZ) +
			"; k5_enc := " + gal.ListOf(obs.Enc, func(x encOut) string {
			return "(" + gZ(x.E) + ", (" + gOptStr(x.JSON) + ", (" + gOptStr(x.Text) + ", " + gOptStr(x.YAML) + ")))"
		}) +
			"; k5_docs := " + gal.ListOf(obs.Docs, gDoc) + " |}"
	case "c12":
		g = "{| " + head +
			"; k12_values := " + gal.ListOf(obs.Values2, gZ) +
			"; k12_acc := " + gal.ListOf(obs.Acc, func(a accOut) string {
			items := make([]string, len(a.E))
			for i := range a.E {
				items[i] = "(" + gZ(a.E[i]) + ", " + gPayloadJ(a.P[i]) + ")"
			}
			return "(" + gStr(a.Col) + ", " + gal.List(items) + ")"
		}) +
			"; k12_tparse := " + gal.ListOf(obs.TParse, func(t tparseOut) string {
			return "(" + gStr(t.Col) + ", (" + gZ(t.E) + ", ({| dty := " + gStr(t.In.Ty) + "; dval := " +
				gPayloadJ(t.In.P) + " |}, " + gRes(t.Res) + ")))"
		}) +
			"; k12_docs := " + gal.ListOf(obs.Docs, gDoc) + " |}"
	}
	out.Case(g, jc)
}
