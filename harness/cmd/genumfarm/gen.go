package main

import (
	"fmt"
	"math/big"
	"math/rand/v2"
	"sort"
	"strings"
)

func defaultOpts() Opts { return Opts{JSON: true, YAML: true, Text: true} }

func explicitEnum(typ string, u under, blk int, consts ...Const) EnumDef {
	e := EnumDef{Type: typ, Under: u.name, Signed: u.signed, Bits: u.bits}
	for _, c := range consts {
		c.Block = blk
		if c.Form == "" {
			c.Form, c.Rhs = "explicit", c.Val
		}
		e.Consts = append(e.Consts, c)
	}
	shape := map[string]bool{}
	markDupShapes(&e, shape)
	for k := range shape {
		e.Shape = append(e.Shape, k)
	}
	sort.Strings(e.Shape)
	return e
}

func uByName(n string) under {
	for _, u := range underlyings {
		if u.name == n {
			return u
		}
	}
	panic(n)
}

// corpusFiles are the fixed witnesses (DESIGN §5) run before the random definitions.
func corpusFiles(mode string) []FileDef {
	var out []FileDef
	switch mode {
	case "c04":
		// A deprecated, B and C live, one value: String() must be "B"
		out = append(out, FileDef{Kind: "corpus", Opts: defaultOpts(), Enums: []EnumDef{
			explicitEnum("E0", uByName("int8"), 0,
				Const{Name: "A", Val: "1", Dep: true}, Const{Name: "B", Val: "1"}, Const{Name: "C", Val: "1"},
				Const{Name: "D", Val: "-3"}),
		}})
		// all names of a value deprecated; declaration order differs from alphabetical order
		ci := defaultOpts()
		ci.CI = true
		out = append(out, FileDef{Kind: "corpus", Opts: ci, Enums: []EnumDef{
			explicitEnum("E0", uByName("uint64"), 0,
				Const{Name: "Zed", Val: "18446744073709551615", Dep: true}, Const{Name: "Mid", Val: "18446744073709551615", Dep: true},
				Const{Name: "Top", Val: "9223372036854775808"}, Const{Name: "Low", Val: "9223372036854775807"},
				Const{Name: "Nil", Val: "0"}),
			explicitEnum("E1", uByName("int64"), 1,
				Const{Name: "MinV", Val: "-9223372036854775808"}, Const{Name: "MaxV", Val: "9223372036854775807"},
				Const{Name: "Neg", Val: "-1"}, Const{Name: "Zero", Val: "0", Dep: true}, Const{Name: "Also0", Val: "0"}),
		}})
		// 15 / 16 constants around the binary-search switch, duplicates counted
		var c15, c16 []Const
		for i := 0; i < 15; i++ {
			c15 = append(c15, Const{Name: fmt.Sprintf("V%d", i), Val: fmt.Sprint(i*3 - 20)})
		}
		for i := 0; i < 14; i++ {
			c16 = append(c16, Const{Name: fmt.Sprintf("W%d", i), Val: fmt.Sprint(200 - i*7)})
		}
		c16 = append(c16, Const{Name: "Wdup1", Val: "200"}, Const{Name: "Wdup2", Val: "200", Dep: true})
		out = append(out, FileDef{Kind: "corpus", Opts: defaultOpts(), Enums: []EnumDef{
			explicitEnum("E0", uByName("int16"), 0, c15...),
			explicitEnum("E1", uByName("uint8"), 1, c16...),
		}})
		// names with letters that non-ASCII code points fold to (strings.ToLower: KELVIN SIGN -> k, U+0130 -> i)
		for _, withCI := range []bool{true, false} {
			o := defaultOpts()
			o.CI = withCI
			out = append(out, FileDef{Kind: "corpus", Opts: o, Enums: []EnumDef{
				explicitEnum("E0", uByName("int8"), 0, Const{Name: "K", Val: "0"}, Const{Name: "Kilo", Val: "1"},
					Const{Name: "Iota", Val: "2"}, Const{Name: "Sky", Val: "-1"}, Const{Name: "mass", Val: "3"}),
			}})
		}
		// representation boundaries of the value set: enums whose highest (lowest) value sits at, just below and just
		// above 2^6, 2^7, 2^8, 2^15, 2^16, 2^31, 2^32, 2^63, 2^64 - wherever a table, bit-set, or narrower integer
		// representation of the set would change - each probed on every defined value and its neighbours
		for _, group := range [][]string{
			{"63", "64", "65", "127"}, {"128", "255", "256", "32767"}, {"32768", "65535", "65536", "2147483647"},
			{"2147483648", "4294967295", "4294967296", "9223372036854775807"},
			{"9223372036854775808", "18446744073709551615", "62", "1"},
		} {
			var enums []EnumDef
			for gi, hi := range group {
				v := bigStr(hi)
				u := uByName("uint64")
				for _, cand := range []string{"uint8", "uint16", "uint32"} {
					if inRange(uByName(cand), v) && gi%2 == 1 {
						u = uByName(cand) // every other enum in the narrowest unsigned type that holds the maximum
						break
					}
				}
				mid := new(big.Int).Rsh(v, 1)
				enums = append(enums, explicitEnum(fmt.Sprintf("E%d", gi), u, gi,
					Const{Name: fmt.Sprintf("Lo%d", gi), Val: "0"}, Const{Name: fmt.Sprintf("Mid%d", gi), Val: mid.String()},
					Const{Name: fmt.Sprintf("Hi%d", gi), Val: v.String()}))
			}
			out = append(out, FileDef{Kind: "corpus", Opts: defaultOpts(), Enums: enums})
		}
		// … the same on the negative side (signed types), and a set that is a single value
		{
			var enums []EnumDef
			for gi, lo := range []string{"-1", "-64", "-128", "-129", "-32768", "-2147483648", "-9223372036854775808"} {
				v := bigStr(lo)
				u := uByName("int64")
				for _, cand := range []string{"int8", "int16", "int32"} {
					if inRange(uByName(cand), v) && gi%2 == 0 {
						u = uByName(cand)
						break
					}
				}
				enums = append(enums, explicitEnum(fmt.Sprintf("E%d", gi), u, gi,
					Const{Name: fmt.Sprintf("Neg%d", gi), Val: v.String()}, Const{Name: fmt.Sprintf("Zero%d", gi), Val: "0"},
					Const{Name: fmt.Sprintf("Top%d", gi), Val: "64"}))
			}
			out = append(out, FileDef{Kind: "corpus", Opts: defaultOpts(), Enums: enums[:4]}, FileDef{Kind: "corpus", Opts: defaultOpts(), Enums: enums[4:]})
		}
		// exactly 17 constants (15 and 16 are above): the other side of the binary-search switch
		{
			var c17 []Const
			for i := 0; i < 17; i++ {
				c17 = append(c17, Const{Name: fmt.Sprintf("X%d", i), Val: fmt.Sprint(i * 4)})
			}
			out = append(out, FileDef{Kind: "corpus", Opts: defaultOpts(), Enums: []EnumDef{explicitEnum("E0", uByName("uint8"), 0, c17...)}})
		}
		// constants named like identifiers the template binds: `e`, `input` always refused; `text`, `ok` refused
		// with -caseInsensitive only (without it they are ordinary constants)
		for _, rn := range []struct {
			name string
			ci   bool
		}{{"e", false}, {"input", true}, {"text", true}, {"ok", false}, {"ok", true}, {"v", false}} {
			o := defaultOpts()
			o.CI = rn.ci
			out = append(out, FileDef{Kind: "corpus", Opts: o, Enums: []EnumDef{
				explicitEnum("E0", uByName("int"), 0, Const{Name: rn.name, Val: "0"}, Const{Name: "f", Val: "1"},
					Const{Name: "s", Val: "2"}, Const{Name: "err", Val: "3"}, Const{Name: "data", Val: "4"}, Const{Name: "value", Val: "5"}),
			}})
		}
		// names that differ only by case: refused under -caseInsensitive, two constants otherwise
		for _, withCI := range []bool{true, false} {
			o := defaultOpts()
			o.CI = withCI
			e := explicitEnum("E0", uByName("uint8"), 0,
				Const{Name: "Red", Val: "1"}, Const{Name: "RED", Val: "2"}, Const{Name: "Blue", Val: "3"})
			e.Shape = append(e.Shape, "names_differ_only_by_case")
			out = append(out, FileDef{Kind: "corpus", Opts: o, Enums: []EnumDef{e}})
		}
	case "c05":
		out = append(out, corpusC05()...)
		out = append(out, corpusClasses()...)
	case "c12":
		out = append(out, corpusC12()...)
		out = append(out, corpusClasses()...)
	}
	return out
}

// randomFile draws one definition file for the given property.
func randomFile(r *rand.Rand, mode string) FileDef {
	switch mode {
	case "c05":
		return randomFileC05(r)
	case "c12":
		return randomFileC12(r)
	}
	fd := FileDef{Kind: "random", Opts: defaultOpts()}
	fd.Opts.CI = r.IntN(2) == 0
	nm := newNamer(r)
	nt := 1 + r.IntN(4)
	blk := 0
	for i := 0; i < nt; i++ {
		fd.Enums = append(fd.Enums, genEnum(r, nm, fmt.Sprintf("E%d", i), &blk))
	}
	shareBlocks(r, &fd)
	if r.IntN(12) == 0 {
		caseCollision(r, &fd)
	}
	return fd
}

// caseCollision (near-miss stream): gives one enum a further constant whose name differs from
// an existing one only by case.  Under -caseInsensitive the generator must refuse the definition;
// without it the two names are simply two constants.
func caseCollision(r *rand.Rand, fd *FileDef) {
	e := &fd.Enums[r.IntN(len(fd.Enums))]
	taken := map[string]bool{}
	for _, en := range fd.Enums {
		taken[en.Type] = true
		for _, c := range en.Consts {
			taken[c.Name] = true
		}
	}
	for tries := 0; tries < 20; tries++ {
		t := e.Consts[r.IntN(len(e.Consts))]
		variant := strings.ToUpper(t.Name)
		if r.IntN(2) == 0 || variant == t.Name {
			variant = swapCase(t.Name)
		}
		if variant == t.Name || taken[variant] || reserved[variant] || reserved[strings.ToLower(variant)] && variant == strings.ToLower(variant) {
			continue
		}
		c := Const{Name: variant, Val: t.Val, Form: "alias", Rhs: t.Name, Block: e.Consts[len(e.Consts)-1].Block}
		if r.IntN(2) == 0 {
			// a different value when one is free
			u := underOf(e)
			v := randInRange(r, u)
			used := false
			for _, k := range e.Consts {
				if k.Val == v.String() {
					used = true
				}
			}
			if !used {
				c.Val, c.Form, c.Rhs = v.String(), "explicit", v.String()
			}
		}
		last := e.Consts[len(e.Consts)-1]
		if last.Form == "iota" || last.Form == "implicit" || last.Skip > 0 {
			// keep iota runs intact: open a block of its own
			maxB := 0
			for _, en := range fd.Enums {
				for _, k := range en.Consts {
					if k.Block > maxB {
						maxB = k.Block
					}
				}
			}
			c.Block = maxB + 1
		}
		e.Consts = append(e.Consts, c)
		e.Shape = append(e.Shape, "names_differ_only_by_case")
		sort.Strings(e.Shape)
		fd.Opts.CI = r.IntN(4) > 0
		if fd.Opts.CI {
			// the refusal concerns the whole CLI run: keep the file to this one enum
			fd.Enums = []EnumDef{*e}
		}
		return
	}
}

// shareBlocks sometimes writes a block of a later enum (one without iota forms) into a block of
// an earlier enum, so that constants of several types share one const block.
func shareBlocks(r *rand.Rand, fd *FileDef) {
	if len(fd.Enums) < 2 || r.IntN(3) != 0 {
		return
	}
	j := 1 + r.IntN(len(fd.Enums)-1)
	e := &fd.Enums[j]
	plain := map[int]bool{}
	for _, c := range e.Consts {
		if _, ok := plain[c.Block]; !ok {
			plain[c.Block] = true
		}
		if c.Form == "iota" || c.Form == "implicit" {
			plain[c.Block] = false
		}
	}
	var cands []int
	for b, ok := range plain {
		if ok {
			cands = append(cands, b)
		}
	}
	if len(cands) == 0 {
		return
	}
	sort.Ints(cands)
	src := cands[r.IntN(len(cands))]
	prev := &fd.Enums[r.IntN(j)]
	if len(prev.Consts) == 0 {
		return
	}
	dst := prev.Consts[r.IntN(len(prev.Consts))].Block
	for i := range e.Consts {
		if e.Consts[i].Block == src {
			e.Consts[i].Block = dst
		}
	}
	for i := range fd.Enums {
		if !contains(fd.Enums[i].Shape, "shared_block") && (i == j || &fd.Enums[i] == prev) {
			fd.Enums[i].Shape = append(fd.Enums[i].Shape, "shared_block")
			sort.Strings(fd.Enums[i].Shape)
		}
	}
}

func contains(xs []string, s string) bool {
	for _, x := range xs {
		if x == s {
			return true
		}
	}
	return false
}

// auxSource is the auxiliary file of packages with traits: locally named string / int types
// and two further enums (generated first, so that they bring their own unmarshalers).
func auxSource(pkg string) string {
	var b strings.Builder
	fmt.Fprintf(&b, "package %s\n\ntype Str string\n\ntype Num int\n\ntype AuxA int\n\ntype AuxB uint8\n\nconst (\n", pkg)
	for i := 0; i < 48; i++ {
		if i == 0 {
			b.WriteString("\tAuxA0 AuxA = iota\n")
		} else {
			fmt.Fprintf(&b, "\tAuxA%d\n", i)
		}
	}
	b.WriteString(")\n\nconst (\n")
	for i := 0; i < 48; i++ {
		if i == 0 {
			b.WriteString("\tAuxB0 AuxB = iota\n")
		} else {
			fmt.Fprintf(&b, "\tAuxB%d\n", i)
		}
	}
	b.WriteString(")\n")
	return b.String()
}
