// c18 — runs package log of the current tree on generated operation sequences over a growing
// tree of contexts and records, after every operation, what an in-memory zap core
// (zaptest/observer) captures for every context at every level Debug..Error.
//
//	c18 -seed N -out PREFIX -mode corpus|random|nearmiss|globalswap|sparsecorpus|sparse|replay|stress -n COUNT [-in FILE]
//
// Modes sparse / sparsecorpus call Log(ctx) only at a few points of the history and on every
// context at its end (a defect that an intermediate Log call repairs stays visible).
//
// Field k is the zap field Int64("f<k mod 7>", k): names repeat, values identify the field.
package main

import (
	"bufio"
	"context"
	"encoding/json"
	"flag"
	"fmt"
	"math/rand/v2"
	"os"
	"runtime"
	"sync"
	"time"

	"go.uber.org/zap"
	"go.uber.org/zap/zapcore"
	"go.uber.org/zap/zaptest/observer"

	"github.com/drshriveer/gtools/log"

	"gtverif/internal/gal"
	"gtverif/internal/logvocab"
)

type op struct {
	Op     string   `json:"op"` // Init Child With SetLevel EnableDebug Derive | Global (zap.ReplaceGlobals)
	Ctx    int      `json:"ctx"`
	Fields []uint64 `json:"fields,omitempty"`
	Level  int      `json:"level"`
}

// probe of one logger at the levels Debug..Error: bit i of Mask = exactly one entry captured at
// level i-1, carrying exactly Fields; anything else (several entries, differing fields, wrong
// level) is reported verbatim in Full.
type cobs struct {
	Fields []uint64     `json:"fields"`
	Mask   uint64       `json:"mask"`
	Full   [][][]uint64 `json:"full,omitempty"`
}

// one changed probe of a step: context index and what it now shows
type dobs struct {
	Ctx int  `json:"ctx"`
	Obs cobs `json:"obs"`
}

type globalSpec struct {
	Level  int      `json:"level"`
	Fields []uint64 `json:"fields"`
	Wrap   *int     `json:"wrap,omitempty"` // global logger itself produced by CustomLevelLogger
}

type jcase struct {
	Kind string     `json:"kind"`
	Glob globalSpec `json:"glob"`
	Ops  []op       `json:"ops"`
	Obs  [][]dobs   `json:"obs"` // per step (first: before any operation) the probes that changed
	// sparse observation: Log(ctx) is called only at the points of Plan and, for every context,
	// after the whole history
	Sparse bool      `json:"sparse,omitempty"`
	Plan   []probePt `json:"plan,omitempty"`
	Probes []pobs    `json:"probes,omitempty"`
}

// probePt: after At operations, probe the contexts Ctxs (in that order).
type probePt struct {
	At   int   `json:"at"`
	Ctxs []int `json:"ctxs"`
}

// pobs: what the probes taken after At operations showed.
type pobs struct {
	At  int    `json:"at"`
	Obs []dobs `json:"obs"`
}

type cop struct {
	Op     string   `json:"op"` // With | SetLevel
	Fields []uint64 `json:"fields,omitempty"`
	Level  int      `json:"level"`
}

type scase struct {
	Kind   string     `json:"kind"`
	Glob   globalSpec `json:"init"`
	Progs  [][]cop    `json:"progs"`
	Tail   []cop      `json:"tail,omitempty"` // issued after all goroutines have returned
	Final  cobs       `json:"final"`
	Iter   int        `json:"iter"`
	Thread int        `json:"threads"`
}

func zfield(k uint64) zap.Field { return logvocab.Field(k) }

// scratch is the ONE slice the harness passes fields in - as a worker loop with a pooled buffer
// would: every call gets scratch[:n] (spare capacity behind it), and as soon as the call has
// returned the slots are overwritten.  The package must have copied what it wants to keep.
var scratch = make([]zap.Field, 16)

func zfields(ks []uint64) []zap.Field {
	if len(ks) > len(scratch) {
		scratch = make([]zap.Field, 2*len(ks))
	}
	out := scratch[:len(ks)]
	for i, k := range ks {
		out[i] = zfield(k)
	}
	return out
}

// zfieldsFresh: a slice of its own (the free-running goroutines of the stress mode must not share
// the scratch slice).
func zfieldsFresh(ks []uint64) []zap.Field {
	out := make([]zap.Field, len(ks))
	for i, k := range ks {
		out[i] = zfield(k)
	}
	return out
}

func poison(fs []zap.Field) {
	for i := range fs {
		fs[i] = logvocab.Poison()
	}
}

// fieldID maps a captured field back; a field that is not one of ours gets a large id.
func fieldID(f zapcore.Field) uint64 { return logvocab.ID(f) }

var levels = []zapcore.Level{zapcore.DebugLevel, zapcore.InfoLevel, zapcore.WarnLevel, zapcore.ErrorLevel}

type otherKey struct{ n int }

// sinks collects the captured entries of every in-memory core installed during one case: a
// logger derived before zap.ReplaceGlobals keeps writing to the core it was derived from.
type sinks struct{ all []*observer.ObservedLogs }

func (s *sinks) TakeAll() []observer.LoggedEntry {
	var out []observer.LoggedEntry
	for _, l := range s.all {
		out = append(out, l.TakeAll()...)
	}
	return out
}

func installGlobal(g globalSpec) *sinks {
	s := &sinks{}
	s.install(g)
	return s
}

func (s *sinks) install(g globalSpec) {
	core, logs := observer.New(zapcore.Level(g.Level))
	s.all = append(s.all, logs)
	lg := zap.New(core)
	if len(g.Fields) > 0 {
		lg = lg.With(zfieldsFresh(g.Fields)...)
	}
	if g.Wrap != nil {
		lg = log.CustomLevelLogger(lg, zapcore.Level(*g.Wrap))
	}
	zap.ReplaceGlobals(lg)
}

func probe(ctx context.Context, logs *sinks) (res cobs) {
	defer func() {
		if p := recover(); p != nil {
			crashed = true
		}
		if crashed {
			res = cobs{Fields: []uint64{}, Mask: 0, Full: [][][]uint64{{{1 << 41}}}}
		}
	}()
	logs.TakeAll()
	full := make([][][]uint64, len(levels))
	var mask uint64
	var first []uint64
	have, regular := false, true
	for i, l := range levels {
		log.Log(ctx).Log(l, "probe")
		ents := logs.TakeAll()
		if len(ents) == 1 {
			mask |= 1 << uint(i)
		} else if len(ents) > 1 {
			regular = false
		}
		full[i] = make([][]uint64, len(ents))
		for j, e := range ents {
			ids := make([]uint64, len(e.Context))
			for k, f := range e.Context {
				ids[k] = fieldID(f)
			}
			full[i][j] = ids
			if e.Level != l {
				regular = false
			}
			if !have {
				first, have = ids, true
			} else if !same(first, ids) {
				regular = false
			}
		}
	}
	if first == nil {
		first = []uint64{}
	}
	if regular {
		return cobs{Fields: first, Mask: mask}
	}
	return cobs{Fields: []uint64{}, Mask: mask, Full: full}
}

func sameObs(a, b cobs) bool {
	if a.Mask != b.Mask || !same(a.Fields, b.Fields) || (a.Full == nil) != (b.Full == nil) || len(a.Full) != len(b.Full) {
		return false
	}
	for i := range a.Full {
		if len(a.Full[i]) != len(b.Full[i]) {
			return false
		}
		for j := range a.Full[i] {
			if !same(a.Full[i][j], b.Full[i][j]) {
				return false
			}
		}
	}
	return true
}

func same(a, b []uint64) bool {
	if len(a) != len(b) {
		return false
	}
	for i := range a {
		if a[i] != b[i] {
			return false
		}
	}
	return true
}

// apply executes one operation on the real package and returns the context it yields.
// crashed: an operation or a probe of the current case panicked (the case is then emitted with
// an irregular observation, i.e. as a failing input - a crash must not lose the input)
var crashed bool

func apply(i int, o op, ctxs []context.Context, logs *sinks, cancels *[]context.CancelFunc) (r context.Context) {
	var c context.Context = context.TODO()
	if o.Ctx >= 0 && o.Ctx < len(ctxs) {
		c = ctxs[o.Ctx]
	}
	defer func() {
		if p := recover(); p != nil {
			crashed = true
			r = c
		}
	}()
	switch o.Op {
	case "Init":
		fs := zfields(o.Fields)
		defer poison(fs)
		return log.InitLogger(c, fs...)
	case "Child":
		fs := zfields(o.Fields)
		defer poison(fs)
		return log.ChildLogger(c, fs...)
	case "With":
		fs := zfields(o.Fields)
		defer poison(fs)
		return log.WithFields(c, fs...)
	case "SetLevel":
		return log.SetLevel(c, zapcore.Level(o.Level))
	case "EnableDebug":
		return log.EnableDebug(c)
	case "Global":
		logs.install(globalSpec{Level: o.Level, Fields: o.Fields})
		return context.TODO()
	default: // Derive: a context derived for an unrelated reason; Level selects how
		switch o.Level {
		case 1: // cancelled while still in use (Log on a done context is still Log)
			r, cancel := context.WithCancel(c)
			cancel()
			return r
		case 2: // deadline already exceeded
			r, cancel := context.WithDeadline(c, time.Unix(1, 0))
			*cancels = append(*cancels, cancel)
			return r
		case 3:
			r, cancel := context.WithCancel(c)
			*cancels = append(*cancels, cancel)
			return r
		}
		if i%2 == 0 {
			return context.WithValue(c, otherKey{i}, i)
		}
		r, cancel := context.WithCancel(c)
		*cancels = append(*cancels, cancel)
		return r
	}
}

// runSeq executes the operations on the real package.
func runSeq(g globalSpec, ops []op) [][]dobs {
	crashed = false
	logs := installGlobal(g)
	ctxs := []context.Context{context.TODO()}
	prev := []cobs{probe(ctxs[0], logs)}
	out := make([][]dobs, 0, len(ops)+1)
	out = append(out, []dobs{{0, prev[0]}})
	var cancels []context.CancelFunc
	defer func() {
		for _, c := range cancels {
			c()
		}
	}()
	for i, o := range ops {
		ctxs = append(ctxs, apply(i, o, ctxs, logs, &cancels))
		// every context is probed at every level after every step; only changes are written
		diff := []dobs{}
		for k, cx := range ctxs {
			ob := probe(cx, logs)
			if k >= len(prev) {
				prev = append(prev, ob)
				diff = append(diff, dobs{k, ob})
			} else if !sameObs(prev[k], ob) {
				prev[k] = ob
				diff = append(diff, dobs{k, ob})
			}
		}
		out = append(out, diff)
	}
	return out
}

// runSparse executes the operations and calls Log(ctx) only where the plan says so, and on every
// context once the whole history has run.
func runSparse(g globalSpec, ops []op, plan []probePt) []pobs {
	crashed = false
	logs := installGlobal(g)
	ctxs := []context.Context{context.TODO()}
	var cancels []context.CancelFunc
	defer func() {
		for _, c := range cancels {
			c()
		}
	}()
	var out []pobs
	at := func(k int) {
		for _, p := range plan {
			if p.At != k || k >= len(ops) {
				continue
			}
			po := pobs{At: k, Obs: []dobs{}}
			for _, c := range p.Ctxs {
				if c >= 0 && c < len(ctxs) {
					po.Obs = append(po.Obs, dobs{c, probe(ctxs[c], logs)})
				}
			}
			out = append(out, po)
		}
	}
	for i, o := range ops {
		at(i)
		ctxs = append(ctxs, apply(i, o, ctxs, logs, &cancels))
	}
	fin := pobs{At: len(ops), Obs: []dobs{}}
	for k, cx := range ctxs {
		fin.Obs = append(fin.Obs, dobs{k, probe(cx, logs)})
	}
	return append(out, fin)
}

// ---------- Gallina printing (every case term is wrapped in (…)%N: field ids and masks are N) ----------
func gN(k uint64) string { return fmt.Sprintf("%d", k) }

func gFields(ks []uint64) string { return gal.ListOf(ks, gN) }

func gCore(g globalSpec) string {
	s := "(Base " + gal.Z(int64(g.Level)) + " " + gFields(g.Fields) + ")"
	if g.Wrap != nil {
		s = "(Wrap " + s + " " + gal.Z(int64(*g.Wrap)) + ")"
	}
	return s
}

func gOp(o op) string {
	c := gal.Nat(o.Ctx)
	switch o.Op {
	case "Init":
		return "OInit " + c + " " + gFields(o.Fields)
	case "Child":
		return "OChild " + c + " " + gFields(o.Fields)
	case "With":
		return "OWith " + c + " " + gFields(o.Fields)
	case "SetLevel":
		return "OSetLevel " + c + " " + gal.Z(int64(o.Level))
	case "EnableDebug":
		return "OEnableDebug " + c
	case "Global":
		return "OSetGlobal (Base " + gal.Z(int64(o.Level)) + " " + gFields(o.Fields) + ")"
	default:
		return "ODerive " + c
	}
}

func gObs(o cobs) string {
	if o.Full == nil {
		return "Reg " + gFields(o.Fields) + " " + gN(o.Mask)
	}
	return "Irr " + gal.ListOf(o.Full, func(l [][]uint64) string { return gal.ListOf(l, gFields) })
}

func gCop(o cop) string {
	if o.Op == "With" {
		return "CWith " + gFields(o.Fields)
	}
	return "CSetLevel " + gal.Z(int64(o.Level))
}

func emit(out *gal.Out, kind string, g globalSpec, ops []op) {
	if g.Fields == nil {
		g.Fields = []uint64{}
	}
	obs := runSeq(g, ops)
	t := "({| lc_glob := " + gCore(g) + "; lc_ops := " + gal.ListOf(ops, gOp) + "; lc_obs := " +
		gal.ListOf(obs, func(r []dobs) string {
			return gal.ListOf(r, func(d dobs) string { return gal.Pair(gal.Nat(d.Ctx), gObs(d.Obs)) })
		}) + " |})%N"
	out.Case(t, jcase{Kind: kind, Glob: g, Ops: ops, Obs: obs})
}

func emitSparse(out *gal.Out, kind string, g globalSpec, ops []op, plan []probePt) {
	if g.Fields == nil {
		g.Fields = []uint64{}
	}
	if plan == nil {
		plan = []probePt{}
	}
	pr := runSparse(g, ops, plan)
	t := "({| lp_glob := " + gCore(g) + "; lp_ops := " + gal.ListOf(ops, gOp) + "; lp_probes := " +
		gal.ListOf(pr, func(p pobs) string {
			return gal.Pair(gal.Nat(p.At), gal.ListOf(p.Obs, func(d dobs) string { return gal.Pair(gal.Nat(d.Ctx), gObs(d.Obs)) }))
		}) + " |})%N"
	out.Case(t, jcase{Kind: kind, Glob: g, Ops: ops, Sparse: true, Plan: plan, Probes: pr})
}

// ---------- generators ----------
type gen struct {
	r    *rand.Rand
	next uint64
	swap bool // also replace the global logger now and then (outside the property's operation list)
}

func (g *gen) fields(max int) []uint64 {
	n := 0
	switch x := g.r.IntN(100); {
	case x < 12:
		n = 0 // Logger.With() with no fields returns the receiver
	case x < 60:
		n = 1
	case x < 88:
		n = 2
	default:
		n = 3
	}
	if n > max {
		n = max
	}
	out := make([]uint64, n)
	for i := range out {
		if g.next > 3 && g.r.IntN(10) == 0 {
			out[i] = 1 + g.r.Uint64N(g.next-1) // the very same field again
		} else {
			out[i] = logvocab.Canon(g.next)
			g.next++
		}
	}
	return out
}

func (g *gen) level() int { return g.r.IntN(4) - 1 }

func (g *gen) global() globalSpec {
	gs := globalSpec{Level: []int{0, 0, 1, 1, -1, 2}[g.r.IntN(6)], Fields: []uint64{}}
	if g.r.IntN(4) == 0 {
		gs.Fields = g.fields(2)
	}
	if g.r.IntN(10) == 0 {
		w := g.level()
		gs.Wrap = &w
	}
	return gs
}

func (g *gen) ctx(n int) int {
	switch x := g.r.IntN(10); {
	case x < 4 && n > 1:
		return n - 1 - g.r.IntN(min(3, n)) // recent
	case x == 9:
		return 0 // the holder-less root
	default:
		return g.r.IntN(n)
	}
}

func (g *gen) randomOps(n int, nearmiss bool) []op {
	ops := make([]op, 0, n)
	for len(ops) < n {
		nctx := len(ops) + 1
		c := g.ctx(nctx)
		x := g.r.IntN(100)
		if nearmiss && len(ops) > 0 && g.r.IntN(3) == 0 {
			// SetLevel/EnableDebug directly followed by a field addition through the same
			// or a sharing context — the order the repository's test never takes
			prev := ops[len(ops)-1]
			if prev.Op == "SetLevel" || prev.Op == "EnableDebug" {
				c = []int{prev.Ctx, nctx - 1}[g.r.IntN(2)]
				x = 20 + g.r.IntN(50)
			}
		}
		if g.swap && g.r.IntN(8) == 0 {
			ops = append(ops, op{Op: "Global", Ctx: 0, Level: g.level(), Fields: g.fields(2)})
			continue
		}
		switch {
		case x < 10:
			ops = append(ops, op{Op: "Init", Ctx: c, Fields: g.fields(3)})
		case x < 30:
			ops = append(ops, op{Op: "Child", Ctx: c, Fields: g.fields(3)})
		case x < 62:
			ops = append(ops, op{Op: "With", Ctx: c, Fields: g.fields(3)})
		case x < 80:
			ops = append(ops, op{Op: "SetLevel", Ctx: c, Level: g.level()})
		case x < 90:
			ops = append(ops, op{Op: "EnableDebug", Ctx: c})
		default:
			ops = append(ops, op{Op: "Derive", Ctx: c, Level: g.r.IntN(4)})
		}
	}
	return ops
}

// one1 returns one fresh field (occasionally two): fields collected one call at a time.
func (g *gen) one1() []uint64 {
	n := 1
	if g.r.IntN(6) == 0 {
		n = 2
	}
	out := make([]uint64, n)
	for i := range out {
		out[i] = logvocab.Canon(g.next)
		g.next++
	}
	return out
}

// chainOps: histories in which loggers ACCUMULATE before anything else happens to them - a
// logger collects fields over several WithFields calls (through the context itself or contexts
// sharing its holder), possibly a level, and is then forked several times (ChildLogger with and
// without fields, InitLogger) while parent, children and siblings keep collecting fields and
// levels.  Several such rounds, each starting from a logger created earlier.
func (g *gen) chainOps(n int) []op {
	ops := make([]op, 0, n)
	add := func(o op) int { // returns the index of the context the operation yields
		if len(ops) < n {
			ops = append(ops, o)
		}
		return len(ops)
	}
	var loggers []int // contexts that carry a holder of their own
	for len(ops) < n {
		// the logger of this round: a new one, or one created before (a child, a sibling ...)
		var cur int
		switch {
		case len(loggers) == 0 || g.r.IntN(4) == 0:
			cur = add(op{Op: "Init", Ctx: 0, Fields: g.fields(2)})
		default:
			cur = loggers[g.r.IntN(len(loggers))]
		}
		share := []int{cur}
		k := 1 + g.r.IntN(8)
		for i := 0; i < k && len(ops) < n; i++ {
			c := share[g.r.IntN(len(share))]
			switch x := g.r.IntN(20); {
			case x == 0:
				share = append(share, add(op{Op: "Derive", Ctx: c, Level: g.r.IntN(4)}))
			case x == 1:
				share = append(share, add(op{Op: "SetLevel", Ctx: c, Level: g.level()}))
			case x == 2:
				share = append(share, add(op{Op: "EnableDebug", Ctx: c}))
			default:
				share = append(share, add(op{Op: "With", Ctx: c, Fields: g.one1()}))
			}
		}
		loggers = append(loggers, cur)
		// forks and further updates of parent / children / siblings, interleaved
		family := []int{cur}
		m := 2 + g.r.IntN(4)
		for i := 0; i < m && len(ops) < n; i++ {
			c := family[g.r.IntN(len(family))]
			switch x := g.r.IntN(10); {
			case x < 5:
				fs := g.one1()
				if g.r.IntN(4) == 0 {
					fs = nil
				}
				ch := add(op{Op: "Child", Ctx: share[g.r.IntN(len(share))], Fields: fs})
				family, loggers = append(family, ch), append(loggers, ch)
			case x < 8:
				add(op{Op: "With", Ctx: c, Fields: g.one1()})
			case x < 9:
				add(op{Op: "SetLevel", Ctx: c, Level: g.level()})
			default:
				ch := add(op{Op: "Child", Ctx: c, Fields: g.one1()})
				family, loggers = append(family, ch), append(loggers, ch)
			}
		}
	}
	return ops
}

// plan: where a sparse case calls Log(ctx) before the end of the history: nowhere (half of the
// cases), or at a few random points on one or two of the contexts that exist then.
func (g *gen) plan(nops int) []probePt {
	pl := []probePt{}
	if g.r.IntN(2) == 0 {
		return pl
	}
	for k := 1; k < nops; k++ {
		if g.r.IntN(8) != 0 {
			continue
		}
		cs := []int{g.r.IntN(k + 1)}
		if g.r.IntN(3) == 0 {
			cs = append(cs, g.r.IntN(k+1))
		}
		pl = append(pl, probePt{At: k, Ctxs: cs})
	}
	return pl
}

// sparseCorpus: one entry per class of history in which an intermediate Log(ctx) could hide a
// defect; all are probed only after the last operation.
func sparseCorpus(out *gal.Out) {
	info := globalSpec{Level: 0, Fields: []uint64{}}
	w := func(c int, k uint64) op { return op{Op: "With", Ctx: c, Fields: []uint64{k}} }
	ch := func(c int, ks ...uint64) op { return op{Op: "Child", Ctx: c, Fields: ks} }
	// sizes around the growth thresholds of slices (and beyond the 25 operations of the random streams)
	for _, k := range []int{1, 2, 3, 4, 5, 6, 7, 8, 9, 16, 17, 33} {
		// a logger that collected k fields one call at a time is forked twice; then the parent
		// and both children each collect one more
		ops := []op{{Op: "Init", Ctx: 0}}
		for i := 0; i < k; i++ {
			ops = append(ops, w(i+1, uint64(i+1)))
		}
		p := k + 1
		ops = append(ops, ch(p, 20), ch(p, 21), w(p, 22), w(p+1, 23), w(p+2, 24))
		emitSparse(out, "sparsecorpus", info, ops, nil)
		// the same with zero-field children that collect afterwards, and a level set on the way
		ops = []op{{Op: "Init", Ctx: 0, Fields: []uint64{9}}}
		for i := 0; i < k; i++ {
			ops = append(ops, w(i+1, uint64(i+1)))
		}
		ops = append(ops, op{Op: "SetLevel", Ctx: p, Level: 1}, ch(p+1), ch(p+1), w(p+2, 30), w(p+3, 31), w(p+1, 32),
			op{Op: "EnableDebug", Ctx: p + 3})
		emitSparse(out, "sparsecorpus", info, ops, nil)
	}
	// many fields in one call (9, 17, 33), then forks and more
	for _, n := range []int{9, 17, 33} {
		var many []uint64
		for i := 0; i < n; i++ {
			many = append(many, uint64(100+i))
		}
		emitSparse(out, "sparsecorpus", info, []op{{Op: "Init", Ctx: 0, Fields: many[:n/2]}, {Op: "With", Ctx: 1, Fields: many},
			ch(2, 20), ch(2, 21), w(2, 22), {Op: "SetLevel", Ctx: 3, Level: 1}, w(4, 23)}, nil)
	}
	// the global logger is replaced between the creation of a logger and its first use
	emitSparse(out, "sparsecorpus", info, []op{{Op: "Init", Ctx: 0, Fields: []uint64{1}}, {Op: "Global", Level: -1, Fields: []uint64{7}}}, nil)
	emitSparse(out, "sparsecorpus", info, []op{{Op: "Init", Ctx: 0, Fields: []uint64{1}}, {Op: "Global", Level: 2, Fields: []uint64{7}},
		w(1, 2), {Op: "Init", Ctx: 0, Fields: []uint64{3}}, {Op: "Global", Level: 0}, ch(1, 4), ch(4, 5)}, nil)
	// names an encoder uses itself, the empty name, every field kind, the same key twice
	emitSparse(out, "sparsecorpus", info, []op{{Op: "Init", Ctx: 0, Fields: []uint64{7, 8, 9}}, {Op: "With", Ctx: 1, Fields: []uint64{10, 11, 12}},
		ch(2, 13, 14, 18, 19), {Op: "With", Ctx: 3, Fields: []uint64{31, 55, 7, 37, 40}}, {Op: "Derive", Ctx: 4, Level: 1}, {Op: "Derive", Ctx: 4, Level: 2}}, nil)
	// fields given in one call, on the holder-less root, after InitLogger over an existing holder
	emitSparse(out, "sparsecorpus", info, []op{{Op: "Init", Ctx: 0, Fields: []uint64{1, 2, 3}}, ch(1, 4), ch(1, 5), w(1, 6)}, nil)
	emitSparse(out, "sparsecorpus", info, []op{w(0, 1), w(1, 2), w(2, 3), ch(3, 4), ch(3, 5), w(0, 6), ch(0, 7)}, nil)
	emitSparse(out, "sparsecorpus", info, []op{{Op: "Init", Ctx: 0, Fields: []uint64{1}}, w(1, 2), w(1, 3),
		{Op: "Init", Ctx: 3, Fields: []uint64{4}}, w(4, 5), ch(3, 6), ch(4, 7), w(3, 8)}, nil)
}

func corpus(out *gal.Out) {
	info := globalSpec{Level: 0, Fields: []uint64{}}
	warn := globalSpec{Level: 1, Fields: []uint64{}}
	// DESIGN §5: level lost after WithFields / ChildLogger
	emit(out, "corpus", info, []op{{Op: "Init", Ctx: 0, Fields: []uint64{1}}, {Op: "EnableDebug", Ctx: 1},
		{Op: "With", Ctx: 1, Fields: []uint64{2}}})
	emit(out, "corpus", info, []op{{Op: "Init", Ctx: 0, Fields: []uint64{1}}, {Op: "SetLevel", Ctx: 1, Level: 2},
		{Op: "Child", Ctx: 2, Fields: []uint64{2}}})
	emit(out, "corpus", info, []op{{Op: "EnableDebug", Ctx: 0}, {Op: "With", Ctx: 1, Fields: []uint64{1}}})
	// zap's Logger.With() with no fields is the identity: the level survives even on the pinned code
	emit(out, "corpus", info, []op{{Op: "Init", Ctx: 0, Fields: []uint64{1}}, {Op: "EnableDebug", Ctx: 1},
		{Op: "With", Ctx: 1}, {Op: "Child", Ctx: 1}})
	// nested overrides: the most recent SetLevel wins, older ones stay underneath
	emit(out, "corpus", info, []op{{Op: "Init", Ctx: 0}, {Op: "SetLevel", Ctx: 1, Level: 2}, {Op: "SetLevel", Ctx: 2, Level: -1},
		{Op: "With", Ctx: 1, Fields: []uint64{1, 2}}, {Op: "SetLevel", Ctx: 4, Level: 1}, {Op: "With", Ctx: 3, Fields: []uint64{3}}})
	// the script of TestInitLogger
	emit(out, "corpus", warn, []op{{Op: "Init", Ctx: 0, Fields: []uint64{1}}, {Op: "Init", Ctx: 1, Fields: []uint64{2}},
		{Op: "With", Ctx: 2, Fields: []uint64{3}}, {Op: "Child", Ctx: 3, Fields: []uint64{4}},
		{Op: "SetLevel", Ctx: 4, Level: 0}, {Op: "EnableDebug", Ctx: 4}})
	// names an encoder uses itself (level ts msg caller logger stacktrace error), the empty name,
	// the field kinds; contexts that are done (cancelled, deadline exceeded) while still used
	emit(out, "corpus", info, []op{{Op: "Init", Ctx: 0, Fields: []uint64{7, 8, 9}}, {Op: "With", Ctx: 1, Fields: []uint64{10, 11, 12}},
		{Op: "Child", Ctx: 2, Fields: []uint64{13, 14, 18, 19}}, {Op: "With", Ctx: 3, Fields: []uint64{31, 55, 7, 37, 40, 43, 46}},
		{Op: "Derive", Ctx: 4, Level: 1}, {Op: "Derive", Ctx: 4, Level: 2}, {Op: "With", Ctx: 5, Fields: []uint64{20, 21}},
		{Op: "SetLevel", Ctx: 6, Level: -1}, {Op: "Child", Ctx: 6, Fields: []uint64{22, 25, 28, 34}}})
	// forks do not leak fields either way; derived contexts share
	emit(out, "corpus", info, []op{{Op: "Init", Ctx: 0, Fields: []uint64{1}}, {Op: "Derive", Ctx: 1}, {Op: "Child", Ctx: 2, Fields: []uint64{2}},
		{Op: "With", Ctx: 2, Fields: []uint64{3}}, {Op: "With", Ctx: 3, Fields: []uint64{4}}, {Op: "Init", Ctx: 3, Fields: []uint64{5}},
		{Op: "With", Ctx: 0, Fields: []uint64{6}}, {Op: "With", Ctx: 0, Fields: []uint64{7}}})
}

// suspectOnly (-suspect): the stress run writes only final states that look like a lost field or
// a lost level (at most 12); the verdict is Coq's (sc_judge / final_ok).
var suspectOnly bool

// suspicious mirrors final_ok of LogCtxJudge.v.
func suspicious(in globalSpec, progs [][]cop, tail []cop, fin cobs) bool {
	if fin.Full != nil {
		return true
	}
	// the tail's fields come last, in its order; its last SetLevel decides the level
	var tf []uint64
	tailLevel, tailSets := 0, false
	for _, o := range tail {
		switch o.Op {
		case "With":
			tf = append(tf, o.Fields...)
		case "SetLevel":
			tailLevel, tailSets = o.Level, true
		}
	}
	if len(fin.Fields) < len(tf) || !same(fin.Fields[len(fin.Fields)-len(tf):], tf) {
		return true
	}
	fin = cobs{Fields: fin.Fields[:len(fin.Fields)-len(tf)], Mask: fin.Mask}
	want := map[uint64]int{}
	nadd := 0
	var lasts []int
	for _, p := range progs {
		last, has := 0, false
		for _, o := range p {
			if o.Op == "With" {
				for _, f := range o.Fields {
					want[f]++
					nadd++
				}
			} else {
				last, has = o.Level, true
			}
		}
		if has {
			lasts = append(lasts, last)
		}
	}
	if len(lasts) == 0 {
		l := in.Level
		if in.Wrap != nil {
			l = *in.Wrap
		}
		lasts = []int{l}
	}
	if tailSets {
		lasts = []int{tailLevel}
	}
	if len(fin.Fields) != len(in.Fields)+nadd || !same(fin.Fields[:len(in.Fields)], in.Fields) {
		return true
	}
	for _, f := range fin.Fields[len(in.Fields):] {
		want[f]--
		if want[f] < 0 {
			return true
		}
	}
	// the fields of one goroutine keep the order in which it added them
	for _, p := range progs {
		rest := fin.Fields[len(in.Fields):]
		for _, o := range p {
			if o.Op != "With" {
				continue
			}
			for _, f := range o.Fields {
				k := 0
				for k < len(rest) && rest[k] != f {
					k++
				}
				if k == len(rest) {
					return true
				}
				rest = rest[k+1:]
			}
		}
	}
	for _, l := range lasts {
		var m uint64
		for i := range levels {
			if i-1 >= l {
				m |= 1 << uint(i)
			}
		}
		if m == fin.Mask {
			return false
		}
	}
	return true
}

// ---------- free-running stress (thorough tier built with -race; short run as a last resort) ----------
func stress(out *gal.Out, g *gen, n int) {
	if runtime.GOMAXPROCS(0) < 4 {
		runtime.GOMAXPROCS(4)
	}
	for it := 0; it < n; it++ {
		g.next = 1
		gs := globalSpec{Level: g.level(), Fields: g.fields(2)}
		logs := installGlobal(gs)
		base := log.InitLogger(context.TODO())
		if g.r.IntN(3) == 0 {
			w := g.level()
			gs.Wrap = &w
			log.SetLevel(base, zapcore.Level(w))
		}
		nth := 2 + g.r.IntN(7)
		var progs [][]cop
		tail := []cop{}
		if it%5 < 2 {
			// goroutines that each request a different level, then one of these levels is
			// requested once more after all have returned
			nth = 2 + g.r.IntN(2)
			perm := g.r.Perm(4)
			progs = make([][]cop, nth)
			for t := range progs {
				progs[t] = []cop{{Op: "SetLevel", Level: perm[t] - 1}}
			}
			tail = []cop{progs[g.r.IntN(nth)][0]}
		} else {
			progs = make([][]cop, nth)
			var sets []cop
			for t := range progs {
				k := 1 + g.r.IntN(4)
				for i := 0; i < k; i++ {
					if g.r.IntN(4) == 0 {
						o := cop{Op: "SetLevel", Level: g.level()}
						progs[t], sets = append(progs[t], o), append(sets, o)
					} else {
						f := g.fields(2)
						if len(f) == 0 {
							f = []uint64{g.next}
							g.next++
						}
						progs[t] = append(progs[t], cop{Op: "With", Fields: f})
					}
				}
			}
			if g.r.IntN(3) == 0 {
				if len(sets) > 0 && g.r.IntN(2) == 0 {
					tail = append(tail, sets[g.r.IntN(len(sets))])
				} else {
					tail = append(tail, cop{Op: "With", Fields: []uint64{g.next}})
					g.next++
				}
			}
		}
		start := make(chan struct{})
		var wg sync.WaitGroup
		for t := range progs {
			wg.Add(1)
			cx := context.WithValue(base, otherKey{t}, t) // distinct contexts sharing the holder
			go func(cx context.Context, p []cop) {
				defer wg.Done()
				<-start
				for _, o := range p {
					if o.Op == "With" {
						log.WithFields(cx, zfieldsFresh(o.Fields)...)
					} else {
						log.SetLevel(cx, zapcore.Level(o.Level))
					}
				}
			}(cx, progs[t])
		}
		close(start)
		wg.Wait()
		for _, o := range tail {
			if o.Op == "With" {
				log.WithFields(base, zfieldsFresh(o.Fields)...)
			} else {
				log.SetLevel(base, zapcore.Level(o.Level))
			}
		}
		fin := probe(base, logs)
		if suspectOnly {
			if !suspicious(gs, progs, tail, fin) || out.N >= 12 {
				continue
			}
		}
		t := "({| sc_init := " + gCore(gs) + "; sc_progs := " +
			gal.ListOf(progs, func(p []cop) string { return gal.ListOf(p, gCop) }) +
			"; sc_tail := " + gal.ListOf(tail, gCop) +
			"; sc_final := " + gObs(fin) + "; sc_children := [] |})%N"
		out.Case(t, scase{"stress", gs, progs, tail, fin, it, nth})
	}
}

func main() {
	seed := flag.Uint64("seed", 1, "seed")
	outp := flag.String("out", "c18", "output prefix")
	mode := flag.String("mode", "random", "corpus|random|nearmiss|globalswap|sparsecorpus|sparse|replay|stress")
	n := flag.Int("n", 100, "number of cases")
	maxLen := flag.Int("maxlen", 25, "maximal sequence length")
	in := flag.String("in", "", "replay: file with one {glob, ops} JSON object per line")
	suspect := flag.Bool("suspect", false, "stress: write only final states that look like a lost update")
	flag.Parse()
	suspectOnly = *suspect
	out := gal.NewOut(*outp)
	defer out.Close()
	g := &gen{r: gal.NewRand(*seed), next: 1}
	switch *mode {
	case "corpus":
		corpus(out)
	case "sparsecorpus":
		sparseCorpus(out)
	case "sparse":
		for i := 0; i < *n; i++ {
			g.next = 1
			gs := g.global()
			ln := 4 + g.r.IntN(*maxLen-3)
			if i%4 == 0 {
				ln = *maxLen
			}
			var ops []op
			// a quarter of the cases also replace the global logger between operations: a logger
			// must start from the global logger of its creation, not of its first use
			g.swap = i%4 == 3
			if i%2 == 0 {
				ops = g.chainOps(ln)
			} else {
				ops = g.randomOps(ln, i%4 == 1)
			}
			emitSparse(out, "sparse", gs, ops, g.plan(len(ops)))
		}
	case "replay":
		f, err := os.Open(*in)
		if err != nil {
			panic(err)
		}
		defer f.Close()
		sc := bufio.NewScanner(f)
		sc.Buffer(make([]byte, 1<<20), 1<<26)
		for sc.Scan() {
			var c jcase
			if err := json.Unmarshal(sc.Bytes(), &c); err != nil {
				panic(err)
			}
			kind := c.Kind
			if kind == "" {
				kind = "replay"
			}
			if c.Sparse {
				emitSparse(out, kind, c.Glob, c.Ops, c.Plan)
			} else {
				emit(out, kind, c.Glob, c.Ops)
			}
		}
	case "stress":
		stress(out, g, *n)
	default:
		g.swap = *mode == "globalswap"
		for i := 0; i < *n; i++ {
			g.next = 1
			gs := g.global()
			ln := 1 + g.r.IntN(*maxLen)
			if i%5 == 0 {
				ln = *maxLen
			}
			emit(out, *mode, gs, g.randomOps(ln, *mode == "nearmiss"))
		}
	}
}
