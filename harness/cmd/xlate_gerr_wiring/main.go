// xlate_gerr_wiring — translator tie (T) of the gerror properties: reads, with go/parser only,
// the 19 Factory methods of a receiver type and prints their CloneBase argument wiring as a
// Gallina table `Definition NAME (m : method) : wiring`.
//
//	xlate_gerr_wiring -base  <repo>/gerror/gerror.go        -name gen_base_wiring
//	xlate_gerr_wiring -gen   <dir>/x.gerror.go -type T      -name gen_ext_wiring
//
// -base reads the methods of *GError (body: `return CloneBase(e, ...)`), -gen the methods the
// gerror generator emitted for *T (body: `clone := gerror.CloneBase(e, ...)` followed by
// `return e.toPrimaryType(clone)`).  Convert/ConvertS may start with the early return
// `if gerr, ok := err.(Error); ok { return gerr }` (w_guard).  Every argument must be "", a
// parameter of the method (identified by its position in the Factory interface, not by its
// name), fmt.Sprintf(format, elems...), fmt.Sprintf("originalError: %+v", err) or nil; anything
// else is reported as untranslatable (exit 1): the tie is then broken and the check says so.
// String arguments may also be named package-level string constants (resolved before matching).
//
//	xlate_gerr_wiring -fns <dir of package gerror> -out FILE.v       (see fn.go)
package main

import (
	"flag"
	"fmt"
	"go/ast"
	"go/parser"
	"go/token"
	"gtverif/internal/srcset"
	"os"
	"path/filepath"
	"strings"
)

// package-level string constants of the files read (and, with -base, of the package directory)
var strConsts = map[string]string{}

var methods = []string{"Base", "SourceOnly", "Stack", "Src", "DTag", "Msg", "SrcDTagMsg", "SrcDTag", "SrcMsg",
	"DTagMsg", "SrcS", "DTagS", "MsgS", "SrcDTagMsgS", "SrcDTagS", "SrcMsgS", "DTagMsgS", "Convert", "ConvertS"}

// roles of the positional parameters of each Factory method (factory.go, interface Factory)
func roles(m string) []string {
	switch m {
	case "Base", "SourceOnly", "Stack":
		return nil
	case "Convert", "ConvertS":
		return []string{"err"}
	}
	core := m
	if strings.HasSuffix(core, "S") && core != "Src" {
		core = strings.TrimSuffix(core, "S")
	}
	var out []string
	for core != "" {
		switch {
		case strings.HasPrefix(core, "Src"):
			out, core = append(out, "src"), core[3:]
		case strings.HasPrefix(core, "DTag"):
			out, core = append(out, "dtag"), core[4:]
		case strings.HasPrefix(core, "Msg"):
			out, core = append(out, "format", "elems"), core[3:]
		default:
			return []string{"?"}
		}
	}
	return out
}

type wiring struct {
	guard                 bool
	stack, dtag, src, msg string
	serr                  string
}

func fail(format string, a ...any) {
	fmt.Fprintf(os.Stderr, "xlate_gerr_wiring: "+format+"\n", a...)
	os.Exit(1)
}

func selName(e ast.Expr) string {
	switch x := e.(type) {
	case *ast.Ident:
		return x.Name
	case *ast.SelectorExpr:
		return x.Sel.Name
	}
	return ""
}

func isSprintf(c *ast.CallExpr) bool {
	s, ok := c.Fun.(*ast.SelectorExpr)
	if !ok || s.Sel.Name != "Sprintf" {
		return false
	}
	p, ok := s.X.(*ast.Ident)
	return ok && p.Name == "fmt"
}

// strExpr translates a string-typed CloneBase argument.
func strExpr(m string, e ast.Expr, role map[string]string) string {
	if id, ok := e.(*ast.Ident); !ok || role[id.Name] == "" {
		// a literal, a named string constant or a constant concatenation of those
		if s, ok := constString(e, strConsts); ok && s == "" {
			return "AEmpty"
		}
	}
	switch x := e.(type) {
	case *ast.Ident:
		switch role[x.Name] {
		case "src":
			return "ASrc"
		case "dtag":
			return "ADTag"
		}
	case *ast.CallExpr:
		if isSprintf(x) && len(x.Args) == 2 {
			a0, a1 := x.Args[0], x.Args[1]
			if id0, ok := a0.(*ast.Ident); ok && role[id0.Name] == "format" {
				if id1, ok := a1.(*ast.Ident); ok && role[id1.Name] == "elems" && x.Ellipsis.IsValid() {
					return "AFmt"
				}
			}
			if id0, isID := a0.(*ast.Ident); !x.Ellipsis.IsValid() && !(isID && role[id0.Name] != "") {
				if s, ok := constString(a0, strConsts); ok && s == "originalError: %+v" {
					if id1, ok := a1.(*ast.Ident); ok && role[id1.Name] == "err" {
						return "AOrig"
					}
				}
			}
		}
	}
	fail("method %s: untranslatable string argument", m)
	return ""
}

func errExpr(m string, e ast.Expr, role map[string]string) string {
	if id, ok := e.(*ast.Ident); ok {
		if id.Name == "nil" {
			return "ENil"
		}
		if role[id.Name] == "err" {
			return "EErr"
		}
	}
	fail("method %s: untranslatable srcError argument", m)
	return ""
}

func stackExpr(m string, e ast.Expr) string {
	switch selName(e) {
	case "NoStack", "SourceStack", "ShortStack", "DefaultStack":
		return selName(e)
	}
	fail("method %s: untranslatable stack type", m)
	return ""
}

// isGuard recognises `if gerr, ok := err.(Error); ok { return gerr }`.
func isGuard(s ast.Stmt, role map[string]string) bool {
	is, ok := s.(*ast.IfStmt)
	if !ok || is.Else != nil || is.Init == nil {
		return false
	}
	as, ok := is.Init.(*ast.AssignStmt)
	if !ok || as.Tok != token.DEFINE || len(as.Lhs) != 2 || len(as.Rhs) != 1 {
		return false
	}
	ta, ok := as.Rhs[0].(*ast.TypeAssertExpr)
	if !ok || selName(ta.Type) != "Error" {
		return false
	}
	src, ok := ta.X.(*ast.Ident)
	if !ok || role[src.Name] != "err" {
		return false
	}
	v, ok1 := as.Lhs[0].(*ast.Ident)
	okv, ok2 := as.Lhs[1].(*ast.Ident)
	cond, ok3 := is.Cond.(*ast.Ident)
	if !ok1 || !ok2 || !ok3 || cond.Name != okv.Name || len(is.Body.List) != 1 {
		return false
	}
	ret, ok := is.Body.List[0].(*ast.ReturnStmt)
	if !ok || len(ret.Results) != 1 {
		return false
	}
	r, ok := ret.Results[0].(*ast.Ident)
	return ok && r.Name == v.Name
}

// typeAssertOfErr recognises `x, ok := err.(Error)` and returns the two names.
func typeAssertOfErr(s ast.Stmt, role map[string]string) (string, string, bool) {
	as, ok := s.(*ast.AssignStmt)
	if !ok || as.Tok != token.DEFINE || len(as.Lhs) != 2 || len(as.Rhs) != 1 {
		return "", "", false
	}
	ta, ok := as.Rhs[0].(*ast.TypeAssertExpr)
	if !ok || selName(ta.Type) != "Error" {
		return "", "", false
	}
	src, ok := ta.X.(*ast.Ident)
	if !ok || role[src.Name] != "err" {
		return "", "", false
	}
	v, ok1 := as.Lhs[0].(*ast.Ident)
	okv, ok2 := as.Lhs[1].(*ast.Ident)
	if !ok1 || !ok2 {
		return "", "", false
	}
	return v.Name, okv.Name, true
}

func returnsIdent(s ast.Stmt, name string) bool {
	ret, ok := s.(*ast.ReturnStmt)
	if !ok || len(ret.Results) != 1 {
		return false
	}
	r, ok := ret.Results[0].(*ast.Ident)
	return ok && r.Name == name
}

// splitGuard recognises the early return of Convert/ConvertS in its equivalent spellings and
// returns the statements that run when err is NOT a gerror error:
//
//	if x, ok := err.(Error); ok { return x }; REST
//	x, ok := err.(Error); if ok { return x }; REST
//	x, ok := err.(Error); if !ok { REST }; return x
//	if x, ok := err.(Error); !ok { REST } else { return x }      (and the mirrored if/else)
func splitGuard(body []ast.Stmt, role map[string]string) ([]ast.Stmt, bool) {
	if len(body) == 0 {
		return body, false
	}
	if isGuard(body[0], role) {
		return body[1:], true
	}
	isNot := func(e ast.Expr, name string) bool {
		u, ok := e.(*ast.UnaryExpr)
		if !ok || u.Op != token.NOT {
			return false
		}
		id, ok := u.X.(*ast.Ident)
		return ok && id.Name == name
	}
	isId := func(e ast.Expr, name string) bool {
		id, ok := e.(*ast.Ident)
		return ok && id.Name == name
	}
	// if with initialiser and else
	if is, ok := body[0].(*ast.IfStmt); ok && is.Init != nil && is.Else != nil && len(body) == 1 {
		if x, okn, ok := typeAssertOfErr(is.Init, role); ok {
			if eb, ok := is.Else.(*ast.BlockStmt); ok {
				switch {
				case isNot(is.Cond, okn) && len(eb.List) == 1 && returnsIdent(eb.List[0], x):
					return is.Body.List, true
				case isId(is.Cond, okn) && len(is.Body.List) == 1 && returnsIdent(is.Body.List[0], x):
					return eb.List, true
				}
			}
		}
	}
	// separate type-assertion statement
	if len(body) >= 2 {
		if x, okn, ok := typeAssertOfErr(body[0], role); ok {
			if is, ok := body[1].(*ast.IfStmt); ok && is.Init == nil && is.Else == nil {
				switch {
				case isId(is.Cond, okn) && len(is.Body.List) == 1 && returnsIdent(is.Body.List[0], x):
					return body[2:], true
				case isNot(is.Cond, okn) && len(body) == 3 && returnsIdent(body[2], x):
					return is.Body.List, true
				}
			}
		}
	}
	return body, false
}

func cloneCall(m string, e ast.Expr, recv string, role map[string]string) wiring {
	c, ok := e.(*ast.CallExpr)
	if !ok || selName(c.Fun) != "CloneBase" || len(c.Args) != 6 {
		fail("method %s: expected a CloneBase call with 6 arguments", m)
	}
	if id, ok := c.Args[0].(*ast.Ident); !ok || id.Name != recv {
		fail("method %s: CloneBase is not applied to the receiver", m)
	}
	return wiring{stack: stackExpr(m, c.Args[1]), dtag: strExpr(m, c.Args[2], role), src: strExpr(m, c.Args[3], role),
		msg: strExpr(m, c.Args[4], role), serr: errExpr(m, c.Args[5], role)}
}

func translate(fd *ast.FuncDecl, generated bool) wiring {
	m := fd.Name.Name
	recv := ""
	if len(fd.Recv.List[0].Names) == 1 {
		recv = fd.Recv.List[0].Names[0].Name
	}
	// parameter names by position -> roles
	role := map[string]string{}
	want := roles(m)
	var names []string
	for _, f := range fd.Type.Params.List {
		for _, n := range f.Names {
			names = append(names, n.Name)
		}
	}
	if len(names) != len(want) {
		fail("method %s: %d parameters, the Factory interface has %d", m, len(names), len(want))
	}
	for i, n := range names {
		role[n] = want[i]
	}
	body := fd.Body.List
	w := wiring{}
	body, guard := splitGuard(body, role)
	// toPrimary recognises `recv.toPrimaryType(x)` and returns x.
	toPrimary := func(e ast.Expr) ast.Expr {
		rc, ok := e.(*ast.CallExpr)
		if !ok || selName(rc.Fun) != "toPrimaryType" || len(rc.Args) != 1 {
			fail("method %s: expected `return %s.toPrimaryType(clone)`", m, recv)
		}
		if sx, ok := rc.Fun.(*ast.SelectorExpr); !ok || selName(sx.X) != recv {
			fail("method %s: toPrimaryType is not called on the receiver", m)
		}
		return rc.Args[0]
	}
	// accepted shapes (all mean the same):
	//   [generated]  v := CloneBase(...); return recv.toPrimaryType(v)   |   return recv.toPrimaryType(CloneBase(...))
	//   [base]       return CloneBase(...)                               |   v := CloneBase(...); return v
	var call ast.Expr
	switch len(body) {
	case 1:
		ret, ok := body[0].(*ast.ReturnStmt)
		if !ok || len(ret.Results) != 1 {
			fail("method %s: expected a single return", m)
		}
		call = ret.Results[0]
		if generated {
			call = toPrimary(call)
		}
	case 2:
		as, ok := body[0].(*ast.AssignStmt)
		if !ok || as.Tok != token.DEFINE || len(as.Lhs) != 1 || len(as.Rhs) != 1 {
			fail("method %s: expected `v := CloneBase(...)`", m)
		}
		cv, _ := as.Lhs[0].(*ast.Ident)
		call = as.Rhs[0]
		ret, ok := body[1].(*ast.ReturnStmt)
		if !ok || len(ret.Results) != 1 {
			fail("method %s: expected a return after the CloneBase call", m)
		}
		res := ret.Results[0]
		if generated {
			res = toPrimary(res)
		}
		if a, ok := res.(*ast.Ident); !ok || cv == nil || a.Name != cv.Name {
			fail("method %s: the result is not the clone", m)
		}
	default:
		fail("method %s: unexpected statements in the body", m)
	}
	w = cloneCall(m, call, recv, role)
	w.guard = guard
	return w
}

// checkFactoryUniverse: the methods of interface Factory must be exactly the 19 the model, the
// harnesses and the template know, plus Error and Is.  A new Factory method has no wiring row, no
// generated stanza and no place in the Coq type [method]: the tie says so instead of passing.
func checkFactoryUniverse(files []*ast.File) {
	known := map[string]bool{"Error": true, "Is": true}
	for _, m := range methods {
		known[m] = true
	}
	seen := false
	for _, f := range files {
		for _, d := range f.Decls {
			gd, ok := d.(*ast.GenDecl)
			if !ok || gd.Tok != token.TYPE {
				continue
			}
			for _, s := range gd.Specs {
				ts := s.(*ast.TypeSpec)
				it, ok := ts.Type.(*ast.InterfaceType)
				if ts.Name.Name != "Factory" || !ok {
					continue
				}
				seen = true
				have := map[string]bool{}
				for _, m := range it.Methods.List {
					if len(m.Names) == 0 {
						fail("interface Factory embeds another interface: method universe unknown")
					}
					for _, n := range m.Names {
						have[n.Name] = true
						if !known[n.Name] {
							fail("interface Factory has a method the model does not know: %s (no wiring row, no generated stanza is checked for it)", n.Name)
						}
					}
				}
				for _, m := range methods {
					if !have[m] {
						fail("interface Factory lacks the method %s", m)
					}
				}
			}
		}
	}
	if !seen {
		fail("interface Factory not found in the package")
	}
}

// checkMethodSet: in the files of a generated extension type *T only the 19 Factory methods,
// Error and toPrimaryType may be declared on T.  Anything else (an Is, Unwrap or Err* override, a
// wrapper) changes which code errors.Is and the accessors run: the gerror.Error method set of *T
// must come from the embedded GError.
func checkMethodSet(fset *token.FileSet, files []*ast.File, typ string) {
	allowed := map[string]bool{"Error": true, "toPrimaryType": true}
	for _, m := range methods {
		allowed[m] = true
	}
	// methods of gerror.Error that a type embedding GError gets by promotion
	promoted := map[string]bool{"Is": true, "Unwrap": true, "ErrMessage": true, "ErrSource": true, "ErrName": true,
		"ErrDetailTag": true, "ErrStack": true, "_embededGError": true}
	for _, f := range files {
		for _, d := range f.Decls {
			fd, ok := d.(*ast.FuncDecl)
			if !ok || fd.Recv == nil || len(fd.Recv.List) != 1 {
				continue
			}
			var t ast.Expr = fd.Recv.List[0].Type
			if st, ok := t.(*ast.StarExpr); ok {
				t = st.X
			}
			// in generated files ANY further method; in hand-written files of the type (the user's
			// Convert/ConvertS with -skipConvertGen, harness helpers) only overrides of promoted methods
			generatedFile := strings.HasSuffix(fset.Position(fd.Pos()).Filename, ".gerror.go")
			if id, ok := t.(*ast.Ident); ok && id.Name == typ && !allowed[fd.Name.Name] && (generatedFile || promoted[fd.Name.Name]) {
				fail("type %s declares the method %s: the generated code may only define the 19 Factory methods, Error and toPrimaryType "+
					"(an override of a method promoted from GError changes errors.Is / the accessors)", typ, fd.Name.Name)
			}
		}
	}
}

func recvType(fd *ast.FuncDecl) string {
	if fd.Recv == nil || len(fd.Recv.List) != 1 {
		return ""
	}
	if st, ok := fd.Recv.List[0].Type.(*ast.StarExpr); ok {
		if id, ok := st.X.(*ast.Ident); ok {
			return id.Name
		}
	}
	return ""
}

func main() {
	base := flag.String("base", "", "path of gerror/gerror.go")
	gen := flag.String("gen", "", "path of a generated .gerror.go file")
	typ := flag.String("type", "GError", "receiver type (with -gen)")
	name := flag.String("name", "gen_wiring", "name of the emitted Gallina definition")
	fns := flag.String("fns", "", "directory of package gerror: translate CloneBase, FactoryOf, Is, Unwrap, ExtractFactoryReference (fn.go)")
	out := flag.String("out", "", "output file (with -fns)")
	flag.Parse()
	if *fns != "" {
		runFns(*fns, *out)
		return
	}
	path, generated := *base, false
	if *gen != "" {
		path, generated = *gen, true
	} else {
		*typ = "GError"
	}
	fset := token.NewFileSet()
	found := map[string]wiring{}
	// -gen accepts a comma-separated list (the generated file and, with -skipConvertGen, the file
	// holding the hand-written Convert/ConvertS)
	var files []*ast.File
	if !generated {
		// -base: the methods of *GError wherever the build takes them from (all files of the package
		// directory that match the build context), and the method universe from interface Factory
		sp, err := srcset.Load(filepath.Dir(path), "verif")
		if err != nil {
			fail("%v", err)
		}
		files = sp.Files
		checkFactoryUniverse(files)
	} else {
		for _, p := range strings.Split(path, ",") {
			f, err := parser.ParseFile(fset, p, nil, 0)
			if err != nil {
				fail("%v", err)
			}
			files = append(files, f)
		}
		checkMethodSet(fset, files, *typ)
	}
	constFiles := files
	strConsts = collectConsts(constFiles)
	for _, f := range files {
		for _, d := range f.Decls {
			fd, ok := d.(*ast.FuncDecl)
			if !ok || recvType(fd) != *typ || fd.Body == nil {
				continue
			}
			for _, m := range methods {
				if fd.Name.Name == m {
					if _, dup := found[m]; dup {
						fail("method %s declared twice", m)
					}
					found[m] = translate(fd, generated)
				}
			}
		}
	}
	var sb strings.Builder
	fmt.Fprintf(&sb, "(* generated by xlate_gerr_wiring from %s (receiver *%s); do not edit *)\n", path, *typ)
	fmt.Fprintf(&sb, "Definition %s (m : method) : wiring :=\n  match m with\n", *name)
	for _, m := range methods {
		w, ok := found[m]
		if !ok {
			fail("method %s of *%s not found in %s", m, *typ, path)
		}
		fmt.Fprintf(&sb, "  | M%s => mkW %v %s %s %s %s %s\n", m, w.guard, w.stack, w.dtag, w.src, w.msg, w.serr)
	}
	sb.WriteString("  end.\n")
	fmt.Print(sb.String())
}
