// fn.go — second mode of the translator tie (T) of the gerror properties:
//
//	xlate_gerr_wiring -fns <dir of package gerror> -out FILE.v
//
// translates, with go/parser + go/ast only, the heart of package gerror from the CURRENT source
// into Gallina: CloneBase, FactoryOf, (*GError).Unwrap, ExtractFactoryReference, (*GError).Is and
// the package-level helper functions they call.  The generated definitions (gen_clone_base,
// gen_appends_clipped, gen_factory_of, gen_unwrap, gen_extract, gen_fn_<helper>, gen_is) are tied
// to the hand model GErrModel.v by semantic lemmas proved with the tactics of GErrTie.v
// (props/gerr_tie_lib.py).  Anything outside the statement/expression subset is reported as
// untranslatable (exit 1, message naming function and construct): the tie is then broken.
//
// The translation is a symbolic execution of the function body in continuation-passing style:
//   - Go locals / parameters / receivers never appear in the output (alpha-normalised, versioned
//     Gallina names s_1, v_2, ...);
//   - a branch without `return` is joined (`let '(a, b) := if c then (..) else (..) in`), a branch
//     with a `return` duplicates the rest of the block;
//   - a freshly allocated GError is one Gallina value per field; a pointer to an existing object
//     is (identity : val, record : gerr) and is read-only except in FactoryOf;
//   - == / != on two interface values is monadic (iface_eq : res bool); a bool function is
//     translated as `res bool` iff it (transitively) contains such a comparison (first attempt
//     pure, redone monadic when a monadic value reaches a return or a condition).
package main

import (
	"fmt"
	"go/ast"
	"go/token"
	"gtverif/internal/srcset"
	"os"
	"sort"
	"strconv"
	"strings"
)

// ---------------------------------------------------------------- values

type kind int

const (
	kStr    kind = iota // str
	kBool               // bool
	kRBool              // res bool
	kVal                // interface value (error / Error / Factory / factoryOf): val
	kLVal               // []error: list val
	kStack              // Stack: option N
	kStt                // StackType: stack_type
	kPtr                // *GError: (identity, object)
	kGVal               // an Error value known to be the gerror value of cell `cell`
	kTParam             // the generic `err T` of CloneBase / FactoryOf
	kInt                // len(..) or an integer constant
	kIdx                // index variable of a loop over a []error
	kNil                // untyped nil
	kRefl               // reflect.ValueOf(x): alias of x
	kKind               // reflect.Value.Kind() of x / the constant reflect.Pointer
	kRec                // result type only: the gerr record of a pointer
)

var kindName = map[kind]string{kStr: "str", kBool: "bool", kRBool: "res bool", kVal: "val", kLVal: "list val",
	kStack: "option N", kStt: "stack_type", kRec: "gerr"}

type value struct {
	k        kind
	e        string // Gallina expression, atomic or parenthesised
	obj      int    // kPtr, kTParam: object id
	ident    string // kPtr, kTParam, kGVal: the value as an interface (val expression); "" = none
	cell     string // kGVal: Gallina variable of the cell index
	existing bool   // kLVal: may share its backing array with an existing object
	fromMake bool   // kStack: result of makeStack(stackType, defaultSkip)
	of       string // kInt: len of this expression; kIdx: the ranged slice; kRefl/kKind: the val
	ofKind   kind   // kInt: kind of the measured value
	elem     string // kIdx: Gallina variable of the element
	isConst  bool   // kInt: integer literal n
	n        int
	known    bool     // kRefl/kKind: the val is known to be a valid gerror pointer
	ptrConst bool     // kKind: the constant reflect.Pointer / reflect.Ptr
	eident   string   // kTParam: identity of the embedded *GError as an interface
	parts    []string // kStr: operands of a concatenation (flattened: ++ is emitted right-nested)
}

type object struct {
	ro     bool   // existing object that must not be written
	rec    string // Gallina gerr expression of an existing object
	fields map[string]value
}

var fieldOrder = []string{"Name", "Message", "Source", "detailTag", "stack", "factoryRef", "srcError", "laterSrcErrors", "isFactory"}
var fieldProj = map[string]string{"Name": "g_name", "Message": "g_msg", "Source": "g_src", "detailTag": "g_dtag",
	"stack": "g_stack", "factoryRef": "g_fref", "srcError": "g_serr", "laterSrcErrors": "g_later", "isFactory": "g_isfac"}
var fieldKind = map[string]kind{"Name": kStr, "Message": kStr, "Source": kStr, "detailTag": kStr, "stack": kStack,
	"factoryRef": kVal, "srcError": kVal, "laterSrcErrors": kLVal, "isFactory": kBool}
var fieldType = map[string]string{"Name": "string", "Message": "string", "Source": "string", "detailTag": "string",
	"stack": "Stack", "factoryRef": "factoryOf", "srcError": "error", "laterSrcErrors": "[]error", "isFactory": "bool"}

func zeroOf(k kind) value {
	switch k {
	case kStr:
		return value{k: kStr, e: "([] : str)"}
	case kBool:
		return value{k: kBool, e: "false"}
	case kVal:
		return value{k: kVal, e: "VNil"}
	case kLVal:
		return value{k: kLVal, e: "([] : list val)"}
	case kStack:
		return value{k: kStack, e: "(None : option N)"}
	}
	return value{k: k}
}

// ---------------------------------------------------------------- state

type binding struct {
	v     value
	depth int
}

type state struct {
	vars  map[string]binding
	objs  map[int]*object
	depth int
}

func (s *state) copy() *state {
	n := &state{vars: map[string]binding{}, objs: map[int]*object{}, depth: s.depth}
	for k, v := range s.vars {
		n.vars[k] = v
	}
	for id, o := range s.objs {
		c := &object{ro: o.ro, rec: o.rec, fields: map[string]value{}}
		for f, v := range o.fields {
			c.fields[f] = v
		}
		n.objs[id] = c
	}
	return n
}

// leave drops the variables declared deeper than depth d.
func (s *state) leave(d int) {
	for k, b := range s.vars {
		if b.depth > d {
			delete(s.vars, k)
		}
	}
	s.depth = d
}

// ---------------------------------------------------------------- package and translators

type fnInfo struct {
	gal      string // Gallina name
	params   []kind
	ret      kind
	monadic  bool
	usesSt   bool
	progress bool
}

type appendInfo struct{ clipped, existing bool }

type pkg struct {
	fset    *token.FileSet
	funcs   map[string]*ast.FuncDecl // package-level functions
	meths   map[string]*ast.FuncDecl // methods of *GError
	consts  map[string]string
	done    map[string]*fnInfo
	out     []string // emitted definitions, in dependency order
	counter int
}

type needMonadic struct{}
type untranslatable struct{ msg string }

type fnTr struct {
	p       *pkg
	name    string // Go name, for messages
	fixed   string // "CloneBase", "FactoryOf", "Unwrap", "Extract", "Is", "" for helpers/closures
	monadic bool
	ret     kind
	usesSt  *bool
	appends *[]appendInfo
	recvObj int // Is: object id of the receiver
	nextObj *int
	inLoop  bool // translating a loop body / closure: every return must be `return true`... (loops only)
}

func (t *fnTr) bad(n ast.Node, format string, a ...any) {
	pos := ""
	if n != nil && t.p.fset != nil {
		p := t.p.fset.Position(n.Pos())
		pos = fmt.Sprintf(" (%s:%d)", shortPath(p.Filename), p.Line)
	}
	panic(untranslatable{fmt.Sprintf("function %s%s: %s", t.name, pos, fmt.Sprintf(format, a...))})
}

func shortPath(p string) string {
	if i := strings.LastIndex(p, "/"); i >= 0 {
		return p[i+1:]
	}
	return p
}

func (t *fnTr) fresh(prefix string) string {
	t.p.counter++
	return fmt.Sprintf("%s_%d", prefix, t.p.counter)
}

func prefixOf(k kind) string {
	switch k {
	case kStr:
		return "s"
	case kBool:
		return "b"
	case kVal:
		return "v"
	case kLVal:
		return "l"
	case kStack:
		return "k"
	}
	return "x"
}

func atomic(e string) bool {
	if e == "" {
		return true
	}
	if e[0] == '(' && e[len(e)-1] == ')' {
		return false
	}
	return !strings.ContainsAny(e, " \n")
}

func app(f string, args ...string) string {
	return "(" + f + " " + strings.Join(args, " ") + ")"
}

// ---------------------------------------------------------------- boolean algebra with constant folding

func bNot(a string) string {
	switch {
	case a == "true":
		return "false"
	case a == "false":
		return "true"
	case strings.HasPrefix(a, "(negb ") && balanced(a[6:len(a)-1]):
		return a[6 : len(a)-1]
	}
	return app("negb", a)
}

// balanced reports whether s is one well-parenthesised atom or application argument.
func balanced(s string) bool {
	d := 0
	for i, c := range s {
		switch c {
		case '(':
			d++
		case ')':
			d--
			if d < 0 {
				return false
			}
			if d == 0 && i != len(s)-1 {
				return false
			}
		case ' ', '\n':
			if d == 0 {
				return false
			}
		}
	}
	return d == 0
}

func bAnd(a, b string) string {
	switch {
	case a == "true":
		return b
	case a == "false" || b == "false":
		return "false"
	case b == "true":
		return a
	}
	return "(" + a + " && " + b + ")"
}

func bOr(a, b string) string {
	switch {
	case a == "false":
		return b
	case a == "true" || b == "true":
		return "true"
	case b == "false":
		return a
	}
	return "(" + a + " || " + b + ")"
}

func lift(v value) string {
	if v.k == kRBool {
		return v.e
	}
	return app("Ok", v.e)
}

func (t *fnTr) vNot(n ast.Node, a value) value {
	switch a.k {
	case kBool:
		return value{k: kBool, e: bNot(a.e)}
	case kRBool:
		return value{k: kRBool, e: app("rb_not", a.e)}
	}
	t.bad(n, "`!` applied to a non-boolean")
	return value{}
}

func (t *fnTr) vAnd(n ast.Node, a value, b func() value) value {
	if a.k == kBool && a.e == "false" {
		return a // short circuit: the right operand is dead code
	}
	bv := b()
	if (a.k != kBool && a.k != kRBool) || (bv.k != kBool && bv.k != kRBool) {
		t.bad(n, "`&&` applied to a non-boolean")
	}
	if a.k == kBool && bv.k == kBool {
		return value{k: kBool, e: bAnd(a.e, bv.e)}
	}
	if a.k == kBool && a.e == "true" {
		return bv
	}
	return value{k: kRBool, e: "(rb_and " + lift(a) + " (fun _ => " + lift(bv) + "))"}
}

func (t *fnTr) vOr(n ast.Node, a value, b func() value) value {
	if a.k == kBool && a.e == "true" {
		return a
	}
	bv := b()
	if (a.k != kBool && a.k != kRBool) || (bv.k != kBool && bv.k != kRBool) {
		t.bad(n, "`||` applied to a non-boolean")
	}
	if a.k == kBool && bv.k == kBool {
		return value{k: kBool, e: bOr(a.e, bv.e)}
	}
	if a.k == kBool && a.e == "false" {
		return bv
	}
	return value{k: kRBool, e: "(rb_or " + lift(a) + " (fun _ => " + lift(bv) + "))"}
}

// ifText builds `if c then a else b` over texts of the function's result type.
func (t *fnTr) ifText(n ast.Node, c value, a, b func() string) string {
	switch c.k {
	case kBool:
		switch c.e {
		case "true":
			return a()
		case "false":
			return b()
		}
		at, bt := a(), b()
		if at == bt {
			return at
		}
		return "(if " + c.e + "\n then " + at + "\n else " + bt + ")"
	case kRBool:
		if !t.monadic {
			panic(needMonadic{})
		}
		if t.ret != kBool {
			t.bad(n, "a comparison of interface values (which can panic) decides a branch of a function that does not return bool")
		}
		return "(rb_if " + c.e + "\n " + a() + "\n " + b() + ")"
	}
	t.bad(n, "condition is not boolean")
	return ""
}

// ---------------------------------------------------------------- loading the package

func typeString(e ast.Expr) string {
	switch x := e.(type) {
	case *ast.Ident:
		return x.Name
	case *ast.StarExpr:
		return "*" + typeString(x.X)
	case *ast.ArrayType:
		if x.Len == nil {
			return "[]" + typeString(x.Elt)
		}
	case *ast.SelectorExpr:
		return typeString(x.X) + "." + x.Sel.Name
	case *ast.Ellipsis:
		return "..." + typeString(x.Elt)
	}
	return "?"
}

func loadPkg(dir string) *pkg {
	p := &pkg{fset: token.NewFileSet(), funcs: map[string]*ast.FuncDecl{}, meths: map[string]*ast.FuncDecl{},
		consts: map[string]string{}, done: map[string]*fnInfo{}}
	// the package's file set as the compiler selects it (build constraints, Go version tags; the
	// harness builds with the tag "verif"): code delivered in a sibling file or behind a constraint
	// cannot leave the tie proved about dead code
	sp, err := srcset.Load(dir, "verif")
	if err != nil {
		fail("%v", err)
	}
	p.fset = sp.Fset
	files := sp.Files
	// package-level variables must not be written after their declaration: CloneBase and what it
	// calls (makeStack, NearestExternal, Metric, ...) are shared by all goroutines deriving from
	// package-level factories, and an unsynchronised cache there is a data race
	for _, f := range files {
		for _, d := range f.Decls {
			gd, ok := d.(*ast.GenDecl)
			if !ok || gd.Tok != token.VAR {
				continue
			}
			for _, sp2 := range gd.Specs {
				for _, n := range sp2.(*ast.ValueSpec).Names {
					if n.Name == "_" {
						continue
					}
					if ws := sp.WritesTo(n.Name); len(ws) > 0 {
						fail("untranslatable: package-level variable %s of package gerror is written after its declaration (%s): "+
							"shared mutable state on the derivation path", n.Name, strings.Join(ws, ", "))
					}
				}
			}
		}
	}
	p.consts = collectConsts(files)
	sawStruct := false
	for _, f := range files {
		for _, d := range f.Decls {
			switch x := d.(type) {
			case *ast.FuncDecl:
				if x.Body == nil {
					continue
				}
				if x.Recv == nil {
					if _, dup := p.funcs[x.Name.Name]; dup && x.Name.Name != "init" {
						fail("untranslatable: function %s is declared in more than one file of the build", x.Name.Name)
					}
					p.funcs[x.Name.Name] = x
				} else if recvType(x) == "GError" {
					if _, dup := p.meths[x.Name.Name]; dup {
						fail("untranslatable: method GError.%s is declared more than once", x.Name.Name)
					}
					p.meths[x.Name.Name] = x
				}
			case *ast.GenDecl:
				if x.Tok != token.TYPE {
					continue
				}
				for _, s := range x.Specs {
					ts := s.(*ast.TypeSpec)
					st, ok := ts.Type.(*ast.StructType)
					if ts.Name.Name != "GError" || !ok {
						continue
					}
					sawStruct = true
					checkStruct(st)
				}
			}
		}
	}
	if !sawStruct {
		fail("struct GError not found in %s", dir)
	}
	return p
}

func checkStruct(st *ast.StructType) {
	seen := map[string]bool{}
	for _, f := range st.Fields.List {
		ty := typeString(f.Type)
		if len(f.Names) == 0 {
			fail("GError has a field the model does not know: embedded %s", ty)
		}
		for _, n := range f.Names {
			want, ok := fieldType[n.Name]
			if !ok {
				fail("GError has a field the model does not know: %s %s", n.Name, ty)
			}
			if want != ty {
				fail("GError has a field the model does not know: %s has type %s, the model has %s", n.Name, ty, want)
			}
			seen[n.Name] = true
		}
	}
	for _, n := range fieldOrder {
		if !seen[n] {
			fail("GError has a field the model does not know: field %s of the model is missing", n)
		}
	}
}

// collectConsts gathers the package-level string constants (also defined through other constants).
func collectConsts(files []*ast.File) map[string]string {
	type pending struct {
		name string
		e    ast.Expr
	}
	var todo []pending
	for _, f := range files {
		for _, d := range f.Decls {
			gd, ok := d.(*ast.GenDecl)
			if !ok || gd.Tok != token.CONST {
				continue
			}
			for _, s := range gd.Specs {
				vs := s.(*ast.ValueSpec)
				if len(vs.Values) != len(vs.Names) {
					continue
				}
				for i, n := range vs.Names {
					todo = append(todo, pending{n.Name, vs.Values[i]})
				}
			}
		}
	}
	consts := map[string]string{}
	for changed := true; changed; {
		changed = false
		for _, c := range todo {
			if _, ok := consts[c.name]; ok {
				continue
			}
			if s, ok := constString(c.e, consts); ok {
				consts[c.name] = s
				changed = true
			}
		}
	}
	return consts
}

// constString evaluates a constant string expression: a literal, a named constant, a + of those.
func constString(e ast.Expr, consts map[string]string) (string, bool) {
	switch x := e.(type) {
	case *ast.BasicLit:
		if x.Kind == token.STRING {
			s, err := strconv.Unquote(x.Value)
			return s, err == nil
		}
	case *ast.Ident:
		s, ok := consts[x.Name]
		return s, ok
	case *ast.ParenExpr:
		return constString(x.X, consts)
	case *ast.BinaryExpr:
		if x.Op == token.ADD {
			a, ok1 := constString(x.X, consts)
			b, ok2 := constString(x.Y, consts)
			return a + b, ok1 && ok2
		}
	}
	return "", false
}

func strLit(s string) string {
	if s == "" {
		return "([] : str)"
	}
	var parts []string
	for _, r := range s {
		parts = append(parts, strconv.Itoa(int(r)))
	}
	return "([" + strings.Join(parts, "; ") + "]%N : str)"
}

// ---------------------------------------------------------------- expressions

var pkgNames = map[string]bool{"strings": true, "slices": true, "reflect": true, "fmt": true, "errors": true}

func (t *fnTr) isPkg(e ast.Expr, s *state) string {
	id, ok := e.(*ast.Ident)
	if !ok {
		return ""
	}
	if _, bound := s.vars[id.Name]; bound || !pkgNames[id.Name] {
		return ""
	}
	return id.Name
}

func (t *fnTr) toVal(n ast.Node, v value) string {
	switch v.k {
	case kVal:
		return v.e
	case kNil:
		return "VNil"
	case kPtr, kTParam, kGVal:
		if v.ident == "" {
			t.bad(n, "a freshly allocated *GError is used as an interface value")
		}
		return v.ident
	}
	t.bad(n, "expression is not an interface value")
	return ""
}

func isIface(v value) bool {
	return v.k == kVal || v.k == kPtr || v.k == kTParam || v.k == kGVal
}

func (t *fnTr) coerce(n ast.Node, v value, k kind) value {
	if v.k == k {
		return v
	}
	switch {
	case k == kVal && (isIface(v) || v.k == kNil):
		return value{k: kVal, e: t.toVal(n, v)}
	case v.k == kNil && (k == kLVal || k == kStack):
		return zeroOf(k)
	}
	t.bad(n, "type mismatch (a %s is needed)", kindName[k])
	return value{}
}

func concat(a, b value) value {
	pa, pb := a.parts, b.parts
	if pa == nil {
		pa = []string{a.e}
	}
	if pb == nil {
		pb = []string{b.e}
	}
	parts := append(append([]string{}, pa...), pb...)
	return value{k: kStr, e: "(" + strings.Join(parts, " ++ ") + ")", parts: parts}
}

func isNilText(e string) string {
	if e == "VNil" {
		return "true"
	}
	return app("is_nil", e)
}

func isEmptyText(e string) string {
	if e == "([] : str)" {
		return "true"
	}
	return app("is_empty", e)
}

func nonEmptyLen(v value) string {
	switch v.ofKind {
	case kStack:
		return "(match " + v.of + " with Some _ => true | None => false end)"
	case kLVal:
		return "(match " + v.of + " with [] => false | _ :: _ => true end)"
	}
	return bNot(isEmptyText(v.of))
}

func (t *fnTr) expr(e ast.Expr, s *state) value {
	switch x := e.(type) {
	case *ast.ParenExpr:
		return t.expr(x.X, s)
	case *ast.BasicLit:
		switch x.Kind {
		case token.STRING:
			if str, err := strconv.Unquote(x.Value); err == nil {
				return value{k: kStr, e: strLit(str)}
			}
		case token.INT:
			if n, err := strconv.Atoi(x.Value); err == nil {
				return value{k: kInt, isConst: true, n: n}
			}
		}
		t.bad(x, "literal %s", x.Value)
	case *ast.Ident:
		if b, ok := s.vars[x.Name]; ok {
			return b.v
		}
		switch x.Name {
		case "nil":
			return value{k: kNil}
		case "true", "false":
			return value{k: kBool, e: x.Name}
		case "NoStack", "SourceStack", "ShortStack", "DefaultStack":
			return value{k: kStt, e: x.Name}
		case "defaultSkip":
			return value{k: kInt, e: "defaultSkip"}
		}
		if c, ok := t.p.consts[x.Name]; ok {
			return value{k: kStr, e: strLit(c)}
		}
		t.bad(x, "identifier %s (not a local, parameter or string constant)", x.Name)
	case *ast.SelectorExpr:
		if pk := t.isPkg(x.X, s); pk != "" {
			if pk == "reflect" && (x.Sel.Name == "Pointer" || x.Sel.Name == "Ptr") {
				return value{k: kKind, ptrConst: true}
			}
			t.bad(x, "%s.%s", pk, x.Sel.Name)
		}
		v := t.expr(x.X, s)
		if v.k != kPtr {
			t.bad(x, "field selection .%s on something that is not a *GError", x.Sel.Name)
		}
		return t.readField(x, s, v.obj, x.Sel.Name)
	case *ast.UnaryExpr:
		switch x.Op {
		case token.NOT:
			return t.vNot(x, t.expr(x.X, s))
		case token.AND:
			if cl, ok := x.X.(*ast.CompositeLit); ok && typeString(cl.Type) == "GError" {
				return t.alloc(cl, s)
			}
		}
		t.bad(x, "unary operator %s", x.Op)
	case *ast.BinaryExpr:
		return t.binary(x, s)
	case *ast.CallExpr:
		return t.call(x, s)
	case *ast.IndexExpr:
		l, i := t.expr(x.X, s), t.expr(x.Index, s)
		if l.k == kLVal && i.k == kIdx && i.of == l.e {
			return value{k: kVal, e: i.elem}
		}
		t.bad(x, "index expression (only L[i] inside a loop over L)")
	case *ast.FuncLit:
		t.bad(x, "function literal outside slices.ContainsFunc")
	case *ast.TypeAssertExpr:
		t.bad(x, "type assertion outside `v, ok := x.(Error)`")
	case *ast.SliceExpr:
		t.bad(x, "slice expression outside append")
	}
	t.bad(e, "expression %T", e)
	return value{}
}

func (t *fnTr) readField(n ast.Node, s *state, obj int, f string) value {
	o := s.objs[obj]
	k, ok := fieldKind[f]
	if !ok || o == nil {
		t.bad(n, "unknown field %s", f)
	}
	if v, ok := o.fields[f]; ok {
		return v
	}
	return value{k: k, e: app(fieldProj[f], o.rec), existing: k == kLVal}
}

func (t *fnTr) alloc(cl *ast.CompositeLit, s *state) value {
	o := &object{fields: map[string]value{}}
	for _, f := range fieldOrder {
		o.fields[f] = zeroOf(fieldKind[f])
	}
	if cl != nil {
		for _, el := range cl.Elts {
			kv, ok := el.(*ast.KeyValueExpr)
			if !ok {
				t.bad(el, "GError literal without field names")
			}
			key, _ := kv.Key.(*ast.Ident)
			if key == nil || fieldProj[key.Name] == "" {
				t.bad(el, "GError literal: unknown field")
			}
			o.fields[key.Name] = t.coerce(kv.Value, t.expr(kv.Value, s), fieldKind[key.Name])
		}
	}
	*t.nextObj++
	s.objs[*t.nextObj] = o
	return value{k: kPtr, obj: *t.nextObj}
}

func (t *fnTr) binary(x *ast.BinaryExpr, s *state) value {
	switch x.Op {
	case token.LAND:
		return t.vAnd(x, t.expr(x.X, s), func() value { return t.expr(x.Y, s) })
	case token.LOR:
		return t.vOr(x, t.expr(x.X, s), func() value { return t.expr(x.Y, s) })
	}
	a, b := t.expr(x.X, s), t.expr(x.Y, s)
	switch x.Op {
	case token.ADD:
		if a.k == kStr && b.k == kStr {
			return concat(a, b)
		}
	case token.EQL:
		return t.compare(x, a, b)
	case token.NEQ:
		return t.vNot(x, t.compare(x, a, b))
	case token.GTR, token.LSS, token.GEQ, token.LEQ:
		if a.k == kInt && b.k == kInt {
			op := x.Op
			if a.isConst { // c op len  ==>  len op' c
				a, b = b, a
				op = map[token.Token]token.Token{token.GTR: token.LSS, token.LSS: token.GTR, token.GEQ: token.LEQ, token.LEQ: token.GEQ}[op]
			}
			if a.of != "" && b.isConst {
				switch {
				case op == token.GTR && b.n == 0, op == token.GEQ && b.n == 1:
					return value{k: kBool, e: nonEmptyLen(a)}
				case op == token.LSS && b.n == 1, op == token.LEQ && b.n == 0:
					return value{k: kBool, e: bNot(nonEmptyLen(a))}
				}
			}
		}
	}
	t.bad(x, "binary operator %s on these operands", x.Op)
	return value{}
}

func (t *fnTr) compare(n ast.Node, a, b value) value {
	if a.k == kNil && b.k != kNil {
		a, b = b, a
	}
	switch {
	case a.k == kNil && b.k == kNil:
		return value{k: kBool, e: "true"}
	case b.k == kNil:
		switch a.k {
		case kVal:
			return value{k: kBool, e: isNilText(a.e)}
		case kPtr, kTParam, kGVal:
			// a receiver, a fresh allocation, the embedded pointer of a valid gerror value: never nil
			return value{k: kBool, e: "false"}
		case kStack:
			return value{k: kBool, e: "(match " + a.e + " with None => true | Some _ => false end)"}
		case kLVal:
			return value{k: kBool, e: "(match " + a.e + " with [] => true | _ :: _ => false end)"}
		}
	case a.k == kStr && b.k == kStr:
		if a.e == "([] : str)" {
			a, b = b, a
		}
		if b.e == "([] : str)" {
			return value{k: kBool, e: isEmptyText(a.e)}
		}
		return value{k: kBool, e: app("str_eqb", a.e, b.e)}
	case a.k == kStt && b.k == kStt:
		return value{k: kBool, e: app("stack_type_eqb", a.e, b.e)}
	case a.k == kBool && b.k == kBool:
		return value{k: kBool, e: app("Bool.eqb", a.e, b.e)}
	case a.k == kKind && b.k == kKind:
		if a.ptrConst {
			a, b = b, a
		}
		if b.ptrConst && !a.ptrConst {
			if a.known {
				return value{k: kBool, e: "true"}
			}
			return value{k: kBool, e: app("kind_is_ptr", a.of)}
		}
	case a.k == kInt && b.k == kInt:
		if a.isConst {
			a, b = b, a
		}
		if a.of != "" && b.isConst && b.n == 0 {
			return value{k: kBool, e: bNot(nonEmptyLen(a))}
		}
	case isIface(a) && isIface(b):
		return value{k: kRBool, e: app("iface_eq", t.toVal(n, a), t.toVal(n, b))}
	}
	t.bad(n, "comparison of these operands")
	return value{}
}

// ---------------------------------------------------------------- calls

func (t *fnTr) needSt(n ast.Node) {
	if t.usesSt == nil {
		t.bad(n, "needs the object store (a method call on an asserted gerror value) where none is available")
	}
	*t.usesSt = true
}

// lenOfArg recognises an expression that is the length of slice value l: len(X) or a local n := len(X).
func (t *fnTr) isLenOf(e ast.Expr, s *state, l value) bool {
	if e == nil {
		return false
	}
	v := t.expr(e, s)
	return v.k == kInt && v.of != "" && v.of == l.e
}

func isZeroOrNil(e ast.Expr) bool {
	if e == nil {
		return true
	}
	b, ok := e.(*ast.BasicLit)
	return ok && b.Kind == token.INT && b.Value == "0"
}

func (t *fnTr) call(c *ast.CallExpr, s *state) value {
	if c.Ellipsis.IsValid() {
		t.bad(c, "variadic call")
	}
	switch f := c.Fun.(type) {
	case *ast.ParenExpr:
		c2 := *c
		c2.Fun = f.X
		return t.call(&c2, s)
	case *ast.Ident:
		if _, local := s.vars[f.Name]; local {
			t.bad(c, "call of a local function value")
		}
		return t.callIdent(c, f.Name, s)
	case *ast.SelectorExpr:
		if pk := t.isPkg(f.X, s); pk != "" {
			return t.callPkg(c, pk, f.Sel.Name, s)
		}
		return t.callMethod(c, f, s)
	}
	t.bad(c, "call of %T", c.Fun)
	return value{}
}

func (t *fnTr) args(c *ast.CallExpr, n int) {
	if len(c.Args) != n {
		t.bad(c, "call with %d arguments where %d are expected", len(c.Args), n)
	}
}

func (t *fnTr) callIdent(c *ast.CallExpr, name string, s *state) value {
	switch name {
	case "len":
		t.args(c, 1)
		v := t.expr(c.Args[0], s)
		if v.k == kStr || v.k == kLVal || v.k == kStack {
			return value{k: kInt, of: v.e, ofKind: v.k}
		}
		t.bad(c, "len of this operand")
	case "new":
		t.args(c, 1)
		if typeString(c.Args[0]) == "GError" {
			return t.alloc(nil, s)
		}
		t.bad(c, "new(%s)", typeString(c.Args[0]))
	case "factoryOf", "error", "Error", "Factory":
		t.args(c, 1)
		return value{k: kVal, e: t.toVal(c, t.expr(c.Args[0], s))}
	case "append":
		return t.appendCall(c, s)
	case "makeStack":
		t.args(c, 2)
		a0, a1 := t.expr(c.Args[0], s), t.expr(c.Args[1], s)
		if t.fixed != "CloneBase" || a0.k != kStt || a0.e != "stt" || a1.e != "defaultSkip" {
			t.bad(c, "makeStack is only translatable as makeStack(stackType, defaultSkip) in CloneBase")
		}
		return value{k: kStack, e: "(Some site)", fromMake: true}
	case "ExtractFactoryReference":
		t.args(c, 1)
		t.p.fixedFn("Extract")
		t.needSt(c)
		return value{k: kVal, e: app("gen_extract", "st", t.toVal(c, t.expr(c.Args[0], s)))}
	case "CloneBase", "FactoryOf":
		t.bad(c, "call of %s", name)
	}
	if _, ok := t.p.funcs[name]; !ok {
		t.bad(c, "call of %s (not a function of the package)", name)
	}
	info := t.p.helper(name)
	t.args(c, len(info.params))
	var as []string
	if info.usesSt {
		t.needSt(c)
		as = append(as, "st")
	}
	for i, a := range c.Args {
		as = append(as, t.coerce(a, t.expr(a, s), info.params[i]).e)
	}
	k := info.ret
	if info.monadic {
		k = kRBool
	}
	return value{k: k, e: app(info.gal, as...), existing: k == kLVal}
}

func (t *fnTr) appendCall(c *ast.CallExpr, s *state) value {
	t.args(c, 2)
	var base value
	clipped := false
	switch a := c.Args[0].(type) {
	case *ast.SliceExpr:
		base = t.expr(a.X, s)
		if base.k != kLVal || !isZeroOrNil(a.Low) {
			t.bad(a, "slice expression in append (only s[:len(s):len(s)] and s[:len(s)])")
		}
		if !t.isLenOf(a.High, s, base) || (a.Slice3 && !t.isLenOf(a.Max, s, base)) {
			t.bad(a, "slice expression in append whose bounds are not len of the slice")
		}
		clipped = a.Slice3
	case *ast.CallExpr:
		if sel, ok := a.Fun.(*ast.SelectorExpr); ok && t.isPkg(sel.X, s) == "slices" && sel.Sel.Name == "Clip" && len(a.Args) == 1 {
			base = t.expr(a.Args[0], s)
			clipped = true
		} else {
			base = t.expr(a, s)
		}
	default:
		base = t.expr(a, s)
	}
	if base.k == kNil {
		base = zeroOf(kLVal)
	}
	if base.k != kLVal {
		t.bad(c, "append to something that is not a []error")
	}
	el := t.toVal(c.Args[1], t.expr(c.Args[1], s))
	if t.appends != nil {
		*t.appends = append(*t.appends, appendInfo{clipped: clipped, existing: base.existing})
	}
	return value{k: kLVal, e: "(" + base.e + " ++ [" + el + "])", existing: base.existing && !clipped}
}

func (t *fnTr) callPkg(c *ast.CallExpr, pk, fn string, s *state) value {
	switch pk + "." + fn {
	case "strings.TrimSpace":
		t.args(c, 1)
		v := t.expr(c.Args[0], s)
		if v.k == kStr {
			return value{k: kStr, e: app("trim_space", v.e)}
		}
	case "strings.Join":
		t.args(c, 2)
		cl, ok := c.Args[0].(*ast.CompositeLit)
		sep := t.expr(c.Args[1], s)
		if ok && typeString(cl.Type) == "[]string" && sep.k == kStr && len(cl.Elts) > 0 {
			var r value
			for i, el := range cl.Elts {
				v := t.expr(el, s)
				if v.k != kStr {
					t.bad(el, "strings.Join of a non-string")
				}
				if i == 0 {
					r = v
				} else {
					r = concat(concat(r, sep), v)
				}
			}
			return r
		}
	case "slices.Clip":
		t.args(c, 1)
		v := t.expr(c.Args[0], s)
		if v.k == kLVal {
			return v
		}
	case "slices.ContainsFunc":
		t.args(c, 2)
		l := t.expr(c.Args[0], s)
		fl, ok := c.Args[1].(*ast.FuncLit)
		if l.k == kLVal && ok && len(fl.Type.Params.List) == 1 && len(fl.Type.Params.List[0].Names) == 1 &&
			typeString(fl.Type.Params.List[0].Type) == "error" {
			x := t.fresh("x")
			return t.exists(c, l, x, fl.Type.Params.List[0].Names[0].Name, value{k: kVal, e: x}, fl.Body.List, s, false)
		}
	case "reflect.ValueOf":
		t.args(c, 1)
		v := t.expr(c.Args[0], s)
		return value{k: kRefl, of: t.toVal(c, v), known: v.k == kGVal || v.k == kPtr || v.k == kTParam}
	}
	t.bad(c, "call of %s.%s in this form", pk, fn)
	return value{}
}

func (t *fnTr) callMethod(c *ast.CallExpr, f *ast.SelectorExpr, s *state) value {
	m := f.Sel.Name
	// reflect.TypeOf(x).Comparable(), <stack>.NearestExternal().Metric()
	if inner, ok := f.X.(*ast.CallExpr); ok {
		if isel, ok := inner.Fun.(*ast.SelectorExpr); ok {
			if t.isPkg(isel.X, s) == "reflect" && isel.Sel.Name == "TypeOf" && m == "Comparable" && len(inner.Args) == 1 && len(c.Args) == 0 {
				return value{k: kBool, e: app("type_comparable", t.toVal(c, t.expr(inner.Args[0], s)))}
			}
			if isel.Sel.Name == "NearestExternal" && m == "Metric" && len(inner.Args) == 0 && len(c.Args) == 0 && t.isPkg(isel.X, s) == "" {
				st := t.expr(isel.X, s)
				if t.fixed != "CloneBase" || st.k != kStack || !st.fromMake {
					t.bad(c, "NearestExternal().Metric() of a stack that is not the result of makeStack(stackType, defaultSkip)")
				}
				return value{k: kStr, e: "derived"}
			}
		}
	}
	x := t.expr(f.X, s)
	switch m {
	case "_embededGError":
		t.args(c, 0)
		switch x.k {
		case kPtr:
			return x
		case kTParam:
			return value{k: kPtr, obj: x.obj, ident: x.eident}
		case kGVal:
			t.needSt(c)
			*t.nextObj++
			s.objs[*t.nextObj] = &object{ro: true, rec: app("rec_of", "st", x.cell), fields: map[string]value{}}
			return value{k: kPtr, obj: *t.nextObj, ident: app("VG", x.cell)}
		}
	case "Unwrap":
		t.args(c, 0)
		switch x.k {
		case kGVal:
			t.needSt(c)
			t.p.fixedFn("Unwrap")
			return value{k: kVal, e: app("gen_unwrap", app("VG", x.cell), app("rec_of", "st", x.cell))}
		case kPtr:
			if o := s.objs[x.obj]; o != nil && o.ro && x.ident != "" {
				t.p.fixedFn("Unwrap")
				return value{k: kVal, e: app("gen_unwrap", x.ident, o.rec)}
			}
		}
	case "Is":
		t.args(c, 1)
		if x.k == kPtr && t.fixed == "Is" && x.obj == t.recvObj {
			return value{k: kRBool, e: app("gen_is", "fuel'", "st", "i", t.toVal(c, t.expr(c.Args[0], s)))}
		}
		t.bad(c, "method call .Is on something that is not the receiver")
	case "Comparable":
		t.args(c, 0)
		if x.k == kRefl {
			return value{k: kBool, e: app("comparable", x.of)}
		}
	case "Kind":
		t.args(c, 0)
		if x.k == kRefl {
			return value{k: kKind, of: x.of, known: x.known}
		}
	case "IsNil":
		t.args(c, 0)
		if x.k == kRefl {
			if x.known {
				return value{k: kBool, e: "false"}
			}
			return value{k: kBool, e: app("typed_nil_ptr", x.of)}
		}
	}
	t.bad(c, "method call .%s on this operand", m)
	return value{}
}

// exists translates a search loop over the []error l: `exists x in l, body(x)`.  In a loop every
// return of the body must be `return true` (falling off the end = next element).
func (t *fnTr) exists(n ast.Node, l value, x string, goName string, bind value, body []ast.Stmt, s *state, loop bool) value {
	return t.existsN(n, l, x, map[string]value{goName: bind}, body, s, loop)
}

func (t *fnTr) existsN(n ast.Node, l value, x string, binds map[string]value, body []ast.Stmt, s *state, loop bool) value {
	run := func(monadic bool) (txt string, ok bool) {
		sub := *t
		sub.monadic, sub.ret, sub.fixed, sub.appends = monadic, kBool, "", nil
		if t.fixed == "Is" {
			sub.fixed = "Is" // the recursion e.Is(..) stays available inside the loop body
		}
		sub.name = t.name + " (loop body / closure)"
		s2 := s.copy()
		s2.depth++
		for goName, bind := range binds {
			if goName == "_" || goName == "" {
				continue
			}
			if _, dup := s2.vars[goName]; dup {
				sub.bad(n, "unsupported: a variable is shadowed in an inner block")
			}
			s2.vars[goName] = binding{bind, s2.depth}
		}
		saved := t.p.counter
		defer func() {
			if r := recover(); r != nil {
				if _, isM := r.(needMonadic); isM && !monadic {
					t.p.counter = saved
					ok = false
					return
				}
				panic(r)
			}
		}()
		txt = sub.stmts(body, s2, func(*state) string {
			if !loop {
				sub.bad(n, "function literal can end without return")
			}
			if monadic {
				return "(Ok false)"
			}
			return "false"
		})
		return txt, true
	}
	if loop {
		ast.Inspect(&ast.BlockStmt{List: body}, func(nd ast.Node) bool {
			if r, ok := nd.(*ast.ReturnStmt); ok {
				id, _ := r.Results[0].(*ast.Ident)
				if len(r.Results) != 1 || id == nil || id.Name != "true" {
					t.bad(r, "loop body with a return other than `return true`")
				}
			}
			if _, ok := nd.(*ast.BranchStmt); ok {
				t.bad(nd, "break / continue / goto")
			}
			_, isLit := nd.(*ast.FuncLit)
			return !isLit
		})
	}
	if txt, ok := run(false); ok {
		return value{k: kBool, e: "(existsb (fun " + x + " => " + txt + ") " + l.e + ")"}
	}
	txt, _ := run(true)
	return value{k: kRBool, e: "(rb_exists (fun " + x + " => " + txt + ") " + l.e + ")"}
}

// ---------------------------------------------------------------- statements

func goKind(e ast.Expr) (kind, bool) {
	switch typeString(e) {
	case "string":
		return kStr, true
	case "bool":
		return kBool, true
	case "error", "Error", "Factory", "factoryOf":
		return kVal, true
	case "[]error":
		return kLVal, true
	case "StackType":
		return kStt, true
	case "Stack":
		return kStack, true
	}
	return 0, false
}

func basicKind(k kind) bool {
	return k == kStr || k == kBool || k == kVal || k == kLVal || k == kStack || k == kStt
}

func containsReturn(n ast.Node) bool {
	found := false
	ast.Inspect(n, func(nd ast.Node) bool {
		switch nd.(type) {
		case *ast.ReturnStmt, *ast.ForStmt, *ast.RangeStmt:
			found = true
		case *ast.FuncLit:
			return false
		}
		return !found
	})
	return found
}

// named binds a compound expression to a fresh Gallina name (`let n := e in`).
func (t *fnTr) named(v value, pre *strings.Builder) value {
	if !basicKind(v.k) || atomic(v.e) || v.e == "([] : str)" || v.e == "([] : list val)" || v.e == "(None : option N)" {
		return v
	}
	n := t.fresh(prefixOf(v.k))
	fmt.Fprintf(pre, "let %s := %s in\n", n, v.e)
	v.e, v.parts = n, nil
	return v
}

// assign performs lhs = v (or lhs := v) in state s; let-bindings go to pre.
func (t *fnTr) assign(lhs ast.Expr, v value, s *state, define bool, pre *strings.Builder) {
	if v.k == kRBool {
		if !t.monadic {
			panic(needMonadic{})
		}
		t.bad(lhs, "the result of a comparison of interface values (which can panic) is stored in a variable")
	}
	switch l := lhs.(type) {
	case *ast.ParenExpr:
		t.assign(l.X, v, s, define, pre)
		return
	case *ast.Ident:
		if l.Name == "_" {
			return
		}
		old, exists := s.vars[l.Name]
		if define && exists && old.depth < s.depth {
			t.bad(l, "unsupported: variable %s is shadowed in an inner block", l.Name)
		}
		if !exists {
			if !define {
				t.bad(l, "assignment to %s, which is not a local variable", l.Name)
			}
			if v.k == kNil {
				t.bad(l, "untyped nil")
			}
			s.vars[l.Name] = binding{t.named(v, pre), s.depth}
			return
		}
		if basicKind(old.v.k) {
			v = t.coerce(l, v, old.v.k)
		} else if v.k != old.v.k {
			t.bad(l, "assignment changes the kind of %s", l.Name)
		}
		s.vars[l.Name] = binding{t.named(v, pre), old.depth}
		return
	case *ast.SelectorExpr:
		if t.isPkg(l.X, s) == "" {
			x := t.expr(l.X, s)
			k, ok := fieldKind[l.Sel.Name]
			if x.k == kPtr && ok {
				o := s.objs[x.obj]
				if o.ro {
					if t.fixed == "CloneBase" {
						t.bad(l, "CloneBase writes to an existing object (field %s)", l.Sel.Name)
					}
					t.bad(l, "write to field %s of an existing object", l.Sel.Name)
				}
				o.fields[l.Sel.Name] = t.named(t.coerce(l, v, k), pre)
				return
			}
		}
	}
	t.bad(lhs, "assignment to this left-hand side")
}

func (t *fnTr) retText(r *ast.ReturnStmt, s *state) string {
	if len(r.Results) != 1 {
		t.bad(r, "return with %d results", len(r.Results))
	}
	v := t.expr(r.Results[0], s)
	switch t.ret {
	case kBool:
		if v.k == kRBool {
			if !t.monadic {
				panic(needMonadic{})
			}
			return v.e
		}
		if v.k == kBool {
			if t.monadic {
				return lift(v)
			}
			return v.e
		}
	case kRec:
		if v.k == kPtr || v.k == kTParam {
			args := []string{}
			for _, f := range fieldOrder {
				args = append(args, t.readField(r, s, v.obj, f).e)
			}
			return app("mkG", args...)
		}
	default:
		return t.coerce(r, v, t.ret).e
	}
	t.bad(r, "returned value has the wrong type")
	return ""
}

func (t *fnTr) stmts(list []ast.Stmt, s *state, k func(*state) string) string {
	if len(list) == 0 {
		return k(s)
	}
	st, rest := list[0], list[1:]
	cont := func(s1 *state) string { return t.stmts(rest, s1, k) }
	switch x := st.(type) {
	case *ast.EmptyStmt:
		return cont(s)
	case *ast.ReturnStmt:
		return t.retText(x, s)
	case *ast.BlockStmt:
		d := s.depth
		s.depth++
		return t.stmts(x.List, s, func(s1 *state) string { s1.leave(d); return cont(s1) })
	case *ast.AssignStmt:
		var pre strings.Builder
		switch {
		case x.Tok == token.ADD_ASSIGN && len(x.Lhs) == 1 && len(x.Rhs) == 1:
			a, b := t.expr(x.Lhs[0], s), t.expr(x.Rhs[0], s)
			if a.k != kStr || b.k != kStr {
				t.bad(x, "+= on non-strings")
			}
			t.assign(x.Lhs[0], concat(a, b), s, false, &pre)
		case x.Tok != token.DEFINE && x.Tok != token.ASSIGN:
			t.bad(x, "assignment operator %s", x.Tok)
		case len(x.Lhs) == 2 && len(x.Rhs) == 1:
			ta, ok := x.Rhs[0].(*ast.TypeAssertExpr)
			if !ok {
				t.bad(x, "two-valued assignment that is not `v, ok := x.(Error)`")
			}
			return t.typeAssert(x, ta, s, x.Tok == token.DEFINE, cont)
		case len(x.Lhs) == len(x.Rhs):
			vs := make([]value, len(x.Rhs))
			for i, r := range x.Rhs {
				vs[i] = t.expr(r, s)
			}
			for i, l := range x.Lhs {
				t.assign(l, vs[i], s, x.Tok == token.DEFINE, &pre)
			}
		default:
			t.bad(x, "assignment form")
		}
		return pre.String() + cont(s)
	case *ast.DeclStmt:
		var pre strings.Builder
		gd := x.Decl.(*ast.GenDecl)
		if gd.Tok != token.VAR && gd.Tok != token.CONST {
			t.bad(x, "local type declaration")
		}
		for _, sp := range gd.Specs {
			vs := sp.(*ast.ValueSpec)
			for i, n := range vs.Names {
				var v value
				switch {
				case len(vs.Values) == len(vs.Names):
					v = t.expr(vs.Values[i], s)
					if vs.Type != nil {
						if kd, ok := goKind(vs.Type); ok {
							v = t.coerce(vs, v, kd)
						} else {
							t.bad(vs, "local variable of type %s", typeString(vs.Type))
						}
					}
				case len(vs.Values) == 0 && vs.Type != nil:
					kd, ok := goKind(vs.Type)
					if !ok || kd == kStt {
						t.bad(vs, "local variable of type %s", typeString(vs.Type))
					}
					v = zeroOf(kd)
				default:
					t.bad(vs, "variable declaration form")
				}
				t.assign(n, v, s, true, &pre)
			}
		}
		return pre.String() + cont(s)
	case *ast.IfStmt:
		return t.ifStmt(x, rest, s, k)
	case *ast.SwitchStmt:
		return t.stmts(append([]ast.Stmt{t.desugarSwitch(x)}, rest...), s, k)
	case *ast.RangeStmt, *ast.ForStmt:
		c := t.loop(st, s)
		if t.ret != kBool {
			t.bad(st, "search loop in a function that does not return bool")
		}
		return t.ifText(st, c, func() string {
			if t.monadic {
				return "(Ok true)"
			}
			return "true"
		}, func() string { return cont(s) })
	}
	t.bad(st, "unsupported statement %T", st)
	return ""
}

func (t *fnTr) typeAssert(n *ast.AssignStmt, ta *ast.TypeAssertExpr, s *state, define bool, cont func(*state) string) string {
	if ta.Type == nil || (typeString(ta.Type) != "Error") {
		t.bad(n, "type assertion to a type other than Error")
	}
	x := t.expr(ta.X, s)
	branch := func(v value, ok string) string {
		s1 := s.copy()
		var pre strings.Builder
		t.assign(n.Lhs[0], v, s1, define, &pre)
		t.assign(n.Lhs[1], value{k: kBool, e: ok}, s1, define, &pre)
		return pre.String() + cont(s1)
	}
	if x.k == kGVal {
		return branch(x, "true")
	}
	src := t.toVal(n, x)
	if src == "VNil" {
		return branch(value{k: kVal, e: "VNil"}, "false")
	}
	t.needSt(n)
	j := t.fresh("j")
	none := branch(value{k: kVal, e: "VNil"}, "false")
	some := branch(value{k: kGVal, ident: src, cell: j}, "true")
	return "(match as_gerror " + src + " with\n | None => " + none + "\n | Some " + j + " => " + some + "\n end)"
}

type joinItem struct {
	a, b value
	set  func(value)
}

func (t *fnTr) ifStmt(x *ast.IfStmt, rest []ast.Stmt, s *state, k func(*state) string) string {
	if x.Init != nil {
		inner := *x
		inner.Init = nil
		blk := &ast.BlockStmt{Lbrace: x.Pos(), List: []ast.Stmt{x.Init, &inner}}
		return t.stmts(append([]ast.Stmt{blk}, rest...), s, k)
	}
	c := t.expr(x.Cond, s)
	cont := func(s1 *state) string { return t.stmts(rest, s1, k) }
	elseList := []ast.Stmt{}
	if x.Else != nil {
		elseList = []ast.Stmt{x.Else}
	}
	if c.k == kBool && (c.e == "true" || c.e == "false") {
		if c.e == "true" {
			return t.stmts(append([]ast.Stmt{x.Body}, rest...), s, k)
		}
		return t.stmts(append(elseList, rest...), s, k)
	}
	if containsReturn(x.Body) || (x.Else != nil && containsReturn(x.Else)) {
		return t.ifText(x, c,
			func() string { return t.stmts([]ast.Stmt{x.Body}, s.copy(), cont) },
			func() string { return t.stmts(elseList, s.copy(), cont) })
	}
	// no return in either branch: join the variables assigned in either branch
	if c.k == kRBool {
		if !t.monadic {
			panic(needMonadic{})
		}
		t.bad(x, "unsupported: a comparison of interface values (which can panic) decides a branch without return")
	}
	if c.k != kBool {
		t.bad(x, "condition is not boolean")
	}
	var f1, f2 *state
	capture := func(dst **state) func(*state) string {
		return func(sf *state) string {
			if *dst != nil {
				t.bad(x, "unsupported: type assertion inside a branch without return")
			}
			*dst = sf
			return ""
		}
	}
	p1 := t.stmts([]ast.Stmt{x.Body}, s.copy(), capture(&f1))
	p2 := t.stmts(elseList, s.copy(), capture(&f2))
	var items []joinItem
	var names []string
	for n := range s.vars {
		names = append(names, n)
	}
	sort.Strings(names)
	for _, n := range names {
		n := n
		a, b := f1.vars[n], f2.vars[n]
		if a.v.k == b.v.k && a.v.e == b.v.e && a.v.obj == b.v.obj && a.v.of == b.v.of {
			s.vars[n] = a
			continue
		}
		items = append(items, joinItem{a.v, b.v, func(v value) { s.vars[n] = binding{v, s.vars[n].depth} }})
	}
	var ids []int
	for id := range s.objs {
		ids = append(ids, id)
	}
	sort.Ints(ids)
	for _, id := range ids {
		for _, f := range fieldOrder {
			id, f := id, f
			a, okA := f1.objs[id].fields[f]
			b, okB := f2.objs[id].fields[f]
			if okA != okB {
				t.bad(x, "unsupported join of field %s", f)
			}
			if !okA || a.e == b.e {
				if okA {
					s.objs[id].fields[f] = a
				}
				continue
			}
			items = append(items, joinItem{a, b, func(v value) { s.objs[id].fields[f] = v }})
		}
	}
	if len(items) == 0 {
		return cont(s)
	}
	var ns, e1, e2 []string
	for _, it := range items {
		if it.a.k != it.b.k || !basicKind(it.a.k) {
			t.bad(x, "unsupported: the branches of an if without return assign values that cannot be joined")
		}
		n := t.fresh(prefixOf(it.a.k))
		ns, e1, e2 = append(ns, n), append(e1, it.a.e), append(e2, it.b.e)
		it.set(value{k: it.a.k, e: n, existing: it.a.existing || it.b.existing, fromMake: it.a.fromMake && it.b.fromMake})
	}
	pat, t1, t2 := ns[0], e1[0], e2[0]
	if len(items) > 1 {
		pat = "'(" + strings.Join(ns, ", ") + ")"
		t1, t2 = "("+strings.Join(e1, ", ")+")", "("+strings.Join(e2, ", ")+")"
	}
	return "let " + pat + " :=\n  (if " + c.e + "\n   then " + p1 + t1 + "\n   else " + p2 + t2 + ") in\n" + cont(s)
}

// desugarSwitch rewrites a switch as an if / else-if chain.
func (t *fnTr) desugarSwitch(x *ast.SwitchStmt) ast.Stmt {
	var deflt *ast.BlockStmt
	type arm struct {
		cond ast.Expr
		body *ast.BlockStmt
	}
	var arms []arm
	if x.Tag != nil {
		switch x.Tag.(type) {
		case *ast.Ident, *ast.SelectorExpr:
		default:
			t.bad(x, "switch on a tag that is not a variable or field")
		}
	}
	for _, cs := range x.Body.List {
		cc := cs.(*ast.CaseClause)
		body := &ast.BlockStmt{Lbrace: cc.Pos(), List: cc.Body}
		ast.Inspect(body, func(n ast.Node) bool {
			if _, ok := n.(*ast.BranchStmt); ok {
				t.bad(n, "break / fallthrough / continue / goto")
			}
			return true
		})
		if cc.List == nil {
			deflt = body
			continue
		}
		var cond ast.Expr
		for _, e := range cc.List {
			c := e
			if x.Tag != nil {
				c = &ast.BinaryExpr{X: x.Tag, OpPos: e.Pos(), Op: token.EQL, Y: e}
			}
			if cond == nil {
				cond = c
			} else {
				cond = &ast.BinaryExpr{X: cond, OpPos: e.Pos(), Op: token.LOR, Y: c}
			}
		}
		arms = append(arms, arm{cond, body})
	}
	var cur ast.Stmt
	if deflt != nil {
		cur = deflt
	}
	for i := len(arms) - 1; i >= 0; i-- {
		cur = &ast.IfStmt{If: arms[i].body.Pos(), Cond: arms[i].cond, Body: arms[i].body, Else: cur}
	}
	if cur == nil {
		cur = &ast.EmptyStmt{}
	}
	if x.Init != nil {
		return &ast.BlockStmt{Lbrace: x.Pos(), List: []ast.Stmt{x.Init, cur}}
	}
	return cur
}

// loop translates the three search-loop forms into `exists x in L, body`.
func (t *fnTr) loop(st ast.Stmt, s *state) value {
	x := t.fresh("x")
	elem := value{k: kVal, e: x}
	switch l := st.(type) {
	case *ast.RangeStmt:
		if l.Tok != token.DEFINE && !(l.Key == nil && l.Value == nil) {
			t.bad(l, "range loop assigning to existing variables")
		}
		lv := t.expr(l.X, s)
		if lv.k != kLVal {
			t.bad(l, "range over something that is not a []error")
		}
		binds := map[string]value{}
		if id, ok := l.Key.(*ast.Ident); ok && id.Name != "_" {
			binds[id.Name] = value{k: kIdx, of: lv.e, elem: x}
		}
		if id, ok := l.Value.(*ast.Ident); ok && id.Name != "_" {
			binds[id.Name] = elem
		}
		return t.existsN(l, lv, x, binds, l.Body.List, s, true)
	case *ast.ForStmt:
		init, ok1 := l.Init.(*ast.AssignStmt)
		cond, ok2 := l.Cond.(*ast.BinaryExpr)
		post, ok3 := l.Post.(*ast.IncDecStmt)
		if ok1 && ok2 && ok3 && init.Tok == token.DEFINE && len(init.Lhs) == 1 && len(init.Rhs) == 1 && isZeroOrNil(init.Rhs[0]) &&
			cond.Op == token.LSS && post.Tok == token.INC {
			iv, _ := init.Lhs[0].(*ast.Ident)
			cv, _ := cond.X.(*ast.Ident)
			pv, _ := post.X.(*ast.Ident)
			if iv != nil && cv != nil && pv != nil && iv.Name == cv.Name && iv.Name == pv.Name {
				n := t.expr(cond.Y, s)
				if n.k == kInt && n.of != "" && n.ofKind == kLVal {
					lv := value{k: kLVal, e: n.of}
					return t.existsN(l, lv, x, map[string]value{iv.Name: {k: kIdx, of: n.of, elem: x}}, l.Body.List, s, true)
				}
			}
		}
		t.bad(l, "for loop that is not `for i := 0; i < len(L); i++`")
	}
	return value{}
}

// ---------------------------------------------------------------- functions

func paramNames(fd *ast.FuncDecl) (names []string, types []ast.Expr) {
	for _, f := range fd.Type.Params.List {
		if len(f.Names) == 0 {
			names, types = append(names, "_"), append(types, f.Type)
		}
		for _, n := range f.Names {
			names, types = append(names, n.Name), append(types, f.Type)
		}
	}
	return
}

// run translates a body, first as a pure function and, when a monadic value reaches a return or a
// condition, again as a `res bool` function.
func (p *pkg) run(t *fnTr, body []ast.Stmt, mk func() *state, forceMonadic bool) (txt string, monadic bool) {
	attempt := func(m bool) (txt string, ok bool) {
		saved := p.counter
		var savedApp []appendInfo
		if t.appends != nil {
			savedApp = append(savedApp, *t.appends...)
		}
		defer func() {
			if r := recover(); r != nil {
				if _, isM := r.(needMonadic); isM && !m {
					p.counter = saved
					if t.appends != nil {
						*t.appends = savedApp
					}
					ok = false
					return
				}
				panic(r)
			}
		}()
		t.monadic = m
		txt = t.stmts(body, mk(), func(*state) string {
			t.bad(nil, "the function can end without a return")
			return ""
		})
		return txt, true
	}
	if !forceMonadic {
		if txt, ok := attempt(false); ok {
			return txt, false
		}
	}
	if t.ret != kBool {
		t.bad(nil, "a comparison of interface values (which can panic) in a function that does not return bool")
	}
	txt, _ = attempt(true)
	return txt, true
}

func (p *pkg) helper(name string) *fnInfo {
	key := "fn:" + name
	if info, ok := p.done[key]; ok {
		if info.progress {
			panic(untranslatable{"function " + name + ": recursive helper function"})
		}
		return info
	}
	fd := p.funcs[name]
	info := &fnInfo{gal: "gen_fn_" + name, progress: true}
	p.done[key] = info
	usesSt, nobj := false, 0
	t := &fnTr{p: p, name: name, usesSt: &usesSt, nextObj: &nobj}
	if fd.Type.TypeParams != nil {
		t.bad(fd, "generic helper function")
	}
	if fd.Type.Results == nil || len(fd.Type.Results.List) != 1 || len(fd.Type.Results.List[0].Names) > 1 {
		t.bad(fd, "helper function without exactly one result")
	}
	rk, ok := goKind(fd.Type.Results.List[0].Type)
	if !ok {
		t.bad(fd, "helper function returning %s", typeString(fd.Type.Results.List[0].Type))
	}
	if len(fd.Type.Results.List[0].Names) == 1 {
		t.bad(fd, "named result")
	}
	t.ret = rk
	names, types := paramNames(fd)
	var gal []string
	for i := range names {
		k, ok := goKind(types[i])
		if !ok {
			t.bad(fd, "helper function with a parameter of type %s", typeString(types[i]))
		}
		info.params = append(info.params, k)
		gal = append(gal, fmt.Sprintf("a_%d", i+1))
	}
	mk := func() *state {
		s := &state{vars: map[string]binding{}, objs: map[int]*object{}}
		for i, n := range names {
			if n != "_" {
				s.vars[n] = binding{value{k: info.params[i], e: gal[i], existing: info.params[i] == kLVal}, 0}
			}
		}
		return s
	}
	body, monadic := p.run(t, fd.Body.List, mk, false)
	info.ret, info.monadic, info.usesSt, info.progress = rk, monadic, usesSt, false
	var sb strings.Builder
	fmt.Fprintf(&sb, "(* func %s *)\nDefinition %s", name, info.gal)
	if usesSt {
		sb.WriteString(" (st : store)")
	}
	for i, g := range gal {
		fmt.Fprintf(&sb, " (%s : %s)", g, kindName[info.params[i]])
	}
	rt := kindName[rk]
	if monadic {
		rt = "res bool"
	}
	fmt.Fprintf(&sb, " : %s :=\n%s.\n#[global] Hint Unfold %s : gerr_gen.\n", rt, body, info.gal)
	p.out = append(p.out, sb.String())
	return info
}

func (p *pkg) need(m map[string]*ast.FuncDecl, name, what string) *ast.FuncDecl {
	fd, ok := m[name]
	if !ok {
		fail("%s %s not found", what, name)
	}
	return fd
}

func recvName(fd *ast.FuncDecl) string {
	if len(fd.Recv.List[0].Names) == 1 {
		return fd.Recv.List[0].Names[0].Name
	}
	return "_"
}

// fixedFn translates one of the five entry points (once).
func (p *pkg) fixedFn(which string) {
	key := "fixed:" + which
	if info, ok := p.done[key]; ok {
		if info.progress {
			panic(untranslatable{"function " + which + ": recursion through another function"})
		}
		return
	}
	info := &fnInfo{progress: true}
	p.done[key] = info
	nobj := 1
	yes := true
	t := &fnTr{p: p, fixed: which, nextObj: &nobj}
	newState := func() *state { return &state{vars: map[string]binding{}, objs: map[int]*object{}} }
	switch which {
	case "CloneBase":
		fd := p.need(p.funcs, "CloneBase", "function")
		t.name, t.ret = "CloneBase", kRec
		names, _ := paramNames(fd)
		if len(names) != 6 {
			t.bad(fd, "CloneBase has %d parameters, the model has 6", len(names))
		}
		var apps []appendInfo
		t.appends = &apps
		vals := []value{{k: kTParam, obj: 1, ident: "err_ptr", eident: "base_ptr"}, {k: kStt, e: "stt"}, {k: kStr, e: "dtag"},
			{k: kStr, e: "src"}, {k: kStr, e: "ext"}, {k: kVal, e: "serr"}}
		body, _ := p.run(t, fd.Body.List, func() *state {
			s := newState()
			s.objs[1] = &object{ro: true, rec: "base", fields: map[string]value{}}
			for i, n := range names {
				if n != "_" {
					s.vars[n] = binding{vals[i], 0}
				}
			}
			return s
		}, false)
		clipped := true
		for _, a := range apps {
			if a.existing && !a.clipped {
				clipped = false
			}
		}
		p.out = append(p.out, "(* func CloneBase *)\nDefinition gen_clone_base (base : gerr) (base_ptr err_ptr : val) (stt : stack_type)\n"+
			"  (dtag src ext : str) (serr : val) (site : N) (derived : str) : gerr :=\n"+body+".\n"+
			fmt.Sprintf("(* %d append(s) in CloneBase; true iff each one whose operand belongs to an existing object is capacity-clipped *)\n", len(apps))+
			fmt.Sprintf("Definition gen_appends_clipped : bool := %v.\n", clipped))
	case "FactoryOf":
		fd := p.need(p.funcs, "FactoryOf", "function")
		t.name, t.ret = "FactoryOf", kRec
		names, _ := paramNames(fd)
		if len(names) != 1 {
			t.bad(fd, "FactoryOf has %d parameters, the model has 1", len(names))
		}
		body, _ := p.run(t, fd.Body.List, func() *state {
			s := newState()
			o := &object{fields: map[string]value{}}
			for _, f := range fieldOrder {
				o.fields[f] = value{k: fieldKind[f], e: app(fieldProj[f], "g"), existing: fieldKind[f] == kLVal}
			}
			s.objs[1] = o
			s.vars[names[0]] = binding{value{k: kTParam, obj: 1}, 0}
			return s
		}, false)
		p.out = append(p.out, "(* func FactoryOf *)\nDefinition gen_factory_of (g : gerr) : gerr :=\n"+body+".\n")
	case "Unwrap":
		fd := p.need(p.meths, "Unwrap", "method (*GError)")
		t.name, t.ret = "(*GError).Unwrap", kVal
		if names, _ := paramNames(fd); len(names) != 0 {
			t.bad(fd, "Unwrap has parameters")
		}
		body, _ := p.run(t, fd.Body.List, func() *state {
			s := newState()
			s.objs[1] = &object{ro: true, rec: "e", fields: map[string]value{}}
			if r := recvName(fd); r != "_" {
				s.vars[r] = binding{value{k: kPtr, obj: 1, ident: "e_ptr"}, 0}
			}
			return s
		}, false)
		p.out = append(p.out, "(* method GError.Unwrap (pointer receiver) *)\nDefinition gen_unwrap (e_ptr : val) (e : gerr) : val :=\n"+body+".\n")
	case "Extract":
		fd := p.need(p.funcs, "ExtractFactoryReference", "function")
		t.name, t.ret, t.usesSt = "ExtractFactoryReference", kVal, &yes
		names, _ := paramNames(fd)
		if len(names) != 1 {
			t.bad(fd, "ExtractFactoryReference has %d parameters, the model has 1", len(names))
		}
		body, _ := p.run(t, fd.Body.List, func() *state {
			s := newState()
			if names[0] != "_" {
				s.vars[names[0]] = binding{value{k: kVal, e: "err"}, 0}
			}
			return s
		}, false)
		p.out = append(p.out, "(* func ExtractFactoryReference *)\nDefinition gen_extract (st : store) (err : val) : val :=\n"+body+".\n")
	case "Is":
		fd := p.need(p.meths, "Is", "method (*GError)")
		t.name, t.ret, t.usesSt, t.recvObj = "(*GError).Is", kBool, &yes, 1
		names, _ := paramNames(fd)
		if len(names) != 1 {
			t.bad(fd, "Is has %d parameters, the model has 1", len(names))
		}
		p.fixedFn("Unwrap")
		body, _ := p.run(t, fd.Body.List, func() *state {
			s := newState()
			s.objs[1] = &object{ro: true, rec: "e", fields: map[string]value{}}
			if r := recvName(fd); r != "_" {
				s.vars[r] = binding{value{k: kPtr, obj: 1, ident: "(VG i)"}, 0}
			}
			if names[0] != "_" {
				s.vars[names[0]] = binding{value{k: kVal, e: "err"}, 0}
			}
			return s
		}, true)
		p.out = append(p.out, "(* method GError.Is (pointer receiver) *)\nFixpoint gen_is (fuel : nat) (st : store) (i : nat) (err : val) {struct fuel} : res bool :=\n"+
			"  match fuel with\n  | O => Fuel\n  | S fuel' =>\n    match nth_error st i with\n    | None => Panic\n    | Some c__ =>\n      let e := c_g c__ in\n"+
			body+"\n    end\n  end.\n")
	}
	info.progress = false
}

func runFns(dir, out string) {
	defer func() {
		if r := recover(); r != nil {
			if u, ok := r.(untranslatable); ok {
				fail("untranslatable: %s", u.msg)
			}
			panic(r)
		}
	}()
	p := loadPkg(strings.TrimRight(dir, "/"))
	for _, f := range []string{"FactoryOf", "CloneBase", "Unwrap", "Extract", "Is"} {
		p.fixedFn(f)
	}
	var sb strings.Builder
	fmt.Fprintf(&sb, "(* generated by xlate_gerr_wiring -fns from package gerror (CloneBase, FactoryOf, Unwrap,\n   ExtractFactoryReference, Is and their helpers); do not edit *)\n")
	sb.WriteString("From Coq Require Import NArith List Bool.\nImport ListNotations.\nFrom GT Require Import Base.GErrStr GErrModel GErrTie.\n\n")
	sb.WriteString(strings.Join(p.out, "\n"))
	if out == "" || out == "-" {
		fmt.Print(sb.String())
		return
	}
	if err := os.WriteFile(out, []byte(sb.String()), 0o644); err != nil {
		fail("%v", err)
	}
}
