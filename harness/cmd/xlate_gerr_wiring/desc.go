// desc.go — translator tie (T) of property C09 for the parts of the generated code that are not
// CloneBase wiring: the Error() method and toPrimaryType of a generated extension type.
//
//	xlate_gerr_wiring desc -gen <dir>/x.gerror.go[,more.go] -src <dir>/x.go -type T -name SUFFIX
//
// prints two Gallina definitions (types in coq/theories/GErrExtDesc.v):
//
//	gen_error_desc_SUFFIX : list pitem   the print list of (*T).Error(), statement by statement
//	gen_primary_SUFFIX    : list str     the fields toPrimaryType copies from the receiver (sorted)
//
// The description is canonical: it does not depend on the names of locals, on whether a base
// member is reached as e.GError.Name, e.Name (when T has no member of that name) or through the
// accessor e.ErrName(), on `len(x) > 0` vs `x != ""`, on the separator being a constant or a
// literal, nor on fmt.Sprintf("%s: %v", "name", v) vs "name" + ": " + fmt.Sprint(v).  Selectors are
// RESOLVED against T's own members (read from -src and the generated files): e.Source is the
// extension field when T declares a field Source, and the promoted GError field otherwise.
// Anything else is untranslatable (exit 1): the tie is then reported broken.
package main

import (
	"flag"
	"fmt"
	"go/ast"
	"go/parser"
	"go/token"
	"os"
	"reflect"
	"sort"
	"strconv"
	"strings"
)

func init() {
	if len(os.Args) > 1 && os.Args[1] == "desc" {
		descMain(os.Args[2:])
		os.Exit(0)
	}
}

func dfail(format string, a ...any) {
	fmt.Fprintf(os.Stderr, "xlate_gerr_wiring desc: "+format+"\n", a...)
	os.Exit(1)
}

func dgstr(s string) string {
	rs := []rune(s)
	if len(rs) == 0 {
		return "([] : str)"
	}
	out := make([]string, len(rs))
	for i, r := range rs {
		out[i] = strconv.Itoa(int(r))
	}
	return "([" + strings.Join(out, ";") + "]%N : str)"
}

type descTr struct {
	typ        string
	ownFields  map[string]bool
	ownMethods map[string]bool
	consts     map[string]string // string constants (package level and local)
	recv       string
	alias      map[string]string // local name -> selector (Gallina psel) it was bound to
	resultVar  string
}

// base members of GError reachable through promotion, and their accessor methods
var baseField = map[string]string{"Name": "BName", "Source": "BSource", "Message": "BMessage"}
var baseAccessor = map[string]string{"ErrName": "BName", "ErrSource": "BSource", "ErrMessage": "BMessage",
	"ErrDetailTag": "BDTag", "ErrStack": "BStack"}

// sel resolves an expression denoting a member of the receiver to a psel.
func (t *descTr) sel(e ast.Expr) (string, bool) {
	switch x := e.(type) {
	case *ast.Ident:
		if s, ok := t.alias[x.Name]; ok {
			return s, true
		}
	case *ast.CallExpr: // accessor call e.ErrName() / e.GError.ErrName()
		if len(x.Args) != 0 {
			return "", false
		}
		se, ok := x.Fun.(*ast.SelectorExpr)
		if !ok {
			return "", false
		}
		b, ok := baseAccessor[se.Sel.Name]
		if !ok {
			return "", false
		}
		switch r := se.X.(type) {
		case *ast.Ident:
			if r.Name != t.recv {
				return "", false
			}
			if t.ownMethods[se.Sel.Name] || t.ownFields[se.Sel.Name] {
				return "(POwnMethod " + dgstr(se.Sel.Name) + ")", true
			}
			return "(PBase " + b + ")", true
		case *ast.SelectorExpr: // e.GError.ErrName()
			if id, ok := r.X.(*ast.Ident); ok && id.Name == t.recv && r.Sel.Name == "GError" {
				return "(PBase " + b + ")", true
			}
		}
	case *ast.SelectorExpr:
		switch r := x.X.(type) {
		case *ast.Ident:
			if r.Name != t.recv {
				return "", false
			}
			if t.ownFields[x.Sel.Name] {
				return "(POwn " + dgstr(x.Sel.Name) + ")", true
			}
			if b, ok := baseField[x.Sel.Name]; ok {
				return "(PBase " + b + ")", true
			}
		case *ast.SelectorExpr: // e.GError.Name
			if id, ok := r.X.(*ast.Ident); ok && id.Name == t.recv && r.Sel.Name == "GError" {
				if b, ok := baseField[x.Sel.Name]; ok {
					return "(PBase " + b + ")", true
				}
			}
		}
	}
	return "", false
}

// atom of a string concatenation
type atom struct {
	lit   *string
	sel   string // psel of a receiver member
	field string // own field rendered with %v (fmt.Sprint / Sprintf)
}

func (t *descTr) strLit(e ast.Expr) (string, bool) {
	switch x := e.(type) {
	case *ast.BasicLit:
		if x.Kind == token.STRING {
			s, err := strconv.Unquote(x.Value)
			return s, err == nil
		}
	case *ast.Ident:
		s, ok := t.consts[x.Name]
		return s, ok
	case *ast.ParenExpr:
		return t.strLit(x.X)
	}
	return "", false
}

// ownField recognises e.F for an own field F of T.
func (t *descTr) ownField(e ast.Expr) (string, bool) {
	se, ok := e.(*ast.SelectorExpr)
	if !ok {
		return "", false
	}
	id, ok := se.X.(*ast.Ident)
	if !ok || id.Name != t.recv || !t.ownFields[se.Sel.Name] {
		return "", false
	}
	return se.Sel.Name, true
}

func isFmt(c *ast.CallExpr, name string) bool {
	s, ok := c.Fun.(*ast.SelectorExpr)
	if !ok || s.Sel.Name != name {
		return false
	}
	p, ok := s.X.(*ast.Ident)
	return ok && p.Name == "fmt"
}

func (t *descTr) atoms(e ast.Expr) []atom {
	switch x := e.(type) {
	case *ast.ParenExpr:
		return t.atoms(x.X)
	case *ast.BinaryExpr:
		if x.Op == token.ADD {
			return append(t.atoms(x.X), t.atoms(x.Y)...)
		}
	case *ast.CallExpr:
		// fmt.Sprintf("%s: %v", "name", e.F)  /  fmt.Sprintf("name: %v", e.F)  /  fmt.Sprint(e.F)
		if isFmt(x, "Sprintf") && len(x.Args) >= 2 {
			if format, ok := t.strLit(x.Args[0]); ok {
				switch {
				case format == "%s: %v" && len(x.Args) == 3:
					if name, ok := t.strLit(x.Args[1]); ok {
						if f, ok := t.ownField(x.Args[2]); ok {
							colon := ": "
							return []atom{{lit: &name}, {lit: &colon}, {field: f}}
						}
					}
				case strings.HasSuffix(format, "%v") && !strings.Contains(strings.TrimSuffix(format, "%v"), "%") && len(x.Args) == 2:
					if f, ok := t.ownField(x.Args[1]); ok {
						pre := strings.TrimSuffix(format, "%v")
						return []atom{{lit: &pre}, {field: f}}
					}
				}
			}
		}
		if isFmt(x, "Sprint") && len(x.Args) == 1 {
			if f, ok := t.ownField(x.Args[0]); ok {
				return []atom{{field: f}}
			}
		}
	}
	if s, ok := t.strLit(e); ok {
		return []atom{{lit: &s}}
	}
	if s, ok := t.sel(e); ok {
		return []atom{{sel: s}}
	}
	dfail("type %s, Error(): untranslatable string expression", t.typ)
	return nil
}

// merge adjacent literals
func mergeLits(as []atom) []atom {
	var out []atom
	for _, a := range as {
		if a.lit != nil && len(out) > 0 && out[len(out)-1].lit != nil {
			s := *out[len(out)-1].lit + *a.lit
			out[len(out)-1] = atom{lit: &s}
			continue
		}
		if a.lit != nil && *a.lit == "" {
			continue
		}
		out = append(out, a)
	}
	return out
}

// appendTo recognises `result += E` / `result = result + E` and returns E.
func (t *descTr) appendTo(s ast.Stmt) (ast.Expr, bool) {
	as, ok := s.(*ast.AssignStmt)
	if !ok || len(as.Lhs) != 1 || len(as.Rhs) != 1 {
		return nil, false
	}
	id, ok := as.Lhs[0].(*ast.Ident)
	if !ok || id.Name != t.resultVar {
		return nil, false
	}
	switch as.Tok {
	case token.ADD_ASSIGN:
		return as.Rhs[0], true
	case token.ASSIGN:
		if b, ok := as.Rhs[0].(*ast.BinaryExpr); ok && b.Op == token.ADD {
			// leftmost operand must be result
			var left ast.Expr = b
			for {
				bb, ok := left.(*ast.BinaryExpr)
				if !ok || bb.Op != token.ADD {
					break
				}
				left = bb.X
			}
			if lid, ok := left.(*ast.Ident); ok && lid.Name == t.resultVar {
				// rebuild the expression without the leftmost operand
				return dropLeftmost(b), true
			}
		}
	}
	return nil, false
}

func dropLeftmost(b *ast.BinaryExpr) ast.Expr {
	if inner, ok := b.X.(*ast.BinaryExpr); ok && inner.Op == token.ADD {
		return &ast.BinaryExpr{X: dropLeftmost(inner), Op: token.ADD, Y: b.Y}
	}
	return b.Y
}

// nonEmptyTest recognises len(x) > 0, len(x) != 0, x != "" and returns x.
func nonEmptyTest(t *descTr, e ast.Expr) (ast.Expr, bool) {
	b, ok := e.(*ast.BinaryExpr)
	if !ok {
		return nil, false
	}
	isZero := func(e ast.Expr) bool {
		l, ok := e.(*ast.BasicLit)
		return ok && l.Kind == token.INT && l.Value == "0"
	}
	if c, ok := b.X.(*ast.CallExpr); ok && len(c.Args) == 1 {
		if f, ok := c.Fun.(*ast.Ident); ok && f.Name == "len" && isZero(b.Y) && (b.Op == token.GTR || b.Op == token.NEQ) {
			return c.Args[0], true
		}
	}
	if s, ok := t.strLit(b.Y); ok && s == "" && b.Op == token.NEQ {
		return b.X, true
	}
	return nil, false
}

func (t *descTr) errorMethod(fd *ast.FuncDecl) []string {
	var items []string
	t.alias = map[string]string{}
	for _, st := range fd.Body.List {
		switch s := st.(type) {
		case *ast.DeclStmt: // const separator = ", "
			gd, ok := s.Decl.(*ast.GenDecl)
			if !ok || gd.Tok != token.CONST {
				dfail("type %s, Error(): unsupported declaration", t.typ)
			}
			descCollectConsts(gd, t.consts)
			continue
		case *ast.AssignStmt:
			if s.Tok == token.DEFINE && len(s.Lhs) == 1 && len(s.Rhs) == 1 {
				id, _ := s.Lhs[0].(*ast.Ident)
				if lit, ok := t.strLit(s.Rhs[0]); ok && id != nil && t.resultVar == "" {
					if lit != "" {
						dfail("type %s, Error(): the result does not start empty", t.typ)
					}
					t.resultVar = id.Name
					continue
				}
				if sel, ok := t.sel(s.Rhs[0]); ok && id != nil { // name := e.GError.Name
					t.alias[id.Name] = sel
					continue
				}
			}
			if e, ok := t.appendTo(s); ok {
				as := mergeLits(t.atoms(e))
				items = append(items, t.plainItem(as))
				continue
			}
		case *ast.IfStmt:
			if s.Else != nil {
				dfail("type %s, Error(): if with else", t.typ)
			}
			saved := map[string]string{}
			for k, v := range t.alias {
				saved[k] = v
			}
			if s.Init != nil {
				as, ok := s.Init.(*ast.AssignStmt)
				if !ok || as.Tok != token.DEFINE || len(as.Lhs) != 1 || len(as.Rhs) != 1 {
					dfail("type %s, Error(): unsupported if-initialiser", t.typ)
				}
				id, _ := as.Lhs[0].(*ast.Ident)
				sel, ok := t.sel(as.Rhs[0])
				if !ok || id == nil {
					dfail("type %s, Error(): the if-initialiser does not read a member of the receiver", t.typ)
				}
				t.alias[id.Name] = sel
			}
			x, ok := nonEmptyTest(t, s.Cond)
			if !ok {
				dfail("type %s, Error(): unsupported condition", t.typ)
			}
			csel, ok := t.sel(x)
			if !ok {
				dfail("type %s, Error(): the condition does not test a member of the receiver", t.typ)
			}
			if len(s.Body.List) != 1 {
				dfail("type %s, Error(): conditional block with %d statements", t.typ, len(s.Body.List))
			}
			e, ok := t.appendTo(s.Body.List[0])
			if !ok {
				dfail("type %s, Error(): conditional block does not append to the result", t.typ)
			}
			as := mergeLits(t.atoms(e))
			items = append(items, t.condItem(csel, as))
			t.alias = saved
			continue
		case *ast.ReturnStmt:
			if len(s.Results) == 1 {
				if id, ok := s.Results[0].(*ast.Ident); ok && id.Name == t.resultVar {
					continue
				}
			}
		}
		dfail("type %s, Error(): unsupported statement", t.typ)
	}
	return items
}

// unconditional append: a print-tagged field `name: %v, ` or the message `Message: <sel>`
func (t *descTr) plainItem(as []atom) string {
	switch {
	case len(as) == 3 && as[0].lit != nil && as[1].field != "" && as[2].lit != nil && strings.HasSuffix(*as[0].lit, ": "):
		return "PField " + dgstr(strings.TrimSuffix(*as[0].lit, ": ")) + " " + dgstr(as[1].field) + " " + dgstr(*as[2].lit)
	case len(as) == 2 && as[0].lit != nil && as[1].sel != "":
		return "PMsg " + dgstr(*as[0].lit) + " " + as[1].sel
	}
	dfail("type %s, Error(): an appended expression is neither `<print name>: <field>, ` nor `<label><member>`", t.typ)
	return ""
}

// conditional append: `label + member + separator` under `member non-empty`, or the stack
func (t *descTr) condItem(csel string, as []atom) string {
	if len(as) == 3 && as[0].lit != nil && as[1].sel == csel && as[2].lit != nil {
		return "PIf " + dgstr(*as[0].lit) + " " + csel + " " + dgstr(*as[2].lit)
	}
	dfail("type %s, Error(): a conditional block is not `label + member + separator` for the tested member", t.typ)
	return ""
}

// stackItem recognises the trailing `if stack := SEL; len(stack) > 0 { result += "\n" + stack.String() }`.
func (t *descTr) stackItem(s *ast.IfStmt) (string, bool) {
	if s.Else != nil || len(s.Body.List) != 1 {
		return "", false
	}
	alias := map[string]string{}
	for k, v := range t.alias {
		alias[k] = v
	}
	if s.Init != nil {
		as, ok := s.Init.(*ast.AssignStmt)
		if !ok || as.Tok != token.DEFINE || len(as.Lhs) != 1 || len(as.Rhs) != 1 {
			return "", false
		}
		id, _ := as.Lhs[0].(*ast.Ident)
		sel, ok := t.sel(as.Rhs[0])
		if !ok || id == nil {
			return "", false
		}
		alias[id.Name] = sel
	}
	old := t.alias
	t.alias = alias
	defer func() { t.alias = old }()
	x, ok := nonEmptyTest(t, s.Cond)
	if !ok {
		return "", false
	}
	csel, ok := t.sel(x)
	if !ok || !strings.Contains(csel, "BStack") {
		return "", false
	}
	e, ok := t.appendTo(s.Body.List[0])
	if !ok {
		return "", false
	}
	b, ok := e.(*ast.BinaryExpr)
	if !ok || b.Op != token.ADD {
		return "", false
	}
	nl, ok := t.strLit(b.X)
	if !ok || nl != "\n" {
		return "", false
	}
	c, ok := b.Y.(*ast.CallExpr)
	if !ok || len(c.Args) != 0 {
		return "", false
	}
	se, ok := c.Fun.(*ast.SelectorExpr)
	if !ok || se.Sel.Name != "String" {
		return "", false
	}
	if s2, ok := t.sel(se.X); !ok || s2 != csel {
		return "", false
	}
	return "PStack " + csel, true
}

func descCollectConsts(gd *ast.GenDecl, into map[string]string) {
	for _, sp := range gd.Specs {
		vs, ok := sp.(*ast.ValueSpec)
		if !ok {
			continue
		}
		for i, n := range vs.Names {
			if i >= len(vs.Values) {
				continue
			}
			switch v := vs.Values[i].(type) {
			case *ast.BasicLit:
				if v.Kind == token.STRING {
					if s, err := strconv.Unquote(v.Value); err == nil {
						into[n.Name] = s
					}
				}
			case *ast.Ident:
				if s, ok := into[v.Name]; ok {
					into[n.Name] = s
				}
			}
		}
	}
}

// primary translates toPrimaryType: a composite literal &T{GError: *gerr, F: e.F, ...} (returned
// directly or through one local); the result is the sorted list of copied own fields.
func (t *descTr) primary(fd *ast.FuncDecl) []string {
	if len(fd.Type.Params.List) != 1 || len(fd.Type.Params.List[0].Names) != 1 {
		dfail("type %s, toPrimaryType: expected one parameter", t.typ)
	}
	param := fd.Type.Params.List[0].Names[0].Name
	var lit *ast.CompositeLit
	find := func(e ast.Expr) *ast.CompositeLit {
		if u, ok := e.(*ast.UnaryExpr); ok && u.Op == token.AND {
			if cl, ok := u.X.(*ast.CompositeLit); ok {
				if id, ok := cl.Type.(*ast.Ident); ok && id.Name == t.typ {
					return cl
				}
			}
		}
		return nil
	}
	body := fd.Body.List
	switch len(body) {
	case 1:
		if r, ok := body[0].(*ast.ReturnStmt); ok && len(r.Results) == 1 {
			lit = find(r.Results[0])
		}
	case 2:
		as, ok1 := body[0].(*ast.AssignStmt)
		r, ok2 := body[1].(*ast.ReturnStmt)
		if ok1 && ok2 && as.Tok == token.DEFINE && len(as.Lhs) == 1 && len(as.Rhs) == 1 && len(r.Results) == 1 {
			v, _ := as.Lhs[0].(*ast.Ident)
			rv, _ := r.Results[0].(*ast.Ident)
			if v != nil && rv != nil && v.Name == rv.Name {
				lit = find(as.Rhs[0])
			}
		}
	}
	if lit == nil {
		dfail("type %s, toPrimaryType: expected `&%s{...}` returned directly or through one local", t.typ, t.typ)
	}
	var copied []string
	sawBase := false
	for _, el := range lit.Elts {
		kv, ok := el.(*ast.KeyValueExpr)
		if !ok {
			dfail("type %s, toPrimaryType: positional composite literal", t.typ)
		}
		key, _ := kv.Key.(*ast.Ident)
		if key == nil {
			dfail("type %s, toPrimaryType: unsupported key", t.typ)
		}
		if key.Name == "GError" {
			// GError: *gerr
			st, ok := kv.Value.(*ast.StarExpr)
			id, _ := st.X.(*ast.Ident)
			if !ok || id == nil || id.Name != param {
				dfail("type %s, toPrimaryType: the embedded GError is not the dereferenced parameter", t.typ)
			}
			sawBase = true
			continue
		}
		f, ok := t.ownField(kv.Value)
		if !ok || f != key.Name {
			dfail("type %s, toPrimaryType: field %s is not copied from the receiver's field of the same name", t.typ, key.Name)
		}
		copied = append(copied, f)
	}
	if !sawBase {
		dfail("type %s, toPrimaryType: the embedded GError is not set", t.typ)
	}
	sort.Strings(copied)
	return copied
}

// anonName: the field name of an anonymous field of type T, *T, pkg.T or *pkg.T.
func anonName(e ast.Expr) string {
	switch x := e.(type) {
	case *ast.Ident:
		return x.Name
	case *ast.StarExpr:
		return anonName(x.X)
	case *ast.SelectorExpr:
		return x.Sel.Name
	}
	return ""
}

// srcField renders a declared field with its `gerror:"name,opts"` tag as an xfield (values empty).
func srcField(name, tag string) string {
	val, tagged := reflect.StructTag(tag).Lookup("gerror")
	tagname, opts := "", []string{}
	if tagged {
		parts := strings.Split(val, ",")
		tagname = parts[0]
		for _, o := range parts[1:] {
			opts = append(opts, dgstr(o))
		}
	}
	b := "false"
	if tagged {
		b = "true"
	}
	return "mkF " + dgstr(name) + " " + b + " " + dgstr(tagname) + " [" + strings.Join(opts, "; ") + "] [] []"
}

func descMain(args []string) {
	fs := flag.NewFlagSet("desc", flag.ExitOnError)
	gen := fs.String("gen", "", "generated file(s), comma separated")
	src := fs.String("src", "", "file(s) declaring the struct type, comma separated")
	typ := fs.String("type", "", "extension struct type")
	name := fs.String("name", "", "suffix of the emitted definitions (default: the type name)")
	_ = fs.Parse(args)
	if *name == "" {
		*name = *typ
	}
	t := &descTr{typ: *typ, ownFields: map[string]bool{}, ownMethods: map[string]bool{}, consts: map[string]string{}}
	fset := token.NewFileSet()
	var files []*ast.File
	for _, p := range strings.Split(*gen+","+*src, ",") {
		if p == "" {
			continue
		}
		f, err := parser.ParseFile(fset, p, nil, 0)
		if err != nil {
			dfail("%v", err)
		}
		files = append(files, f)
	}
	var errFn, primFn *ast.FuncDecl
	var srcFields []string // the struct's extra fields as GErrModel.xfield terms, from the DEFINITION
	found := false
	for _, f := range files {
		for _, d := range f.Decls {
			switch x := d.(type) {
			case *ast.GenDecl:
				if x.Tok == token.CONST {
					descCollectConsts(x, t.consts)
				}
				for _, sp := range x.Specs {
					ts, ok := sp.(*ast.TypeSpec)
					if !ok || ts.Name.Name != *typ {
						continue
					}
					st, ok := ts.Type.(*ast.StructType)
					if !ok {
						dfail("type %s is not a struct", *typ)
					}
					found = true
					for _, fl := range st.Fields.List {
						names := []string{}
						for _, n := range fl.Names {
							names = append(names, n.Name)
						}
						if len(fl.Names) == 0 { // anonymous field: named after its type
							n := anonName(fl.Type)
							if n == "GError" {
								continue // the embedded base
							}
							if n == "" {
								dfail("type %s: unsupported anonymous field", *typ)
							}
							names = append(names, n)
						}
						tag := ""
						if fl.Tag != nil {
							tag, _ = strconv.Unquote(fl.Tag.Value)
						}
						for _, n := range names {
							t.ownFields[n] = true
							srcFields = append(srcFields, srcField(n, tag))
						}
					}
				}
			case *ast.FuncDecl:
				if recvType(x) != *typ || x.Body == nil {
					continue
				}
				switch x.Name.Name {
				case "Error":
					errFn = x
				case "toPrimaryType":
					primFn = x
				}
				t.ownMethods[x.Name.Name] = true
			}
		}
	}
	if !found || errFn == nil || primFn == nil {
		dfail("type %s: struct declaration, Error() or toPrimaryType not found", *typ)
	}
	if len(errFn.Recv.List[0].Names) == 1 {
		t.recv = errFn.Recv.List[0].Names[0].Name
	}
	// the stack block is the last statement before the return; handle it separately
	body := errFn.Body.List
	var stackItem string
	for i := len(body) - 1; i >= 0; i-- {
		if is, ok := body[i].(*ast.IfStmt); ok {
			// aliases defined before this statement are needed: run a dry pass up to i
			pre := &ast.FuncDecl{Name: errFn.Name, Recv: errFn.Recv, Type: errFn.Type, Body: &ast.BlockStmt{List: body[:i]}}
			probe := *t
			probe.consts = map[string]string{}
			for k, v := range t.consts {
				probe.consts[k] = v
			}
			_ = probe.errorMethod(pre)
			if it, ok := probe.stackItem(is); ok {
				stackItem = it
				rest := append(append([]ast.Stmt{}, body[:i]...), body[i+1:]...)
				errFn = &ast.FuncDecl{Name: errFn.Name, Recv: errFn.Recv, Type: errFn.Type, Body: &ast.BlockStmt{List: rest}}
			}
			break
		}
	}
	items := t.errorMethod(errFn)
	if stackItem != "" {
		items = append(items, stackItem)
	}
	if primFn.Recv != nil && len(primFn.Recv.List[0].Names) == 1 {
		t.recv = primFn.Recv.List[0].Names[0].Name
	}
	copied := t.primary(primFn)
	var sb strings.Builder
	fmt.Fprintf(&sb, "(* generated by xlate_gerr_wiring desc from %s (type %s); do not edit *)\n", *gen, *typ)
	fmt.Fprintf(&sb, "Definition gen_error_desc_%s : list pitem :=\n  [", *name)
	for i, it := range items {
		if i > 0 {
			sb.WriteString(";\n   ")
		}
		sb.WriteString(it)
	}
	sb.WriteString("].\n")
	fmt.Fprintf(&sb, "Definition gen_primary_%s : list str :=\n  [", *name)
	for i, f := range copied {
		if i > 0 {
			sb.WriteString("; ")
		}
		sb.WriteString(dgstr(f))
	}
	sb.WriteString("].\n")
	// the struct's declared extra fields (named and anonymous) with their parsed gerror tags, read
	// from the struct DEFINITION: the expected print / clone lists are computed from these
	fmt.Fprintf(&sb, "Definition src_fields_%s : list xfield :=\n  [%s].\n", *name, strings.Join(srcFields, ";\n   "))
	fmt.Print(sb.String())
}
