//go:build gerrgen

package main

import (
	"fmt"

	"github.com/drshriveer/gtools/gerror"
)

// ExtB is generated with -skipConvertGen; Convert and ConvertS are written by hand, as in
// gerror/internal/err_with_custom_convert.go.
type ExtB struct {
	gerror.GError
	Status int `gerror:"_,print,clone"`
}

// Emb returns the address of the embedded GError.
func (e *ExtB) Emb() *gerror.GError { return &e.GError }

// Convert is the documented hand-written form.
func (e *ExtB) Convert(err error) gerror.Error {
	if gerr, ok := err.(gerror.Error); ok {
		return gerr
	}
	clone := gerror.CloneBase(e, gerror.SourceStack, "", "", fmt.Sprintf("originalError: %+v", err), err)
	return e.toPrimaryType(clone)
}

// ConvertS is the documented hand-written form.
func (e *ExtB) ConvertS(err error) gerror.Error {
	if gerr, ok := err.(gerror.Error); ok {
		return gerr
	}
	clone := gerror.CloneBase(e, gerror.DefaultStack, "", "", fmt.Sprintf("originalError: %+v", err), err)
	return e.toPrimaryType(clone)
}
