//go:build gerrgen

// c06 — builds a pool of gerror factories of the current tree (base type made with FactoryOf and
// bare, generated extension types ExtA / ExtB made with FactoryOf), runs a generated history of
// the 19 Factory methods over it and records: the identity of every result, errors.Is for every
// ordered pair over all values (gerror values, foreign errors, nil; recover() around each call)
// and ExtractFactoryReference of every gerror value.
//
//	c06 -seed N -out PREFIX -mode corpus|random|replay [-n COUNT] [-in FILE]
package main

import (
	"encoding/json"
	"errors"
	"flag"
	"fmt"
	"math/rand/v2"
	"os"
	"strconv"
	"strings"
	"time"
	"unicode/utf16"

	"github.com/drshriveer/gtools/gerror"

	"gtverif/internal/gal"
)

var methodNames = []string{"Base", "SourceOnly", "Stack", "Src", "DTag", "Msg", "SrcDTagMsg", "SrcDTag", "SrcMsg",
	"DTagMsg", "SrcS", "DTagS", "MsgS", "SrcDTagMsgS", "SrcDTagS", "SrcMsgS", "DTagMsgS", "Convert", "ConvertS"}

// ---------------------------------------------------------------- case description (JSON)

type rootDesc struct {
	Kind  string `json:"kind"` // base | exta | extb
	Name  string `json:"name"`
	Msg   string `json:"msg"`
	Src   string `json:"src"`
	IsFac bool   `json:"isfac"`
}

type foreignDesc struct {
	Kind  string `json:"kind"`  // new | wrap | ptr | nilptr | slice | map | val | wrapg | nilderef | panicerr | holder | ispanic | istrue | selfwrap | unwrappanic
	Text  string `json:"text"`  // message / contents
	Inner int    `json:"inner"` // wrap: index of the wrapped foreign error (must precede)
	Cell  int    `json:"cell"`  // wrapg: the gerror value (cell) wrapped with %w
	// foreign errors are built when first used by a Convert, the others after the history has
	// run, so a wrapper may wrap a derived error
}

type ref struct {
	K string `json:"k"` // nil | cell | emb | foreign
	I int    `json:"i"`
}

type opDesc struct {
	Recv ref    `json:"recv"`
	M    string `json:"m"` // one of the 19 methods, or "FactoryOf" (gerror.FactoryOf applied to Recv)
	Src  string `json:"src"`
	DTag string `json:"dtag"`
	Fmt  string `json:"fmt"`
	Err  ref    `json:"err"`
	// recorded:
	Orig     string `json:"orig,omitempty"`
	Res      int    `json:"res"`
	Panicked string `json:"panicked,omitempty"` // the call did not return: recovered panic value
}

type caseJ struct {
	Kind    string        `json:"kind"`
	Roots   []rootDesc    `json:"roots"`
	Foreign []foreignDesc `json:"foreign"`
	Ops     []opDesc      `json:"ops"`
	NCells  int           `json:"ncells"`
	Embs    []int         `json:"embs"`            // cells whose embedded *GError also takes part in the Is matrix
	Is      [][]int       `json:"is"`              // over cells, embs, foreign, nil
	Extract []int         `json:"extract"`         // -1 nil, 4999 unknown pointer
	ExtrF   []int         `json:"extract_foreign"` // ExtractFactoryReference of every foreign value: 0 nil, 1 non-nil, 2 panic
	Note    string        `json:"note,omitempty"`
}

// ---------------------------------------------------------------- foreign errors

type ptrErr struct{ msg string }

func (e *ptrErr) Error() string {
	if e == nil {
		return "nil ptrErr"
	}
	return e.msg
}

type sliceErr []string

func (e sliceErr) Error() string { return strings.Join(e, "|") }

type mapErr map[string]int

func (e mapErr) Error() string { return fmt.Sprint(len(e)) }

type valErr struct{ code string }

func (e valErr) Error() string { return "val " + e.code }

// Error values whose own methods misbehave.  gerror (through fmt, which recovers) must cope with
// them as Convert arguments and as errors.Is targets.

// derefErr: a pointer error whose Error() dereferences the receiver; used as a typed-nil pointer
// (`var p *derefErr; return p`): a non-nil interface value whose Error() panics.
type derefErr struct{ msg string }

func (e *derefErr) Error() string { return e.msg }

// panicErr: Error() always panics (non-nil receiver).
type panicErr struct{ code string }

func (e panicErr) Error() string { panic("panicErr.Error: " + e.code) }

// holderErr: holds a nil error interface; Error() calls through it (nil-interface method call
// panics), Unwrap returns the nil it holds.
type holderErr struct {
	tag   string
	inner error
}

func (e holderErr) Error() string { return e.tag + ": " + e.inner.Error() }
func (e holderErr) Unwrap() error { return e.inner }

// The following are only used as Convert arguments and errors.Is TARGETS; as a source errors.Is
// itself calls their methods (stdlib behaviour, nothing gerror can influence).
type isPanicErr struct{ code string }

func (e *isPanicErr) Error() string { return "isPanic " + e.code }
func (e *isPanicErr) Is(error) bool { panic("isPanicErr.Is") }

type isTrueErr struct{ code string }

func (e *isTrueErr) Error() string { return "isTrue " + e.code }
func (e *isTrueErr) Is(error) bool { return true }

type selfWrapErr struct{ code string }

func (e *selfWrapErr) Error() string { return "selfWrap " + e.code }
func (e *selfWrapErr) Unwrap() error { return e } // a cycle

type unwrapPanicErr struct{ code string }

func (e *unwrapPanicErr) Error() string { return "unwrapPanic " + e.code }
func (e *unwrapPanicErr) Unwrap() error { panic("unwrapPanicErr.Unwrap") }

// deepErr: a COMPARABLE struct type with an interface-typed field.  Holding a slice there the
// value is not comparable: reflect.TypeOf(e).Comparable() is true, e == e panics.
type deepErr struct{ v any }

func (e deepErr) Error() string { return fmt.Sprint("deep ", e.v) }

// deepArr: the same with an array type.
type deepArr [1]any

func (e deepArr) Error() string { return fmt.Sprint("deepArr ", e[0]) }

// nilWrap: a VALUE type that embeds *gerror.GError; its zero value implements gerror.Error by
// promotion although there is no record behind it (not a nil pointer itself).
type nilWrap struct{ *gerror.GError }

// hostileSource: errors.Is(e, x) with such an e runs e's own Is/Unwrap (panics, loops forever or
// answers arbitrarily): these rows of the matrix are not evaluated (code 7).
func hostileSource(kind string) bool {
	switch kind {
	case "ispanic", "istrue", "selfwrap", "unwrappanic", "nilext":
		return true
	}
	return false
}

// typedNilGerror: nil pointers of gerror types.  They implement gerror.Error, so Convert returns
// them unchanged; the generators do not pass them to Convert (in the model they are foreign
// values: comparable, without methods).
func typedNilGerror(kind string) bool {
	return kind == "nilgerr" || kind == "nilext" || kind == "nilwrap"
}

type embedder interface{ Emb() *gerror.GError }

// ---------------------------------------------------------------- running a case

type cell struct {
	e   gerror.Error
	emb *gerror.GError
}

func embOf(e gerror.Error) *gerror.GError {
	if g, ok := e.(*gerror.GError); ok {
		return g
	}
	if x, ok := e.(embedder); ok {
		return x.Emb()
	}
	return nil
}

type world struct {
	cells   []cell
	descs   []foreignDesc
	foreign []error
	fgal    []string // Gallina value of each foreign error
	made    []bool
}

// ensure builds foreign error k (and what it wraps) if that has not happened yet.
func (w *world) ensure(k int) {
	if w.made[k] {
		return
	}
	d := w.descs[k]
	if d.Kind == "wrap" {
		w.ensure(d.Inner)
	}
	w.made[k] = true
	w.mkForeign(k, d)
}

func (w *world) mkRoot(d rootDesc) {
	g := gerror.GError{Name: d.Name, Message: d.Msg, Source: d.Src}
	var f gerror.Factory
	switch d.Kind {
	case "exta":
		x := &ExtA{GError: g, Code: 7, Detail: "d", Tags: []string{"t"}, hidden: "h"}
		if d.IsFac {
			f = gerror.FactoryOf(x)
		} else {
			f = x
		}
	case "extb":
		x := &ExtB{GError: g, Status: 3}
		if d.IsFac {
			f = gerror.FactoryOf(x)
		} else {
			f = x
		}
	default:
		x := &g
		if d.IsFac {
			f = gerror.FactoryOf(x)
		} else {
			f = x
		}
	}
	e := f.(gerror.Error)
	w.cells = append(w.cells, cell{e, embOf(e)})
}

func (w *world) mkForeign(k int, d foreignDesc) {
	var e error
	var g string
	id := strconv.Itoa(100 + k) // identity of a freshly allocated value
	switch d.Kind {
	case "new":
		e, g = errors.New(d.Text), "VF 1 true "+id+" VNil"
	case "wrap":
		e = fmt.Errorf("wrapped: %w", w.foreign[d.Inner])
		g = "VF 2 true " + id + " (" + w.fgal[d.Inner] + ")"
	case "ptr":
		e, g = &ptrErr{d.Text}, "VF 3 true "+id+" VNil"
	case "wrapg":
		c := w.cells[d.Cell]
		e = fmt.Errorf("context: %w", c.e)
		if _, isBase := c.e.(*gerror.GError); isBase {
			g = "VF 2 true " + id + " (VG " + strconv.Itoa(d.Cell) + ")"
		} else {
			g = "VF 2 true " + id + " (VX " + strconv.Itoa(d.Cell) + ")"
		}
	case "nilptr":
		e, g = (*ptrErr)(nil), "VF 3 true 0 VNil"
	case "deepstruct": // equal contents share the payload; the value is not comparable
		e, g = deepErr{[]string{d.Text}}, "VF 200 false "+contentID(d.Text)+" VNil"
	case "deeparr":
		e, g = deepArr{[]string{d.Text}}, "VF 201 false "+contentID(d.Text)+" VNil"
	case "deepok": // the same struct type holding a comparable value
		e, g = deepErr{d.Text}, "VF 200 true "+contentID(d.Text)+" VNil"
	case "nilgerr": // a typed-nil *GError: implements gerror.Error, none of its fields exists
		e, g = (*gerror.GError)(nil), "VF 50 true 0 VNil"
	case "nilwrap": // struct{ *GError }{}: a gerror.Error by promotion, no record behind it
		e, g = nilWrap{}, "VF 51 true 0 VNil"
	case "nilext": // a typed-nil pointer to a generated extension type (only as target: the
		// promoted-method wrappers the compiler generates dereference it before gerror runs)
		e, g = (*ExtA)(nil), "VF 104 true 0 VNil"
	case "nilderef":
		e, g = (*derefErr)(nil), "VF 7 true 0 VNil"
	case "panicerr":
		e, g = panicErr{d.Text}, "VF 8 true "+contentID(d.Text)+" VNil"
	case "holder":
		e, g = holderErr{tag: d.Text}, "VF 9 true "+contentID(d.Text)+" VNil"
	case "ispanic":
		e, g = &isPanicErr{d.Text}, "VF 100 true "+id+" VNil"
	case "istrue":
		e, g = &isTrueErr{d.Text}, "VF 101 true "+id+" VNil"
	case "selfwrap":
		e, g = &selfWrapErr{d.Text}, "VF 102 true "+id+" VNil"
	case "unwrappanic":
		e, g = &unwrapPanicErr{d.Text}, "VF 103 true "+id+" VNil"
	case "slice":
		e, g = sliceErr{d.Text, "x"}, "VF 4 false "+contentID(d.Text)+" VNil"
	case "map":
		e, g = mapErr{d.Text: 1}, "VF 5 false "+contentID(d.Text)+" VNil"
	default: // val: comparable struct value, equal contents are ==
		e, g = valErr{d.Text}, "VF 6 true "+contentID(d.Text)+" VNil"
	}
	w.foreign[k] = e
	w.fgal[k] = g
}

// contentID maps contents to a payload number (equal contents, equal number).
func contentID(s string) string {
	h := uint64(1469598103934665603)
	for _, b := range []byte(s) {
		h = (h ^ uint64(b)) * 1099511628211
	}
	return strconv.FormatUint(1000+h%1000000, 10)
}

func (w *world) errOf(r ref) error {
	switch r.K {
	case "cell":
		return w.cells[r.I].e
	case "emb":
		return w.cells[r.I].emb
	case "foreign":
		w.ensure(r.I)
		return w.foreign[r.I]
	}
	return nil
}

func (w *world) factoryOf(r ref) gerror.Factory {
	if r.K == "emb" {
		return w.cells[r.I].emb
	}
	return w.cells[r.I].e.(gerror.Factory)
}

// factoryOfValue applies gerror.FactoryOf to an existing value (a "sub-factory" when the value is
// a derived error) and returns the same value.
func factoryOfValue(e gerror.Error) gerror.Error {
	switch x := e.(type) {
	case *gerror.GError:
		return gerror.FactoryOf(x).(gerror.Error)
	case *ExtA:
		return gerror.FactoryOf(x).(gerror.Error)
	case *ExtB:
		return gerror.FactoryOf(x).(gerror.Error)
	}
	panic("FactoryOf: unknown type")
}

func apply(f gerror.Factory, m string, o *opDesc, err error) gerror.Error {
	switch m {
	case "Base":
		return f.Base()
	case "SourceOnly":
		return f.SourceOnly()
	case "Stack":
		return f.Stack()
	case "Src":
		return f.Src(o.Src)
	case "DTag":
		return f.DTag(o.DTag)
	case "Msg":
		return f.Msg("%s", o.Fmt)
	case "SrcDTagMsg":
		return f.SrcDTagMsg(o.Src, o.DTag, "%s", o.Fmt)
	case "SrcDTag":
		return f.SrcDTag(o.Src, o.DTag)
	case "SrcMsg":
		return f.SrcMsg(o.Src, "%s", o.Fmt)
	case "DTagMsg":
		return f.DTagMsg(o.DTag, "%s", o.Fmt)
	case "SrcS":
		return f.SrcS(o.Src)
	case "DTagS":
		return f.DTagS(o.DTag)
	case "MsgS":
		return f.MsgS("%s", o.Fmt)
	case "SrcDTagMsgS":
		return f.SrcDTagMsgS(o.Src, o.DTag, "%s", o.Fmt)
	case "SrcDTagS":
		return f.SrcDTagS(o.Src, o.DTag)
	case "SrcMsgS":
		return f.SrcMsgS(o.Src, "%s", o.Fmt)
	case "DTagMsgS":
		return f.DTagMsgS(o.DTag, "%s", o.Fmt)
	case "Convert":
		return f.Convert(err)
	case "ConvertS":
		return f.ConvertS(err)
	}
	panic("unknown method " + m)
}

const (
	opTimeout = 1500 * time.Millisecond
	maxHangs  = 3
)

var hangs int

// guarded runs f with recover() and a time limit (f runs in its own goroutine; one that does not
// return is left behind).  Returns the recovered panic value, and whether f did not return.
func guarded(f func()) (panicVal any, hung bool) {
	done := make(chan any, 1)
	go func() {
		defer func() { done <- recover() }()
		f()
	}()
	t := time.NewTimer(opTimeout)
	defer t.Stop()
	select {
	case pv := <-done:
		return pv, false
	case <-t.C:
		hangs++
		return nil, true
	}
}

// isCode: 0 false, 1 true, 2 panic.
func isCode(a, b error) (code int) {
	defer func() {
		if r := recover(); r != nil {
			code = 2
		}
	}()
	if errors.Is(a, b) {
		return 1
	}
	return 0
}

// isRow: errors.Is(a, b) for every b, under one watchdog; entries not reached because a call did
// not return are 3.
func isRow(a error, vals []error) []int {
	row := make([]int, len(vals))
	for j := range row {
		row[j] = 3
	}
	_, hung := guarded(func() {
		for j, b := range vals {
			row[j] = isCode(a, b)
		}
	})
	if hung {
		return append([]int(nil), row...)
	}
	return row
}

func run(kind string, roots []rootDesc, foreign []foreignDesc, ops []opDesc) (caseJ, *world) {
	w := &world{}
	for _, d := range roots {
		w.mkRoot(d)
	}
	w.descs = foreign
	w.foreign = make([]error, len(foreign))
	w.fgal = make([]string, len(foreign))
	w.made = make([]bool, len(foreign))
	c := caseJ{Kind: kind, Roots: roots, Foreign: foreign, Ops: ops, Embs: []int{}}
	for i, d := range roots {
		if d.Kind != "base" && d.IsFac {
			c.Embs = append(c.Embs, i)
		}
	}
	for k := range ops {
		o := &ops[k]
		o.Res = -1
		// the generator predicts which operations allocate; when the implementation allocates
		// differently a later operation may name a value that does not exist: it is skipped and
		// shows up as an unexpected result
		if (o.Recv.K == "cell" || o.Recv.K == "emb") && o.Recv.I >= len(w.cells) ||
			(o.Err.K == "cell" || o.Err.K == "emb") && o.Err.I >= len(w.cells) {
			c.Note += fmt.Sprintf("op %d names a value that does not exist; ", k)
			continue
		}
		if o.Err.K == "foreign" && w.descs[o.Err.I].Kind == "wrapg" && w.descs[o.Err.I].Cell >= len(w.cells) {
			c.Note += fmt.Sprintf("op %d wraps a value that does not exist; ", k)
			continue
		}
		err := w.errOf(o.Err)
		o.Orig = fmt.Sprintf("originalError: %+v", err)
		var res gerror.Error
		if hangs >= maxHangs && o.Err.K == "foreign" && w.descs[o.Err.I].Kind == "selfwrap" {
			// several calls with such an argument did not return in this process already; every
			// one of them leaves a spinning goroutine behind, so this one is not started
			o.Panicked = "hang (not started: earlier calls with a self-unwrapping argument did not return)"
			c.Note += fmt.Sprintf("op %d not started; ", k)
			continue
		}
		pv, hung := guarded(func() {
			var r gerror.Error
			if o.M == "FactoryOf" {
				r = factoryOfValue(w.cells[o.Recv.I].e)
			} else {
				r = apply(w.factoryOf(o.Recv), o.M, o, err)
			}
			res = r
		})
		if hung {
			res = nil
			o.Panicked = "hang: the call did not return within " + opTimeout.String()
			c.Note += fmt.Sprintf("op %d did not return; ", k)
		} else if pv != nil {
			c.Note += fmt.Sprintf("op %d panicked: %v; ", k, pv)
			o.Panicked = fmt.Sprint(pv)
		}
		if res == nil {
			continue
		}
		for i := range w.cells {
			// the value itself, or (Convert of an embedded pointer) the embedded record of a cell
			if w.cells[i].e == res || gerror.Error(w.cells[i].emb) == res {
				o.Res = i
			}
		}
		if o.Res < 0 {
			w.cells = append(w.cells, cell{res, embOf(res)})
			o.Res = len(w.cells) - 1
		}
	}
	c.NCells = len(w.cells)
	for k := range foreign { // those no Convert has used
		if foreign[k].Kind == "wrapg" && foreign[k].Cell >= len(w.cells) {
			foreign[k].Cell = 0 // keeps the case well formed; the divergence is reported through the results
			w.descs = foreign
		}
		w.ensure(k)
	}
	vals := make([]error, 0, len(w.cells)+len(c.Embs)+len(w.foreign)+1)
	for _, cl := range w.cells {
		vals = append(vals, cl.e)
	}
	for _, i := range c.Embs {
		vals = append(vals, w.cells[i].emb)
	}
	vals = append(vals, w.foreign...)
	vals = append(vals, nil)
	nfirst := len(w.cells) + len(c.Embs)
	c.Is = make([][]int, len(vals))
	for i, a := range vals {
		if i >= nfirst && i < nfirst+len(foreign) && hostileSource(foreign[i-nfirst].Kind) {
			c.Is[i] = make([]int, len(vals))
			for j := range vals {
				c.Is[i][j] = 7 // not evaluated: errors.Is would run the source's own Is / Unwrap
			}
			continue
		}
		c.Is[i] = isRow(a, vals)
	}
	c.Extract = make([]int, len(w.cells))
	for i, cl := range w.cells {
		func() {
			defer func() {
				if r := recover(); r != nil {
					c.Extract[i] = 4997
				}
			}()
			f := gerror.ExtractFactoryReference(cl.e)
			if f == nil {
				c.Extract[i] = -1
				return
			}
			c.Extract[i] = 4999
			for k := range w.cells {
				if f == gerror.Factory(w.cells[k].emb) {
					c.Extract[i] = k
				}
			}
		}()
	}
	c.ExtrF = make([]int, len(w.foreign))
	for i, fe := range w.foreign {
		fe := fe
		var f gerror.Factory
		pv, hung := guarded(func() { f = gerror.ExtractFactoryReference(fe) })
		switch {
		case hung:
			c.ExtrF[i] = 3
		case pv != nil:
			c.ExtrF[i] = 2
		case f != nil:
			c.ExtrF[i] = 1
		}
	}
	return c, w
}

// ---------------------------------------------------------------- Gallina rendering

func gstr(s string) string {
	rs := []rune(s)
	if len(rs) == 0 {
		return "[]"
	}
	out := make([]string, len(rs))
	for i, r := range rs {
		out[i] = strconv.Itoa(int(r))
	}
	return "[" + strings.Join(out, ";") + "]%N"
}

func gref(r ref) string {
	switch r.K {
	case "cell":
		return "(RC " + strconv.Itoa(r.I) + ")"
	case "emb":
		return "(RE " + strconv.Itoa(r.I) + ")"
	case "foreign":
		return "(RF " + strconv.Itoa(r.I) + ")"
	}
	return "RNil"
}

func gallina(c caseJ, w *world) string {
	roots := gal.ListOf(c.Roots, func(d rootDesc) string {
		x := "None"
		switch d.Kind {
		case "exta":
			x = "(Some (mkX 1 []))"
		case "extb":
			x = "(Some (mkX 2 []))"
		}
		return "mkRoot " + gstr(d.Name) + " " + gstr(d.Msg) + " " + gstr(d.Src) + " " + gal.Bool(d.IsFac) + " " + x
	})
	ops := gal.ListOf(c.Ops, func(o opDesc) string {
		if o.M == "FactoryOf" {
			return "HFac " + strconv.Itoa(o.Recv.I)
		}
		return "HOp (mkOp " + gref(o.Recv) + " M" + o.M + " " + gstr(o.Src) + " " + gstr(o.DTag) + " " + gstr(o.Fmt) + " " +
			gstr(o.Orig) + " 0 [120]%N " + gref(o.Err) + ")"
	})
	res := gal.ListOf(c.Ops, func(o opDesc) string {
		if o.Res < 0 {
			return "4996"
		}
		return strconv.Itoa(o.Res)
	})
	is := gal.ListOf(c.Is, func(row []int) string { return gal.ListOf(row, strconv.Itoa) })
	ex := gal.ListOf(c.Extract, func(k int) string {
		if k < 0 {
			return "None"
		}
		return "(Some " + strconv.Itoa(k) + ")"
	})
	fs := make([]string, len(w.fgal))
	for i, g := range w.fgal {
		fs[i] = "(" + g + ")"
	}
	return "{| q_roots := " + roots + "; q_foreign := " + gal.List(fs) + "; q_ops := " + ops + "; q_embs := " + gal.ListOf(c.Embs, strconv.Itoa) +
		"; q_res := " + res + "; q_is := " + is + "; q_extract := " + ex + "; q_extract_f := " + gal.ListOf(c.ExtrF, strconv.Itoa) + " |}"
}

func asciiJSON(v any) json.RawMessage {
	b, err := json.Marshal(v)
	if err != nil {
		panic(err)
	}
	var sb strings.Builder
	for _, r := range string(b) {
		switch {
		case r < 0x80:
			sb.WriteRune(r)
		case r >= 0x10000:
			r1, r2 := utf16.EncodeRune(r)
			fmt.Fprintf(&sb, "\\u%04x\\u%04x", r1, r2)
		default:
			fmt.Fprintf(&sb, "\\u%04x", r)
		}
	}
	return json.RawMessage(sb.String())
}

func emit(out *gal.Out, kind string, roots []rootDesc, foreign []foreignDesc, ops []opDesc) {
	c, w := run(kind, roots, foreign, ops)
	out.Case(gallina(c, w), asciiJSON(c))
}

// ---------------------------------------------------------------- generators

func pick[T any](r *rand.Rand, xs []T) T { return xs[r.IntN(len(xs))] }

var words = []string{"", "a", "b", "x y", " pad ", "%d", "é世", "tag", "svc:fn", "\t"}

func randRoots(r *rand.Rand) []rootDesc {
	var roots []rootDesc
	add := func(kind string, isfac bool) {
		name := "Err" + strconv.Itoa(len(roots))
		if r.IntN(3) == 0 { // factories of different services that chose the same name (identity is the value, not the Name)
			name = pick(r, []string{"ErrNotFound", "ErrInternal", ""})
		}
		roots = append(roots, rootDesc{Kind: kind, Name: name, Msg: pick(r, words),
			Src: pick(r, []string{"", "", "preset"}), IsFac: isfac})
	}
	for i, n := 0, 1+r.IntN(3); i < n; i++ {
		add("base", true)
	}
	for i, n := 0, 1+r.IntN(2); i < n; i++ {
		add("base", false)
	}
	for i, n := 0, 1+r.IntN(2); i < n; i++ {
		add(pick(r, []string{"exta", "extb"}), true)
	}
	if r.IntN(2) == 0 {
		add(pick(r, []string{"exta", "extb"}), true)
	}
	r.Shuffle(len(roots), func(i, j int) { roots[i], roots[j] = roots[j], roots[i] })
	return roots
}

func randForeign(r *rand.Rand) []foreignDesc {
	fs := []foreignDesc{{Kind: "new", Text: "one"}, {Kind: "new", Text: "one"}}
	kinds := []string{"new", "wrap", "ptr", "nilptr", "slice", "slice", "map", "val", "val", "wrap",
		"nilderef", "nilderef", "panicerr", "holder", "ispanic", "istrue", "selfwrap", "unwrappanic",
		"deepstruct", "deepstruct", "deeparr", "deepok", "nilgerr", "nilext", "nilwrap"}
	for i, n := 0, 2+r.IntN(7); i < n; i++ {
		k := pick(r, kinds)
		d := foreignDesc{Kind: k, Text: pick(r, []string{"p", "q"})}
		if k == "wrap" {
			d.Inner = r.IntN(len(fs))
			for hostileSource(fs[d.Inner].Kind) || typedNilGerror(fs[d.Inner].Kind) { // a wrapper of such an error would inherit its behaviour as a source
				d.Inner = r.IntN(len(fs))
			}
		}
		fs = append(fs, d)
	}
	return fs
}

func randOps(r *rand.Rand, roots []rootDesc, fs []foreignDesc, n int) ([]opDesc, int) {
	nforeign := len(fs)
	kindOf := func(k int) string { return fs[k].Kind }
	type info struct {
		depth int
		ext   bool
	}
	cells := make([]info, len(roots))
	for i, d := range roots {
		cells[i] = info{0, d.Kind != "base"}
	}
	var ops []opDesc
	spine := -1 // the value a run of Convert steps is currently growing from
	for len(ops) < n {
		ri := r.IntN(len(cells))
		deep := false
		if spine >= 0 && cells[spine].depth < 6 && r.IntN(3) > 0 {
			ri, deep = spine, true // keep converting the same value: siblings that share a long prefix
		}
		if cells[ri].depth >= 6 {
			continue
		}
		if r.IntN(10) == 0 { // turn an existing value (often a derived one) into a factory
			ops = append(ops, opDesc{Recv: ref{"cell", ri}, M: "FactoryOf", Err: ref{"nil", 0}})
			continue
		}
		recv := ref{"cell", ri}
		viaEmb := cells[ri].ext && r.IntN(8) == 0
		if viaEmb {
			recv = ref{"emb", ri}
		}
		m := methodNames[r.IntN(len(methodNames))]
		if r.IntN(3) == 0 || deep {
			m = pick(r, []string{"Convert", "ConvertS"})
		}
		o := opDesc{Recv: recv, M: m, Src: pick(r, words), DTag: pick(r, words), Fmt: pick(r, words), Err: ref{"nil", 0}}
		alloc := true
		if m == "Convert" || m == "ConvertS" {
			switch x := r.IntN(10); {
			case x < 7 || deep:
				o.Err = ref{"foreign", r.IntN(nforeign)}
				for typedNilGerror(kindOf(o.Err.I)) {
					o.Err = ref{"foreign", r.IntN(nforeign)}
				}
			case x < 9:
				ci := r.IntN(len(cells))
				o.Err = ref{"cell", ci}
				if cells[ci].ext && r.IntN(3) == 0 {
					o.Err = ref{"emb", ci}
				}
				alloc = false
			}
		}
		ops = append(ops, o)
		if alloc {
			cells = append(cells, info{cells[ri].depth + 1, cells[ri].ext && !viaEmb})
			if (m == "Convert" || m == "ConvertS") && o.Err.K == "foreign" && r.IntN(2) == 0 {
				spine = len(cells) - 1 // mostly move on to the result, sometimes branch again from the same value
			}
		}
	}
	return ops, len(cells)
}

func op(recv int, m string) opDesc {
	return opDesc{Recv: ref{"cell", recv}, M: m, Fmt: "x", Err: ref{"nil", 0}}
}
func conv(recv int, m string, f int) opDesc {
	return opDesc{Recv: ref{"cell", recv}, M: m, Err: ref{"foreign", f}}
}

func corpus(out *gal.Out) {
	base := []rootDesc{{Kind: "base", Name: "F", Msg: "m", IsFac: true}, {Kind: "base", Name: "B"},
		{Kind: "exta", Name: "X", IsFac: true}, {Kind: "extb", Name: "Y", IsFac: true}}
	fs := []foreignDesc{{Kind: "new", Text: "one"}, {Kind: "slice", Text: "a"}, {Kind: "map", Text: "a"},
		{Kind: "wrap", Text: "w", Inner: 0}, {Kind: "val", Text: "v"}, {Kind: "val", Text: "v"}, {Kind: "nilptr"},
		{Kind: "slice", Text: "a"}, {Kind: "new", Text: "two"}}
	// DESIGN §5 witness: Convert of a slice-typed error, then errors.Is(result, the same error)
	emit(out, "corpus", base[:1], fs[:2], []opDesc{conv(0, "Convert", 1)})
	emit(out, "corpus", base, fs, []opDesc{conv(0, "Convert", 1), conv(2, "ConvertS", 2), conv(3, "Convert", 7),
		conv(1, "Convert", 6)})
	// errors whose own methods misbehave, as Convert/ConvertS arguments on every kind of factory
	// and as errors.Is targets: a typed-nil pointer whose Error() dereferences, an Error() that
	// always panics, a nil-interface holder, Is/Unwrap methods that panic, answer true or cycle
	bad := []foreignDesc{{Kind: "nilderef"}, {Kind: "panicerr", Text: "p"}, {Kind: "holder", Text: "h"}, {Kind: "ispanic", Text: "i"},
		{Kind: "istrue", Text: "t"}, {Kind: "selfwrap", Text: "s"}, {Kind: "unwrappanic", Text: "u"}, {Kind: "wrap", Text: "w", Inner: 0},
		{Kind: "nilderef"}, {Kind: "new", Text: "one"}}
	emit(out, "corpus", base, bad, []opDesc{conv(0, "Convert", 0), conv(1, "ConvertS", 0), conv(2, "Convert", 0), conv(3, "ConvertS", 0),
		conv(0, "ConvertS", 1), conv(2, "Convert", 2), conv(4, "Convert", 8), conv(0, "Convert", 7)})
	emit(out, "corpus", base, bad, []opDesc{conv(0, "Convert", 3), conv(2, "ConvertS", 4), conv(3, "Convert", 5), conv(1, "ConvertS", 6),
		conv(4, "Convert", 4), conv(5, "ConvertS", 9), conv(0, "Convert", 1), conv(10, "Convert", 2)})
	// comparable TYPES whose values are not comparable (an interface field holding a slice), next to
	// a comparable value of the same type; typed-nil pointers of gerror types as source and target
	dp := []foreignDesc{{Kind: "deepstruct", Text: "a"}, {Kind: "deepstruct", Text: "a"}, {Kind: "deepstruct", Text: "b"},
		{Kind: "deeparr", Text: "a"}, {Kind: "deepok", Text: "a"}, {Kind: "deepok", Text: "a"}, {Kind: "nilgerr"}, {Kind: "nilext"},
		{Kind: "new", Text: "one"}}
	emit(out, "corpus", base, dp, []opDesc{conv(0, "Convert", 0), conv(2, "ConvertS", 2), conv(3, "Convert", 3), conv(1, "ConvertS", 4),
		conv(4, "Convert", 1), conv(5, "Convert", 8), conv(8, "ConvertS", 3), op(0, "Msg")})
	emit(out, "corpus", base[:1], dp[:1], []opDesc{conv(0, "Convert", 0)})
	emit(out, "corpus", base, dp[6:8], []opDesc{op(0, "Msg"), op(2, "Stack")})
	// every method after k >= 2 Converts keeps all k converted errors: from each kind of factory a
	// run of three Converts (Convert / ConvertS alternating, three different comparable errors and,
	// in the second variant, a slice-typed one in between), then EVERY one of the 19 methods applied
	// to the result of the second and of the third Convert; the matrix then asks errors.Is of every
	// such derivation against every converted error
	ce := []foreignDesc{{Kind: "new", Text: "c0"}, {Kind: "val", Text: "c1"}, {Kind: "ptr", Text: "c2"}, {Kind: "slice", Text: "s"},
		{Kind: "new", Text: "c4"}}
	for ki, kind := range base {
		for variant := 0; variant < 2; variant++ {
			roots := []rootDesc{kind, {Kind: "base", Name: "Other", IsFac: true}}
			e1 := 1
			if variant == 1 {
				e1 = 3 // a non-comparable error in the middle: it never matches, the others still do
			}
			ops := []opDesc{conv(0, "Convert", 0), conv(2, "ConvertS", e1), conv(3, "Convert", 2)}
			for _, from := range []int{3, 4} {
				for _, m := range methodNames {
					o := opDesc{Recv: ref{"cell", from}, M: m, Src: "s", DTag: "t", Fmt: "f", Err: ref{"nil", 0}}
					if m == "Convert" || m == "ConvertS" {
						o.Err = ref{"foreign", 4}
					}
					ops = append(ops, o)
				}
			}
			_ = ki
			emit(out, "corpus", roots, ce, ops)
		}
	}
	// factories that are indistinguishable by their fields: equal Name, Message and Source across
	// FactoryOf base, bare base and two factories of each extension type; every one gets
	// derivations; errors.Is must still tell them apart (identity is the factory value)
	same := []rootDesc{{Kind: "base", Name: "ErrNotFound", Msg: "m", IsFac: true}, {Kind: "base", Name: "ErrNotFound", Msg: "m", IsFac: true},
		{Kind: "base", Name: "ErrNotFound", Msg: "m"}, {Kind: "exta", Name: "ErrNotFound", Msg: "m", IsFac: true},
		{Kind: "exta", Name: "ErrNotFound", Msg: "m", IsFac: true}, {Kind: "extb", Name: "ErrNotFound", Msg: "m", IsFac: true},
		{Kind: "extb", Name: "ErrNotFound", Msg: "m", IsFac: true}}
	var sameOps []opDesc
	for i := range same {
		sameOps = append(sameOps, op(i, "Msg"), op(i, "Stack"))
	}
	sameOps = append(sameOps, conv(0, "Convert", 0), conv(3, "Convert", 0), conv(5, "ConvertS", 0), op(8, "DTag"), op(14, "Base"))
	emit(out, "corpus", same, []foreignDesc{{Kind: "new", Text: "one"}, {Kind: "nilwrap"}, {Kind: "nilgerr"}}, sameOps)
	// the repository's TestExtendedError_Equality shape, on every kind of factory
	emit(out, "corpus", base, fs, []opDesc{op(0, "Stack"), op(0, "Stack"), op(1, "Stack"), op(2, "Stack"), op(2, "Stack"),
		op(3, "Msg"), conv(2, "Convert", 0), conv(3, "Convert", 3), conv(0, "Convert", 4)})
	// a second Convert on an already converted error
	emit(out, "corpus", base[:1], fs, []opDesc{conv(0, "Convert", 0), conv(1, "Convert", 8)})
	// Convert of values that already are gerror errors, also through the embedded pointer
	emit(out, "corpus", base, fs, []opDesc{op(2, "DTag"), {Recv: ref{"cell", 0}, M: "Convert", Err: ref{"cell", 4}},
		{Recv: ref{"cell", 1}, M: "ConvertS", Err: ref{"emb", 2}}, {Recv: ref{"emb", 2}, M: "Msg", Fmt: "via emb", Err: ref{"nil", 0}},
		{Recv: ref{"cell", 5}, M: "Stack", Err: ref{"nil", 0}}})
	emit(out, "corpus", base, fs, nil)
	// a sub-factory: FactoryOf applied to a derived error, further derivations from it, and the
	// parent's own derivations (all one family); the same on an extension type
	fac := func(cell int) opDesc { return opDesc{Recv: ref{"cell", cell}, M: "FactoryOf", Err: ref{"nil", 0}} }
	emit(out, "corpus", base, fs, []opDesc{op(0, "Msg"), fac(4), op(4, "Stack"), op(0, "DTag"), op(5, "Msg"), fac(5),
		op(2, "Msg"), fac(8), op(8, "Stack"), op(1, "Msg"), fac(10), fac(1), op(1, "Stack")})
	// an extension factory vs its embedded base (the matrix holds both forms), foreign errors
	// wrapping gerror values (root, derived, extension), non-comparable errors on both sides
	wr := append(append([]foreignDesc{}, fs...), foreignDesc{Kind: "wrapg", Cell: 0}, foreignDesc{Kind: "wrapg", Cell: 4},
		foreignDesc{Kind: "wrapg", Cell: 5}, foreignDesc{Kind: "wrapg", Cell: 2})
	emit(out, "corpus", base, wr, []opDesc{op(0, "Stack"), op(2, "Msg"), conv(3, "Convert", 1), conv(1, "ConvertS", 7),
		conv(6, "Convert", 2), {Recv: ref{"emb", 2}, M: "Convert", Err: ref{"foreign", 1}}})
	// Convert of a foreign error that wraps a gerror value: it is not itself a gerror error, so it
	// is converted (a new error that records the wrapper), not returned unwrapped
	emit(out, "corpus", base, wr, []opDesc{op(0, "Stack"), op(2, "Msg"), conv(1, "Convert", 9), conv(0, "ConvertS", 10),
		conv(3, "Convert", 11), conv(5, "Convert", 12), conv(6, "ConvertS", 10)})
}

func main() {
	seed := flag.Uint64("seed", 1, "PRNG seed")
	prefix := flag.String("out", "c06", "output prefix")
	mode := flag.String("mode", "random", "corpus|random|sweep|fan|replay")
	n := flag.Int("n", 100, "number of cases")
	in := flag.String("in", "", "replay: JSON file with a list of {roots, foreign, ops}")
	flag.Parse()
	r := gal.NewRand(*seed)
	out := gal.NewOut(*prefix)
	defer out.Close()
	switch *mode {
	case "corpus":
		corpus(out)
	case "sweep":
		// every ordered pair of the 19 methods as a two-step chain from each kind of factory
		// (n of: FactoryOf base, bare base, generated ExtA, generated ExtB with hand-written Convert)
		kinds := []rootDesc{{Kind: "base", Name: "F", IsFac: true}, {Kind: "exta", Name: "X", IsFac: true},
			{Kind: "base", Name: "B"}, {Kind: "extb", Name: "Y", IsFac: true}}
		fs := []foreignDesc{{Kind: "new", Text: "one"}, {Kind: "slice", Text: "a"}, {Kind: "nilderef"}}
		for ki := 0; ki < *n && ki < len(kinds); ki++ {
			roots := []rootDesc{kinds[ki], {Kind: "base", Name: "Other", IsFac: true}}
			for i, m1 := range methodNames {
				for j, m2 := range methodNames {
					o1 := opDesc{Recv: ref{"cell", 0}, M: m1, Src: "s", DTag: "t", Fmt: "f", Err: ref{"foreign", i % 3}}
					o2 := opDesc{Recv: ref{"cell", 2}, M: m2, Src: "s", DTag: "t", Fmt: "f", Err: ref{"foreign", (i + j + 1) % 3}}
					if m1 != "Convert" && m1 != "ConvertS" {
						o1.Err = ref{"nil", 0}
					}
					if m2 != "Convert" && m2 != "ConvertS" {
						o2.Err = ref{"nil", 0}
					}
					emit(out, "sweep", roots, fs, []opDesc{o1, o2})
				}
			}
		}
	case "fan":
		// trees, not chains: a prefix of k Convert steps (k = 0..7) on one value, then SEVERAL
		// successors derived from the same intermediate value, each converting a different error,
		// then successors of those; every value is probed after all steps (the matrix)
		fs := []foreignDesc{}
		for i := 0; i < 14; i++ {
			fs = append(fs, foreignDesc{Kind: "new", Text: "e" + strconv.Itoa(i)})
		}
		fs = append(fs, foreignDesc{Kind: "slice", Text: "s"}, foreignDesc{Kind: "val", Text: "v"})
		kinds := []rootDesc{{Kind: "base", Name: "F", IsFac: true}, {Kind: "exta", Name: "X", IsFac: true},
			{Kind: "base", Name: "B"}, {Kind: "extb", Name: "Y", IsFac: true}}
		for ki := 0; ki < *n && ki < len(kinds); ki++ {
			for k := 0; k <= 7; k++ {
				roots := []rootDesc{kinds[ki], {Kind: "base", Name: "Other", IsFac: true}}
				var ops []opDesc
				cur, next := 0, 2
				for i := 0; i < k; i++ { // the shared prefix
					ops = append(ops, conv(cur, pick(r, []string{"Convert", "ConvertS"}), i))
					cur, next = next, next+1
					if i == k/2 { // an unrelated derivation in between
						ops = append(ops, op(cur, "DTag"))
						next++
					}
				}
				a, b, c := next, next+1, next+2
				ops = append(ops, conv(cur, "Convert", 8), conv(cur, "ConvertS", 9), conv(cur, "Convert", 14),
					op(cur, "Msg"), conv(a, "Convert", 10), conv(a, "ConvertS", 11), conv(b, "Convert", 12), conv(c, "Convert", 15),
					conv(cur, "Convert", 13))
				emit(out, "fan", roots, fs, ops)
			}
		}
	case "replay":
		b, err := os.ReadFile(*in)
		if err != nil {
			panic(err)
		}
		var cs []caseJ
		if err := json.Unmarshal(b, &cs); err != nil {
			panic(err)
		}
		for _, c := range cs {
			emit(out, "replay", c.Roots, c.Foreign, c.Ops)
		}
	default:
		for i := 0; i < *n; i++ {
			roots := randRoots(r)
			fs := randForeign(r)
			for k, nw := 0, r.IntN(3); k < nw; k++ { // wrappers of pool factories: may be converted
				fs = append(fs, foreignDesc{Kind: "wrapg", Cell: r.IntN(len(roots))})
			}
			ops, ncells := randOps(r, roots, fs, 4+r.IntN(14))
			for k, nw := 0, r.IntN(3); k < nw; k++ { // foreign errors wrapping a gerror value
				fs = append(fs, foreignDesc{Kind: "wrapg", Cell: r.IntN(ncells)})
			}
			emit(out, "random", roots, fs, ops)
		}
	}
}
