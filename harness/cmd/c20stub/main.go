// c20stub — the recording stand-in for protoc used by the C20 check.  It appends one JSON
// line {"cwd": …, "argv": […]} to the file named by $C20_STUB_OUT and exits 0.
package main

import (
	"encoding/json"
	"os"
)

func main() {
	out := os.Getenv("C20_STUB_OUT")
	if out == "" {
		os.Exit(3)
	}
	cwd, _ := os.Getwd()
	args := os.Args[1:]
	if args == nil {
		args = []string{}
	}
	b, _ := json.Marshal(map[string]any{"cwd": cwd, "argv": args})
	f, err := os.OpenFile(out, os.O_APPEND|os.O_CREATE|os.O_WRONLY, 0o644)
	if err != nil {
		os.Exit(4)
	}
	f.Write(append(b, '\n'))
	f.Close()
}
