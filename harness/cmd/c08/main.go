// c08 — generator farm for property C08 (gsort: generated Less is the lexicographic strict
// weak order).
//
// It writes struct definitions with gsort tags (each its own package of one scratch module),
// runs the real gsort CLI (built from the scratch copy of the current tree) on each of them the
// way go:generate does, compiles all packages once together with a generated driver, runs the
// result and records per sorter: the outcome of Less(i,j) on every pair of element values over
// all slices of <= 4 elements (exhaustive when the value space permits), and the element ids
// after sort.Sort / sort.Stable on random slices.  Nothing is judged here: the cases are judged
// inside Coq (GSortJudge.v) against the model and the lexicographic specification.
//
//	c08 -seed N -out PREFIX -gsort BIN -work DIR -mode corpus|random|nearmiss|defs
//	    [-n COUNT] [-defs FILE] [-limit SLICES] [-runs K] [-maxlen L]
package main

import (
	"bytes"
	"context"
	"encoding/json"
	"flag"
	"fmt"
	"math"
	"math/rand/v2"
	"os"
	"os/exec"
	"path/filepath"
	"sort"
	"strconv"
	"strings"
	"sync"
	"time"

	"gtverif/internal/gal"
)

// ---------------------------------------------------------------- definitions

// Tag is one `gsort:"..."` struct tag, already split the way sfdFromLine splits it.
type Tag struct {
	Sorter string `json:"sorter"` // as written, with a leading * for the pointer form
	Prio   int    `json:"prio"`
	Acc    string `json:"acc"`            // "" or "String()"
	Bare   bool   `json:"bare,omitempty"` // written as `gsort:"Sorter"` (priority defaults to 0)
	Raw    string `json:"raw,omitempty"`  // option text as written when it is not the canonical rendering (e.g. "S,+07")
}

// Field is one struct field with the values the farm uses for it.
type Field struct {
	Name   string   `json:"name"`
	GoType string   `json:"gotype"`
	Kind   string   `json:"kind"`             // string|int|uint|float|bool|named|plain(untagged)
	Values []string `json:"values,omitempty"` // Go expressions of type GoType
	Ranks  []int64  `json:"ranks,omitempty"`  // order-preserving rank of each value read plainly (`s[i].F`); bool: 0/1
	// order-preserving rank of each value read through the String() accessor (named kinds); which
	// of the two a key reads is decided per TAG: one field may be a plain key of one sorter and a
	// String() key of another
	AccRanks []int64 `json:"acc_ranks,omitempty"`
	Tags   []Tag    `json:"tags,omitempty"`
	// further struct-tag pairs of the field: malformed gsort options (not part of the intended
	// definition; generation must fail) and an unrelated json key placed before gsort tag #JSONAt
	BadTags []string `json:"bad_tags,omitempty"`
	// pairs written before the gsort tags under a key that merely ends in "gsort" (key, value)
	PreTags [][2]string `json:"pre_tags,omitempty"`
	JSONTag string   `json:"json_tag,omitempty"`
	JSONAt  int      `json:"json_at,omitempty"`
	// named kind: underlying type, the literals of its values in ascending order of the
	// underlying type, the String() result of each literal, and per entry of Values the index of
	// its literal
	Under   string   `json:"under,omitempty"`
	Lits    []string `json:"lits,omitempty"`
	Strings []string `json:"strings,omitempty"`
	Ords    []int    `json:"ords,omitempty"`
}

// namedLits: the values a named type of the given underlying type takes in the farm, ascending.
func namedLits(under string) []string {
	switch under {
	case "bool":
		return []string{"false", "true"}
	case "string":
		return []string{`"k"`, `"m"`, `"z"`}
	case "float64", "float32":
		return []string{"-1.5", "0.25", "2.5"}
	}
	return []string{"0", "1", "2"}
}

// normalize completes a named field (also one read from an older corpus / replay file, which
// had integer underlying types only and kept the accessor ranks in Ranks): literals, the literal
// index of every value, ranks of both views.
func normalize(f *Field) {
	if f.Kind != "named" {
		return
	}
	if len(f.Lits) == 0 {
		f.Lits = namedLits(f.Under)
	}
	if len(f.Ords) != len(f.Values) {
		f.Ords = make([]int, len(f.Values))
		for i, e := range f.Values {
			inner := strings.TrimSuffix(e[strings.Index(e, "(")+1:], ")")
			for j, l := range f.Lits {
				if l == inner {
					f.Ords[i] = j
				}
			}
		}
	}
	f.Ranks = make([]int64, len(f.Ords))
	for i, o := range f.Ords {
		f.Ranks[i] = int64(o)
	}
	f.AccRanks = ranksOf(len(f.Ords), func(i, j int) bool { return f.Strings[f.Ords[i]] < f.Strings[f.Ords[j]] })
}

// mustAcc: a named bool has no `<`; it is a key only through its String() accessor.
func mustAcc(f *Field) bool { return f.Kind == "named" && f.Under == "bool" }

// Def is one struct definition = one package of the farm.
type Def struct {
	Malformed bool    `json:"malformed,omitempty"` // some gsort tag is not well-formed
	Kind      string  `json:"kind"`
	Pkg       string  `json:"pkg"`
	Type      string  `json:"type"`
	Fields    []Field `json:"fields"`
}

func (d *Def) sorters() []string {
	seen := map[string]bool{}
	var out []string
	for _, f := range d.Fields {
		for _, t := range f.Tags {
			if !seen[t.Sorter] {
				seen[t.Sorter] = true
				out = append(out, t.Sorter)
			}
		}
	}
	return out
}

func (d *Def) tagged() []int {
	var out []int
	for i, f := range d.Fields {
		if len(f.Tags) > 0 {
			out = append(out, i)
		}
	}
	return out
}

// ---------------------------------------------------------------- value pools

type pool struct {
	exprs []string
	less  func(i, j int) bool
}

func ranksOf(n int, less func(i, j int) bool) []int64 {
	idx := make([]int, n)
	for i := range idx {
		idx[i] = i
	}
	sort.SliceStable(idx, func(a, b int) bool { return less(idx[a], idx[b]) })
	ranks := make([]int64, n)
	r := int64(0)
	for k, i := range idx {
		if k > 0 && less(idx[k-1], i) {
			r++
		}
		ranks[i] = r
	}
	return ranks
}

func shuffledStrs(r *rand.Rand, xs []string) []string {
	out := append([]string{}, xs...)
	r.Shuffle(len(out), func(i, j int) { out[i], out[j] = out[j], out[i] })
	return out
}

func pick(r *rand.Rand, n, k int) []int {
	p := r.Perm(n)[:k]
	// keep the pool's own order half of the time, shuffled otherwise (ranks are independent
	// of the position of a value in the list)
	if r.IntN(2) == 0 {
		sort.Ints(p)
	}
	return p
}

var intTypes = []struct {
	name     string
	min, max int64
}{{"int", math.MinInt64, math.MaxInt64}, {"int8", -128, 127}, {"int16", -32768, 32767},
	{"int32", math.MinInt32, math.MaxInt32}, {"int64", math.MinInt64, math.MaxInt64}}

var uintTypes = []struct {
	name string
	max  uint64
}{{"uint", math.MaxUint64}, {"uint8", 255}, {"uint16", 65535}, {"uint32", math.MaxUint32},
	{"uint64", math.MaxUint64}, {"uintptr", math.MaxUint64}}

var stringPool = []string{"", "a", "B", "ab", "a b", "b", "é", "Z9", "a\x00", "aa"}

// fillValues draws 2-3 values for a tagged field and computes their ranks with Go's own
// comparison on the native values (independent of anything gsort generates).
func fillValues(r *rand.Rand, f *Field, idx int) {
	k := 2 + r.IntN(2)
	if wide {
		// the universe (product of the fields' values) is judged pair by pair inside Coq: five
		// fields vary, the others are constant keys
		k = 2
		if idx%10 >= 5 {
			k = 1
		}
	}
	switch f.Kind {
	case "string":
		p := pick(r, len(stringPool), k)
		vals := make([]string, k)
		for i, j := range p {
			vals[i] = stringPool[j]
			f.Values = append(f.Values, strconv.Quote(vals[i]))
		}
		f.Ranks = ranksOf(k, func(i, j int) bool { return vals[i] < vals[j] })
	case "int":
		t := intTypes[r.IntN(len(intTypes))]
		f.GoType = t.name
		cand := []int64{t.min, t.min + 1, -1, 0, 1, 7, t.max - 1, t.max}
		p := pick(r, len(cand), k)
		vals := make([]int64, k)
		for i, j := range p {
			vals[i] = cand[j]
			f.Values = append(f.Values, fmt.Sprintf("%s(%d)", t.name, vals[i]))
		}
		f.Ranks = ranksOf(k, func(i, j int) bool { return vals[i] < vals[j] })
	case "uint":
		t := uintTypes[r.IntN(len(uintTypes))]
		f.GoType = t.name
		cand := []uint64{0, 1, 2, 200, t.max/2 + 1, t.max - 1, t.max}
		p := pick(r, len(cand), k)
		vals := make([]uint64, k)
		for i, j := range p {
			vals[i] = cand[j]
			f.Values = append(f.Values, fmt.Sprintf("%s(%d)", t.name, vals[i]))
		}
		f.Ranks = ranksOf(k, func(i, j int) bool { return vals[i] < vals[j] })
	case "float":
		f.GoType = []string{"float32", "float64"}[r.IntN(2)]
		type fv struct {
			e string
			v float64
		}
		// every special value but NaN (excluded by the property): infinities, both zeros,
		// subnormals, the largest finite values
		cand := []fv{{"math.Inf(-1)", math.Inf(-1)}, {"-1.5", -1.5}, {"math.Copysign(0, -1)", math.Copysign(0, -1)},
			{"0", 0}, {"0.25", 0.25}, {"2.5", 2.5}, {"16777216", 16777216}, {"math.Inf(1)", math.Inf(1)}}
		if f.GoType == "float64" {
			cand = append(cand, fv{"1e300", 1e300}, fv{"-1e-300", -1e-300},
				fv{"math.SmallestNonzeroFloat64", math.SmallestNonzeroFloat64}, fv{"-math.SmallestNonzeroFloat64", -math.SmallestNonzeroFloat64},
				fv{"math.MaxFloat64", math.MaxFloat64}, fv{"-math.MaxFloat64", -math.MaxFloat64}, fv{"2.2250738585072014e-308", 2.2250738585072014e-308})
		} else {
			cand = append(cand, fv{"math.SmallestNonzeroFloat32", float64(float32(math.SmallestNonzeroFloat32))}, fv{"-math.SmallestNonzeroFloat32", -float64(float32(math.SmallestNonzeroFloat32))},
				fv{"math.MaxFloat32", float64(float32(math.MaxFloat32))}, fv{"-math.MaxFloat32", -float64(float32(math.MaxFloat32))})
		}
		p := pick(r, len(cand), k)
		vals := make([]float64, k)
		for i, j := range p {
			vals[i] = cand[j].v
			f.Values = append(f.Values, fmt.Sprintf("%s(%s)", f.GoType, cand[j].e))
		}
		f.Ranks = ranksOf(k, func(i, j int) bool { return vals[i] < vals[j] })
	case "bool":
		f.GoType = "bool"
		if k == 1 {
			f.Values, f.Ranks = []string{"true"}, []int64{1}
		} else if r.IntN(2) == 0 {
			f.Values, f.Ranks = []string{"false", "true"}, []int64{0, 1}
		} else {
			f.Values, f.Ranks = []string{"true", "false"}, []int64{1, 0}
		}
	case "named":
		// a named type (integer, string, float or bool underneath) with a String() method whose
		// string order differs from the order of the underlying values; tagged with the
		// String() accessor or plainly, tag by tag
		f.Under = []string{"int", "uint8", "int16", "int", "string", "float64", "bool"}[r.IntN(7)]
		f.GoType = fmt.Sprintf("N%d", idx)
		f.Lits = namedLits(f.Under)
		nl := len(f.Lits)
		tbl := pick(r, len(stringPool), nl)
		f.Strings = make([]string, nl)
		for i, j := range tbl {
			f.Strings[i] = stringPool[j]
		}
		if r.IntN(4) == 0 {
			f.Strings[nl-1] = f.Strings[0] // two values with the same String(): a tie under the accessor
		}
		if k > nl {
			k = nl
		}
		for _, j := range pick(r, nl, k) {
			f.Ords = append(f.Ords, j)
			f.Values = append(f.Values, fmt.Sprintf("%s(%s)", f.GoType, f.Lits[j]))
		}
		normalize(f)
	}
}

// ---------------------------------------------------------------- random definitions

// wide: the widened search after a broken tie / a model-only difference goes beyond the sizes and
// shapes of the regular streams: 6-9 tagged fields, 4-6 sorters per struct, long and non-ASCII
// identifiers (the caller also raises the slice lengths of the sort runs)
var wide bool

var wideNames = []string{"Größe", "Ünïcödé", "名前", "Ω", "ÉtatCivil", "AVeryLongFieldNameThatGoesOnAndOnAndOnAndOnAndOnAndOnAndOnAndOn", "Ñandú", "_under", "X_1", "Þorn"}

func randomDef(r *rand.Rand, n int, nearmiss bool) Def {
	d := Def{Kind: "random", Pkg: fmt.Sprintf("p%d", n), Type: fmt.Sprintf("T%d", n)}
	nf := 1 + r.IntN(5)
	if wide {
		nf = 6 + r.IntN(4)
	}
	kinds := []string{"string", "int", "uint", "float", "bool", "bool", "named"}
	// naming: plain (F0, f1, S3a ...) or, a third of the time, names that are prefixes / suffixes
	// of one another and end in digits (field names, sorter names) with priorities out of a pool
	// whose decimal forms are prefixes of one another too: whatever the generator derives from
	// name + name + number must not confuse them
	confusable := r.IntN(3) == 0
	fieldPool := shuffledStrs(r, []string{"A", "AB", "B", "BA", "Grade", "Grade1", "Grade12", "G", "G1", "a", "ab", "b1"})
	sorterPool := shuffledStrs(r, []string{"By", "ByA", "ByAB", "ByG", "By1", "ByGrade", "Sr", "SrA"})
	for i := 0; i < nf; i++ {
		f := Field{Kind: kinds[r.IntN(len(kinds))]}
		switch {
		case wide && r.IntN(2) == 0:
			f.Name = wideNames[i%len(wideNames)] + fmt.Sprint(i)
		case confusable:
			f.Name = fieldPool[i]
		case r.IntN(4) == 0:
			f.Name = fmt.Sprintf("f%d", i) // unexported fields are fine too
		default:
			f.Name = fmt.Sprintf("F%d", i)
		}
		f.GoType = f.Kind
		fillValues(r, &f, n*10+i)
		d.Fields = append(d.Fields, f)
	}
	// sorters: 1-3 per struct, value or pointer form, each over a non-empty subset of the
	// fields with random distinct priorities; every field is used by at least one sorter
	ns := 1 + r.IntN(3)
	if wide {
		ns = 4 + r.IntN(3)
	}
	names := make([]string, ns)
	for s := range names {
		names[s] = fmt.Sprintf("S%d%c", n, 'a'+s)
		if confusable {
			names[s] = sorterPool[s]
		}
		if wide && r.IntN(2) == 0 {
			names[s] = "By" + wideNames[(s+3)%len(wideNames)] + fmt.Sprint(n)
		}
		if r.IntN(2) == 0 {
			names[s] = "*" + names[s]
		}
	}
	member := make([][]int, ns)
	for i := 0; i < nf; i++ {
		s := r.IntN(ns)
		member[s] = append(member[s], i)
		for t := 0; t < ns; t++ {
			if t != s && r.IntN(2) == 0 {
				member[t] = append(member[t], i)
			}
		}
	}
	for s := 0; s < ns; s++ {
		if len(member[s]) == 0 {
			member[s] = []int{r.IntN(nf)}
		}
	}
	// accessor use is per TAG: a named field may be read through String() by one sorter and
	// plainly by another (any order of the two tags on the field)
	useAcc := func(i int) bool {
		f := &d.Fields[i]
		return f.Kind == "named" && (mustAcc(f) || r.IntN(3) > 0)
	}
	for s := 0; s < ns; s++ {
		// distinct priorities drawn from a range with gaps, negatives and zero
		// ... or out of the whole range of int (the property: ANY assignment of distinct
		// priorities): type extremes, values more than 2^63 apart
		prios := r.Perm(13)[:len(member[s])]
		pool := []int{}
		switch {
		case confusable:
			pool = []int{1, 2, 11, 12, 21, 112, 121, 0, -1, -12, -2, -21, 10}
		case r.IntN(3) == 0:
			pool = []int{math.MinInt64, math.MinInt64 + 1, -(1 << 62), -2, -1, 0, 1, 2, 1 << 62, math.MaxInt64 - 1, math.MaxInt64, 1 << 31, -(1 << 31)}
		}
		if len(pool) > 0 {
			for k, j := range r.Perm(len(pool))[:len(member[s])] {
				prios[k] = pool[j] + 3
			}
		}
		for k, i := range member[s] {
			t := Tag{Sorter: names[s], Prio: prios[k] - 3}
			if useAcc(i) {
				t.Acc = "String()"
			}
			if t.Prio == 0 && t.Acc == "" && r.IntN(2) == 0 {
				t.Bare = true
			}
			d.Fields[i].Tags = append(d.Fields[i].Tags, t)
		}
	}
	// the order of a field's tags is free
	for i := range d.Fields {
		tg := d.Fields[i].Tags
		r.Shuffle(len(tg), func(a, b int) { tg[a], tg[b] = tg[b], tg[a] })
	}
	if nearmiss {
		d.Kind = "nearmiss"
		switch r.IntN(8) {
		case 6:
			// outside the quantifier: another key of the struct tag ends in "gsort"; when it
			// carries the option text of one of the field's gsort tags the generator's textual
			// Replace hits it first and the rest of the tag is lost.  Model only.
			i := r.IntN(nf)
			key := []string{"xgsort", "notgsort", "my-gsort"}[r.IntN(3)]
			val := "Other,1"
			if r.IntN(3) > 0 {
				val = optionText(d.Fields[i].Tags[r.IntN(len(d.Fields[i].Tags))])
			}
			d.Fields[i].PreTags = [][2]string{{key, val}}
			d.Kind = "out-of-domain-foreign-gsort-key"
			d.Malformed = true
		case 7:
			// outside the quantifier: one sorter name in both forms, `S` and `*S` (two map keys
			// in the generator, one Go type name).  Model only.
			i, j := r.IntN(nf), r.IntN(nf)
			base := sorterGoName(d.Fields[i].Tags[0].Sorter)
			for k := range d.Fields {
				var keep []Tag
				for _, t := range d.Fields[k].Tags {
					if sorterGoName(t.Sorter) != base {
						keep = append(keep, t)
					}
				}
				d.Fields[k].Tags = keep
			}
			ta := Tag{Sorter: base, Prio: 1}
			tb := Tag{Sorter: "*" + base, Prio: 1}
			if useAcc(i) {
				ta.Acc = "String()"
			}
			if useAcc(j) {
				tb.Acc = "String()"
			}
			d.Fields[i].Tags = append(d.Fields[i].Tags, ta)
			d.Fields[j].Tags = append(d.Fields[j].Tags, tb)
			d.Kind = "out-of-domain-both-forms"
		case 3:
			// inside the quantifier: a priority written the way strconv.Atoi also accepts it
			// (explicit plus sign, leading zeros)
			i := r.IntN(nf)
			t := &d.Fields[i].Tags[r.IntN(len(d.Fields[i].Tags))]
			num := strconv.Itoa(t.Prio)
			switch {
			case t.Prio < 0:
				num = "-00" + num[1:]
			case r.IntN(2) == 0:
				num = "+" + num
			default:
				num = "0" + num
			}
			t.Bare = false
			t.Raw = t.Sorter + "," + num
			if t.Acc != "" {
				t.Raw += "," + t.Acc
			}
			d.Kind = "nearmiss-odd-int"
		case 4, 5:
			// outside the quantifier: a malformed tag; generation must fail; model only
			i := r.IntN(nf)
			name := d.Fields[i].Tags[0].Sorter
			bad := []string{name + ",1,String(),x", name + ",one", name + ",", name + ",-", name + ",1 ", name + ", 2",
				name + ",1.5", name + ",0x10", name + ",1_0", name + ",,String()"}
			d.Fields[i].BadTags = []string{bad[r.IntN(len(bad))]}
			d.Kind = "out-of-domain-bad-tag"
			d.Malformed = true
		case 0, 1:
			// inside the quantifier: the same field tagged twice for one sorter with two
			// different priorities (the second occurrence is a redundant key)
			i := r.IntN(nf)
			t := d.Fields[i].Tags[0]
			t.Bare = false
			t.Prio = 20 + r.IntN(3)
			d.Fields[i].Tags = append(d.Fields[i].Tags, t)
			d.Kind = "nearmiss-twice"
		default:
			// outside the quantifier (priorities not distinct): generation must fail;
			// compared with the model only, never gates
			i := r.IntN(nf)
			t := d.Fields[i].Tags[0]
			j := r.IntN(nf)
			t2 := t
			t2.Bare = false
			if useAcc(j) {
				t2.Acc = "String()"
			} else {
				t2.Acc = ""
			}
			if j == i {
				d.Fields[i].Tags = append(d.Fields[i].Tags, t2)
			} else {
				d.Fields[j].Tags = append(d.Fields[j].Tags, t2)
			}
			d.Kind = "out-of-domain-dup-priority"
		}
	}
	// an unrelated key in the struct tag of some fields, before, between or after the gsort keys
	for i := range d.Fields {
		if len(d.Fields[i].Tags) > 0 && len(d.Fields[i].PreTags) == 0 && r.IntN(3) == 0 {
			d.Fields[i].JSONTag = strings.ToLower(d.Fields[i].Name) + ",omitempty"
			d.Fields[i].JSONAt = r.IntN(len(d.Fields[i].Tags) + 1)
		}
	}
	// an untagged field in between, sometimes
	if r.IntN(2) == 0 {
		at := r.IntN(len(d.Fields) + 1)
		// (of a type that may make the struct non-comparable: the generated code must not need ==
		// on elements)
		u := Field{Name: "Unsorted", GoType: []string{"string", "[]string", "map[string]int", "func()", "string"}[r.IntN(5)], Kind: "plain"}
		d.Fields = append(d.Fields[:at], append([]Field{u}, d.Fields[at:]...)...)
	}
	return d
}

func corpusDefs() []Def {
	b := func(name string, tags ...Tag) Field {
		return Field{Name: name, GoType: "bool", Kind: "bool", Values: []string{"false", "true"}, Ranks: []int64{0, 1}, Tags: tags}
	}
	s := func(name string, tags ...Tag) Field {
		return Field{Name: name, GoType: "string", Kind: "string", Values: []string{`"a"`, `"b"`}, Ranks: []int64{0, 1}, Tags: tags}
	}
	n := func(name string, tags ...Tag) Field {
		return Field{Name: name, GoType: "int", Kind: "int", Values: []string{"int(-1)", "int(0)", "int(5)"}, Ranks: []int64{0, 1, 2}, Tags: tags}
	}
	cat := Field{Name: "Category", GoType: "Category", Kind: "named", Under: "int", Strings: []string{"Unset", "ACategory", "BCategory"},
		Values: []string{"Category(0)", "Category(1)", "Category(2)"},
		Tags: []Tag{{Sorter: "Sortables", Prio: 1, Acc: "String()"}}}
	// a named type whose String() order is the reverse of / unrelated to the order of its values
	nm := func(name, typ, under string, strs []string, tags ...Tag) Field {
		f := Field{Name: name, GoType: typ, Kind: "named", Under: under, Strings: strs, Tags: tags}
		for _, l := range namedLits(under) {
			f.Values = append(f.Values, typ+"("+l+")")
		}
		return f
	}
	acc := "String()"
	return []Def{
		// DESIGN §5 witness: a bool as the last (here: only) key
		{Kind: "corpus", Pkg: "c0", Type: "OnlyFlag", Fields: []Field{b("Flag", Tag{Sorter: "ByFlag", Prio: 1})}},
		// a bool as the last key after a string, value and pointer form
		{Kind: "corpus", Pkg: "c1", Type: "NameFlag", Fields: []Field{
			s("Name", Tag{Sorter: "ByNameFlag", Prio: 1}, Tag{Sorter: "*PByNameFlag", Prio: 1}),
			b("Flag", Tag{Sorter: "ByNameFlag", Prio: 2}, Tag{Sorter: "*PByNameFlag", Prio: 2})}},
		// a bool that is not last (correct on the pinned code as well)
		{Kind: "corpus", Pkg: "c2", Type: "FlagName", Fields: []Field{
			b("Flag", Tag{Sorter: "ByFlagName", Prio: 1}), s("Name", Tag{Sorter: "ByFlagName", Prio: 2})}},
		// the repository's own fixture shape (gsort/internal/sortable.go)
		{Kind: "corpus", Pkg: "c3", Type: "Sortable", Fields: []Field{cat,
			s("Property1", Tag{Sorter: "Sortables", Prio: 2}),
			n("Property2", Tag{Sorter: "Sortables", Prio: 3}, Tag{Sorter: "*SortOnPriority2", Prio: 1}),
			n("property3", Tag{Sorter: "Sortables", Prio: 4}),
			{Name: "UnsortedProp", GoType: "string", Kind: "plain"}}},
		// several gsort tags on one field, each read the way ITS tag says.  One field is a
		// String() key of one sorter and a plain key of another; accessor in the earlier tag
		{Kind: "corpus", Pkg: "c4", Type: "AccThenPlain", Fields: []Field{
			nm("Cat", "Cat4", "int", []string{"zebra", "mango", "apple"},
				Tag{Sorter: "ByCatName", Prio: 1, Acc: acc}, Tag{Sorter: "ByCat", Prio: 1}),
			s("Name", Tag{Sorter: "ByCatName", Prio: 2}, Tag{Sorter: "ByCat", Prio: 2})}},
		// ... accessor in the later tag
		{Kind: "corpus", Pkg: "c5", Type: "PlainThenAcc", Fields: []Field{
			nm("Cat", "Cat5", "int", []string{"zebra", "mango", "apple"},
				Tag{Sorter: "*ByCat", Prio: 1}, Tag{Sorter: "*ByCatName", Prio: 1, Acc: acc}),
			s("Name", Tag{Sorter: "*ByCatName", Prio: 2}, Tag{Sorter: "*ByCat", Prio: 2})}},
		// ... three tags: accessor, plain, accessor; priorities all different per tag
		{Kind: "corpus", Pkg: "c6", Type: "AccPlainAcc", Fields: []Field{
			nm("Cat", "Cat6", "uint8", []string{"b", "a", "b"},
				Tag{Sorter: "A", Prio: 7, Acc: acc}, Tag{Sorter: "B", Prio: -2}, Tag{Sorter: "*C", Prio: 3, Acc: acc}),
			n("Num", Tag{Sorter: "A", Prio: 1}, Tag{Sorter: "B", Prio: 4}, Tag{Sorter: "*C", Prio: 5})}},
		// a tag that leaves the priority out (= 0) after one of the same field that spells one
		// out, and the other way round: the key order of each sorter follows its own tags
		{Kind: "corpus", Pkg: "c7", Type: "PrioThenBare", Fields: []Field{
			n("Num", Tag{Sorter: "A", Prio: 5}, Tag{Sorter: "B", Bare: true}),
			s("Name", Tag{Sorter: "B", Prio: 3}, Tag{Sorter: "A", Prio: 1}),
			b("Flag", Tag{Sorter: "*C", Bare: true}, Tag{Sorter: "A", Prio: 9}, Tag{Sorter: "B", Prio: -1})}},
		// priorities at the ends of int and more than 2^63 apart (any assignment of distinct
		// priorities); the order of the keys is the order of the priorities as integers
		{Kind: "corpus", Pkg: "c9", Type: "FarApart", Fields: []Field{
			n("Num", Tag{Sorter: "ByFar", Prio: math.MaxInt64}, Tag{Sorter: "*ByEnds", Prio: math.MinInt64}, Tag{Sorter: "ByMid", Prio: 1 << 62}),
			s("Name", Tag{Sorter: "ByFar", Prio: -2}, Tag{Sorter: "*ByEnds", Prio: math.MaxInt64}, Tag{Sorter: "ByMid", Prio: -(1 << 62)}),
			b("Flag", Tag{Sorter: "ByFar", Prio: 0}, Tag{Sorter: "*ByEnds", Prio: 1}, Tag{Sorter: "ByMid", Prio: math.MinInt64 + 1})}},
		// names and numbers that run into one another when written side by side: field Grade1 with
		// priority 2 / field Grade with priority 12; sorter By on field AB / sorter ByA on field B;
		// sorter By1 with priority 2 / sorter By with priority 12 ... every tag is a key of its sorter
		{Kind: "corpus", Pkg: "c10", Type: "SideBySide", Fields: []Field{
			n("Grade1", Tag{Sorter: "By", Prio: 2}, Tag{Sorter: "ByA", Prio: 12}),
			s("Grade", Tag{Sorter: "By", Prio: 12}, Tag{Sorter: "*By1", Prio: 2}),
			s("AB", Tag{Sorter: "By", Prio: 1}, Tag{Sorter: "*By1", Prio: 21}),
			n("B", Tag{Sorter: "ByA", Prio: 1}, Tag{Sorter: "By", Prio: 21}),
			b("A", Tag{Sorter: "ByA", Prio: 2}, Tag{Sorter: "By", Prio: -1}, Tag{Sorter: "*By1", Prio: 1})}},
		// an element struct that is not comparable (slice, map and func fields, untagged): Less
		// must not compare elements with ==; value and pointer forms, an accessor key among them
		{Kind: "corpus", Pkg: "c11", Type: "NotComparable", Fields: []Field{
			nm("Cat", "Cat11", "int", []string{"zebra", "mango", "apple"}, Tag{Sorter: "ByCatName", Prio: 1, Acc: acc}, Tag{Sorter: "*PByCat", Prio: 1}),
			{Name: "Labels", GoType: "[]string", Kind: "plain"},
			s("Name", Tag{Sorter: "ByCatName", Prio: 2}, Tag{Sorter: "*PByCat", Prio: 2}),
			{Name: "Index", GoType: "map[string]int", Kind: "plain"},
			{Name: "Hook", GoType: "func()", Kind: "plain"}}},
		// named types over every kind of underlying type read through String(): bool (which has
		// no `<` of its own), string, float; the latter two also plainly by another sorter
		{Kind: "corpus", Pkg: "c8", Type: "NamedKinds", Fields: []Field{
			nm("State", "State8", "bool", []string{"on", "off"}, Tag{Sorter: "ByState", Prio: 1, Acc: acc}, Tag{Sorter: "*All", Prio: 3, Acc: acc}),
			nm("Label", "Label8", "string", []string{"3", "1", "2"}, Tag{Sorter: "ByState", Prio: 2, Acc: acc}, Tag{Sorter: "*All", Prio: 1}),
			nm("Score", "Score8", "float64", []string{"low", "mid", "high"}, Tag{Sorter: "*All", Prio: 2, Acc: acc}, Tag{Sorter: "ByScore", Prio: 0})}},
	}
}

// ---------------------------------------------------------------- source rendering

// optionText is what is written between the quotes of a gsort tag.
func optionText(t Tag) string {
	if t.Raw != "" {
		return t.Raw
	}
	s := t.Sorter
	if !t.Bare {
		s += "," + strconv.Itoa(t.Prio)
		if t.Acc != "" {
			s += "," + t.Acc
		}
	}
	return s
}

// pairs lists the key/value pairs of the field's struct tag in source order.
func pairs(f Field) [][2]string {
	var out [][2]string
	out = append(out, f.PreTags...)
	for i, t := range f.Tags {
		if f.JSONTag != "" && f.JSONAt == i {
			out = append(out, [2]string{"json", f.JSONTag})
		}
		out = append(out, [2]string{"gsort", optionText(t)})
	}
	for _, b := range f.BadTags {
		out = append(out, [2]string{"gsort", b})
	}
	if f.JSONTag != "" && f.JSONAt >= len(f.Tags) {
		out = append(out, [2]string{"json", f.JSONTag})
	}
	return out
}

func defSource(d *Def) string {
	var b strings.Builder
	fmt.Fprintf(&b, "package %s\n\n", d.Pkg)
	for _, f := range d.Fields {
		if f.Kind == "named" {
			fmt.Fprintf(&b, "// %s has a String accessor.\ntype %s %s\n\n", f.GoType, f.GoType, f.Under)
			fmt.Fprintf(&b, "func (v %s) String() string {\n\tswitch v {\n", f.GoType)
			for i, s := range f.Strings {
				fmt.Fprintf(&b, "\tcase %s:\n\t\treturn %s\n", f.Lits[i], strconv.Quote(s))
			}
			fmt.Fprintf(&b, "\t}\n\treturn \"?\"\n}\n\n")
		}
	}
	fmt.Fprintf(&b, "// %s is a farm definition.\ntype %s struct {\n", d.Type, d.Type)
	for _, f := range d.Fields {
		fmt.Fprintf(&b, "\t%s %s", f.Name, f.GoType)
		if ps := pairs(f); len(ps) > 0 {
			parts := make([]string, len(ps))
			for i, p := range ps {
				parts[i] = p[0] + `:"` + p[1] + `"`
			}
			fmt.Fprintf(&b, " `%s`", strings.Join(parts, " "))
		}
		b.WriteString("\n")
	}
	b.WriteString("\tvid int\n}\n")
	return b.String()
}

func sorterGoName(s string) string { return strings.TrimPrefix(s, "*") }

func drvSource(d *Def, absent map[string]bool) string {
	var b strings.Builder
	fmt.Fprintf(&b, "package %s\n\nimport (\n\t\"math\"\n\t\"sort\"\n\n\t\"farm/rt\"\n)\n\nvar _ = math.Inf\n\n", d.Pkg)
	tg := d.tagged()
	for k, i := range tg {
		f := d.Fields[i]
		fmt.Fprintf(&b, "var vals%s%d = []%s{%s}\n", d.Type, k, f.GoType, strings.Join(f.Values, ", "))
	}
	radix := make([]string, len(tg))
	for k, i := range tg {
		radix[k] = strconv.Itoa(len(d.Fields[i].Values))
	}
	b.WriteString("\nfunc init() {\n")
	for _, s := range d.sorters() {
		if absent[s] {
			continue
		}
		name := sorterGoName(s)
		ptr := strings.HasPrefix(s, "*")
		fmt.Fprintf(&b, "\trt.Register(&rt.Driver{Key: %q, Radix: []int{%s},\n", d.Pkg+"/"+d.Type+"/"+s, strings.Join(radix, ", "))
		if ptr {
			fmt.Fprintf(&b, "\t\tNew: func(n int) sort.Interface { s := make(%s, n); for i := range s { s[i] = new(%s) }; return s },\n", name, d.Type)
			fmt.Fprintf(&b, "\t\tSet: func(x sort.Interface, p int, v []int, id int) { e := x.(%s)[p]; ", name)
		} else {
			fmt.Fprintf(&b, "\t\tNew: func(n int) sort.Interface { return make(%s, n) },\n", name)
			fmt.Fprintf(&b, "\t\tSet: func(x sort.Interface, p int, v []int, id int) { e := &x.(%s)[p]; ", name)
		}
		for k, i := range tg {
			fmt.Fprintf(&b, "e.%s = vals%s%d[v[%d]]; ", d.Fields[i].Name, d.Type, k, k)
		}
		b.WriteString("e.vid = id },\n")
		fmt.Fprintf(&b, "\t\tID: func(x sort.Interface, p int) int { return x.(%s)[p].vid },\n\t})\n", name)
	}
	b.WriteString("}\n")
	return b.String()
}

const rtSource = `// Package rt is the farm's driver runtime: it exercises generated sort.Interface types.
package rt

import (
	"encoding/json"
	"math/big"
	"math/rand/v2"
	"os"
	"runtime"
	"sort"
	"sync"
	"time"
)

// Driver gives access to one generated slice type.
type Driver struct {
	Key   string
	Radix []int // number of values per tagged field, declaration order (field 0 least significant)
	New   func(n int) sort.Interface
	Set   func(s sort.Interface, p int, v []int, id int)
	ID    func(s sort.Interface, p int) int
}

var drivers []*Driver

// Register adds a driver (called from the packages' init functions).
func Register(d *Driver) { drivers = append(drivers, d) }

// Config of a run.
type Config struct {
	Seed   uint64
	Limit  int // max number of slices enumerated exhaustively per sorter
	Runs   int
	MaxLen int
	WatchdogSec int
}

// Run is one sort observation.
type Run struct {
	In     []int ` + "`json:\"in\"`" + `
	Sort   []int ` + "`json:\"sort\"`" + `
	Stable []int ` + "`json:\"stable\"`" + `
}

// Result of one driver.
type Result struct {
	Key        string   ` + "`json:\"key\"`" + `
	NV         int      ` + "`json:\"nv\"`" + `
	Exhaustive bool     ` + "`json:\"exhaustive\"`" + `
	Slices     int      ` + "`json:\"slices\"`" + `
	LessCalls  int      ` + "`json:\"less_calls\"`" + `
	SeenT      []string ` + "`json:\"seen_t\"`" + `
	SeenF      []string ` + "`json:\"seen_f\"`" + `
	Runs       []Run    ` + "`json:\"runs\"`" + `
	LenSwapBad string   ` + "`json:\"lenswap_bad,omitempty\"`" + ` // first Len/Swap observation that broke the sort.Interface contract
	LenSwaps   int      ` + "`json:\"lenswaps\"`" + `
	Panic      string   ` + "`json:\"panic,omitempty\"`" + `
}

// probeLenSwap: Len() is the number of elements; Swap(i, j) exchanges exactly elements i and j
// (ids tell the elements apart) — for every pair of positions of a slice of n elements.
func (d *Driver) probeLenSwap(res *Result, tup [][]int, n int, r *rand.Rand) {
	s := d.New(n)
	for p := 0; p < n; p++ {
		d.Set(s, p, tup[r.IntN(len(tup))], p)
	}
	if s.Len() != n && res.LenSwapBad == "" {
		res.LenSwapBad = "Len() of a slice of " + itoa(n) + " elements = " + itoa(s.Len())
	}
	want := make([]int, n)
	for p := range want {
		want[p] = p
	}
	for i := 0; i < n; i++ {
		for j := 0; j < n; j++ {
			s.Swap(i, j)
			want[i], want[j] = want[j], want[i]
			res.LenSwaps++
			for p := 0; p < n; p++ {
				if d.ID(s, p) != want[p] && res.LenSwapBad == "" {
					res.LenSwapBad = "Swap(" + itoa(i) + ", " + itoa(j) + ") on " + itoa(n) + " elements: position " + itoa(p) + " holds element " + itoa(d.ID(s, p)) + ", expected " + itoa(want[p])
				}
			}
		}
	}
}

func itoa(n int) string {
	b, _ := json.Marshal(n)
	return string(b)
}

func tuples(radix []int) [][]int {
	nv := 1
	for _, r := range radix {
		nv *= r
	}
	out := make([][]int, nv)
	for e := 0; e < nv; e++ {
		t := make([]int, len(radix))
		x := e
		for k, r := range radix {
			t[k] = x % r
			x /= r
		}
		out[e] = t
	}
	return out
}

func (d *Driver) run(cfg Config, seed uint64) (res Result) {
	res.Key = d.Key
	defer func() {
		if p := recover(); p != nil {
			res.Panic = "panic"
		}
	}()
	tup := tuples(d.Radix)
	nv := len(tup)
	res.NV = nv
	seenT := make([]*big.Int, nv)
	seenF := make([]*big.Int, nv)
	for i := range seenT {
		seenT[i], seenF[i] = new(big.Int), new(big.Int)
	}
	r := rand.New(rand.NewPCG(seed, 77))
	observe := func(s sort.Interface, e []int) {
		n := len(e)
		for i := 0; i < n; i++ {
			for j := 0; j < n; j++ {
				res.LessCalls++
				if s.Less(i, j) {
					seenT[e[i]].SetBit(seenT[e[i]], e[j], 1)
				} else {
					seenF[e[i]].SetBit(seenF[e[i]], e[j], 1)
				}
			}
		}
	}
	total := 0
	pw := 1
	for n := 1; n <= 4; n++ {
		pw *= nv
		total += pw
		if total > cfg.Limit {
			total = cfg.Limit + 1
			break
		}
	}
	res.Exhaustive = total <= cfg.Limit
	for n := 1; n <= 4; n++ {
		s := d.New(n)
		e := make([]int, n)
		for p := 0; p < n; p++ {
			d.Set(s, p, tup[0], p)
		}
		if res.Exhaustive || (n == 1) || (n == 2 && nv*nv <= cfg.Limit) {
			for {
				observe(s, e)
				res.Slices++
				p := 0
				for p < n {
					e[p]++
					if e[p] < nv {
						d.Set(s, p, tup[e[p]], p)
						break
					}
					e[p] = 0
					d.Set(s, p, tup[0], p)
					p++
				}
				if p == n {
					break
				}
			}
		} else {
			for k := 0; k < cfg.Limit/8; k++ {
				for p := 0; p < n; p++ {
					e[p] = r.IntN(nv)
					d.Set(s, p, tup[e[p]], p)
				}
				observe(s, e)
				res.Slices++
			}
		}
	}
	for _, n := range []int{0, 1, 2, 3, 5} {
		d.probeLenSwap(&res, tup, n, r)
	}
	for k := 0; k < cfg.Runs; k++ {
		n := k
		switch {
		case k == cfg.Runs-1:
			n = cfg.MaxLen
		case k >= 4 && k%2 == 0:
			n = 4 + r.IntN(min(cfg.MaxLen, 48)-3)
		case k >= 4:
			n = 4 + r.IntN(cfg.MaxLen-3)
		}
		in := make([]int, n)
		// half of the runs draw from a few values only, so that there are many ties
		sub := nv
		if r.IntN(2) == 0 && nv > 3 {
			sub = 2 + r.IntN(3)
		}
		base := r.Perm(nv)[:sub]
		for p := range in {
			in[p] = base[r.IntN(sub)]
		}
		run := Run{In: in, Sort: make([]int, n), Stable: make([]int, n)}
		a, b := d.New(n), d.New(n)
		for p := range in {
			d.Set(a, p, tup[in[p]], p)
			d.Set(b, p, tup[in[p]], p)
		}
		sort.Sort(a)
		sort.Stable(b)
		for p := range in {
			run.Sort[p] = d.ID(a, p)
			run.Stable[p] = d.ID(b, p)
		}
		res.Runs = append(res.Runs, run)
	}
	for i := range seenT {
		res.SeenT = append(res.SeenT, "0x"+seenT[i].Text(16))
		res.SeenF = append(res.SeenF, "0x"+seenF[i].Text(16))
	}
	return res
}

// Main runs every registered driver and writes one JSON line per driver to stdout.
func Main() {
	var cfg Config
	if err := json.Unmarshal([]byte(os.Args[1]), &cfg); err != nil {
		panic(err)
	}
	results := make([]Result, len(drivers))
	var wg sync.WaitGroup
	sem := make(chan struct{}, runtime.NumCPU())
	// every driver runs under a watchdog: a generated Less / Swap that does not return (or a sort
	// that does not terminate on it) is recorded as such for its sorter, the others go on
	limit := time.Duration(cfg.WatchdogSec) * time.Second
	if limit <= 0 {
		limit = 5 * time.Minute
	}
	for i, d := range drivers {
		wg.Add(1)
		go func(i int, d *Driver) {
			defer wg.Done()
			sem <- struct{}{}
			defer func() { <-sem }()
			done := make(chan Result, 1)
			go func() { done <- d.run(cfg, cfg.Seed*1000003+uint64(i)) }()
			select {
			case r := <-done:
				results[i] = r
			case <-time.After(limit):
				results[i] = Result{Key: d.Key, Panic: "timeout: Less / Swap / sort did not return within the watchdog limit"}
			}
		}(i, d)
	}
	wg.Wait()
	enc := json.NewEncoder(os.Stdout)
	for _, r := range results {
		if err := enc.Encode(r); err != nil {
			panic(err)
		}
	}
}
`

// ---------------------------------------------------------------- farm

type genResult struct {
	ok   bool
	log  string
	text map[string][]string // sorter (as written) -> trimmed lines of its block
	// sorters of the definition for which the output has no block (possible for malformed
	// definitions only: a tag the parser never saw); the driver leaves them out
	absent map[string]bool
}

type farmResult struct {
	Key        string   `json:"key"`
	NV         int      `json:"nv"`
	Exhaustive bool     `json:"exhaustive"`
	Slices     int      `json:"slices"`
	LessCalls  int      `json:"less_calls"`
	SeenT      []string `json:"seen_t"`
	SeenF      []string `json:"seen_f"`
	Runs       []struct {
		In     []int `json:"in"`
		Sort   []int `json:"sort"`
		Stable []int `json:"stable"`
	} `json:"runs"`
	LenSwapBad string `json:"lenswap_bad,omitempty"`
	LenSwaps   int    `json:"lenswaps"`
	Panic      string `json:"panic,omitempty"`
}

func must(err error) {
	if err != nil {
		panic(err)
	}
}

func writeFile(p, s string) {
	must(os.MkdirAll(filepath.Dir(p), 0o755))
	must(os.WriteFile(p, []byte(s), 0o644))
}

// runCmd runs a child under a watchdog (a generator or a generated program that does not return
// is killed and reported with exit code 124).
func runCmd(dir string, env []string, name string, args ...string) (int, string) {
	return runCmdT(dir, env, 20*time.Minute, name, args...)
}

func runCmdT(dir string, env []string, limit time.Duration, name string, args ...string) (int, string) {
	ctx, cancel := context.WithTimeout(context.Background(), limit)
	defer cancel()
	c := exec.CommandContext(ctx, name, args...)
	c.WaitDelay = 5 * time.Second
	c.Dir = dir
	c.Env = append(append([]string{}, os.Environ()...), env...)
	var buf bytes.Buffer
	c.Stdout, c.Stderr = &buf, &buf
	err := c.Run()
	if ctx.Err() == context.DeadlineExceeded {
		return 124, buf.String() + "\n(killed: did not finish within " + limit.String() + ")"
	}
	if err == nil {
		return 0, buf.String()
	}
	if ee, ok := err.(*exec.ExitError); ok {
		return ee.ExitCode(), buf.String()
	}
	return -1, buf.String() + err.Error()
}

func sorterBlocks(src string) map[string][]string {
	out := map[string][]string{}
	cur := ""
	for _, ln := range strings.Split(src, "\n") {
		t := strings.TrimSpace(ln)
		if t == "" {
			continue
		}
		if strings.HasPrefix(t, "// ") && strings.Contains(t, " implements a sort.Sort interface for ") {
			cur = strings.Fields(t)[1]
		}
		if cur != "" {
			out[cur] = append(out[cur], t)
		}
	}
	return out
}

// runFarm generates, builds and runs; returns per def the generation result and per sorter key
// the observations.
func runFarm(work, gsortBin string, defs []Def, cfg map[string]any) ([]genResult, map[string]farmResult, string) {
	must(os.RemoveAll(work))
	writeFile(filepath.Join(work, "go.mod"), "module farm\n\ngo 1.23.0\n")
	writeFile(filepath.Join(work, "rt", "rt.go"), rtSource)
	gens := make([]genResult, len(defs))
	var wg sync.WaitGroup
	sem := make(chan struct{}, 16)
	for i := range defs {
		wg.Add(1)
		go func(i int) {
			defer wg.Done()
			sem <- struct{}{}
			defer func() { <-sem }()
			d := &defs[i]
			dir := filepath.Join(work, d.Pkg)
			writeFile(filepath.Join(dir, "def.go"), defSource(d))
			// the way go:generate runs it: cwd = package dir, GOFILE = the file
			rc, log := runCmdT(dir, []string{"GOFILE=def.go", "PWD=" + dir, "GOPACKAGE=" + d.Pkg}, 3*time.Minute, gsortBin, "-types", d.Type)
			g := genResult{ok: rc == 0, log: log}
			if b, err := os.ReadFile(filepath.Join(dir, "def.gsort.go")); err == nil && rc == 0 {
				blocks := sorterBlocks(string(b))
				g.text = map[string][]string{}
				g.absent = map[string]bool{}
				for _, s := range d.sorters() {
					g.text[s] = blocks[sorterGoName(s)]
					if d.Malformed && len(g.text[s]) == 0 {
						g.absent[s] = true
					}
				}
			} else if rc == 0 {
				g.ok, g.log = false, log+"\n(no output file written)"
			}
			gens[i] = g
		}(i)
	}
	wg.Wait()
	// drivers + main for the packages that generated; drop packages that do not compile
	alive := map[int]bool{}
	for i := range defs {
		if gens[i].ok {
			alive[i] = true
			writeFile(filepath.Join(work, defs[i].Pkg, "drv.go"), drvSource(&defs[i], gens[i].absent))
		}
	}
	buildLog := ""
	bin := filepath.Join(work, "farmbin")
	for attempt := 0; attempt < 4; attempt++ {
		var b strings.Builder
		b.WriteString("package main\n\nimport (\n\t\"farm/rt\"\n")
		for i := range defs {
			if alive[i] {
				fmt.Fprintf(&b, "\t_ \"farm/%s\"\n", defs[i].Pkg)
			}
		}
		b.WriteString(")\n\nfunc main() { rt.Main() }\n")
		writeFile(filepath.Join(work, "main", "main.go"), b.String())
		rc, log := runCmd(work, nil, "go", "build", "-o", bin, "./main")
		if rc == 0 {
			break
		}
		buildLog += log
		dropped := false
		for i := range defs {
			if alive[i] && (strings.Contains(log, "# farm/"+defs[i].Pkg+"\n") || strings.Contains(log, defs[i].Pkg+"/def.gsort.go:")) {
				alive[i] = false
				gens[i].ok = false
				gens[i].log += "\nBUILD FAILURE:\n" + log
				dropped = true
			}
		}
		if !dropped {
			return gens, nil, "farm build failed:\n" + log
		}
	}
	cj, _ := json.Marshal(cfg)
	rc, out := runCmd(work, nil, bin, string(cj))
	if rc != 0 {
		return gens, nil, "farm run failed:\n" + out
	}
	res := map[string]farmResult{}
	dec := json.NewDecoder(strings.NewReader(out))
	for dec.More() {
		var fr farmResult
		if err := dec.Decode(&fr); err != nil {
			return gens, nil, "farm output unreadable: " + err.Error()
		}
		res[fr.Key] = fr
	}
	return gens, res, ""
}

// ---------------------------------------------------------------- cases

type jcase struct {
	Kind       string     `json:"kind"`
	Def        Def        `json:"def"`
	Sorter     string     `json:"sorter"`
	GenOK      bool       `json:"gen_ok"`
	GenLog     string     `json:"gen_log,omitempty"`
	Text       []string   `json:"text"`
	NV         int        `json:"nv"`
	Exhaustive bool       `json:"exhaustive"`
	Slices     int        `json:"slices"`
	LessCalls  int        `json:"less_calls"`
	Univ       [][]int    `json:"univ"` // per element: value index per tagged field
	SeenT      []string   `json:"seen_t"`
	SeenF      []string   `json:"seen_f"`
	Runs       [][3][]int `json:"runs"`
	LenSwapBad string     `json:"lenswap_bad,omitempty"`
	LenSwaps   int        `json:"lenswaps,omitempty"`
	Source     string     `json:"source"`
}

func galTag(t Tag) string {
	return "{| tg_sorter := " + gal.Str(t.Sorter) + "; tg_prio := " + gal.Z(int64(t.Prio)) + "; tg_acc := " + gal.Str(t.Acc) + " |}"
}

func galField(f Field) string {
	return "{| fd_name := " + gal.Str(f.Name) + "; fd_isbool := " + gal.Bool(f.GoType == "bool") +
		"; fd_tags := " + gal.ListOf(f.Tags, galTag) + " |}"
}

// galRaw: the field as the parser sees it (struct tag as key/value pairs in source order).
func galRaw(f Field) string {
	return "{| rf_name := " + gal.Str(f.Name) + "; rf_isbool := " + gal.Bool(f.GoType == "bool") +
		"; rf_tag := " + gal.ListOf(pairs(f), func(p [2]string) string { return gal.Pair(gal.Str(p[0]), gal.Str(p[1])) }) + " |}"
}

func tuplesOf(radix []int) [][]int {
	nv := 1
	for _, r := range radix {
		nv *= r
	}
	out := make([][]int, nv)
	for e := 0; e < nv; e++ {
		t := make([]int, len(radix))
		x := e
		for k, r := range radix {
			t[k] = x % r
			x /= r
		}
		out[e] = t
	}
	return out
}

// galVals: per struct field the list of values the farm uses, each as its two views: read
// plainly and read through the accessor (a dummy where a view is never read).
func galVals(d *Def) string {
	out := make([]string, len(d.Fields))
	for i, f := range d.Fields {
		switch {
		case len(f.Tags) == 0:
			out[i] = "[[VZ 0; VZ 0]]"
		case f.GoType == "bool":
			out[i] = gal.ListOf(f.Ranks, func(r int64) string { return "[VB " + gal.Bool(r == 1) + "; VZ 0]" })
		default:
			vs := make([]string, len(f.Ranks))
			for k, r := range f.Ranks {
				a := int64(0)
				if k < len(f.AccRanks) {
					a = f.AccRanks[k]
				}
				vs[k] = "[VZ " + gal.Z(r) + "; VZ " + gal.Z(a) + "]"
			}
			out[i] = gal.List(vs)
		}
	}
	return gal.List(out)
}

// pack renders a list of small numbers as a string literal, three hex digits per entry.
func pack(xs []int) string {
	var b strings.Builder
	b.WriteString("\"")
	for _, x := range xs {
		fmt.Fprintf(&b, "%03x", x)
	}
	return b.String() + "\"%string"
}

func emitCases(out *gal.Out, defs []Def, gens []genResult, res map[string]farmResult) {
	for i := range defs {
		d := &defs[i]
		tg := d.tagged()
		radix := make([]int, len(tg))
		for k, fi := range tg {
			radix[k] = len(d.Fields[fi].Values)
		}
		tups := tuplesOf(radix)
		for _, s := range d.sorters() {
			jc := jcase{Kind: d.Kind, Def: *d, Sorter: s, GenOK: gens[i].ok, Source: defSource(d)}
			var fr farmResult
			if gens[i].ok && gens[i].absent[s] {
				jc.GenOK = false
				jc.GenLog = "the generated file has no block for this sorter"
			} else if gens[i].ok {
				var ok bool
				fr, ok = res[d.Pkg+"/"+d.Type+"/"+s]
				if !ok || fr.Panic != "" {
					jc.GenOK = false
					jc.GenLog = "no observations for this sorter " + fr.Panic
				}
			} else {
				jc.GenLog = gens[i].log
				if len(jc.GenLog) > 1500 {
					jc.GenLog = jc.GenLog[:1500]
				}
			}
			if jc.GenOK {
				jc.Text = gens[i].text[s]
				jc.NV, jc.Exhaustive, jc.Slices, jc.LessCalls = fr.NV, fr.Exhaustive, fr.Slices, fr.LessCalls
				jc.Univ, jc.SeenT, jc.SeenF = tups, fr.SeenT, fr.SeenF
				jc.LenSwapBad, jc.LenSwaps = fr.LenSwapBad, fr.LenSwaps
				for _, r := range fr.Runs {
					jc.Runs = append(jc.Runs, [3][]int{r.In, r.Sort, r.Stable})
				}
			}
			nlist := func(xs []string) string {
				return gal.ListOf(xs, func(v string) string { return v + "%N" })
			}
			g := "{| gc_type := " + gal.Str(d.Type) +
				"; gc_fields := " + gal.ListOf(d.Fields, galField) +
				"; gc_raw := " + gal.ListOf(d.Fields, galRaw) +
				"; gc_wellformed := " + gal.Bool(!d.Malformed) +
				"; gc_sorter := " + gal.Str(s) +
				"; gc_gen_ok := " + gal.Bool(jc.GenOK) +
				"; gc_text := " + gal.ListOf(jc.Text, gal.Str) +
				"; gc_vals := " + galVals(d) +
				"; gc_seen_t := " + nlist(jc.SeenT) + "; gc_seen_f := " + nlist(jc.SeenF) +
				"; gc_lenswap := " + gal.Bool(jc.LenSwapBad == "") +
				"; gc_runs := " + gal.ListOf(jc.Runs, func(r [3][]int) string {
				return "{| sr_in := " + pack(r[0]) + "; sr_sort := " + pack(r[1]) + "; sr_stable := " + pack(r[2]) + " |}"
			}) + " |}"
			out.Case(g, jc)
		}
	}
}

func main() {
	seed := flag.Uint64("seed", 1, "PRNG seed")
	prefix := flag.String("out", "c08", "output prefix")
	mode := flag.String("mode", "random", "all|corpus|random|nearmiss|defs")
	n := flag.Int("n", 20, "number of struct definitions")
	gsortBin := flag.String("gsort", "", "gsort CLI built from the tree under test")
	work := flag.String("work", "", "scratch directory for the farm module")
	defsFile := flag.String("defs", "", "JSON file with a list of definitions (mode defs)")
	limit := flag.Int("limit", 6000000, "max slices enumerated exhaustively per sorter")
	runs := flag.Int("runs", 8, "sort runs per sorter")
	maxLen := flag.Int("maxlen", 200, "max slice length of the sort runs")
	flag.BoolVar(&wide, "wide", false, "widened search: 6-9 tagged fields, 4-6 sorters, long / non-ASCII names")
	watchdog := flag.Int("watchdog", 300, "seconds after which a driver (one sorter's observations) is given up")
	extra := flag.String("extra", "", "JSON files (comma separated) with further definitions run first (corpus/C08)")
	flag.Parse()
	if *gsortBin == "" || *work == "" {
		fmt.Fprintln(os.Stderr, "c08: -gsort and -work are required")
		os.Exit(2)
	}
	r := gal.NewRand(*seed)
	var defs []Def
	switch *mode {
	case "corpus":
		defs = corpusDefs()
	case "defs":
		b, err := os.ReadFile(*defsFile)
		must(err)
		must(json.Unmarshal(b, &defs))
	case "nearmiss":
		for i := 0; i < *n; i++ {
			defs = append(defs, randomDef(r, 5000+i, true))
		}
	case "all":
		// corpus, then n random definitions, then n/4 near-miss ones: one farm, one build
		defs = corpusDefs()
		for i := 0; i < *n; i++ {
			defs = append(defs, randomDef(r, i, false))
		}
		for i := 0; i < (*n+3)/4; i++ {
			defs = append(defs, randomDef(r, 5000+i, true))
		}
	default:
		for i := 0; i < *n; i++ {
			defs = append(defs, randomDef(r, i, false))
		}
	}
	if *extra != "" {
		var pre []Def
		for _, p := range strings.Split(*extra, ",") {
			var ds []Def
			b, err := os.ReadFile(p)
			must(err)
			must(json.Unmarshal(b, &ds))
			pre = append(pre, ds...)
		}
		defs = append(pre, defs...)
	}
	for i := range defs {
		for k := range defs[i].Fields {
			normalize(&defs[i].Fields[k])
		}
	}
	// package names must be distinct inside the module
	seen := map[string]bool{}
	for i := range defs {
		for seen[defs[i].Pkg] {
			defs[i].Pkg += "x"
		}
		seen[defs[i].Pkg] = true
	}
	cfg := map[string]any{"Seed": *seed, "Limit": *limit, "Runs": *runs, "MaxLen": *maxLen, "WatchdogSec": *watchdog}
	gens, res, errText := runFarm(*work, *gsortBin, defs, cfg)
	if errText != "" {
		fmt.Fprintln(os.Stderr, errText)
		os.Exit(1)
	}
	out := gal.NewOut(*prefix)
	emitCases(out, defs, gens, res)
	out.Close()
}
