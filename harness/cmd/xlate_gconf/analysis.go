package main

import (
	"fmt"
	"go/ast"
	"go/token"
	"go/types"
	"sort"
	"strconv"
	"strings"

	"gtverif/internal/srcset"
)

// ---------------------------------------------------------------- package-level facts
type pkgInfo struct {
	decls     map[string]*ast.FuncDecl
	methods   map[string][]string // method name -> decl keys
	intConsts map[string]string   // package constants with an integer literal value
	strConsts map[string]string   // package constants with a string literal value (unquoted)
	roleGo    map[string]string   // role -> decl key
	goRole    map[string]string   // decl key -> role
	// the compiled-pattern variable and the template list, found by their initialisers
	matcherVar   string
	templatesVar string
	templatesLen int
	dups         []string // functions declared more than once in the file set
}

// methods the translator maps onto primitives instead of translating their bodies
var primMethods = map[string]bool{"dimension.get": true}

type param struct {
	name string
	kind kind
}

type finfo struct {
	key       string
	decl      *ast.FuncDecl
	gen       string // Gallina name
	role      string
	typeParam string
	mode      mode
	stateful  bool    // threads the memo and may panic (cache set: getFromCache and the entry points)
	args      []param // receiver (if named) first, then the parameters
	results   []kind
	mutated   []int    // indexes into args of maps/slices the function updates in place
	recs      []string // roles of the recursive roots it (transitively) calls: extra parameters rec_<role>
	usesEnv   bool
	callees   []string
	recRoot   bool
	// canPanic: a panic of the yaml decoder (yaml.Unmarshal into a value of the type parameter) may
	// escape the function (it has no deferred recover): its result is an option / GPanic
	canPanic   bool
	hasRecover bool
}

func (p *pkgInfo) declOfCall(c *ast.CallExpr) string {
	fun := c.Fun
	if ix, ok := fun.(*ast.IndexExpr); ok {
		fun = ix.X
	}
	switch f := fun.(type) {
	case *ast.Ident:
		if d, ok := p.decls[f.Name]; ok && d.Recv == nil {
			return f.Name
		}
	case *ast.SelectorExpr:
		if ks := p.methods[f.Sel.Name]; len(ks) == 1 {
			return ks[0]
		}
	}
	return ""
}

func (p *pkgInfo) calleesOf(fd *ast.FuncDecl) []string {
	var out []string
	seen := map[string]bool{}
	ast.Inspect(fd.Body, func(n ast.Node) bool {
		if c, ok := n.(*ast.CallExpr); ok {
			if k := p.declOfCall(c); k != "" && !seen[k] && !primMethods[k] {
				seen[k] = true
				out = append(out, k)
			}
		}
		return true
	})
	return out
}

func collectPkg(files []*ast.File) *pkgInfo {
	p := &pkgInfo{decls: map[string]*ast.FuncDecl{}, methods: map[string][]string{}, intConsts: map[string]string{},
		strConsts: map[string]string{}, roleGo: map[string]string{}, goRole: map[string]string{}, matcherVar: "envVarTmplMatcher"}
	for _, f := range files {
		for _, d := range f.Decls {
			switch d := d.(type) {
			case *ast.FuncDecl:
				if d.Body != nil {
					k := declKey(d)
					if _, twice := p.decls[k]; twice && k != "init" {
						p.dups = append(p.dups, "package: "+k+" is declared more than once in the files that take part in the build")
					}
					p.decls[k] = d
					if d.Recv != nil {
						p.methods[d.Name.Name] = append(p.methods[d.Name.Name], k)
					}
				}
			case *ast.GenDecl:
				for _, sp := range d.Specs {
					vs, ok := sp.(*ast.ValueSpec)
					if !ok || len(vs.Names) != len(vs.Values) {
						continue
					}
					for i, nm := range vs.Names {
						switch v := vs.Values[i].(type) {
						case *ast.BasicLit:
							if d.Tok == token.CONST && v.Kind == token.INT {
								p.intConsts[nm.Name] = v.Value
							}
							if d.Tok == token.CONST && v.Kind == token.STRING {
								p.strConsts[nm.Name] = v.Value
							}
						case *ast.CallExpr:
							if sel, ok := v.Fun.(*ast.SelectorExpr); ok && sel.Sel.Name == "MustCompile" {
								p.matcherVar = nm.Name
							}
						case *ast.CompositeLit: // var templates = []templateVariable{&envVarTmpl{}}
							if at, ok := v.Type.(*ast.ArrayType); ok && at.Len == nil && len(v.Elts) > 0 {
								all := true
								for _, el := range v.Elts {
									u, ok := el.(*ast.UnaryExpr)
									if !ok {
										all = false
										continue
									}
									cl, ok := u.X.(*ast.CompositeLit)
									if !ok || ident(cl.Type) != "envVarTmpl" {
										all = false
									}
								}
								if all {
									p.templatesVar, p.templatesLen = nm.Name, len(v.Elts)
								}
							}
						}
					}
				}
			}
		}
	}
	return p
}

// ---------------------------------------------------------------- roles
// The functions the ties speak about are found by their place in the call graph below stable
// entry points, not by their names:
//
//	Builder.FromBytes : the 1st package function it calls that returns (any, error) = reduceAny,
//	                    the 1st generic one returning (_, error) = parseTemplatedElements
//	Get               : the 1st generic package function it calls returning (_, error) = getFromCache;
//	                    the 1st such of that = extractAndConvert; the 1st function of that returning
//	                    (any, bool) = extract
//	dimension.initFlag: the 1st package function it calls returning (string, bool) = lookupEnv
//	envVarTmpl.MatchAndResolve, Builder.FromBytes, Get, MustGet, GetOrDefault : fixed (exported API)
//
// Every other function or method these call is a helper: translated as a Gallina definition of
// its own (gen_h_<name>) that the tie proofs unfold, so extracting, inlining or renaming helpers
// does not change what the ties are about.
func (p *pkgInfo) resolveRoles() {
	funcsOnly := func(key string) []string {
		fd := p.decls[key]
		if fd == nil {
			return nil
		}
		var out []string
		for _, k := range p.calleesOf(fd) {
			if p.decls[k].Recv == nil && k != key {
				out = append(out, k)
			}
		}
		return out
	}
	// the first callee whose result types (and type parameters) look as required
	resultNames := func(fd *ast.FuncDecl) []string {
		var out []string
		if fd.Type.Results != nil {
			for _, r := range fd.Type.Results.List {
				n := len(r.Names)
				if n == 0 {
					n = 1
				}
				for i := 0; i < n; i++ {
					out = append(out, ident(r.Type))
				}
			}
		}
		return out
	}
	generic := func(fd *ast.FuncDecl) bool { return fd.Type.TypeParams != nil && len(fd.Type.TypeParams.List) > 0 }
	set := func(role string, l []string, want func(fd *ast.FuncDecl, res []string) bool) {
		for _, k := range l {
			if fd := p.decls[k]; fd != nil && want(fd, resultNames(fd)) {
				if _, taken := p.goRole[k]; !taken {
					p.roleGo[role] = k
					p.goRole[k] = role
					return
				}
			}
		}
	}
	fb := funcsOnly("Builder.FromBytes")
	set("reduceAny", fb, func(fd *ast.FuncDecl, res []string) bool {
		return !generic(fd) && len(res) == 2 && res[0] == "any" && res[1] == "error"
	})
	set("parseTemplatedElements", fb, func(fd *ast.FuncDecl, res []string) bool {
		return generic(fd) && len(res) == 2 && res[1] == "error"
	})
	set("getFromCache", funcsOnly("Get"), func(fd *ast.FuncDecl, res []string) bool {
		return generic(fd) && len(res) == 2 && res[1] == "error"
	})
	set("extractAndConvert", funcsOnly(p.roleGo["getFromCache"]), func(fd *ast.FuncDecl, res []string) bool {
		return generic(fd) && len(res) == 2 && res[1] == "error"
	})
	set("extract", funcsOnly(p.roleGo["extractAndConvert"]), func(fd *ast.FuncDecl, res []string) bool {
		return len(res) == 2 && res[0] == "any" && res[1] == "bool"
	})
	set("lookupEnv", funcsOnly("dimension.initFlag"), func(fd *ast.FuncDecl, res []string) bool {
		return len(res) == 2 && res[0] == "string" && res[1] == "bool"
	})
	for _, fixed := range []string{"Get", "MustGet", "GetOrDefault"} {
		p.roleGo[fixed] = fixed
	}
	p.roleGo["MatchAndResolve"] = "envVarTmpl.MatchAndResolve"
	p.roleGo["FromBytes"] = "Builder.FromBytes"
	for r, k := range p.roleGo {
		p.goRole[k] = r
	}
}

// ---------------------------------------------------------------- per-function facts
type analysis struct {
	pkg   *pkgInfo
	set   string
	infos map[string]*finfo
	order []string // helpers before their callers
}

var statefulRoles = map[string]bool{"getFromCache": true, "Get": true, "MustGet": true, "GetOrDefault": true}

func (a *analysis) modeFor(key string) mode {
	if a.pkg.goRole[key] == "parseTemplatedElements" { // T is instantiated with decoded yaml values
		return mode{kAny, kAny}
	}
	switch a.set {
	case "cache":
		if statefulRoles[a.pkg.goRole[key]] {
			return mode{kDval, kT}
		}
		return mode{kAny, kT}
	case "templates":
		return mode{kAny, kAny}
	}
	return mode{kAny, kT}
}

func (a *analysis) info(key string) *finfo {
	if fi, ok := a.infos[key]; ok {
		return fi
	}
	fd := a.pkg.decls[key]
	if fd == nil {
		return nil
	}
	fi := &finfo{key: key, decl: fd, role: a.pkg.goRole[key], mode: a.modeFor(key)}
	a.infos[key] = fi
	fi.stateful = a.set == "cache" && statefulRoles[fi.role]
	if fi.role != "" {
		fi.gen = "gen_" + fi.role
	} else {
		fi.gen = "gen_h_" + sanitize(key)
	}
	if tp := fd.Type.TypeParams; tp != nil && len(tp.List) == 1 && len(tp.List[0].Names) == 1 {
		fi.typeParam = tp.List[0].Names[0].Name
	}
	if fd.Recv != nil && len(fd.Recv.List) == 1 && len(fd.Recv.List[0].Names) == 1 {
		fi.args = append(fi.args, param{fd.Recv.List[0].Names[0].Name, fi.mode.typeKind(fd.Recv.List[0].Type, fi.typeParam)})
	}
	for _, pl := range fd.Type.Params.List {
		for _, n := range pl.Names {
			fi.args = append(fi.args, param{n.Name, fi.mode.typeKind(pl.Type, fi.typeParam)})
		}
	}
	if fd.Type.Results != nil {
		for _, r := range fd.Type.Results.List {
			n := len(r.Names)
			if n == 0 {
				n = 1
			}
			for i := 0; i < n; i++ {
				fi.results = append(fi.results, fi.mode.typeKind(r.Type, fi.typeParam))
			}
		}
	}
	fi.callees = a.pkg.calleesOf(fd)
	return fi
}

// reach collects everything reachable from the wanted roots and orders it callee-first.
func (a *analysis) reach(roots []string) {
	state := map[string]int{}
	var visit func(k string)
	visit = func(k string) {
		if state[k] != 0 {
			return
		}
		state[k] = 1
		fi := a.info(k)
		if fi == nil {
			return
		}
		for _, c := range fi.callees {
			// a recursive root reached from elsewhere is a parameter (rec_<role>), not a dependency
			if c != k && a.isRecRoot(c) {
				continue
			}
			visit(c)
		}
		state[k] = 2
		a.order = append(a.order, k)
	}
	for _, r := range roots {
		visit(r)
	}
}

// a role function that can reach itself through the call graph
func (a *analysis) isRecRoot(key string) bool {
	if a.pkg.goRole[key] == "" {
		return false
	}
	seen := map[string]bool{}
	var dfs func(k string) bool
	dfs = func(k string) bool {
		fd := a.pkg.decls[k]
		if fd == nil {
			return false
		}
		for _, c := range a.pkg.calleesOf(fd) {
			if c == key {
				return true
			}
			if !seen[c] && a.pkg.goRole[c] == "" {
				seen[c] = true
				if dfs(c) {
					return true
				}
			}
		}
		return false
	}
	return dfs(key)
}

// a deferred `func() { if r := recover(); r != nil { ... } }()` as the first statement of the body
func recoverHandler(fd *ast.FuncDecl) *ast.IfStmt {
	if len(fd.Body.List) == 0 {
		return nil
	}
	d, ok := fd.Body.List[0].(*ast.DeferStmt)
	if !ok || len(d.Call.Args) != 0 {
		return nil
	}
	lit, ok := d.Call.Fun.(*ast.FuncLit)
	if !ok || len(lit.Type.Params.List) != 0 || len(lit.Body.List) != 1 {
		return nil
	}
	ifs, ok := lit.Body.List[0].(*ast.IfStmt)
	if !ok || ifs.Else != nil {
		return nil
	}
	init, ok := ifs.Init.(*ast.AssignStmt)
	if !ok || len(init.Lhs) != 1 || len(init.Rhs) != 1 {
		return nil
	}
	c, ok := init.Rhs[0].(*ast.CallExpr)
	if !ok || ident(c.Fun) != "recover" {
		return nil
	}
	cond, ok := ifs.Cond.(*ast.BinaryExpr)
	if !ok || cond.Op != token.NEQ || ident(cond.X) != ident(init.Lhs[0]) || ident(cond.Y) != "nil" {
		return nil
	}
	return ifs
}

// does the body decode yaml into a value of the type parameter (reflection over an arbitrary Go
// type: may panic)?
func decodesIntoT(fi *finfo) bool {
	found := false
	ast.Inspect(fi.decl.Body, func(n ast.Node) bool {
		if c, ok := n.(*ast.CallExpr); ok {
			if ch := chain(c.Fun); len(ch) == 2 && ch[0] == "yaml" && ch[1] == "Unmarshal" && fi.typeParam != "" && fi.mode.typeParamKind == kT {
				found = true
			}
		}
		return true
	})
	return found
}

func usesLookupEnv(fd *ast.FuncDecl) bool {
	found := false
	ast.Inspect(fd.Body, func(n ast.Node) bool {
		if c, ok := n.(*ast.CallExpr); ok {
			if ch := chain(c.Fun); len(ch) == 2 && ch[0] == "os" && ch[1] == "LookupEnv" {
				found = true
			}
		}
		return true
	})
	return found
}

// directly index-assigned (x[i] = e, or through a variable bound by a type switch on x) parameters
func directlyMutated(fi *finfo) map[string]bool {
	out := map[string]bool{}
	bound := map[string]string{} // type-switch variable -> switched variable
	isArg := map[string]bool{}
	for _, p := range fi.args {
		isArg[p.name] = true
	}
	ast.Inspect(fi.decl.Body, func(n ast.Node) bool {
		switch s := n.(type) {
		case *ast.TypeSwitchStmt:
			if as, ok := s.Assign.(*ast.AssignStmt); ok && len(as.Lhs) == 1 && len(as.Rhs) == 1 {
				if ta, ok := as.Rhs[0].(*ast.TypeAssertExpr); ok {
					x := ta.X
					if c, ok := x.(*ast.CallExpr); ok && ident(c.Fun) == "any" && len(c.Args) == 1 {
						x = c.Args[0]
					}
					bound[ident(as.Lhs[0])] = ident(x)
				}
			}
		case *ast.AssignStmt:
			for _, l := range s.Lhs {
				if ix, ok := l.(*ast.IndexExpr); ok {
					n := ident(ix.X)
					if b, ok := bound[n]; ok {
						n = b
					}
					if isArg[n] {
						out[n] = true
					}
				}
			}
		}
		return true
	})
	return out
}

// solve computes, to a fixpoint over the call graph: the recursive roots each function needs,
// whether it reads the environment, and which of its map/slice arguments it updates in place.
func (a *analysis) solve() {
	for _, k := range a.order {
		fi := a.infos[k]
		fi.recRoot = a.isRecRoot(k)
		fi.usesEnv = usesLookupEnv(fi.decl)
		fi.hasRecover = recoverHandler(fi.decl) != nil
		fi.canPanic = decodesIntoT(fi) && !fi.hasRecover
	}
	mut := map[string]map[string]bool{}
	for _, k := range a.order {
		mut[k] = directlyMutated(a.infos[k])
	}
	for changed := true; changed; {
		changed = false
		for _, k := range a.order {
			fi := a.infos[k]
			recs := map[string]bool{}
			for _, r := range fi.recs {
				recs[r] = true
			}
			for _, c := range fi.callees {
				if a.isRecRoot(c) {
					if !recs[a.pkg.goRole[c]] {
						recs[a.pkg.goRole[c]] = true
						changed = true
					}
					continue
				}
				ci := a.infos[c]
				if ci == nil {
					continue
				}
				for _, r := range ci.recs {
					if !recs[r] {
						recs[r] = true
						changed = true
					}
				}
				if ci.usesEnv && !fi.usesEnv {
					fi.usesEnv = true
					changed = true
				}
				if ci.canPanic && !fi.canPanic && !fi.hasRecover {
					fi.canPanic = true
					changed = true
				}
			}
			fi.recs = fi.recs[:0]
			for r := range recs {
				fi.recs = append(fi.recs, r)
			}
			sort.Strings(fi.recs)
			// arguments handed on to a callee that updates them
			ast.Inspect(fi.decl.Body, func(n ast.Node) bool {
				c, ok := n.(*ast.CallExpr)
				if !ok {
					return true
				}
				ck := a.pkg.declOfCall(c)
				ci := a.infos[ck]
				if ci == nil || a.isRecRoot(ck) {
					return true
				}
				off := 0
				if ci.decl.Recv != nil && len(ci.args) > 0 && len(ci.decl.Recv.List[0].Names) == 1 {
					off = 1
				}
				for i, arg := range c.Args {
					if i+off < len(ci.args) && mut[ck][ci.args[i+off].name] {
						if n := ident(arg); n != "" && !mut[k][n] {
							for _, p := range fi.args {
								if p.name == n {
									mut[k][n] = true
									changed = true
								}
							}
						}
					}
				}
				return true
			})
		}
	}
	for _, k := range a.order {
		fi := a.infos[k]
		for i, p := range fi.args {
			if mut[k][p.name] && !(fi.recRoot) {
				fi.mutated = append(fi.mutated, i)
			}
		}
	}
}

// ---------------------------------------------------------------- whole-package checks
// What the translation assumes about the rest of the package, checked on the whole file set:
//   - nobody but their declarations writes to (or takes the address of) the template list and the
//     compiled pattern — an init() in a sibling file that appends a template or wraps the existing
//     ones changes what FromBytes does without touching a translated function;
//   - the struct types the translation reads fields of have exactly the fields and field types it
//     assumes (Config.cached is *xsync.MapOf[cacheKey, any], ...);
//   - the package names the translator maps onto primitives (xsync, yaml, os, strings, regexp, flag,
//     reflect) are imported from the paths it assumes, in every file;
//   - every Config literal starts with a fresh xsync map (the memo belongs to ONE Config).
var expectedStructs = map[string][][2]string{
	"Config":     {{"dimensions", "map[reflect.Type]genum.Enum"}, {"cached", "*xsync.MapOf[cacheKey, any]"}, {"data", "map[string]any"}},
	"cacheKey":   {{"key", "string"}, {"typ", "reflect.Type"}},
	"Builder":    {{"dimensions", "[]*dimension"}},
	"dimension":  {{"defaultVal", "genum.Enum"}, {"flagName", "string"}, {"parseFlag", "bool"}, {"parsed", "genum.Enum"}},
	"envVarTmpl": {},
}

var expectedImports = map[string]string{
	"xsync": "github.com/puzpuzpuz/xsync/v3", "yaml": "gopkg.in/yaml.v3", "os": "os", "strings": "strings",
	"regexp": "regexp", "flag": "flag", "reflect": "reflect", "genum": "github.com/drshriveer/gtools/genum",
}

func wholePackageChecks(sp *srcset.Pkg, p *pkgInfo, set string) []string {
	var out []string
	bad := func(format string, a ...any) { out = append(out, "package: "+fmt.Sprintf(format, a...)) }
	for _, v := range []string{p.templatesVar, p.matcherVar} {
		if v == "" {
			continue
		}
		if w := sp.WritesTo(v); len(w) > 0 {
			bad("%s is assigned to, or has its address taken, in %s", v, strings.Join(w, ", "))
		}
	}
	if p.templatesVar == "" {
		bad("the template list ([]templateVariable{&envVarTmpl{}}) is not declared as the translation assumes")
	}
	for name, want := range expectedStructs {
		ts, err := sp.TypeSpec(name)
		if err != nil {
			bad("%v", err)
			continue
		}
		st, ok := ts.Type.(*ast.StructType)
		if !ok {
			bad("type %s is not a struct", name)
			continue
		}
		var got [][2]string
		for _, f := range st.Fields.List {
			t := types.ExprString(f.Type)
			if len(f.Names) == 0 {
				got = append(got, [2]string{"(embedded)", t})
			}
			for _, n := range f.Names {
				got = append(got, [2]string{n.Name, t})
			}
		}
		if fmt.Sprint(got) != fmt.Sprint(want) {
			bad("type %s has fields %v, the translation assumes %v", name, got, want)
		}
	}
	for i, f := range sp.Files {
		for _, im := range f.Imports {
			pth, _ := strconv.Unquote(im.Path.Value)
			name := pth[strings.LastIndex(pth, "/")+1:]
			if name == "v3" { // gopkg.in/yaml.v3 is package yaml, xsync/v3 is package xsync
				parts := strings.Split(pth, "/")
				name = strings.TrimSuffix(parts[len(parts)-2], ".v3")
			}
			name = strings.TrimSuffix(name, ".v3")
			if im.Name != nil {
				name = im.Name.Name
			}
			if want, ok := expectedImports[name]; ok && want != pth {
				bad("%s: the name %s is imported from %s, the translation assumes %s", sp.Names[i], name, pth, want)
			}
		}
		// every &Config{...} starts with a fresh memo
		ast.Inspect(f, func(n ast.Node) bool {
			cl, ok := n.(*ast.CompositeLit)
			if !ok || ident(cl.Type) != "Config" {
				return true
			}
			fresh := false
			for _, e := range cl.Elts {
				if kv, ok := e.(*ast.KeyValueExpr); ok && ident(kv.Key) == "cached" {
					if c, ok := kv.Value.(*ast.CallExpr); ok && types.ExprString(c.Fun) == "xsync.NewMapOf[cacheKey, any]" && len(c.Args) == 0 {
						fresh = true
					}
				}
			}
			if !fresh {
				bad("%s: a Config is built without a fresh xsync.NewMapOf[cacheKey, any]() memo", sp.Names[i])
			}
			return true
		})
	}
	// WithDimension appends to the registration list and does nothing else with it (the order of
	// b.dimensions IS the registration order the model's `dims` stands for); FromFile hands the whole
	// file to FromBytes
	if fd := p.decls["Builder.WithDimension"]; fd != nil {
		refs, appended := 0, false
		ast.Inspect(fd.Body, func(n ast.Node) bool {
			if sel, ok := n.(*ast.SelectorExpr); ok && sel.Sel.Name == "dimensions" {
				refs++
			}
			if as, ok := n.(*ast.AssignStmt); ok && len(as.Lhs) == 1 && len(as.Rhs) == 1 &&
				strings.HasSuffix(types.ExprString(as.Lhs[0]), ".dimensions") {
				if c, ok := as.Rhs[0].(*ast.CallExpr); ok && ident(c.Fun) == "append" && len(c.Args) == 2 &&
					types.ExprString(c.Args[0]) == types.ExprString(as.Lhs[0]) && ident(c.Args[1]) != "" {
					appended = true
				}
			}
			return true
		})
		if !appended || refs != 2 {
			bad("Builder.WithDimension does not just append the new dimension to the registration list (%d uses of .dimensions)", refs)
		}
	} else {
		bad("Builder.WithDimension not found")
	}
	for _, fn := range fieldWrites(sp, "dimensions") {
		if !strings.HasSuffix(fn, ":WithDimension") {
			bad("the field `dimensions` is assigned in %s", fn)
		}
	}
	if fd := p.decls["Builder.FromFile"]; fd != nil {
		okRead := false
		ast.Inspect(fd.Body, func(n ast.Node) bool {
			if c, ok := n.(*ast.CallExpr); ok && types.ExprString(c.Fun) == "io.ReadAll" && len(c.Args) == 1 && ident(c.Args[0]) != "" {
				okRead = true
			}
			if c, ok := n.(*ast.CallExpr); ok {
				if s := types.ExprString(c.Fun); strings.Contains(s, "Limit") || strings.Contains(s, "ReadFull") || strings.Contains(s, "CopyN") {
					okRead = false
					bad("Builder.FromFile reads through %s", s)
				}
			}
			return true
		})
		if !okRead {
			bad("Builder.FromFile does not read the whole file with io.ReadAll(<the opened file>)")
		}
	}
	// the memo field is written nowhere but in such literals
	for _, fn := range fieldWrites(sp, "cached") {
		bad("the field `cached` is assigned in %s", fn)
	}
	return out
}

// functions that assign to a field of the given name (x.name = ..., x.name[...] = ...)
func fieldWrites(sp *srcset.Pkg, field string) []string {
	var out []string
	for i, f := range sp.Files {
		for _, d := range f.Decls {
			fd, ok := d.(*ast.FuncDecl)
			if !ok || fd.Body == nil {
				continue
			}
			ast.Inspect(fd.Body, func(n ast.Node) bool {
				as, ok := n.(*ast.AssignStmt)
				if !ok {
					return true
				}
				for _, l := range as.Lhs {
					e := l
					if ix, ok := e.(*ast.IndexExpr); ok {
						e = ix.X
					}
					if sel, ok := e.(*ast.SelectorExpr); ok && sel.Sel.Name == field {
						out = append(out, sp.Names[i]+":"+fd.Name.Name)
					}
				}
				return true
			})
		}
	}
	return out
}
