package main

import (
	"fmt"
	"go/ast"
	"go/token"
	"strconv"
	"strings"
)

type alias struct {
	of  string
	inj string // constructor taking the aliasing variable to the aliased value ("" = identity)
}

type loopCtx struct {
	node  ast.Node // the for / range statement
	label string
	vars  []string // loop-carried variables
	after string   // the continuation after the loop (for break)
}

// fn: the state of translating one function (or one function literal inside it)
type fn struct {
	a        *analysis
	info     *finfo
	env      map[string]kind
	aliases  map[string]alias
	closures map[string]*ast.FuncLit
	loops    []loopCtx
	results  []kind
	problems []string
	// how the values of a `return` are packed: the in-place updated arguments first (helpers), the
	// memo around everything (stateful functions), the captured variables after (function literals)
	mutatedArgs []string
	captured    []string
	isLit       bool
	// the value of the function when a panic is recovered by its deferred handler ("" = no handler)
	recoverTerm string
	// parts of the source deliberately left out of the translation (named in the generated file)
	skipped []string
}

// panicValue: what a panic (of the yaml decoder, or propagated from a callee) evaluates to here
func (f *fn) panicValue() string {
	var v string
	switch {
	case f.isLit:
		v = "None"
	case f.recoverTerm != "":
		v = f.recoverTerm
	case f.info.stateful:
		v = "GPanic"
	case f.info.canPanic:
		v = "None"
	default:
		v = f.bad("a panic cannot be represented here")
	}
	return exitN(v, len(f.loops))
}

// how the result of a call has to be taken apart: 0 = a tuple, 1 = gout (memo function), 2 = option
func (f *fn) calleeMode(ck string) int {
	ci := f.a.infos[ck]
	switch {
	case ci == nil:
		return 0
	case ci.stateful:
		return 1
	case ci.canPanic:
		return 2
	}
	return 0
}

func (f *fn) bad(what string) string {
	f.problems = append(f.problems, what)
	return "UNSUPPORTED_" + sanitize(what)
}

func (f *fn) typeKind(t ast.Expr) kind { return f.info.mode.typeKind(t, f.info.typeParam) }

// pack renders the value of a `return` with the given result terms
func (f *fn) pack(parts []string) string {
	all := []string{}
	for _, m := range f.mutatedArgs {
		all = append(all, "v_"+m)
	}
	all = append(all, parts...)
	v := ""
	if len(all) == 1 {
		v = all[0]
	} else {
		v = "(" + strings.Join(all, ", ") + ")"
	}
	if f.isLit {
		return "Some (" + v + ", " + tuple(f.captured) + ")"
	}
	if f.info.stateful {
		return "GRet cache " + v
	}
	if f.info.canPanic {
		return "Some " + v
	}
	return v
}

// packTerm: `return g(...)` where term has the tuple type of the results
func (f *fn) packTerm(term string, n int) string {
	if len(f.mutatedArgs) == 0 && !f.isLit && !f.info.stateful && !f.info.canPanic {
		return term
	}
	names := make([]string, n)
	for i := range names {
		names[i] = fmt.Sprintf("r_%d", i)
	}
	pat := names[0]
	if n > 1 {
		pat = "'(" + strings.Join(names, ", ") + ")"
	}
	return "let " + pat + " := " + term + " in " + f.pack(names)
}

func (f *fn) ret(v string) string { return exitN(v, len(f.loops)) }

// extra leading arguments of a call to a translated function
func (f *fn) extraArgs(ci *finfo) string {
	out := ""
	for _, r := range ci.recs {
		out += " rec_" + r
	}
	if ci.usesEnv {
		out += " env"
	}
	return out
}

// callDecl renders a call to a function of the package (decl key ck).  Returns the term, the
// kinds of its results, and the caller's variables that receive the in-place updated arguments
// (those come first in the callee's result tuple).
func (f *fn) callDecl(ck string, c *ast.CallExpr) (string, []kind, []string) {
	if f.a.isRecRoot(ck) {
		role := f.a.pkg.goRole[ck]
		ri := f.a.info(ck)
		args := make([]string, len(c.Args))
		for i, a := range c.Args {
			want := kUnknown
			if i < len(ri.args) {
				want = ri.args[i].kind
			}
			args[i], _ = f.expr(a, want)
			if n := ident(a); n != "" && (f.env[n] == kAny || f.env[n] == kMap || f.env[n] == kSlice) {
				f.checkNotReadAgain(n, c)
			}
		}
		return "(rec_" + role + " " + strings.Join(args, " ") + ")", ri.results, nil
	}
	ci := f.a.infos[ck]
	if ci == nil {
		return f.bad("call of " + ck), []kind{kUnknown}, nil
	}
	var args []string
	var argExprs []ast.Expr
	if ci.decl.Recv != nil && len(ci.decl.Recv.List[0].Names) == 1 {
		sel, ok := c.Fun.(*ast.SelectorExpr)
		if !ok {
			return f.bad("method call form"), ci.results, nil
		}
		argExprs = append(argExprs, sel.X)
	}
	argExprs = append(argExprs, c.Args...)
	if len(argExprs) != len(ci.args) {
		return f.bad("arity of call of " + ck), ci.results, nil
	}
	for i, a := range argExprs {
		if ci.stateful && ci.args[i].kind == kCfg { // the Config is represented by its memo
			continue
		}
		t, _ := f.expr(a, ci.args[i].kind)
		args = append(args, t)
	}
	var muts []string
	for _, i := range ci.mutated {
		n := ident(argExprs[i])
		if n == "" {
			// an argument that is not a variable: the update is not visible to the caller
			muts = append(muts, "_")
			continue
		}
		muts = append(muts, n)
	}
	pre := ""
	if ci.stateful {
		pre = " cache"
	}
	return "(" + ci.gen + f.extraArgs(ci) + pre + " " + strings.Join(args, " ") + ")", ci.results, muts
}

// call classifies a call: the Gallina term, the kinds of its results, in-place updated variables.
func (f *fn) call(c *ast.CallExpr) (string, []kind, []string) {
	if id, ok := c.Fun.(*ast.Ident); ok {
		switch id.Name {
		case "len":
			if len(c.Args) == 1 {
				a, k := f.expr(c.Args[0], kUnknown)
				switch k {
				case kMap, kSlice, kStrSlice, kKeys, kDims, kBuilder:
					return "(List.length " + a + ")", []kind{kInt}, nil
				}
			}
			return f.bad("len"), []kind{kInt}, nil
		case "make":
			if len(c.Args) >= 1 {
				switch f.typeKind(c.Args[0]) {
				case kKeys:
					return "keys_empty", []kind{kKeys}, nil
				case kMap:
					return "map_empty", []kind{kMap}, nil
				case kDimVals:
					return "dimvals_empty", []kind{kDimVals}, nil
				}
			}
			return f.bad("make"), []kind{kUnknown}, nil
		}
	}
	if ix, ok := c.Fun.(*ast.IndexExpr); ok && f.info.typeParam != "" && ident(ix.Index) == f.info.typeParam {
		if ch := chain(ix.X); len(ch) == 2 && ch[0] == "reflect" && ch[1] == "TypeFor" && len(c.Args) == 0 {
			return "tyT", []kind{kUnknown}, nil
		}
	}
	if ck := f.a.pkg.declOfCall(c); ck != "" && !primMethods[ck] {
		if ix, ok := c.Fun.(*ast.IndexExpr); ok && !(f.info.typeParam != "" && ident(ix.Index) == f.info.typeParam) {
			return f.bad("instantiation with another type"), []kind{kUnknown}, nil
		}
		return f.callDecl(ck, c)
	}
	fun := c.Fun
	if ix, ok := fun.(*ast.IndexExpr); ok {
		fun = ix.X
	}
	ch := chain(fun)
	if ch == nil {
		return f.bad("call"), []kind{kUnknown}, nil
	}
	if isErrFactory(ch[0]) || ch[0] == "gerror" { // ErrFailedParsing.Msg(...): some non-nil error
		return "true", []kind{kErr}, nil
	}
	joined := strings.Join(ch, ".")
	if len(ch) == 2 && ch[0] == f.a.pkg.matcherVar {
		joined = "envVarTmplMatcher." + ch[1]
	}
	str1 := func(prim string, res ...kind) (string, []kind, []string) {
		if len(c.Args) != 1 {
			return f.bad(joined + " arity"), res, nil
		}
		a, _ := f.expr(c.Args[0], kString)
		return "(" + prim + " " + a + ")", res, nil
	}
	switch joined {
	case "envVarTmplMatcher.FindStringSubmatch":
		return str1("find_submatch", kStrSlice)
	case "os.LookupEnv":
		return str1("os_lookup_env env", kString, kBool)
	case "strings.ToUpper":
		return str1("to_upper", kString)
	case "strings.ToLower":
		return str1("to_lower", kString)
	case "strings.Trim":
		if len(c.Args) == 2 {
			a, _ := f.expr(c.Args[0], kString)
			b, _ := f.expr(c.Args[1], kString)
			return "(strings_trim " + a + " " + b + ")", []kind{kString}, nil
		}
	case "strings.Split":
		if len(c.Args) == 2 {
			a, _ := f.expr(c.Args[0], kString)
			if lit, ok := c.Args[1].(*ast.BasicLit); ok && lit.Value == `"."` {
				return "(split_dots " + a + ")", []kind{kStrSlice}, nil
			}
		}
	case "yaml.Marshal":
		if len(c.Args) == 1 {
			a, k := f.expr(c.Args[0], kAny)
			if k == kAny {
				return "(yaml_marshal " + a + ")", []kind{kBytes, kErr}, nil
			}
		}
	case "reflect.TypeOf": // the type of a dimension's enum identifies the dimension
		if len(c.Args) == 1 {
			if a := chain(c.Args[0]); len(a) == 2 && f.env[a[0]] == kDimPtr && a[1] == "defaultVal" {
				return "v_" + a[0], []kind{kDimPtr}, nil
			}
		}
	case "xsync.NewMapOf":
		return "tt", []kind{kUnknown}, nil
	}
	recv, rk := ch[0], f.env[ch[0]]
	switch {
	case rk == kDimPtr && len(ch) == 2 && ch[1] == "get" && len(c.Args) == 0:
		return "(dim_get v_" + recv + ")", []kind{kEnum}, nil
	case rk == kDimPtr && len(ch) == 3 && ch[1] == "defaultVal" && ch[2] == "ParseGeneric" && len(c.Args) == 1:
		a, _ := f.expr(c.Args[0], kString)
		return "(parse_generic v_" + recv + " " + a + ")", []kind{kEnum, kErr}, nil
	}
	return f.bad("call " + joined), []kind{kUnknown}, nil
}

// coerce converts a rendered value of kind have to kind want where Go does so implicitly
func (f *fn) coerce(v string, have, want kind) (string, kind) {
	if have == want || want == kUnknown {
		return v, have
	}
	switch {
	case want == kAny && have == kMap:
		return "(Mp " + v + ")", kAny
	case want == kAny && have == kSlice:
		return "(Lst " + v + ")", kAny
	case want == kAny && have == kString:
		return "(Str " + v + ")", kAny
	case want == kMap && have == kAny: // the static type is map[string]any (T instantiated)
		return "(fst (as_map " + v + "))", kMap
	case want == kDval && have == kT: // a T stored in an `any`
		return "(box is_iface dyn_of_any tyT " + v + ")", kDval
	case want == kBool && have == kErr, want == kErr && have == kBool:
		return v, want
	}
	return v, have
}

// expr renders an expression; want is the kind expected by the context.
func (f *fn) expr(e ast.Expr, want kind) (string, kind) {
	v, k := f.expr0(e, want)
	return f.coerce(v, k, want)
}

func (f *fn) expr0(e ast.Expr, want kind) (string, kind) {
	switch x := e.(type) {
	case *ast.ParenExpr:
		return f.expr0(x.X, want)
	case *ast.Ident:
		switch x.Name {
		case "true", "false":
			return x.Name, kBool
		case "nil":
			return want.zero(), want
		}
		if k, ok := f.env[x.Name]; ok && k != kUnknown {
			return "v_" + x.Name, k
		}
		if v, ok := f.a.pkg.strConsts[x.Name]; ok {
			if v == `"default"` {
				return "default_key", kString
			}
			return f.strLit(v)
		}
		if v, ok := f.a.pkg.intConsts[x.Name]; ok {
			return v, kInt
		}
		if f.a.pkg.templatesVar != "" && x.Name == f.a.pkg.templatesVar {
			return "(repeat tt " + strconv.Itoa(f.a.pkg.templatesLen) + ")", kTemplates
		}
		return f.bad("identifier " + x.Name), kUnknown
	case *ast.BasicLit:
		if x.Kind == token.INT {
			return x.Value, kInt
		}
		if x.Kind == token.STRING {
			return f.strLit(x.Value)
		}
		return f.bad("literal"), kUnknown
	case *ast.SelectorExpr:
		ch := chain(x)
		if len(ch) == 2 {
			switch {
			case f.env[ch[0]] == kCfg && ch[1] == "data":
				return "cfg_data", kMap
			case f.env[ch[0]] == kBuilder && ch[1] == "dimensions":
				return "v_" + ch[0], kDims
			}
		}
		return f.bad("selector " + strings.Join(ch, ".")), kUnknown
	case *ast.CompositeLit:
		return f.composite(x)
	case *ast.IndexExpr:
		a, k := f.expr(x.X, kUnknown)
		i, ik := f.expr(x.Index, kInt)
		if ik == kInt {
			switch k {
			case kStrSlice:
				return "(str_nth " + a + " " + i + ")", kString
			case kSlice:
				return "(nth " + i + " " + a + " Null)", kAny
			case kDims:
				return "(nth " + i + " " + a + " None)", kDimPtr
			}
		}
		return f.bad("index expression"), kUnknown
	case *ast.StarExpr: // *new(T)
		if c, ok := x.X.(*ast.CallExpr); ok && ident(c.Fun) == "new" && len(c.Args) == 1 {
			k := f.typeKind(c.Args[0])
			return k.zero(), k
		}
		return f.bad("dereference"), kUnknown
	case *ast.UnaryExpr:
		if x.Op == token.NOT {
			a, _ := f.expr(x.X, kBool)
			return "(negb " + a + ")", kBool
		}
		if x.Op == token.AND { // &Config{...}
			if cl, ok := x.X.(*ast.CompositeLit); ok {
				return f.composite(cl)
			}
		}
		return f.bad("unary " + x.Op.String()), kUnknown
	case *ast.BinaryExpr:
		return f.binary(x)
	case *ast.CallExpr:
		if id := ident(x.Fun); id == "any" && len(x.Args) == 1 { // conversion to an interface value
			return f.expr(x.Args[0], f.info.mode.anyKind)
		}
		t, ks, muts := f.call(x)
		for _, m := range muts {
			if m != "_" {
				return f.bad("call updating its argument in place used as an expression"), kUnknown
			}
		}
		if len(muts) > 0 {
			return f.bad("call updating an argument in place used as an expression"), kUnknown
		}
		if f.calleeMode(f.a.pkg.declOfCall(x)) != 0 {
			return f.bad("call that may panic or uses the memo used as an expression"), kUnknown
		}
		if len(ks) == 1 {
			return t, ks[0]
		}
		return t, kUnknown
	case *ast.TypeAssertExpr:
		// any(e).(T) with T the type parameter, instantiated with `any` wherever this is reached
		if f.info.typeParam != "" && ident(x.Type) == f.info.typeParam && f.info.mode.typeParamKind == kAny {
			if c, ok := x.X.(*ast.CallExpr); ok && ident(c.Fun) == "any" && len(c.Args) == 1 {
				return f.expr(c.Args[0], kAny)
			}
		}
		return f.bad("type assertion"), kUnknown
	}
	return f.bad(fmt.Sprintf("expr %T", e)), kUnknown
}

func (f *fn) strLit(quoted string) (string, kind) {
	if v, err := strconv.Unquote(quoted); err == nil && isPlainASCII(v) {
		if v == "" {
			return "EmptyString", kString
		}
		return "\"" + strings.ReplaceAll(v, "\"", "\"\"") + "\"%string", kString
	}
	return f.bad("string literal"), kUnknown
}

func (f *fn) composite(x *ast.CompositeLit) (string, kind) {
	fields := map[string]ast.Expr{}
	for _, e := range x.Elts {
		if kv, ok := e.(*ast.KeyValueExpr); ok {
			fields[ident(kv.Key)] = kv.Value
		}
	}
	switch ident(x.Type) {
	case "cacheKey":
		if len(x.Elts) == 2 && fields["key"] != nil && fields["typ"] != nil {
			key, _ := f.expr(fields["key"], kString)
			typ, _ := f.expr(fields["typ"], kUnknown)
			return "(" + key + ", " + typ + ")", kCacheKey
		}
	case "Config": // the loaded configuration: (dimension values, resolved data); the memo starts empty
		if len(x.Elts) == 3 && fields["dimensions"] != nil && fields["data"] != nil && fields["cached"] != nil {
			if c, ok := fields["cached"].(*ast.CallExpr); ok {
				if ch := chain(stripIndex(c.Fun)); len(ch) == 2 && ch[1] == "NewMapOf" && len(c.Args) == 0 {
					d, _ := f.expr(fields["dimensions"], kDimVals)
					m, _ := f.expr(fields["data"], kMap)
					return "(mk_config " + d + " " + m + ")", kCfg
				}
			}
		}
	}
	if at, ok := x.Type.(*ast.ArrayType); ok && f.typeKind(at.Elt) == kString { // []string{..}, [...]string{..}
		parts := make([]string, len(x.Elts))
		for i, e := range x.Elts {
			if _, isKV := e.(*ast.KeyValueExpr); isKV {
				return f.bad("keyed array literal"), kUnknown
			}
			parts[i], _ = f.expr(e, kString)
		}
		return "[" + strings.Join(parts, "; ") + "]", kStrSlice
	}
	return f.bad("composite literal"), kUnknown
}

func stripIndex(e ast.Expr) ast.Expr {
	if ix, ok := e.(*ast.IndexListExpr); ok {
		return ix.X
	}
	if ix, ok := e.(*ast.IndexExpr); ok {
		return ix.X
	}
	return e
}

func (f *fn) binary(x *ast.BinaryExpr) (string, kind) {
	// comparisons with nil
	if id := ident(x.Y); id == "nil" && (x.Op == token.EQL || x.Op == token.NEQ) {
		a, k := f.expr(x.X, kUnknown)
		switch k {
		case kErr:
			if x.Op == token.NEQ {
				return a, kBool
			}
			return "(negb " + a + ")", kBool
		case kDval:
			if x.Op == token.EQL {
				return "(dval_is_nil " + a + ")", kBool
			}
			return "(negb (dval_is_nil " + a + "))", kBool
		}
		return f.bad("nil comparison"), kBool
	}
	l, lk := f.expr(x.X, kUnknown)
	r, rk := f.expr(x.Y, lk)
	switch x.Op {
	case token.LAND:
		return "(andb " + l + " " + r + ")", kBool
	case token.LOR:
		return "(orb " + l + " " + r + ")", kBool
	case token.SUB:
		if lk == kInt && rk == kInt {
			return "(" + l + " - " + r + ")", kInt
		}
	case token.ADD:
		if lk == kInt && rk == kInt {
			return "(" + l + " + " + r + ")", kInt
		}
	case token.LSS, token.LEQ, token.GTR, token.GEQ:
		if lk == kInt && rk == kInt {
			switch x.Op {
			case token.LSS:
				return "(Nat.ltb " + l + " " + r + ")", kBool
			case token.LEQ:
				return "(Nat.leb " + l + " " + r + ")", kBool
			case token.GTR:
				return "(Nat.ltb " + r + " " + l + ")", kBool
			default:
				return "(Nat.leb " + r + " " + l + ")", kBool
			}
		}
	case token.EQL, token.NEQ:
		var t string
		switch {
		case lk == kString && rk == kString:
			t = "(String.eqb " + l + " " + r + ")"
		case (lk == kInt || lk == kEnum) && lk == rk:
			t = "(Nat.eqb " + l + " " + r + ")"
		case lk == kBool && rk == kBool:
			t = "(Bool.eqb " + l + " " + r + ")"
		default:
			return f.bad("comparison of these kinds"), kBool
		}
		if x.Op == token.NEQ {
			t = "(negb " + t + ")"
		}
		return t, kBool
	}
	return f.bad("binary " + x.Op.String()), kUnknown
}

// The recursive root updates maps and slices below its argument in place and hands back the new
// value; the functional rendering only has the returned value.  A variable handed to it must
// therefore not be read again afterwards (unless it was assigned anew in between, as in
// x, err = f(x)): otherwise the source is outside the subset.
func (f *fn) checkNotReadAgain(n string, c *ast.CallExpr) {
	body := f.info.decl.Body
	var loop ast.Node
	if len(f.loops) > 0 {
		if l := f.loops[len(f.loops)-1].node; l != nil && declPos[f.info.decl][n] < l.Pos() {
			loop = l // declared outside the loop the call is in: every read in the loop may come later
		}
	}
	var assigns []token.Pos // ends of the plain assignments to n
	ast.Inspect(body, func(x ast.Node) bool {
		if as, ok := x.(*ast.AssignStmt); ok {
			for _, l := range as.Lhs {
				if ident(l) == n {
					assigns = append(assigns, as.End())
				}
			}
		}
		return true
	})
	var visit func(x ast.Node) bool
	visit = func(x ast.Node) bool {
		switch s := x.(type) {
		case *ast.AssignStmt:
			for _, r := range s.Rhs {
				ast.Inspect(r, visit)
			}
			for _, l := range s.Lhs {
				if _, ok := l.(*ast.Ident); !ok {
					ast.Inspect(l, visit)
				}
			}
			return false
		case *ast.SelectorExpr:
			ast.Inspect(s.X, visit)
			return false
		case *ast.Ident:
			if s.Name != n || (s.Pos() >= c.Pos() && s.End() <= c.End()) {
				return true
			}
			stale := false
			if s.Pos() > c.End() {
				stale = true
				for _, a := range assigns {
					if a >= c.End() && a <= s.Pos() {
						stale = false
					}
				}
			} else if loop != nil && s.Pos() >= loop.Pos() && s.End() <= loop.End() {
				stale = true
			}
			if stale {
				f.bad("a value read again after it was handed to the recursive call that updates it in place")
			}
		}
		return true
	}
	ast.Inspect(body, visit)
}
