package main

import (
	"go/ast"
	"strings"
)

// kind: what a Go value of the translated subset is rendered as in Gallina.
type kind int

const (
	kUnknown  kind = iota
	kAny           // decoded yaml value (tree)
	kMap           // map[string]any
	kSlice         // []any
	kStrSlice      // []string, [N]string
	kKeys          // set.Set[string]
	kDimPtr        // *dimension
	kDims          // []*dimension
	kErr           // error (true = non-nil)
	kBool
	kString
	kEnum // genum.Enum: index of the constant
	kInt
	kT         // a value of the type parameter T (cache set)
	kDval      // a Go `any` held by the memo: dynamic type + payload (cache set)
	kCfg       // *Config
	kCacheKey  // cacheKey
	kTemplate  // an element of the package's template list
	kTemplates // the template list
	kBuilder   // *Builder: its ordered dimensions
	kBytes     // []byte holding yaml text: what it decodes to
	kDimVals   // map[reflect.Type]genum.Enum
	kClosure   // a function literal bound to a local name
)

func (k kind) coq() string {
	switch k {
	case kAny:
		return "tree"
	case kMap:
		return "gomap"
	case kSlice:
		return "list tree"
	case kStrSlice, kKeys:
		return "list string"
	case kDimPtr:
		return "dimptr"
	case kDims, kBuilder:
		return "list dimptr"
	case kErr, kBool:
		return "bool"
	case kString:
		return "string"
	case kEnum, kInt:
		return "nat"
	case kT:
		return "val"
	case kDval:
		return "dval ty"
	case kCacheKey:
		return "(string * ty)"
	case kBytes:
		return "ybytes"
	case kDimVals:
		return "dimvals"
	case kCfg:
		return "config"
	case kTemplate:
		return "unit"
	}
	return "UNSUPPORTED_type"
}

func (k kind) zero() string {
	switch k {
	case kAny:
		return "Null"
	case kMap, kSlice, kStrSlice, kKeys, kDims, kDimVals:
		return "[]"
	case kDimPtr:
		return "None"
	case kErr, kBool:
		return "false"
	case kString:
		return "EmptyString"
	case kEnum, kInt:
		return "0"
	case kT:
		return "zeroT"
	case kDval:
		return "(nil_dval ty)"
	case kCfg:
		return "nil_config"
	}
	return "UNSUPPORTED_zero"
}

// per-set interpretation of `any` and of the type parameter
type mode struct {
	anyKind       kind // kAny (decoded yaml) or kDval (memo value)
	typeParamKind kind // kT (abstract val) or kAny (templates set: T is a decoded yaml value)
}

func (m mode) typeKind(t ast.Expr, typeParam string) kind {
	switch x := t.(type) {
	case *ast.Ident:
		if typeParam != "" && x.Name == typeParam {
			return m.typeParamKind
		}
		switch x.Name {
		case "any":
			return m.anyKind
		case "error":
			return kErr
		case "bool":
			return kBool
		case "string":
			return kString
		case "int":
			return kInt
		case "envVarTmpl":
			return kTemplate
		case "cacheKey":
			return kCacheKey
		}
	case *ast.InterfaceType:
		return m.anyKind
	case *ast.MapType:
		if m.typeKind(x.Key, typeParam) == kString && ident(x.Value) == "any" {
			return kMap
		}
		if sel, ok := x.Key.(*ast.SelectorExpr); ok && sel.Sel.Name == "Type" {
			return kDimVals
		}
	case *ast.ArrayType:
		switch m.typeKind(x.Elt, typeParam) {
		case kString:
			return kStrSlice
		case kDimPtr:
			if x.Len == nil {
				return kDims
			}
		}
		if x.Len == nil && ident(x.Elt) == "any" {
			return kSlice
		}
		if x.Len == nil && ident(x.Elt) == "byte" {
			return kBytes
		}
	case *ast.StarExpr:
		switch ident(x.X) {
		case "dimension":
			return kDimPtr
		case "Config":
			return kCfg
		case "Builder":
			return kBuilder
		}
	case *ast.IndexExpr: // set.Set[string]
		if sel, ok := x.X.(*ast.SelectorExpr); ok && sel.Sel.Name == "Set" && m.typeKind(x.Index, typeParam) == kString {
			return kKeys
		}
	case *ast.SelectorExpr: // genum.Enum
		if x.Sel.Name == "Enum" {
			return kEnum
		}
	}
	return kUnknown
}

func ident(e ast.Expr) string {
	switch x := e.(type) {
	case *ast.Ident:
		return x.Name
	case *ast.ParenExpr:
		return ident(x.X)
	}
	return ""
}

// selector chain a.b.c -> ["a","b","c"]
func chain(e ast.Expr) []string {
	switch x := e.(type) {
	case *ast.Ident:
		return []string{x.Name}
	case *ast.SelectorExpr:
		if c := chain(x.X); c != nil {
			return append(c, x.Sel.Name)
		}
	}
	return nil
}

func isErrFactory(name string) bool { return strings.HasPrefix(name, "Err") }

func isPlainASCII(s string) bool {
	for i := 0; i < len(s); i++ {
		if s[i] < 32 || s[i] > 126 {
			return false
		}
	}
	return true
}

func sanitize(what string) string {
	return strings.Map(func(r rune) rune {
		if r >= 'a' && r <= 'z' || r >= 'A' && r <= 'Z' || r >= '0' && r <= '9' {
			return r
		}
		return '_'
	}, what)
}

func tuple(vars []string) string {
	switch len(vars) {
	case 0:
		return "tt"
	case 1:
		return "v_" + vars[0]
	}
	parts := make([]string, len(vars))
	for i, v := range vars {
		parts[i] = "v_" + v
	}
	return "(" + strings.Join(parts, ", ") + ")"
}

// binder for a lambda over the state tuple
func statePat(vars []string) string {
	switch len(vars) {
	case 0:
		return "(_ : unit)"
	case 1:
		return "v_" + vars[0]
	}
	return "'" + tuple(vars)
}

// pattern for a match branch over the state tuple
func stateBranchPat(vars []string) string {
	switch len(vars) {
	case 0:
		return "_"
	}
	return tuple(vars)
}

func exitN(term string, n int) string {
	for i := 0; i < n; i++ {
		term = "Exit (" + term + ")"
	}
	return term
}

func containsToken(text, tok string) bool {
	for i := 0; ; {
		j := strings.Index(text[i:], tok)
		if j < 0 {
			return false
		}
		end := i + j + len(tok)
		if end >= len(text) || !(text[end] >= '0' && text[end] <= '9' || text[end] >= 'a' && text[end] <= 'z' || text[end] >= 'A' && text[end] <= 'Z' || text[end] == '_' || text[end] == '\'') {
			return true
		}
		i = end
	}
}
