package main

import (
	"fmt"
	"go/ast"
	"go/token"
)

// Canonical local names.  Before a function is translated every variable it declares —
// receiver, parameters, named results, `:=` and `var` declarations, range variables, the
// variable bound by a type switch, parameters and results of function literals — is renamed to
// x1, x2, ... in order of declaration, with Go's block scoping (a redeclaration in an inner block
// is a different variable and gets a different number).  Consequences: renaming a local or a
// parameter in the source leaves the generated file byte-identical, and an inner declaration
// can never capture a reference to an outer variable in the continuation-style output.

type scope struct {
	parent *scope
	names  map[string]string
}

type renamer struct {
	cur  *scope
	n    int
	decl map[string]token.Pos // canonical name -> where it is declared
}

// where the canonical locals of every renamed function are declared
var declPos = map[*ast.FuncDecl]map[string]token.Pos{}

func (r *renamer) push() { r.cur = &scope{parent: r.cur, names: map[string]string{}} }
func (r *renamer) pop()  { r.cur = r.cur.parent }

func (r *renamer) declare(id *ast.Ident) {
	if id == nil || id.Name == "_" {
		return
	}
	r.n++
	c := fmt.Sprintf("x%d", r.n)
	r.cur.names[id.Name] = c
	r.decl[c] = id.Pos()
	id.Name = c
}

func (r *renamer) use(id *ast.Ident) {
	for s := r.cur; s != nil; s = s.parent {
		if c, ok := s.names[id.Name]; ok {
			id.Name = c
			return
		}
	}
}

func (r *renamer) fieldList(fl *ast.FieldList) {
	if fl == nil {
		return
	}
	for _, f := range fl.List {
		for _, n := range f.Names {
			r.declare(n)
		}
	}
}

func renameLocals(fd *ast.FuncDecl) {
	r := &renamer{decl: map[string]token.Pos{}}
	declPos[fd] = r.decl
	r.push()
	r.fieldList(fd.Recv)
	r.fieldList(fd.Type.Params)
	r.fieldList(fd.Type.Results)
	r.stmts(fd.Body.List)
	r.pop()
}

func (r *renamer) stmts(list []ast.Stmt) {
	for _, s := range list {
		r.stmt(s)
	}
}

func (r *renamer) block(b *ast.BlockStmt) {
	if b == nil {
		return
	}
	r.push()
	r.stmts(b.List)
	r.pop()
}

func (r *renamer) stmt(s ast.Stmt) {
	switch s := s.(type) {
	case nil:
	case *ast.AssignStmt:
		for _, e := range s.Rhs {
			r.expr(e)
		}
		for _, l := range s.Lhs {
			id, isId := l.(*ast.Ident)
			if s.Tok == token.DEFINE && isId {
				if _, here := r.cur.names[id.Name]; here {
					r.use(id) // already declared in this very block: `:=` assigns it
				} else {
					r.declare(id)
				}
				continue
			}
			r.expr(l)
		}
	case *ast.DeclStmt:
		if gd, ok := s.Decl.(*ast.GenDecl); ok {
			for _, sp := range gd.Specs {
				if vs, ok := sp.(*ast.ValueSpec); ok {
					for _, v := range vs.Values {
						r.expr(v)
					}
					for _, n := range vs.Names {
						r.declare(n)
					}
				}
			}
		}
	case *ast.ExprStmt:
		r.expr(s.X)
	case *ast.ReturnStmt:
		for _, e := range s.Results {
			r.expr(e)
		}
	case *ast.IncDecStmt:
		r.expr(s.X)
	case *ast.BlockStmt:
		r.block(s)
	case *ast.LabeledStmt:
		r.stmt(s.Stmt)
	case *ast.IfStmt:
		r.push()
		r.stmt(s.Init)
		r.expr(s.Cond)
		r.block(s.Body)
		r.stmt(s.Else)
		r.pop()
	case *ast.RangeStmt:
		r.expr(s.X)
		r.push()
		for _, e := range []ast.Expr{s.Key, s.Value} {
			if e == nil {
				continue
			}
			if id, ok := e.(*ast.Ident); ok && s.Tok == token.DEFINE {
				r.declare(id)
			} else {
				r.expr(e)
			}
		}
		r.block(s.Body)
		r.pop()
	case *ast.ForStmt:
		r.push()
		r.stmt(s.Init)
		r.expr(s.Cond)
		r.stmt(s.Post)
		r.block(s.Body)
		r.pop()
	case *ast.SwitchStmt:
		r.push()
		r.stmt(s.Init)
		r.expr(s.Tag)
		for _, c := range s.Body.List {
			cc := c.(*ast.CaseClause)
			for _, e := range cc.List {
				r.expr(e)
			}
			r.push()
			r.stmts(cc.Body)
			r.pop()
		}
		r.pop()
	case *ast.TypeSwitchStmt:
		r.push()
		r.stmt(s.Init)
		orig, canon := "", ""
		switch a := s.Assign.(type) {
		case *ast.AssignStmt: // switch v := x.(type): v is declared afresh in every clause
			if ta, ok := a.Rhs[0].(*ast.TypeAssertExpr); ok {
				r.expr(ta.X)
			}
			if id, ok := a.Lhs[0].(*ast.Ident); ok {
				orig = id.Name
				r.n++
				canon = fmt.Sprintf("x%d", r.n)
				id.Name = canon
			}
		case *ast.ExprStmt:
			r.expr(a.X)
		}
		for _, c := range s.Body.List {
			cc := c.(*ast.CaseClause)
			r.push()
			if orig != "" {
				r.cur.names[orig] = canon
			}
			r.stmts(cc.Body)
			r.pop()
		}
		r.pop()
	case *ast.DeferStmt:
		r.expr(s.Call)
	case *ast.GoStmt:
		r.expr(s.Call)
	}
}

func (r *renamer) expr(e ast.Expr) {
	switch x := e.(type) {
	case nil:
	case *ast.Ident:
		r.use(x)
	case *ast.ParenExpr:
		r.expr(x.X)
	case *ast.UnaryExpr:
		r.expr(x.X)
	case *ast.StarExpr:
		r.expr(x.X)
	case *ast.BinaryExpr:
		r.expr(x.X)
		r.expr(x.Y)
	case *ast.CallExpr:
		r.expr(x.Fun)
		for _, a := range x.Args {
			r.expr(a)
		}
	case *ast.SelectorExpr:
		r.expr(x.X) // never the selected field or method
	case *ast.IndexExpr:
		r.expr(x.X)
		r.expr(x.Index)
	case *ast.SliceExpr:
		r.expr(x.X)
		r.expr(x.Low)
		r.expr(x.High)
		r.expr(x.Max)
	case *ast.TypeAssertExpr:
		r.expr(x.X)
	case *ast.KeyValueExpr:
		r.expr(x.Value) // keys of the struct literals in these sources are field names
	case *ast.CompositeLit:
		for _, el := range x.Elts {
			r.expr(el)
		}
	case *ast.FuncLit:
		r.push()
		r.fieldList(x.Type.Params)
		r.fieldList(x.Type.Results)
		r.stmts(x.Body.List)
		r.pop()
	}
}

// declKey: "Recv.name" for methods, "name" for functions
func declKey(fd *ast.FuncDecl) string {
	if fd.Recv != nil && len(fd.Recv.List) == 1 {
		t := fd.Recv.List[0].Type
		if st, ok := t.(*ast.StarExpr); ok {
			t = st.X
		}
		if id, ok := t.(*ast.Ident); ok {
			return id.Name + "." + fd.Name.Name
		}
	}
	return fd.Name.Name
}
