// xlate_gconf — translator ties (T) for C03, C16 and C10: reads gconfig/builder.go, config.go and
// yaml_templates.go of the current tree with go/parser and regenerates Gallina definitions
//
//	-set resolve    keySet, parsesAll, switchDimension, reduceAny, extract   (GT.GConfGenPrims)
//	-set templates  MatchAndResolve, parseTemplatedElements                   (GT.TmplGenPrims)
//	-set cache      getFromCache                                              (GT.GConfCacheGenPrims)
//
// A recursive function is rendered as a functional of its own recursive call (first parameter
// `rec`), so its tie is the recursion equation read off the source.  Functions are located by
// their place in the call graph below FromBytes / Get (rename.go: resolveRoles), locals are
// renamed to x1, x2, ... by declaration with Go's block scoping (rename.go: renameLocals), the
// `default` key constant, the compiled-pattern variable and the template list are found by their
// initialisers: renaming any of these leaves the output unchanged.
//
// Supported subset: `x := e`, `x = e`, `a, b[, c] := f(..)`, `a, b := m[k]`, `a, b = x.(map[string]any)`,
// `m[k], err = f(..)`, `var x T`, `m[k] = e` / `s[i] = e` (also through the variable bound by a type
// switch, which aliases the switched value), method statement `set.Add(k)`,
// `if [init;] c {..} [else {..} | else if ..]`, `for k[, v] := range map|slice|set|templates` with
// `continue` and early `return`, `switch v := x.(type)` / `any(x).(type)` over string /
// map[string]any / []any, `return ...` (incl. `return f(..)` and `return v.(T), e`), named results,
// `len`, `make(set.Set[string], n)`, `==`, `!=`, `<`, `-`, `!`, `&&`, `||`, `nil`, integer and string
// literals, true/false, slice indexing `s[i]`, calls of the translated functions, dimension methods
// get / defaultVal.ParseGeneric, error factories (Err*.Msg(..), gerror.*: some non-nil error),
// FindStringSubmatch / os.LookupEnv / strings.Trim, `cacheKey{key: .., typ: reflect.TypeFor[T]()}`,
// `cfg.cached.Compute(k, func..)` with a function literal assigning a captured variable,
// `extractAndConvert[T](cfg.data, key)`, `any(e)` and `any(e).(T)`.  Anything else is rendered as
// UNSUPPORTED_<what>, which makes the generated file fail to compile and breaks the tie.
//
//	xlate_gconf -src <repo>/gconfig [-set resolve|templates|cache] -out <file>.v
package main

import (
	"flag"
	"fmt"
	"go/ast"
	"go/parser"
	"go/token"
	"os"
	"path/filepath"
	"sort"
	"strconv"
	"strings"
)

type kind int

const (
	kUnknown kind = iota
	kAny
	kMap
	kSlice
	kStrSlice
	kKeys
	kDimPtr
	kDims
	kErr
	kBool
	kString
	kEnum
	kInt
	kT        // a value of the type parameter T (cache set)
	kDval     // a Go `any` held by the memo: dynamic type + payload (cache set)
	kCfg      // *Config
	kCacheKey // cacheKey
	kTemplate // an element of the package's template list (templates set)
	kTemplates
)

// what a value of the type parameter is rendered as (kT = abstract `val`; the templates set
// instantiates it with decoded yaml values, i.e. trees)
var typeParamKind = kT

// the package variable holding the templates ([]templateVariable{&envVarTmpl{}}) and its length
var (
	templatesVar = ""
	templatesLen = 0
)

// in the cache set `any` is a memo value (kDval), elsewhere a decoded yaml value (kAny)
var anyKind = kAny

// name of the type parameter of the generic function being translated ("" if none)
var typeParam string

func (k kind) coq() string {
	switch k {
	case kAny:
		return "tree"
	case kMap:
		return "gomap"
	case kSlice:
		return "list tree"
	case kStrSlice, kKeys:
		return "list string"
	case kDimPtr:
		return "dimptr"
	case kDims:
		return "list dimptr"
	case kErr, kBool:
		return "bool"
	case kString:
		return "string"
	case kEnum, kInt:
		return "nat"
	case kT:
		return "val"
	case kDval:
		return "dval ty"
	case kCacheKey:
		return "(string * ty)"
	}
	return "UNSUPPORTED_type"
}

func (k kind) zero() string {
	switch k {
	case kAny:
		return "Null"
	case kMap, kSlice, kStrSlice, kKeys, kDims:
		return "[]"
	case kDimPtr:
		return "None"
	case kErr, kBool:
		return "false"
	case kString:
		return "EmptyString"
	case kEnum, kInt:
		return "0"
	case kT:
		return "zeroT"
	case kDval:
		return "(nil_dval ty)"
	}
	return "UNSUPPORTED_zero"
}

func typeKind(t ast.Expr) kind {
	switch x := t.(type) {
	case *ast.Ident:
		if typeParam != "" && x.Name == typeParam {
			return typeParamKind
		}
		switch x.Name {
		case "any":
			return anyKind
		case "error":
			return kErr
		case "bool":
			return kBool
		case "string":
			return kString
		case "int":
			return kInt
		}
	case *ast.InterfaceType:
		return kAny
	case *ast.MapType:
		if typeKind(x.Key) == kString && typeKind(x.Value) == kAny {
			return kMap
		}
	case *ast.ArrayType:
		if x.Len == nil {
			switch typeKind(x.Elt) {
			case kAny:
				return kSlice
			case kString:
				return kStrSlice
			case kDimPtr:
				return kDims
			}
		}
	case *ast.StarExpr:
		if id, ok := x.X.(*ast.Ident); ok && id.Name == "dimension" {
			return kDimPtr
		}
		if id, ok := x.X.(*ast.Ident); ok && id.Name == "Config" {
			return kCfg
		}
	case *ast.IndexExpr: // set.Set[string]
		if sel, ok := x.X.(*ast.SelectorExpr); ok && sel.Sel.Name == "Set" && typeKind(x.Index) == kString {
			return kKeys
		}
	case *ast.SelectorExpr: // genum.Enum
		if x.Sel.Name == "Enum" {
			return kEnum
		}
	}
	return kUnknown
}

type sig struct {
	role    string
	params  []kind
	results []kind
	rec     bool
}

// names found in the source rather than assumed (so that renaming them does not break the tie)
var (
	roleGo         = map[string]string{} // role -> declaration key ("name" or "Recv.name")
	defaultKeyName = "defaultKey"        // the string constant whose value is "default"
	matcherVar     = "envVarTmplMatcher" // the variable initialised by regexp.MustCompile
)

var sigs = map[string]*sig{}

type alias struct {
	of  string
	inj string
}

type fn struct {
	stateful bool // the function threads the memo (`cache`) and may panic: results are option (cache * ...)
	usesEnv  bool
	name     string
	env      map[string]kind
	aliases  map[string]alias
	results  []kind
	problems []string
	retWrap  func(string) string
}

func (f *fn) bad(what string) string {
	f.problems = append(f.problems, what)
	return "UNSUPPORTED_" + strings.Map(func(r rune) rune {
		if r >= 'a' && r <= 'z' || r >= 'A' && r <= 'Z' || r >= '0' && r <= '9' {
			return r
		}
		return '_'
	}, what)
}

func isPlainASCII(s string) bool {
	for i := 0; i < len(s); i++ {
		if s[i] < 32 || s[i] > 126 {
			return false
		}
	}
	return true
}

func ident(e ast.Expr) string {
	switch x := e.(type) {
	case *ast.Ident:
		return x.Name
	case *ast.ParenExpr:
		return ident(x.X)
	}
	return ""
}

// selector chain a.b.c -> ["a","b","c"]
func chain(e ast.Expr) []string {
	switch x := e.(type) {
	case *ast.Ident:
		return []string{x.Name}
	case *ast.SelectorExpr:
		if c := chain(x.X); c != nil {
			return append(c, x.Sel.Name)
		}
	}
	return nil
}

func isErrFactory(name string) bool { return strings.HasPrefix(name, "Err") }

// callInfo classifies a call: the Gallina term and the kinds of its results.
func (f *fn) call(c *ast.CallExpr) (string, []kind) {
	args := func() []string {
		out := make([]string, len(c.Args))
		for i, a := range c.Args {
			out[i], _ = f.expr(a, kUnknown)
		}
		return out
	}
	if id, ok := c.Fun.(*ast.Ident); ok {
		switch id.Name {
		case "len":
			if len(c.Args) == 1 {
				a, k := f.expr(c.Args[0], kUnknown)
				switch k {
				case kMap, kSlice, kStrSlice, kKeys, kDims:
					return "(List.length " + a + ")", []kind{kInt}
				}
			}
			return f.bad("len"), []kind{kInt}
		case "make":
			if len(c.Args) >= 1 && typeKind(c.Args[0]) == kKeys {
				return "keys_empty", []kind{kKeys}
			}
			return f.bad("make"), []kind{kUnknown}
		}
		if s, ok := sigs[id.Name]; ok {
			a := args()
			if id.Name == f.name && s.rec {
				return "(rec " + strings.Join(a, " ") + ")", s.results
			}
			return "(gen_" + s.role + " " + strings.Join(a, " ") + ")", s.results
		}
		return f.bad("call of " + id.Name), []kind{kUnknown}
	}
	if ix, ok := c.Fun.(*ast.IndexExpr); ok { // explicit instantiation f[T](...)
		if typeParam != "" && ident(ix.Index) == typeParam {
			target := strings.Join(chain(ix.X), ".")
			if target == roleGo["extractAndConvert"] {
				target = "extractAndConvert"
			}
			switch target {
			case "extractAndConvert": // extractAndConvert[T](cfg.data, key), boxed into `any` by the assignment
				if a0 := chain(c.Args[0]); len(c.Args) == 2 && len(a0) == 2 && f.env[a0[0]] == kCfg && a0[1] == "data" {
					a, _ := f.expr(c.Args[1], kString)
					return "(extract_and_convert is_iface dyn_of_any conv tyT " + a + ")", []kind{kDval, kErr}
				}
			case "reflect.TypeFor":
				if len(c.Args) == 0 {
					return "tyT", []kind{kUnknown}
				}
			}
		}
		return f.bad("instantiated call"), []kind{kUnknown}
	}
	ch := chain(c.Fun)
	if ch == nil {
		return f.bad("call"), []kind{kUnknown}
	}
	if isErrFactory(ch[0]) || ch[0] == "gerror" { // ErrFailedParsing.Msg(...): some non-nil error
		return "true", []kind{kErr}
	}
	joined := strings.Join(ch, ".")
	if len(ch) == 2 && ch[0] == matcherVar {
		joined = "envVarTmplMatcher." + ch[1]
	}
	switch joined {
	case "envVarTmplMatcher.FindStringSubmatch":
		if len(c.Args) == 1 {
			a, _ := f.expr(c.Args[0], kString)
			return "(find_submatch " + a + ")", []kind{kStrSlice}
		}
	case "os.LookupEnv":
		if len(c.Args) == 1 {
			a, _ := f.expr(c.Args[0], kString)
			f.usesEnv = true
			return "(os_lookup_env env " + a + ")", []kind{kString, kBool}
		}
	case "strings.Trim":
		if len(c.Args) == 2 {
			a, _ := f.expr(c.Args[0], kString)
			b, _ := f.expr(c.Args[1], kString)
			return "(strings_trim " + a + " " + b + ")", []kind{kString}
		}
	}
	recv, rk := ch[0], f.env[ch[0]]
	if rk == kTemplate && len(ch) == 2 {
		if sg, ok := sigs[roleGo[ch[1]]]; ok && ch[1] == "MatchAndResolve" {
			f.usesEnv = true
			return "(gen_" + sg.role + " env " + strings.Join(args(), " ") + ")", sg.results
		}
	}
	switch {
	case rk == kDimPtr && len(ch) == 2 && ch[1] == "get" && len(c.Args) == 0:
		return "(dim_get v_" + recv + ")", []kind{kEnum}
	case rk == kDimPtr && len(ch) == 3 && ch[1] == "defaultVal" && ch[2] == "ParseGeneric" && len(c.Args) == 1:
		a, _ := f.expr(c.Args[0], kString)
		return "(parse_generic v_" + recv + " " + a + ")", []kind{kEnum, kErr}
	case rk == kDimPtr && len(ch) == 2:
		if s, ok := sigs["dimension."+ch[1]]; ok {
			return "(gen_" + s.role + " v_" + recv + " " + strings.Join(args(), " ") + ")", s.results
		}
	}
	return f.bad("method call " + strings.Join(ch, ".")), []kind{kUnknown}
}

// expr renders an expression; want is the kind expected by the context (for nil).
func (f *fn) expr(e ast.Expr, want kind) (string, kind) {
	switch x := e.(type) {
	case *ast.ParenExpr:
		return f.expr(x.X, want)
	case *ast.Ident:
		switch x.Name {
		case "true", "false":
			return x.Name, kBool
		case "nil":
			return want.zero(), want
		}
		if x.Name == defaultKeyName {
			return "default_key", kString
		}
		if templatesVar != "" && x.Name == templatesVar && f.env[x.Name] == kUnknown {
			return "(repeat tt " + strconv.Itoa(templatesLen) + ")", kTemplates
		}
		k := f.env[x.Name]
		if k == kUnknown {
			return f.bad("identifier " + x.Name), kUnknown
		}
		v := "v_" + x.Name
		// a map or slice handed on as `any`
		if want == kAny && k == kMap {
			return "(Mp " + v + ")", kAny
		}
		if want == kAny && k == kSlice {
			return "(Lst " + v + ")", kAny
		}
		if want == kAny && k == kString {
			return "(Str " + v + ")", kAny
		}
		return v, k
	case *ast.BasicLit:
		if x.Kind == token.INT {
			return x.Value, kInt
		}
		if x.Kind == token.STRING {
			if v, err := strconv.Unquote(x.Value); err == nil && isPlainASCII(v) {
				return "\"" + strings.ReplaceAll(v, "\"", "\"\"") + "\"%string", kString
			}
		}
		return f.bad("literal"), kUnknown
	case *ast.CompositeLit:
		if id := ident(x.Type); id == "cacheKey" && len(x.Elts) == 2 {
			var key, typ string
			for _, e := range x.Elts {
				kv, ok := e.(*ast.KeyValueExpr)
				if !ok {
					return f.bad("composite literal element"), kUnknown
				}
				switch ident(kv.Key) {
				case "key":
					key, _ = f.expr(kv.Value, kString)
				case "typ":
					typ, _ = f.expr(kv.Value, kUnknown)
				}
			}
			if key != "" && typ != "" {
				return "(" + key + ", " + typ + ")", kCacheKey
			}
		}
		return f.bad("composite literal"), kUnknown
	case *ast.IndexExpr:
		a, k := f.expr(x.X, kUnknown)
		i, ik := f.expr(x.Index, kInt)
		if k == kStrSlice && ik == kInt {
			return "(str_nth " + a + " " + i + ")", kString
		}
		return f.bad("index expression"), kUnknown
	case *ast.UnaryExpr:
		if x.Op == token.NOT {
			a, _ := f.expr(x.X, kBool)
			return "(negb " + a + ")", kBool
		}
		return f.bad("unary " + x.Op.String()), kUnknown
	case *ast.BinaryExpr:
		// comparisons with nil
		if id := ident(x.Y); id == "nil" && (x.Op == token.EQL || x.Op == token.NEQ) {
			a, k := f.expr(x.X, kUnknown)
			if k == kErr {
				if x.Op == token.NEQ {
					return a, kBool
				}
				return "(negb " + a + ")", kBool
			}
			if k == kDval {
				if x.Op == token.EQL {
					return "(dval_is_nil " + a + ")", kBool
				}
				return "(negb (dval_is_nil " + a + "))", kBool
			}
			return f.bad("nil comparison"), kBool
		}
		l, lk := f.expr(x.X, kUnknown)
		r, rk := f.expr(x.Y, lk)
		switch x.Op {
		case token.LAND:
			return "(andb " + l + " " + r + ")", kBool
		case token.LOR:
			return "(orb " + l + " " + r + ")", kBool
		case token.SUB:
			if lk == kInt && rk == kInt {
				return "(" + l + " - " + r + ")", kInt
			}
		case token.LSS:
			if lk == kInt && rk == kInt {
				return "(Nat.ltb " + l + " " + r + ")", kBool
			}
		case token.EQL, token.NEQ:
			var t string
			switch {
			case lk == kString && rk == kString:
				t = "(String.eqb " + l + " " + r + ")"
			case (lk == kInt || lk == kEnum) && lk == rk:
				t = "(Nat.eqb " + l + " " + r + ")"
			default:
				return f.bad("comparison of these kinds"), kBool
			}
			if x.Op == token.NEQ {
				t = "(negb " + t + ")"
			}
			return t, kBool
		}
		return f.bad("binary " + x.Op.String()), kUnknown
	case *ast.CallExpr:
		if id := ident(x.Fun); id == "any" && len(x.Args) == 1 { // conversion to an interface value
			return f.expr(x.Args[0], kAny)
		}
		t, ks := f.call(x)
		if len(ks) == 1 {
			return t, ks[0]
		}
		return t, kUnknown
	case *ast.TypeAssertExpr:
		// any(e).(T) with T the type parameter, instantiated with `any` wherever this is reached
		if typeParam != "" && ident(x.Type) == typeParam && typeParamKind == kAny {
			if c, ok := x.X.(*ast.CallExpr); ok && ident(c.Fun) == "any" && len(c.Args) == 1 {
				return f.expr(c.Args[0], kAny)
			}
		}
		return f.bad("type assertion"), kUnknown
	}
	return f.bad(fmt.Sprintf("expr %T", e)), kUnknown
}

// assigned lists the variables (already in scope) a statement list assigns, sorted; index
// assignments count for the indexed variable and for what it aliases.
func (f *fn) assigned(list []ast.Stmt) []string {
	set := map[string]bool{}
	declared := map[string]bool{}
	mark := func(name string) {
		if name == "" || name == "_" || declared[name] {
			return
		}
		set[name] = true
		if a, ok := f.aliases[name]; ok {
			set[a.of] = true
		}
	}
	for _, s := range list {
		ast.Inspect(s, func(n ast.Node) bool {
			switch s := n.(type) {
			case *ast.AssignStmt:
				for _, l := range s.Lhs {
					if ix, ok := l.(*ast.IndexExpr); ok {
						mark(ident(ix.X))
						continue
					}
					name := ident(l)
					if s.Tok == token.DEFINE {
						declared[name] = true
					} else {
						mark(name)
					}
				}
			case *ast.DeclStmt:
				if gd, ok := s.Decl.(*ast.GenDecl); ok {
					for _, sp := range gd.Specs {
						if vs, ok := sp.(*ast.ValueSpec); ok {
							for _, n := range vs.Names {
								declared[n.Name] = true
							}
						}
					}
				}
			case *ast.RangeStmt:
				if s.Tok == token.DEFINE {
					declared[ident(s.Key)] = true
					if s.Value != nil {
						declared[ident(s.Value)] = true
					}
				}
			case *ast.ExprStmt:
				if c, ok := s.X.(*ast.CallExpr); ok {
					if ch := chain(c.Fun); len(ch) == 2 && ch[1] == "Add" {
						mark(ch[0])
					}
				}
			}
			return true
		})
	}
	out := make([]string, 0, len(set))
	for k := range set {
		out = append(out, k)
	}
	// loop-carried variables are ordered by kind, then by declaration (canonical names are
	// x<N>), so that reordering independent declarations does not reorder the state tuple
	sort.Slice(out, func(i, j int) bool {
		if ki, kj := f.env[out[i]], f.env[out[j]]; ki != kj {
			return ki < kj
		}
		a, ea := strconv.Atoi(strings.TrimPrefix(out[i], "x"))
		b, eb := strconv.Atoi(strings.TrimPrefix(out[j], "x"))
		if ea == nil && eb == nil {
			return a < b
		}
		return out[i] < out[j]
	})
	return out
}

func tuple(vars []string) string {
	switch len(vars) {
	case 0:
		return "tt"
	case 1:
		return "v_" + vars[0]
	}
	parts := make([]string, len(vars))
	for i, v := range vars {
		parts[i] = "v_" + v
	}
	return "(" + strings.Join(parts, ", ") + ")"
}

func pat(vars []string) string {
	switch len(vars) {
	case 0:
		return "_"
	case 1:
		return "v_" + vars[0]
	}
	return "'" + tuple(vars)
}

func returns(list []ast.Stmt) bool {
	found := false
	for _, s := range list {
		ast.Inspect(s, func(n ast.Node) bool {
			if _, ok := n.(*ast.ReturnStmt); ok {
				found = true
			}
			return true
		})
	}
	return found
}

func (f *fn) ret(v string) string {
	if f.retWrap != nil {
		return f.retWrap(v)
	}
	return v
}

func lhsName(e ast.Expr) string {
	n := ident(e)
	if n == "_" {
		return "_"
	}
	return "v_" + n
}

// stmts renders a statement list in continuation style: k = the term for falling off the end,
// loopK = the term for `continue` ("" outside loops).
func (f *fn) stmts(list []ast.Stmt, k, loopK, ind string) string {
	if len(list) == 0 {
		return k
	}
	rest := func() string { return f.stmts(list[1:], k, loopK, ind) }
	let := func(p, v string) string { return "let " + p + " := " + v + " in\n" + ind + rest() }
	switch s := list[0].(type) {
	case *ast.DeclStmt:
		gd, ok := s.Decl.(*ast.GenDecl)
		if !ok || gd.Tok != token.VAR || len(gd.Specs) != 1 {
			return f.bad("declaration")
		}
		vs := gd.Specs[0].(*ast.ValueSpec)
		if len(vs.Names) != 1 || len(vs.Values) != 0 {
			return f.bad("var form")
		}
		kd := typeKind(vs.Type)
		f.env[vs.Names[0].Name] = kd
		return let("v_"+vs.Names[0].Name, kd.zero())
	case *ast.AssignStmt:
		if s.Tok != token.DEFINE && s.Tok != token.ASSIGN {
			return f.bad("assignment operator")
		}
		if len(s.Lhs) > 2 && len(s.Rhs) == 1 { // a, b, c := f(...)
			c, ok := s.Rhs[0].(*ast.CallExpr)
			if !ok {
				return f.bad("multi-value assignment")
			}
			term, ks := f.call(c)
			if len(ks) != len(s.Lhs) {
				return f.bad("multi-value assignment arity")
			}
			names := make([]string, len(s.Lhs))
			for i, l := range s.Lhs {
				if n := ident(l); n != "_" && n != "" {
					f.env[n] = ks[i]
				}
				names[i] = lhsName(l)
			}
			return let("'("+strings.Join(names, ", ")+")", term)
		}
		if len(s.Lhs) == 2 && len(s.Rhs) == 1 {
			if ix, isIx := s.Lhs[0].(*ast.IndexExpr); isIx { // m[k], err = f(...)
				c, ok := s.Rhs[0].(*ast.CallExpr)
				if !ok {
					return f.bad("index target in a two-value assignment")
				}
				term, ks := f.call(c)
				if len(ks) != 2 {
					return f.bad("two-value assignment arity")
				}
				if n := ident(s.Lhs[1]); n != "_" && n != "" {
					f.env[n] = ks[1]
				}
				name := ident(ix.X)
				var upd string
				switch f.env[name] {
				case kMap:
					i, _ := f.expr(ix.Index, kString)
					upd = "map_set v_" + name + " " + i + " t_new"
				case kSlice:
					i, _ := f.expr(ix.Index, kInt)
					upd = "slice_set v_" + name + " " + i + " t_new"
				default:
					return f.bad("index assignment")
				}
				out := "let '(t_new, " + lhsName(s.Lhs[1]) + ") := " + term + " in\n" + ind +
					"let v_" + name + " := " + upd + " in\n" + ind
				if a, ok := f.aliases[name]; ok {
					out += "let v_" + a.of + " := " + a.inj + " v_" + name + " in\n" + ind
				}
				return out + rest()
			}
			var term string
			var ks []kind
			switch r := s.Rhs[0].(type) {
			case *ast.CallExpr:
				if ch := chain(r.Fun); len(ch) == 3 && f.env[ch[0]] == kCfg && ch[1] == "cached" && ch[2] == "Compute" && f.stateful && len(r.Args) == 2 {
					// v, ok := cfg.cached.Compute(k, func(old any, loaded bool) (new any, del bool) {...})
					key, _ := f.expr(r.Args[0], kCacheKey)
					lit, isLit := r.Args[1].(*ast.FuncLit)
					if !isLit {
						return f.bad("Compute without a function literal")
					}
					fun, captured := f.funcLit(lit, ind+"    ")
					for i, l := range s.Lhs {
						if n := ident(l); n != "_" && n != "" {
							f.env[n] = []kind{kDval, kBool}[i]
						}
					}
					return let("'(cache, "+lhsName(s.Lhs[0])+", "+lhsName(s.Lhs[1])+", "+tuple(captured)+")",
						"xsync_compute ty_eqb cache "+key+" "+fun)
				}
				term, ks = f.call(r)
			case *ast.IndexExpr: // v, ok := m[k]
				m, mk := f.expr(r.X, kUnknown)
				if mk != kMap {
					return f.bad("comma-ok index of a non-map")
				}
				ix, _ := f.expr(r.Index, kString)
				term, ks = "(map_get "+m+" "+ix+")", []kind{kAny, kBool}
			case *ast.TypeAssertExpr: // m, ok = x.(map[string]any)
				x, xk := f.expr(r.X, kUnknown)
				if xk != kAny || typeKind(r.Type) != kMap {
					return f.bad("type assertion form")
				}
				term, ks = "(as_map "+x+")", []kind{kMap, kBool}
			default:
				return f.bad("two-value assignment")
			}
			if len(ks) != 2 {
				return f.bad("two-value assignment from a one-value call")
			}
			for i, l := range s.Lhs {
				if n := ident(l); n != "_" && n != "" {
					f.env[n] = ks[i]
				}
			}
			return let("'("+lhsName(s.Lhs[0])+", "+lhsName(s.Lhs[1])+")", term)
		}
		if len(s.Lhs) != 1 || len(s.Rhs) != 1 {
			return f.bad("multi-assignment")
		}
		if ix, ok := s.Lhs[0].(*ast.IndexExpr); ok { // m[k] = e, s[i] = e
			name := ident(ix.X)
			v, _ := f.expr(s.Rhs[0], kAny)
			var upd string
			switch f.env[name] {
			case kMap:
				i, _ := f.expr(ix.Index, kString)
				upd = "map_set v_" + name + " " + i + " " + v
			case kSlice:
				i, _ := f.expr(ix.Index, kInt)
				upd = "slice_set v_" + name + " " + i + " " + v
			default:
				return f.bad("index assignment")
			}
			out := "let v_" + name + " := " + upd + " in\n" + ind
			if a, ok := f.aliases[name]; ok { // the type-switch variable aliases the switched value
				out += "let v_" + a.of + " := " + a.inj + " v_" + name + " in\n" + ind
			}
			return out + rest()
		}
		name := ident(s.Lhs[0])
		if name == "" {
			return f.bad("assignment target")
		}
		want := f.env[name]
		v, vk := f.expr(s.Rhs[0], want)
		if s.Tok == token.DEFINE || want == kUnknown {
			f.env[name] = vk
		}
		return let("v_"+name, v)
	case *ast.ExprStmt:
		if c, ok := s.X.(*ast.CallExpr); ok {
			if ch := chain(c.Fun); len(ch) == 2 && ch[1] == "Add" && f.env[ch[0]] == kKeys && len(c.Args) == 1 {
				a, _ := f.expr(c.Args[0], kString)
				return let("v_"+ch[0], "keys_add v_"+ch[0]+" "+a)
			}
		}
		return f.bad("expression statement")
	case *ast.BranchStmt:
		if s.Tok == token.CONTINUE && s.Label == nil && loopK != "" {
			return loopK
		}
		return f.bad("branch statement")
	case *ast.ReturnStmt:
		if len(s.Results) == 2 && f.stateful {
			if ta, ok := s.Results[0].(*ast.TypeAssertExpr); ok && typeParam != "" && ident(ta.Type) == typeParam {
				// return v.(T), e : the assertion may panic
				v, vk := f.expr(ta.X, kUnknown)
				e, _ := f.expr(s.Results[1], kErr)
				if vk != kDval {
					return f.bad("type assertion on a non-interface value")
				}
				return "match type_assert ty_eqb is_iface tyT " + v + " with\n" + ind + "| Some x => " + f.ret("(x, "+e+")") +
					"\n" + ind + "| None => None\n" + ind + "end"
			}
		}
		if len(s.Results) == 1 && len(f.results) > 1 {
			if c, ok := s.Results[0].(*ast.CallExpr); ok { // return f(...)
				t, ks := f.call(c)
				if len(ks) == len(f.results) {
					return f.ret(t)
				}
			}
			return f.bad("return arity")
		}
		if len(s.Results) != len(f.results) {
			return f.bad("return arity")
		}
		parts := make([]string, len(s.Results))
		for i, r := range s.Results {
			parts[i], _ = f.expr(r, f.results[i])
		}
		if len(parts) == 1 {
			return f.ret(parts[0])
		}
		return f.ret("(" + strings.Join(parts, ", ") + ")")
	case *ast.IfStmt:
		pre := ""
		if s.Init != nil {
			pre = f.stmts([]ast.Stmt{s.Init}, "INIT_END", loopK, ind)
			if !strings.HasSuffix(pre, "INIT_END") {
				return f.bad("if init")
			}
			pre = strings.TrimSuffix(pre, "INIT_END")
		}
		cond, _ := f.expr(s.Cond, kBool)
		after := rest()
		then := f.stmts(s.Body.List, after, loopK, ind+"  ")
		els := after
		if s.Else != nil {
			switch e := s.Else.(type) {
			case *ast.BlockStmt:
				els = f.stmts(e.List, after, loopK, ind+"  ")
			case *ast.IfStmt:
				els = f.stmts([]ast.Stmt{e}, after, loopK, ind+"  ")
			default:
				return f.bad("else form")
			}
		}
		return pre + "if " + cond + "\n" + ind + "then " + then + "\n" + ind + "else " + els
	case *ast.RangeStmt:
		if s.Tok != token.DEFINE {
			return f.bad("range without :=")
		}
		src, sk := f.expr(s.X, kUnknown)
		var item string
		var items string
		key, val := ident(s.Key), ""
		if s.Value != nil {
			val = ident(s.Value)
		}
		bind := func(n string, kd kind) string {
			if n == "" || n == "_" {
				return "_"
			}
			f.env[n] = kd
			return "v_" + n
		}
		switch sk {
		case kMap:
			items = src
			item = "'(" + bind(key, kString) + ", " + bind(val, kAny) + ")"
		case kSlice:
			items = "(indexed " + src + ")"
			item = "'(" + bind(key, kInt) + ", " + bind(val, kAny) + ")"
		case kStrSlice:
			items = "(indexed " + src + ")"
			item = "'(" + bind(key, kInt) + ", " + bind(val, kString) + ")"
		case kDims:
			items = "(indexed " + src + ")"
			item = "'(" + bind(key, kInt) + ", " + bind(val, kDimPtr) + ")"
		case kTemplates:
			items = src
			item = bind(val, kTemplate)
			if key != "_" && key != "" {
				return f.bad("index variable over the templates")
			}
		case kKeys:
			if val != "" {
				return f.bad("range over a set with a value variable")
			}
			items = src
			item = bind(key, kString)
		default:
			return f.bad("range over this kind")
		}
		vars := f.assigned(s.Body.List)
		if !returns(s.Body.List) {
			body := f.stmts(s.Body.List, tuple(vars), tuple(vars), ind+"    ")
			return "let " + pat(vars) + " := fold_left (fun " + pat(vars) + " " + item + " =>\n" + ind + "    " + body +
				") " + items + " " + tuple(vars) + " in\n" + ind + rest()
		}
		saved := f.retWrap
		f.retWrap = func(v string) string { return "(" + tuple(vars) + ", Some " + v + ")" }
		fall := "(" + tuple(vars) + ", None)"
		body := f.stmts(s.Body.List, fall, fall, ind+"      ")
		f.retWrap = saved
		acc := strings.TrimPrefix(pat(vars), "'")
		return "let '(" + acc + ", early) := fold_left (fun '(" + acc + ", early) " + item + " =>\n" +
			ind + "    match early with Some _ => (" + tuple(vars) + ", early) | None =>\n" + ind + "      " + body + " end) " +
			items + " (" + tuple(vars) + ", None) in\n" + ind + "match early with Some r => " + f.ret("r") + " | None =>\n" + ind + rest() + " end"
	case *ast.TypeSwitchStmt:
		as, ok := s.Assign.(*ast.AssignStmt)
		if !ok || len(as.Lhs) != 1 || len(as.Rhs) != 1 {
			return f.bad("type switch form")
		}
		ta, ok := as.Rhs[0].(*ast.TypeAssertExpr)
		if !ok || ta.Type != nil {
			return f.bad("type switch form")
		}
		swX := ta.X
		if c, ok := swX.(*ast.CallExpr); ok && ident(c.Fun) == "any" && len(c.Args) == 1 {
			swX = c.Args[0] // switch v := any(x).(type)
		}
		bound, of := ident(as.Lhs[0]), ident(swX)
		if f.env[of] != kAny {
			return f.bad("type switch on a non-any")
		}
		after := rest()
		out := "match v_" + of + " with\n"
		for _, c := range s.Body.List {
			cc := c.(*ast.CaseClause)
			if len(cc.List) != 1 {
				return f.bad("type switch clause with several types")
			}
			kd := typeKind(cc.List[0])
			inj := map[kind]string{kMap: "Mp", kSlice: "Lst", kString: "Str"}[kd]
			if inj == "" {
				return f.bad("type switch clause type")
			}
			f.env[bound] = kd
			f.aliases[bound] = alias{of, inj}
			out += ind + "| " + inj + " v_" + bound + " =>\n" + ind + "    " + f.stmts(cc.Body, after, loopK, ind+"    ") + "\n"
			delete(f.aliases, bound)
			delete(f.env, bound)
		}
		return out + ind + "| _ => " + after + "\n" + ind + "end"
	}
	return f.bad(fmt.Sprintf("stmt %T", list[0]))
}

// funcLit renders a function literal; variables of the enclosing function it assigns are
// returned next to its results: fun params => ((results), captured).
func (f *fn) funcLit(lit *ast.FuncLit, ind string) (string, []string) {
	g := &fn{name: "", env: map[string]kind{}, aliases: map[string]alias{}}
	for k, v := range f.env {
		g.env[k] = v
	}
	local := map[string]bool{}
	params := ""
	for _, p := range lit.Type.Params.List {
		kd := typeKind(p.Type)
		for _, n := range p.Names {
			g.env[n.Name] = kd
			local[n.Name] = true
			params += " (v_" + n.Name + " : " + kd.coq() + ")"
		}
	}
	pre := ""
	if lit.Type.Results != nil {
		for _, r := range lit.Type.Results.List {
			kd := typeKind(r.Type)
			n := len(r.Names)
			if n == 0 {
				n = 1
			}
			for i := 0; i < n; i++ {
				g.results = append(g.results, kd)
			}
			for _, nm := range r.Names {
				g.env[nm.Name] = kd
				local[nm.Name] = true
				pre += "let v_" + nm.Name + " := " + kd.zero() + " in\n" + ind
			}
		}
	}
	var captured []string
	for _, v := range g.assigned(lit.Body.List) {
		if !local[v] {
			captured = append(captured, v)
		}
	}
	if len(captured) == 0 {
		return f.bad("function literal without captured assignment"), nil
	}
	g.retWrap = func(v string) string { return "(" + v + ", " + tuple(captured) + ")" }
	body := g.stmts(lit.Body.List, "MISSING_RETURN", "", ind)
	if strings.Contains(body, "MISSING_RETURN") {
		body = strings.ReplaceAll(body, "MISSING_RETURN", g.bad("missing return in function literal"))
	}
	f.problems = append(f.problems, g.problems...)
	return "(fun" + params + " =>\n" + ind + pre + body + ")", captured
}

type target struct {
	role string
	rec  bool
}

var sets = map[string][]target{
	"resolve": {
		{"keySet", false},
		{"parsesAll", false},
		{"switchDimension", false},
		{"reduceAny", true},
		{"extract", false},
	},
	"templates": {
		{"MatchAndResolve", false},
		{"parseTemplatedElements", true},
	},
	"cache": {
		{"getFromCache", false},
	},
}

var wanted []target

func main() {
	src := flag.String("src", "", "directory of the gconfig module")
	out := flag.String("out", "GConfGen.v", "output file")
	set := flag.String("set", "resolve", "which functions: resolve (builder.go, config.go) | templates (yaml_templates.go) | cache (config.go)")
	flag.Parse()
	wanted = sets[*set]
	if *set == "cache" {
		anyKind = kDval
	}
	if *set == "templates" {
		typeParamKind = kAny
	}
	if wanted == nil {
		fmt.Fprintln(os.Stderr, "unknown -set")
		os.Exit(2)
	}
	fset := token.NewFileSet()
	decls := map[string]*ast.FuncDecl{}
	var files []*ast.File
	for _, name := range []string{"builder.go", "config.go", "yaml_templates.go"} {
		file, err := parser.ParseFile(fset, filepath.Join(*src, name), nil, 0)
		if err != nil {
			fmt.Fprintln(os.Stderr, err)
			os.Exit(2)
		}
		files = append(files, file)
		for _, d := range file.Decls {
			if fd, ok := d.(*ast.FuncDecl); ok && fd.Body != nil {
				decls[declKey(fd)] = fd
			}
		}
	}
	resolveRoles(decls)
	resolveNames(files)
	// signatures first (calls between the translated functions)
	for _, t := range wanted {
		fd, ok := decls[roleGo[t.role]]
		if !ok {
			continue
		}
		s := &sig{rec: t.rec, role: t.role}
		typeParam = ""
		if fd.Type.TypeParams != nil && len(fd.Type.TypeParams.List) == 1 && len(fd.Type.TypeParams.List[0].Names) == 1 {
			typeParam = fd.Type.TypeParams.List[0].Names[0].Name
		}
		for _, p := range fd.Type.Params.List {
			for range p.Names {
				s.params = append(s.params, typeKind(p.Type))
			}
		}
		if fd.Type.Results != nil {
			for _, r := range fd.Type.Results.List {
				n := len(r.Names)
				if n == 0 {
					n = 1
				}
				for i := 0; i < n; i++ {
					s.results = append(s.results, typeKind(r.Type))
				}
			}
		}
		sigs[roleGo[t.role]] = s
	}
	var b strings.Builder
	b.WriteString("(* GENERATED by harness/cmd/xlate_gconf (-set " + *set + ") from the gconfig sources of the current tree — do not edit *)\n")
	b.WriteString("From Coq Require Import List String Bool Arith.\nImport ListNotations.\nFrom GT Require Import GConfModel GConfGenPrims.\n")
	if *set == "templates" {
		b.WriteString("From GT Require Import TmplModel TmplGenPrims.\n")
	}
	if *set == "cache" {
		anyKind = kDval
		b.WriteString("From GT Require Import GConfCacheModel GConfCacheGenPrims.\n\nSection CacheGen.\n" +
			"Variable ty : Type.\nVariable ty_eqb : ty -> ty -> bool.\nVariable is_iface : ty -> bool.\n" +
			"Variable dyn_of_any : val -> ty.\nVariable conv : string -> ty -> res val.\n" +
			"Variable tyT : ty.  (* the type argument T *)\nVariable zeroT : val.  (* its zero value *)\n")
	}
	b.WriteString("\n")
	var problems []string
	for _, t := range wanted {
		fd, ok := decls[roleGo[t.role]]
		if !ok {
			b.WriteString("Definition gen_" + t.role + " := UNSUPPORTED_function_" + t.role + "_not_found.\n\n")
			problems = append(problems, t.role+": not found")
			continue
		}
		renameLocals(fd)
		goName := roleGo[t.role]
		typeParam = ""
		if fd.Type.TypeParams != nil && len(fd.Type.TypeParams.List) == 1 && len(fd.Type.TypeParams.List[0].Names) == 1 {
			typeParam = fd.Type.TypeParams.List[0].Names[0].Name
		}
		f := &fn{name: goName, env: map[string]kind{}, aliases: map[string]alias{}, results: sigs[goName].results}
		f.stateful = *set == "cache"
		head := "Definition gen_" + t.role
		resT := make([]string, len(f.results))
		for i, r := range f.results {
			resT[i] = r.coq()
		}
		if t.rec {
			var pt []string
			for _, p := range sigs[goName].params {
				pt = append(pt, p.coq())
			}
			head += " (rec : " + strings.Join(pt, " -> ") + " -> " + strings.Join(resT, " * ") + ")"
		}
		if fd.Recv != nil && len(fd.Recv.List) == 1 && len(fd.Recv.List[0].Names) == 1 {
			n := fd.Recv.List[0].Names[0].Name
			kd := typeKind(fd.Recv.List[0].Type)
			f.env[n] = kd
			head += " (v_" + n + " : " + kd.coq() + ")"
		}
		for _, p := range fd.Type.Params.List {
			kd := typeKind(p.Type)
			for _, n := range p.Names {
				f.env[n.Name] = kd
				if kd == kCfg { // the Config is represented by its memo
					head += " (cache : gcache ty)"
					continue
				}
				head += " (v_" + n.Name + " : " + kd.coq() + ")"
			}
		}
		if f.stateful {
			f.retWrap = func(v string) string { return "Some (cache, " + v + ")" }
		}
		// named results are variables initialised to their zero values
		pre := ""
		if fd.Type.Results != nil {
			i := 0
			for _, r := range fd.Type.Results.List {
				for _, n := range r.Names {
					f.env[n.Name] = f.results[i]
					pre += "let v_" + n.Name + " := " + f.results[i].zero() + " in\n  "
					i++
				}
				if len(r.Names) == 0 {
					i++
				}
			}
		}
		body := pre + f.stmts(fd.Body.List, "MISSING_RETURN", "", "  ")
		if f.usesEnv {
			head = strings.Replace(head, "Definition gen_"+t.role, "Definition gen_"+t.role+" (env : list (string * string))", 1)
		}
		if f.stateful {
			head += " : option (gcache ty * (" + strings.Join(resT, " * ") + "))"
		} else {
			head += " : " + strings.Join(resT, " * ")
		}
		if strings.Contains(body, "MISSING_RETURN") {
			body = strings.ReplaceAll(body, "MISSING_RETURN", f.bad("missing return"))
		}
		b.WriteString(head + " :=\n  " + body + ".\n\n")
		for _, p := range f.problems {
			problems = append(problems, t.role+": "+p)
		}
	}
	if *set == "cache" {
		b.WriteString("End CacheGen.\n")
	}
	names := make([]string, len(wanted))
	for i, t := range wanted {
		names[i] = t.role + " (" + roleGo[t.role] + ")"
	}
	b.WriteString("(* translated: " + strings.Join(names, ", ") + " (a recursive function as a functional of its recursive call) *)\n")
	if err := os.WriteFile(*out, []byte(b.String()), 0o644); err != nil {
		fmt.Fprintln(os.Stderr, err)
		os.Exit(2)
	}
	for _, p := range problems {
		fmt.Println("unsupported:", p)
	}
}
