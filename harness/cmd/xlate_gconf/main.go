// xlate_gconf — translator ties (T) for C03, C16 and C10: reads gconfig/builder.go, config.go and
// yaml_templates.go of the current tree with go/parser and regenerates Gallina definitions
//
//	-set resolve    reduceAny, extract, lookupEnv, FromBytes                    (GT.GConfGenPrims)
//	-set templates  MatchAndResolve, parseTemplatedElements, FromBytes          (GT.TmplGenPrims)
//	-set cache      extractAndConvert, getFromCache, Get, MustGet, GetOrDefault (GT.GConfCacheGenPrims)
//
// The package's FILE SET is taken the way the compiler takes it (harness/internal/srcset: all non-test
// .go files of the directory matching the build context of the harness build — tag verif, Go version
// tags); a root declared twice, or only in an excluded file, fails the translation, and so do
// (analysis.go: wholePackageChecks) writes to the template list / the compiled pattern from any other
// function (an init() in a sibling file), struct fields or import paths other than the ones assumed
// (Config.cached *xsync.MapOf[cacheKey, any], ...), a Config literal without a fresh memo, a
// WithDimension that does more than append, a FromFile that does not read the whole file.
//
// Translated: the roots above together with every unexported function or method these call (helpers: gen_h_<name>, listed in
// the hint database gen_helpers so that the tie proofs unfold them whatever they are called and
// however the code is split into helpers).
//
// A function that can reach itself (reduceAny, parseTemplatedElements) is rendered as a functional
// of its own recursive call (parameter rec_<role>; helpers and callers that reach it take the same
// parameter), so its tie is the recursion equation read off the source.  Functions are located by
// their place in the call graph below FromBytes / Get / initFlag (analysis.go: resolveRoles), locals
// are renamed to x1, x2, ... by declaration with Go's block scoping (rename.go), package constants are
// replaced by their values, the compiled-pattern variable and the template list are found by their
// initialisers.
//
// Statements are rendered in continuation style.  Loops use GT.GConfLoop.loop: the body maps the
// loop-carried variables (those assigned in the body that are read before being written in an
// iteration or are live after the loop) and the item to Next state | Exit x; `return` inside loops,
// `continue`/`break` with or without label are Exit/Next terms of the right nesting depth.
// `for i := a; i < n; i++` (i, n not assigned in the body) iterates over seq a (n - a).  A helper
// that updates a map/slice argument in place returns the updated value first; the caller rebinds
// its variable (and what that variable aliases through a type switch).
//
// Supported subset: `x := e`, `x = e`, `var x T [= e]`, multi-value `:=`/`=` from calls, `v, ok := m[k]`,
// `m, ok = x.(map[string]any)`, `m[k] = e` / `s[i] = e` / `m[k], err = f(..)` (also through the
// variable bound by a type switch, which aliases the switched value), `i++`, `set.Add(k)`,
// `if [init;] c {..} [else ..]`, tagless and tagged `switch` (no fallthrough, no break), `switch v :=
// x.(type)` / `any(x).(type)` over string / map[string]any / []any / default, `for range` over maps,
// slices, sets, string arrays, the dimensions, the templates; index `for`; labels; `return` (incl.
// `return f(..)` and `return v.(T), e`), named results, `len`, `make`, comparisons, `+`, `-`, `!`, `&&`,
// `||`, `nil`, literals, `[...]string{..}`, `s[i]`, calls of package functions and methods,
// dimension methods get / defaultVal.ParseGeneric, error factories (Err*.Msg(..), gerror.*: some
// non-nil error), FindStringSubmatch / os.LookupEnv / strings.Trim / ToUpper / ToLower / Split(_, "."),
// yaml.Marshal / yaml.Unmarshal(b, &x) (oracles), `cacheKey{..}`, `&Config{..}`, `cfg.cached.Compute(k, fn)`
// with a function literal or a closure bound to a local name, `panic(err)`, `any(e)`, `any(e).(T)`, `*new(T)`.
// Anything else is rendered as UNSUPPORTED_<what>, which makes the generated file fail to compile
// and breaks the tie.
//
//	xlate_gconf -src <repo>/gconfig [-set resolve|templates|cache] -out <file>.v
package main

import (
	"flag"
	"fmt"
	"go/ast"
	"go/token"
	"os"
	"strings"

	"gtverif/internal/srcset"
)

var sets = map[string][]string{
	"resolve":   {"reduceAny", "extract", "lookupEnv", "FromBytes"},
	"templates": {"MatchAndResolve", "parseTemplatedElements", "FromBytes"},
	"cache":     {"extractAndConvert", "getFromCache", "Get", "MustGet", "GetOrDefault"},
}

func resTypes(ks []kind) string {
	if len(ks) == 0 {
		return "unit"
	}
	parts := make([]string, len(ks))
	for i, k := range ks {
		parts[i] = k.coq()
	}
	return strings.Join(parts, " * ")
}

func (a *analysis) translate(key string) (string, []string) {
	fi := a.infos[key]
	fd := fi.decl
	f := &fn{a: a, info: fi, env: map[string]kind{}, aliases: map[string]alias{}, closures: map[string]*ast.FuncLit{}, results: fi.results}
	head := "Definition " + fi.gen
	for _, r := range fi.recs {
		ri := a.info(a.pkg.roleGo[r])
		var pt []string
		for _, p := range ri.args {
			pt = append(pt, p.kind.coq())
		}
		head += " (rec_" + r + " : " + strings.Join(pt, " -> ") + " -> " + resTypes(ri.results) + ")"
	}
	if fi.usesEnv {
		head += " (env : list (string * string))"
	}
	if fi.stateful {
		head += " (cache : gcache ty)"
	}
	for _, p := range fi.args {
		f.env[p.name] = p.kind
		if p.kind == kCfg && fi.stateful { // the Config is represented by its memo
			continue
		}
		head += " (v_" + p.name + " : " + p.kind.coq() + ")"
	}
	var rk []kind
	for _, i := range fi.mutated {
		f.mutatedArgs = append(f.mutatedArgs, fi.args[i].name)
		rk = append(rk, fi.args[i].kind)
	}
	rk = append(rk, fi.results...)
	// named results are variables initialised to their zero values
	pre := ""
	if fd.Type.Results != nil {
		i := 0
		for _, r := range fd.Type.Results.List {
			for _, n := range r.Names {
				f.env[n.Name] = fi.results[i]
				pre += "let v_" + n.Name + " := " + fi.results[i].zero() + " in\n  "
				i++
			}
			if len(r.Names) == 0 {
				i++
			}
		}
	}
	stmtsList := fd.Body.List
	if h := recoverHandler(fd); h != nil {
		// defer func() { if r := recover(); r != nil { <assign the named results> } }(): a panic
		// anywhere below evaluates to what the handler leaves in the named results
		stmtsList = stmtsList[1:]
		var named []string
		if fd.Type.Results != nil {
			for _, r := range fd.Type.Results.List {
				for _, n := range r.Names {
					named = append(named, "v_"+n.Name)
				}
			}
		}
		if len(named) != len(fi.results) || len(named) == 0 {
			f.bad("deferred recover without named results")
		}
		for _, n := range named {
			if !assignsIdent(h.Body, strings.TrimPrefix(n, "v_")) {
				f.bad("recover handler that does not assign every named result")
			}
		}
		if init, ok := h.Init.(*ast.AssignStmt); ok {
			f.env[ident(init.Lhs[0])] = kErr
		}
		f.recoverTerm = "(" + f.stmts(h.Body.List, f.pack(named), "    ") + ")"
	}
	fall := "MISSING_RETURN"
	if len(fi.results) == 0 {
		fall = f.pack(nil)
		if len(f.mutatedArgs) == 0 && !fi.stateful {
			fall = "tt"
		}
	}
	body := pre + f.stmts(stmtsList, fall, "  ")
	if fi.stateful {
		head += " : gout (gcache ty) (" + resTypes(rk) + ")"
	} else if fi.canPanic {
		head += " : option (" + resTypes(rk) + ")"
	} else {
		head += " : " + resTypes(rk)
	}
	if strings.Contains(body, "MISSING_RETURN") {
		body = strings.ReplaceAll(body, "MISSING_RETURN", f.bad("missing return"))
	}
	note := ""
	for _, sk := range f.skipped {
		note += "(* NOT TRANSLATED in " + fi.key + ": " + sk + " — tied by correspondence only *)\n"
	}
	return note + head + " :=\n  " + body + ".\n\n", f.problems
}

func assignsIdent(b *ast.BlockStmt, name string) bool {
	found := false
	ast.Inspect(b, func(n ast.Node) bool {
		if as, ok := n.(*ast.AssignStmt); ok && as.Tok == token.ASSIGN {
			for _, l := range as.Lhs {
				if ident(l) == name {
					found = true
				}
			}
		}
		return true
	})
	return found
}

func main() {
	src := flag.String("src", "", "directory of the gconfig module")
	out := flag.String("out", "GConfGen.v", "output file")
	set := flag.String("set", "resolve", "which functions: resolve | templates | cache")
	flag.Parse()
	wanted := sets[*set]
	if wanted == nil {
		fmt.Fprintln(os.Stderr, "unknown -set")
		os.Exit(2)
	}
	// the file set the compiler would use: every non-test .go file of the package that matches the
	// build context of the harness build (tag verif, Go version tags); a root that sits in a file
	// excluded by a build constraint is "not found", one declared twice is an error
	sp, err := srcset.Load(*src, "verif")
	if err != nil {
		fmt.Fprintln(os.Stderr, err)
		os.Exit(2)
	}
	files := sp.Files
	pkg := collectPkg(files)
	pkg.resolveRoles()
	var problems []string
	problems = append(problems, pkg.dups...)
	problems = append(problems, wholePackageChecks(sp, pkg, *set)...)
	for _, fd := range pkg.decls {
		renameLocals(fd)
	}
	a := &analysis{pkg: pkg, set: *set, infos: map[string]*finfo{}}
	var roots []string
	for _, role := range wanted {
		if k, ok := pkg.roleGo[role]; ok && pkg.decls[k] != nil {
			roots = append(roots, k)
		} else {
			problems = append(problems, role+": not found")
		}
	}
	a.reach(roots)
	a.solve()

	var b strings.Builder
	b.WriteString("(* GENERATED by harness/cmd/xlate_gconf (-set " + *set + ") from the gconfig sources of the current tree — do not edit *)\n")
	b.WriteString("From Coq Require Import List String Bool Arith.\nImport ListNotations.\nFrom GT Require Import GConfModel GConfLoop GConfGenPrims.\n")
	switch *set {
	case "templates":
		b.WriteString("From GT Require Import TmplModel TmplGenPrims.\n")
	case "cache":
		b.WriteString("From GT Require Import GConfCacheModel GConfCacheGenPrims.\n")
	}
	b.WriteString("\nSection Gen.\n(* yaml text and its decoding are oracles *)\nVariable ybytes : Type.\n")
	if *set == "cache" {
		b.WriteString("Variable ty : Type.\nVariable ty_eqb : ty -> ty -> bool.\nVariable is_iface : ty -> bool.\n" +
			"Variable dyn_of_any : val -> ty.\n" +
			"Variable yaml_marshal : tree -> ybytes * bool.\n" +
			"(* decoding into an arbitrary Go type goes through reflection: None = it panics *)\n" +
			"Variable yaml_unmarshal : ty -> ybytes -> val -> option (val * bool).\n" +
			"Variable cfg_data : gomap.  (* cfg.data *)\n" +
			"Variable tyT : ty.  (* the type argument T *)\nVariable zeroT : val.  (* its zero value *)\n")
	} else {
		b.WriteString("Variable yaml_unmarshal_map : ybytes -> gomap -> gomap * bool.\n")
	}
	b.WriteString("\n")
	var helpers, names []string
	for _, k := range a.order {
		fi := a.infos[k]
		text, probs := a.translate(k)
		b.WriteString(text)
		for _, p := range probs {
			problems = append(problems, k+": "+p)
		}
		if fi.role == "" {
			helpers = append(helpers, fi.gen)
		}
		names = append(names, fi.gen+" ("+k+")")
	}
	for _, role := range wanted {
		if k, ok := pkg.roleGo[role]; !ok || a.infos[k] == nil {
			b.WriteString("Definition gen_" + role + " := UNSUPPORTED_function_" + role + "_not_found.\n\n")
		}
	}
	for i, p := range problems {
		if strings.HasPrefix(p, "package: ") {
			b.WriteString(fmt.Sprintf("Definition package_problem_%d := UNSUPPORTED_%s.\n", i, sanitize(p)))
		}
	}
	b.WriteString("End Gen.\n\nCreate HintDb gen_helpers.\n")
	if len(helpers) > 0 {
		b.WriteString("#[global] Hint Unfold " + strings.Join(helpers, " ") + " : gen_helpers.\n")
	}
	b.WriteString("(* translated: " + strings.Join(names, ", ") + " *)\n")
	if err := os.WriteFile(*out, []byte(b.String()), 0o644); err != nil {
		fmt.Fprintln(os.Stderr, err)
		os.Exit(2)
	}
	for _, p := range problems {
		fmt.Println("unsupported:", p)
	}
}
