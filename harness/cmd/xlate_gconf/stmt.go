package main

import (
	"fmt"
	"go/ast"
	"go/token"
	"sort"
	"strconv"
	"strings"
)

// ---------------------------------------------------------------- variable analysis
// reads reports whether node reads variable x (an identifier that is the plain target of an
// assignment is not a read; the variable of an index assignment is).
func reads(node ast.Node, x string) bool {
	if node == nil {
		return false
	}
	found := false
	var visit func(n ast.Node) bool
	visit = func(n ast.Node) bool {
		if found || n == nil {
			return false
		}
		switch s := n.(type) {
		case *ast.AssignStmt:
			for _, r := range s.Rhs {
				ast.Inspect(r, visit)
			}
			for _, l := range s.Lhs {
				if _, ok := l.(*ast.Ident); ok {
					continue
				}
				ast.Inspect(l, visit)
			}
			return false
		case *ast.SelectorExpr:
			ast.Inspect(s.X, visit)
			return false
		case *ast.KeyValueExpr:
			ast.Inspect(s.Value, visit)
			return false
		case *ast.Ident:
			if s.Name == x {
				found = true
			}
		}
		return true
	}
	ast.Inspect(node, visit)
	return found
}

// writesPlain: the statement is an unconditional assignment whose targets include identifier x
func writesPlain(s ast.Stmt, x string) bool {
	as, ok := s.(*ast.AssignStmt)
	if !ok {
		return false
	}
	for _, l := range as.Lhs {
		if ident(l) == x {
			return true
		}
	}
	return false
}

// readBeforeWrite: may the body read the value x had when the iteration started?
func readBeforeWrite(body []ast.Stmt, x string) bool {
	for _, s := range body {
		if ifs, ok := s.(*ast.IfStmt); ok && ifs.Init != nil {
			if reads(ifs.Init, x) {
				return true
			}
			if writesPlain(ifs.Init, x) {
				return false
			}
			if reads(ifs.Cond, x) || reads(ifs.Body, x) || (ifs.Else != nil && reads(ifs.Else, x)) {
				return true
			}
			continue
		}
		if reads(s, x) {
			return true
		}
		if writesPlain(s, x) {
			return false
		}
	}
	return false
}

// assigned lists the variables declared outside the statements that they assign (plainly, by an
// index assignment, set.Add, &x handed to yaml.Unmarshal, or a call that updates x in place).
func (f *fn) assigned(list []ast.Stmt) (all []string, plain map[string]bool) {
	set := map[string]bool{}
	plain = map[string]bool{}
	declared := map[string]bool{}
	mark := func(name string, isPlain bool) {
		if name == "" || name == "_" {
			return
		}
		set[name] = true
		if isPlain {
			plain[name] = true
		}
	}
	for _, s := range list {
		ast.Inspect(s, func(n ast.Node) bool {
			switch s := n.(type) {
			case *ast.FuncLit:
				return false // a closure bound to a name is analysed where it is called
			case *ast.AssignStmt:
				for _, l := range s.Lhs {
					if ix, ok := l.(*ast.IndexExpr); ok {
						mark(ident(ix.X), false)
						continue
					}
					name := ident(l)
					if s.Tok == token.DEFINE {
						declared[name] = true
					} else {
						mark(name, true)
					}
				}
			case *ast.IncDecStmt:
				mark(ident(s.X), true)
			case *ast.DeclStmt:
				if gd, ok := s.Decl.(*ast.GenDecl); ok {
					for _, sp := range gd.Specs {
						if vs, ok := sp.(*ast.ValueSpec); ok {
							for _, n := range vs.Names {
								declared[n.Name] = true
							}
						}
					}
				}
			case *ast.RangeStmt:
				if s.Tok == token.DEFINE {
					declared[ident(s.Key)] = true
					if s.Value != nil {
						declared[ident(s.Value)] = true
					}
				}
			case *ast.TypeSwitchStmt:
				if as, ok := s.Assign.(*ast.AssignStmt); ok {
					declared[ident(as.Lhs[0])] = true
				}
			case *ast.CallExpr:
				if ch := chain(s.Fun); len(ch) == 2 && ch[1] == "Add" && f.env[ch[0]] == kKeys {
					mark(ch[0], false)
				}
				if ch := chain(s.Fun); len(ch) == 2 && ch[0] == "yaml" && ch[1] == "Unmarshal" && len(s.Args) == 2 {
					if u, ok := s.Args[1].(*ast.UnaryExpr); ok && u.Op == token.AND {
						mark(ident(u.X), true)
					}
				}
				if ck := f.a.pkg.declOfCall(s); ck != "" && !f.a.isRecRoot(ck) {
					if ci := f.a.infos[ck]; ci != nil {
						off := 0
						var recvX ast.Expr
						if ci.decl.Recv != nil && len(ci.decl.Recv.List[0].Names) == 1 {
							off = 1
							if sel, ok := s.Fun.(*ast.SelectorExpr); ok {
								recvX = sel.X
							}
						}
						for _, mi := range ci.mutated {
							if mi == 0 && off == 1 {
								mark(ident(recvX), false)
							} else if mi-off < len(s.Args) {
								mark(ident(s.Args[mi-off]), false)
							}
						}
					}
				}
			}
			return true
		})
	}
	for k := range set {
		if !declared[k] {
			all = append(all, k)
		}
	}
	f.sortVars(all)
	return all, plain
}

// loop-carried variables are ordered by kind, then by declaration (canonical names are x<N>), so
// that reordering independent declarations does not reorder the state tuple
func (f *fn) sortVars(out []string) {
	sort.Slice(out, func(i, j int) bool {
		if ki, kj := f.env[out[i]], f.env[out[j]]; ki != kj {
			return ki < kj
		}
		a, ea := strconv.Atoi(strings.TrimPrefix(out[i], "x"))
		b, eb := strconv.Atoi(strings.TrimPrefix(out[j], "x"))
		if ea == nil && eb == nil {
			return a < b
		}
		return out[i] < out[j]
	})
}

// rebind re-derives, after variable name changed, every variable it aliases (the value switched
// on by a type switch whose clause bound `name`)
func (f *fn) rebind(name, ind string) string {
	out := ""
	for {
		a, ok := f.aliases[name]
		if !ok {
			return out
		}
		v := "v_" + name
		if a.inj != "" {
			v = a.inj + " v_" + name
		}
		out += "let v_" + a.of + " := " + v + " in\n" + ind
		name = a.of
	}
}

// loopState: the variables a loop carries from one iteration to the next or hands to what follows
func (f *fn) loopState(body []ast.Stmt, after string) []string {
	all, plain := f.assigned(body)
	live := after
	for _, l := range f.loops {
		live += " " + l.after + " " + tuple(l.vars)
	}
	aliased := map[string]bool{}
	for _, a := range f.aliases {
		aliased[a.of] = true
	}
	var out []string
	for _, x := range all {
		if aliased[x] {
			if plain[x] {
				f.bad("assignment to a value while a type-switch variable aliases it")
			}
			continue
		}
		liveAfter := containsToken(live, "v_"+x)
		for n := x; ; {
			a, ok := f.aliases[n]
			if !ok {
				break
			}
			if containsToken(live, "v_"+a.of) {
				liveAfter = true
			}
			n = a.of
		}
		if liveAfter || readBeforeWrite(body, x) {
			out = append(out, x)
		}
	}
	return out
}

// ---------------------------------------------------------------- binding of results
type target struct {
	pat  string // what the value is bound to in the let pattern
	post string // lets that follow (index update, coercion, aliases); ends with the indentation
}

// bind prepares the let-pattern component and the follow-up for assigning a value of kind k to lhs
func (f *fn) bind(lhs ast.Expr, k kind, define bool, n int, ind string) target {
	tmp := fmt.Sprintf("t_new%d", n)
	if ix, ok := lhs.(*ast.IndexExpr); ok { // m[k] = v, s[i] = v
		name := ident(ix.X)
		var upd string
		val, _ := f.coerce(tmp, k, kAny)
		switch f.env[name] {
		case kMap:
			i, _ := f.expr(ix.Index, kString)
			upd = "map_set v_" + name + " " + i + " " + val
		case kSlice:
			i, _ := f.expr(ix.Index, kInt)
			upd = "slice_set v_" + name + " " + i + " " + val
		case kDimVals:
			i, _ := f.expr(ix.Index, kDimPtr)
			upd = "dimvals_set v_" + name + " " + i + " " + tmp
		default:
			return target{f.bad("index assignment"), ""}
		}
		return target{tmp, "let v_" + name + " := " + upd + " in\n" + ind + f.rebind(name, ind)}
	}
	name := ident(lhs)
	if name == "_" {
		return target{"_", ""}
	}
	if name == "" {
		return target{f.bad("assignment target"), ""}
	}
	have, known := f.env[name]
	if define || !known || have == kUnknown || have == k {
		if define || !known || have == kUnknown {
			f.env[name] = k
		}
		return target{"v_" + name, f.rebind(name, ind)}
	}
	v, got := f.coerce(tmp, k, have)
	if got != have {
		return target{f.bad("assignment of a value of another kind"), ""}
	}
	return target{tmp, "let v_" + name + " := " + v + " in\n" + ind + f.rebind(name, ind)}
}

// ---------------------------------------------------------------- statements
// stmts renders a statement list in continuation style: k = the term for falling off the end.
// Inside a loop body the terms are steps of that loop (types.go: exitN).
func (f *fn) stmts(list []ast.Stmt, k, ind string) string {
	if len(list) == 0 {
		return k
	}
	rest := func() string { return f.stmts(list[1:], k, ind) }
	let := func(p, v string) string { return "let " + p + " := " + v + " in\n" + ind + rest() }
	switch s := list[0].(type) {
	case *ast.EmptyStmt:
		return rest()
	case *ast.BlockStmt:
		return f.stmts(append(append([]ast.Stmt{}, s.List...), list[1:]...), k, ind)
	case *ast.LabeledStmt:
		switch inner := s.Stmt.(type) {
		case *ast.RangeStmt:
			return f.rangeLoop(inner, s.Label.Name, rest, ind)
		case *ast.ForStmt:
			return f.forLoop(inner, s.Label.Name, rest, ind)
		}
		return f.bad("label on a statement that is not a loop")
	case *ast.DeclStmt:
		gd, ok := s.Decl.(*ast.GenDecl)
		if !ok || gd.Tok != token.VAR || len(gd.Specs) != 1 {
			return f.bad("declaration")
		}
		vs := gd.Specs[0].(*ast.ValueSpec)
		if len(vs.Names) != 1 || len(vs.Values) > 1 {
			return f.bad("var form")
		}
		name := vs.Names[0].Name
		if len(vs.Values) == 1 {
			want := kUnknown
			if vs.Type != nil {
				want = f.typeKind(vs.Type)
			}
			v, vk := f.expr(vs.Values[0], want)
			f.env[name] = vk
			return let("v_"+name, v)
		}
		kd := f.typeKind(vs.Type)
		f.env[name] = kd
		return let("v_"+name, kd.zero())
	case *ast.AssignStmt:
		return f.assign(s, rest, ind)
	case *ast.IncDecStmt:
		if name := ident(s.X); name != "" && f.env[name] == kInt && s.Tok == token.INC {
			return let("v_"+name, "(v_"+name+" + 1)")
		}
		return f.bad("inc/dec statement")
	case *ast.ExprStmt:
		c, ok := s.X.(*ast.CallExpr)
		if !ok {
			return f.bad("expression statement")
		}
		if ch := chain(c.Fun); len(ch) == 2 && ch[1] == "Add" && f.env[ch[0]] == kKeys && len(c.Args) == 1 {
			a, _ := f.expr(c.Args[0], kString)
			return let("v_"+ch[0], "keys_add v_"+ch[0]+" "+a)
		}
		if id := ident(c.Fun); id == "panic" && len(c.Args) == 1 && f.info.stateful && len(f.loops) == 0 {
			if _, k := f.expr(c.Args[0], kErr); k == kErr { // panic(err): the caller sees the error as a panic
				return "GMustPanic cache"
			}
		}
		if ck := f.a.pkg.declOfCall(c); ck != "" && !primMethods[ck] { // a call for its effect on the arguments
			term, ks, muts := f.call(c)
			return f.bindCall(term, ks, muts, nil, false, f.calleeMode(ck), rest, ind)
		}
		return f.bad("expression statement")
	case *ast.BranchStmt:
		return f.branch(s)
	case *ast.ReturnStmt:
		return f.returnStmt(s, ind)
	case *ast.IfStmt:
		return f.ifStmt(s, rest, ind)
	case *ast.RangeStmt:
		return f.rangeLoop(s, "", rest, ind)
	case *ast.ForStmt:
		return f.forLoop(s, "", rest, ind)
	case *ast.SwitchStmt:
		return f.switchStmt(s, rest, ind)
	case *ast.TypeSwitchStmt:
		return f.typeSwitch(s, rest, ind)
	}
	return f.bad(fmt.Sprintf("stmt %T", list[0]))
}

// bindCall: let '(updated args..., results...) := term in <follow-ups> rest
func (f *fn) bindCall(term string, ks []kind, muts []string, lhs []ast.Expr, define bool, mode int, rest func() string, ind string) string {
	var pats []string
	post := ""
	for _, m := range muts {
		if m == "_" {
			pats = append(pats, "_")
			continue
		}
		pats = append(pats, "v_"+m)
		post += f.rebind(m, ind)
	}
	if lhs == nil {
		for range ks {
			pats = append(pats, "_")
		}
	} else {
		if len(lhs) != len(ks) {
			return f.bad("assignment arity")
		}
		for i, l := range lhs {
			t := f.bind(l, ks[i], define, i, ind)
			pats = append(pats, t.pat)
			post += t.post
		}
	}
	pat := pats[0]
	if len(pats) > 1 {
		pat = "'(" + strings.Join(pats, ", ") + ")"
	}
	if mode == 2 {
		return "match " + term + " with\n" + ind + "| Some " + strings.TrimPrefix(pat, "'") + " =>\n" + ind + "    " + post + rest() +
			"\n" + ind + "| None => " + f.panicValue() + "\n" + ind + "end"
	}
	if mode == 1 {
		if len(f.loops) != 0 || !f.info.stateful {
			return f.bad("call of a memo function in this position")
		}
		return "match " + term + " with\n" + ind + "| GRet cache " + strings.TrimPrefix(pat, "'") + " =>\n" + ind + "    " + post + rest() +
			"\n" + ind + "| GPanic => GPanic\n" + ind + "| GMustPanic c => GMustPanic c\n" + ind + "end"
	}
	return "let " + pat + " := " + term + " in\n" + ind + post + rest()
}

func (f *fn) assign(s *ast.AssignStmt, rest func() string, ind string) string {
	if s.Tok != token.DEFINE && s.Tok != token.ASSIGN {
		return f.bad("assignment operator")
	}
	define := s.Tok == token.DEFINE
	if len(s.Rhs) == 1 {
		switch r := s.Rhs[0].(type) {
		case *ast.FuncLit: // fill := func(...) {...}: rendered where it is used
			if name := ident(s.Lhs[0]); len(s.Lhs) == 1 && name != "" && define {
				f.closures[name] = r
				f.env[name] = kClosure
				return rest()
			}
			return f.bad("function literal")
		case *ast.CallExpr:
			if ch := chain(r.Fun); len(ch) == 3 && f.env[ch[0]] == kCfg && ch[1] == "cached" && ch[2] == "Compute" && len(r.Args) == 2 && len(s.Lhs) == 2 {
				return f.compute(s, r, rest, ind)
			}
			if ch := chain(r.Fun); len(ch) == 2 && ch[0] == "yaml" && ch[1] == "Unmarshal" && len(r.Args) == 2 && len(s.Lhs) == 1 {
				return f.yamlUnmarshal(s.Lhs[0], r, define, rest, ind)
			}
			if id := ident(r.Fun); id == "any" {
				break
			}
			term, ks, muts := f.call(r)
			if len(ks) == len(s.Lhs) && (len(ks) > 1 || len(muts) > 0 || f.calleeMode(f.a.pkg.declOfCall(r)) != 0) {
				return f.bindCall(term, ks, muts, s.Lhs, define, f.calleeMode(f.a.pkg.declOfCall(r)), rest, ind)
			}
			if len(ks) != len(s.Lhs) {
				return f.bad("assignment arity")
			}
		case *ast.IndexExpr: // v, ok := m[k]
			if len(s.Lhs) == 2 {
				m, mk := f.expr(r.X, kUnknown)
				if mk != kMap {
					return f.bad("comma-ok index of a non-map")
				}
				ix, _ := f.expr(r.Index, kString)
				return f.bindCall("(map_get "+m+" "+ix+")", []kind{kAny, kBool}, nil, s.Lhs, define, 0, rest, ind)
			}
		case *ast.TypeAssertExpr: // m, ok = x.(map[string]any)
			if len(s.Lhs) == 2 {
				x, xk := f.expr(r.X, kUnknown)
				if xk != kAny || f.typeKind(r.Type) != kMap {
					return f.bad("type assertion form")
				}
				return f.bindCall("(as_map "+x+")", []kind{kMap, kBool}, nil, s.Lhs, define, 0, rest, ind)
			}
		}
	}
	if len(s.Lhs) != len(s.Rhs) {
		return f.bad("multi-value assignment")
	}
	if len(s.Lhs) == 1 {
		l := s.Lhs[0]
		want := kUnknown
		if ix, ok := l.(*ast.IndexExpr); ok {
			if kd := f.env[ident(ix.X)]; kd == kMap || kd == kSlice {
				want = kAny
			} else if kd == kDimVals {
				want = kEnum
			}
		} else if !define {
			want = f.env[ident(l)]
		}
		v, vk := f.expr(s.Rhs[0], want)
		t := f.bind(l, vk, define, 0, ind)
		return "let " + t.pat + " := " + v + " in\n" + ind + t.post + rest()
	}
	// parallel assignment a, b = e1, e2: all right-hand sides first
	out := ""
	var ts []target
	for i, r := range s.Rhs {
		want := kUnknown
		if !define {
			want = f.env[ident(s.Lhs[i])]
		}
		v, vk := f.expr(r, want)
		out += fmt.Sprintf("let t_rhs%d := %s in\n%s", i, v, ind)
		t := f.bind(s.Lhs[i], vk, define, i, ind)
		ts = append(ts, t)
	}
	for i, t := range ts {
		out += fmt.Sprintf("let %s := t_rhs%d in\n%s%s", t.pat, i, ind, t.post)
	}
	return out + rest()
}

// err = yaml.Unmarshal(bytes, &x): x is assigned what the text decodes to
func (f *fn) yamlUnmarshal(lhs ast.Expr, c *ast.CallExpr, define bool, rest func() string, ind string) string {
	u, ok := c.Args[1].(*ast.UnaryExpr)
	if !ok || u.Op != token.AND || ident(u.X) == "" {
		return f.bad("yaml.Unmarshal target")
	}
	x := ident(u.X)
	b, bk := f.expr(c.Args[0], kBytes)
	if bk != kBytes {
		return f.bad("yaml.Unmarshal source")
	}
	var term string
	switch f.env[x] {
	case kMap:
		term = "(yaml_unmarshal_map " + b + " v_" + x + ")"
	case kT:
		term = "(yaml_unmarshal tyT " + b + " v_" + x + ")"
	default:
		return f.bad("yaml.Unmarshal into this kind")
	}
	t := f.bind(lhs, kErr, define, 0, ind)
	if f.env[x] == kT { // decoding into an arbitrary Go type goes through reflection and may panic
		return "match " + term + " with\n" + ind + "| Some (v_" + x + ", " + t.pat + ") =>\n" + ind + "    " + f.rebind(x, ind) + t.post + rest() +
			"\n" + ind + "| None => " + f.panicValue() + "\n" + ind + "end"
	}
	return "let '(v_" + x + ", " + t.pat + ") := " + term + " in\n" + ind + f.rebind(x, ind) + t.post + rest()
}

// v, ok := cfg.cached.Compute(k, func(old any, loaded bool) (new any, del bool) {...})
func (f *fn) compute(s *ast.AssignStmt, r *ast.CallExpr, rest func() string, ind string) string {
	if !f.info.stateful || len(f.loops) != 0 {
		return f.bad("Compute in this position")
	}
	key, _ := f.expr(r.Args[0], kCacheKey)
	lit, isLit := r.Args[1].(*ast.FuncLit)
	if !isLit {
		lit = f.closures[ident(r.Args[1])]
	}
	if lit == nil {
		return f.bad("Compute without a function literal")
	}
	fun, captured := f.funcLit(lit, ind+"    ")
	define := s.Tok == token.DEFINE
	t0 := f.bind(s.Lhs[0], kDval, define, 0, ind)
	t1 := f.bind(s.Lhs[1], kBool, define, 1, ind)
	// a panic inside the compute function escapes Compute (and getFromCache)
	return "match xsync_compute ty_eqb cache " + key + " " + fun + " with\n" + ind + "| Some (cache, " + t0.pat + ", " + t1.pat + ", " + tuple(captured) + ") =>\n" + ind + "    " +
		t0.post + t1.post + rest() + "\n" + ind + "| None => GPanic\n" + ind + "end"
}

// funcLit renders a function literal; variables of the enclosing function it assigns are
// returned next to its results: fun params => ((results), captured).
func (f *fn) funcLit(lit *ast.FuncLit, ind string) (string, []string) {
	g := &fn{a: f.a, info: f.info, env: map[string]kind{}, aliases: map[string]alias{}, closures: f.closures, isLit: true}
	for k, v := range f.env {
		g.env[k] = v
	}
	local := map[string]bool{}
	params := ""
	for _, p := range lit.Type.Params.List {
		kd := g.typeKind(p.Type)
		for _, n := range p.Names {
			g.env[n.Name] = kd
			local[n.Name] = true
			params += " (v_" + n.Name + " : " + kd.coq() + ")"
		}
	}
	pre := ""
	if lit.Type.Results != nil {
		for _, r := range lit.Type.Results.List {
			kd := g.typeKind(r.Type)
			n := len(r.Names)
			if n == 0 {
				n = 1
			}
			for i := 0; i < n; i++ {
				g.results = append(g.results, kd)
			}
			for _, nm := range r.Names {
				g.env[nm.Name] = kd
				local[nm.Name] = true
				pre += "let v_" + nm.Name + " := " + kd.zero() + " in\n" + ind
			}
		}
	}
	all, _ := g.assigned(lit.Body.List)
	for _, v := range all {
		if !local[v] {
			g.captured = append(g.captured, v)
		}
	}
	if len(g.captured) == 0 {
		return f.bad("function literal without captured assignment"), nil
	}
	body := g.stmts(lit.Body.List, "MISSING_RETURN", ind)
	if strings.Contains(body, "MISSING_RETURN") {
		body = strings.ReplaceAll(body, "MISSING_RETURN", g.bad("missing return in function literal"))
	}
	f.problems = append(f.problems, g.problems...)
	return "(fun" + params + " =>\n" + ind + pre + body + ")", g.captured
}

func (f *fn) findLoop(label *ast.Ident) int {
	if len(f.loops) == 0 {
		return -1
	}
	if label == nil {
		return len(f.loops) - 1
	}
	for j := len(f.loops) - 1; j >= 0; j-- {
		if f.loops[j].label == label.Name {
			return j
		}
	}
	return -1
}

func (f *fn) branch(s *ast.BranchStmt) string {
	j := f.findLoop(s.Label)
	if j < 0 {
		return f.bad("branch statement outside a loop")
	}
	d := len(f.loops)
	switch s.Tok {
	case token.CONTINUE:
		return exitN("Next "+tuple(f.loops[j].vars), d-1-j)
	case token.BREAK:
		return exitN(f.loops[j].after, d-j)
	}
	return f.bad("branch statement " + s.Tok.String())
}

func (f *fn) returnStmt(s *ast.ReturnStmt, ind string) string {
	if len(s.Results) == 2 && f.info.stateful && !f.isLit {
		if ta, ok := s.Results[0].(*ast.TypeAssertExpr); ok && f.info.typeParam != "" && ident(ta.Type) == f.info.typeParam {
			// return v.(T), e : the assertion may panic
			v, vk := f.expr(ta.X, kUnknown)
			e, _ := f.expr(s.Results[1], kErr)
			if vk != kDval || len(f.loops) != 0 {
				return f.bad("type assertion on a non-interface value")
			}
			return "match type_assert ty_eqb is_iface tyT " + v + " with\n" + ind + "| Some x => " + f.pack([]string{"x", e}) +
				"\n" + ind + "| None => GPanic\n" + ind + "end"
		}
	}
	if len(s.Results) == 1 && len(f.results) >= 1 {
		if c, ok := s.Results[0].(*ast.CallExpr); ok && ident(c.Fun) != "any" { // return g(...)
			t, ks, muts := f.call(c)
			mode := f.calleeMode(f.a.pkg.declOfCall(c))
			if len(ks) == len(f.results) && (len(ks) > 1 || mode != 0) {
				if len(muts) > 0 {
					return f.bad("return of a call that updates its arguments")
				}
				switch mode {
				case 1:
					if f.info.stateful && !f.isLit && len(f.loops) == 0 {
						return t
					}
					return f.bad("return of a memo call in this position")
				case 2:
					names := make([]string, len(ks))
					for i := range names {
						names[i] = fmt.Sprintf("r_%d", i)
					}
					pat := names[0]
					if len(names) > 1 {
						pat = "(" + strings.Join(names, ", ") + ")"
					}
					return "match " + t + " with\n" + ind + "| Some " + pat + " => " + f.ret(f.pack(names)) + "\n" + ind + "| None => " + f.panicValue() + "\n" + ind + "end"
				}
				return f.ret(f.packTerm(t, len(ks)))
			}
		}
	}
	if len(s.Results) != len(f.results) {
		return f.bad("return arity")
	}
	parts := make([]string, len(s.Results))
	for i, r := range s.Results {
		var k kind
		parts[i], k = f.expr(r, f.results[i])
		if k != f.results[i] && !(k == kBool && f.results[i] == kErr) && !(k == kErr && f.results[i] == kBool) {
			f.bad(fmt.Sprintf("returned value %d has another kind", i))
		}
	}
	return f.ret(f.pack(parts))
}

func (f *fn) ifStmt(s *ast.IfStmt, rest func() string, ind string) string {
	// the init statement is rendered with a placeholder continuation (it declares variables the
	// condition reads), which is then replaced by the conditional itself
	const hole = "\x00INIT_END\x00"
	pre := hole
	if s.Init != nil {
		pre = f.stmts([]ast.Stmt{s.Init}, hole, ind)
		if !strings.Contains(pre, hole) {
			return f.bad("if init")
		}
	}
	cond, _ := f.expr(s.Cond, kBool)
	after := rest()
	then := f.stmts(s.Body.List, after, ind+"  ")
	els := after
	if s.Else != nil {
		switch e := s.Else.(type) {
		case *ast.BlockStmt:
			els = f.stmts(e.List, after, ind+"  ")
		case *ast.IfStmt:
			els = f.stmts([]ast.Stmt{e}, after, ind+"  ")
		default:
			return f.bad("else form")
		}
	}
	return strings.ReplaceAll(pre, hole, "if "+cond+"\n"+ind+"then "+then+"\n"+ind+"else "+els)
}

// switch [init;] [tag] { case a, b: ...; default: ... }  =  if-chain in clause order, default last
func (f *fn) switchStmt(s *ast.SwitchStmt, rest func() string, ind string) string {
	const hole = "\x00INIT_END\x00"
	pre := hole
	if s.Init != nil {
		pre = f.stmts([]ast.Stmt{s.Init}, hole, ind)
		if !strings.Contains(pre, hole) {
			return f.bad("switch init")
		}
	}
	tagPre := ""
	tag, tagK := "", kUnknown
	if s.Tag != nil {
		tag, tagK = f.expr(s.Tag, kUnknown)
		if _, isId := s.Tag.(*ast.Ident); !isId {
			if _, isLit := s.Tag.(*ast.BasicLit); !isLit {
				tagPre = "let t_tag := " + tag + " in\n" + ind
				tag = "t_tag"
			}
		}
	}
	after := rest()
	var dflt *ast.CaseClause
	type arm struct{ cond, body string }
	var arms []arm
	for _, c := range s.Body.List {
		cc := c.(*ast.CaseClause)
		for _, st := range cc.Body {
			if b, ok := st.(*ast.BranchStmt); ok && (b.Tok == token.FALLTHROUGH || (b.Tok == token.BREAK && b.Label == nil)) {
				return f.bad("fallthrough or break in a switch")
			}
		}
		if cc.List == nil {
			dflt = cc
			continue
		}
		var conds []string
		for _, e := range cc.List {
			if s.Tag == nil {
				c, _ := f.expr(e, kBool)
				conds = append(conds, c)
				continue
			}
			v, vk := f.expr(e, tagK)
			switch {
			case tagK == kString && vk == kString:
				conds = append(conds, "(String.eqb "+tag+" "+v+")")
			case (tagK == kInt || tagK == kEnum) && vk == tagK:
				conds = append(conds, "(Nat.eqb "+tag+" "+v+")")
			case tagK == kBool && vk == kBool:
				conds = append(conds, "(Bool.eqb "+tag+" "+v+")")
			default:
				return f.bad("switch case of this kind")
			}
		}
		cond := conds[0]
		for _, c := range conds[1:] {
			cond = "(orb " + cond + " " + c + ")"
		}
		arms = append(arms, arm{cond, f.guardBreak(cc.Body, after, ind+"  ")})
	}
	out := after
	if dflt != nil {
		out = f.guardBreak(dflt.Body, after, ind+"  ")
	}
	for i := len(arms) - 1; i >= 0; i-- {
		out = "if " + arms[i].cond + "\n" + ind + "then " + arms[i].body + "\n" + ind + "else " + out
	}
	return strings.ReplaceAll(pre, hole, tagPre+out)
}

// an unlabelled break nested in a switch clause leaves the switch, not the loop: not supported
func (f *fn) guardBreak(body []ast.Stmt, after, ind string) string {
	bad := false
	for _, st := range body {
		ast.Inspect(st, func(n ast.Node) bool {
			switch x := n.(type) {
			case *ast.ForStmt, *ast.RangeStmt, *ast.FuncLit, *ast.SwitchStmt, *ast.TypeSwitchStmt:
				return false
			case *ast.BranchStmt:
				if x.Tok == token.BREAK && x.Label == nil {
					bad = true
				}
			}
			return true
		})
	}
	if bad {
		return f.bad("break inside a switch clause")
	}
	return f.stmts(body, after, ind)
}

func (f *fn) typeSwitch(s *ast.TypeSwitchStmt, rest func() string, ind string) string {
	var bound string
	var ta *ast.TypeAssertExpr
	switch as := s.Assign.(type) {
	case *ast.AssignStmt:
		if len(as.Lhs) != 1 || len(as.Rhs) != 1 {
			return f.bad("type switch form")
		}
		bound = ident(as.Lhs[0])
		ta, _ = as.Rhs[0].(*ast.TypeAssertExpr)
	case *ast.ExprStmt:
		ta, _ = as.X.(*ast.TypeAssertExpr)
	}
	if ta == nil || ta.Type != nil || s.Init != nil {
		return f.bad("type switch form")
	}
	swX := ta.X
	if c, ok := swX.(*ast.CallExpr); ok && ident(c.Fun) == "any" && len(c.Args) == 1 {
		swX = c.Args[0] // switch v := any(x).(type)
	}
	of := ident(swX)
	if of == "" || f.env[of] != kAny {
		return f.bad("type switch on a non-any")
	}
	after := rest()
	out := "match v_" + of + " with\n"
	dflt := after
	for _, c := range s.Body.List {
		cc := c.(*ast.CaseClause)
		if cc.List == nil {
			dflt = f.guardBreak(cc.Body, after, ind+"    ")
			continue
		}
		if len(cc.List) != 1 {
			return f.bad("type switch clause with several types")
		}
		if mt, ok := cc.List[0].(*ast.MapType); ok && ident(mt.Key) == "any" && ident(mt.Value) == "any" {
			// map[any]any (a yaml mapping with a non-string key) has no constructor of its own in the
			// model: such a value is represented as the list of its [key; value] pairs, so this clause
			// is not translated; it is tied by the correspondence runs only (documents with int / bool /
			// float / null keys), see design_notes/C03.md
			f.skipped = append(f.skipped, "case map[any]any of the type switch")
			continue
		}
		kd := f.typeKind(cc.List[0])
		inj := map[kind]string{kMap: "Mp", kSlice: "Lst", kString: "Str"}[kd]
		if inj == "" {
			return f.bad("type switch clause type")
		}
		name := bound
		if name == "" {
			name = "unused"
		} else {
			f.env[bound] = kd
			f.aliases[bound] = alias{of, inj}
		}
		out += ind + "| " + inj + " v_" + name + " =>\n" + ind + "    " + f.guardBreak(cc.Body, after, ind+"    ") + "\n"
		if bound != "" {
			delete(f.aliases, bound)
			delete(f.env, bound)
		}
	}
	return out + ind + "| _ => " + dflt + "\n" + ind + "end"
}

// ---------------------------------------------------------------- loops
func (f *fn) renderLoop(node ast.Node, label string, body []ast.Stmt, itemPat, items string, rest func() string, ind string) string {
	after := rest()
	vars := f.loopState(body, after)
	// inside the body and after the loop, values aliased by a carried variable are re-derived
	derive := ""
	for _, v := range vars {
		derive += f.rebind(v, ind+"    ")
	}
	f.loops = append(f.loops, loopCtx{node: node, label: label, vars: vars, after: after})
	b := f.stmts(body, "Next "+tuple(vars), ind+"    ")
	f.loops = f.loops[:len(f.loops)-1]
	deriveAfter := ""
	for _, v := range vars {
		deriveAfter += f.rebind(v, ind+"    ")
	}
	return "match loop (fun " + statePat(vars) + " " + itemPat + " =>\n" + ind + "    " + derive + b + ")\n" + ind + "  " + items + " " + tuple(vars) + " with\n" +
		ind + "| Next " + stateBranchPat(vars) + " =>\n" + ind + "    " + deriveAfter + after + "\n" + ind + "| Exit x => x\n" + ind + "end"
}

func (f *fn) rangeLoop(s *ast.RangeStmt, label string, rest func() string, ind string) string {
	if s.Tok != token.DEFINE && !(s.Key == nil && s.Value == nil) {
		return f.bad("range without :=")
	}
	src, sk := f.expr(s.X, kUnknown)
	key, val := "", ""
	if s.Key != nil {
		key = ident(s.Key)
	}
	if s.Value != nil {
		val = ident(s.Value)
	}
	bind := func(n string, kd kind) string {
		if n == "" || n == "_" {
			return "_"
		}
		f.env[n] = kd
		return "v_" + n
	}
	var item, items string
	switch sk {
	case kMap:
		items = src
		item = "'(" + bind(key, kString) + ", " + bind(val, kAny) + ")"
	case kSlice:
		items = "(indexed " + src + ")"
		item = "'(" + bind(key, kInt) + ", " + bind(val, kAny) + ")"
	case kStrSlice:
		items = "(indexed " + src + ")"
		item = "'(" + bind(key, kInt) + ", " + bind(val, kString) + ")"
	case kDims:
		items = "(indexed " + src + ")"
		item = "'(" + bind(key, kInt) + ", " + bind(val, kDimPtr) + ")"
	case kTemplates:
		items = src
		item = bind(val, kTemplate)
		if key != "_" && key != "" {
			return f.bad("index variable over the templates")
		}
		if item == "_" {
			item = "(_ : unit)"
		}
	case kKeys:
		if val != "" {
			return f.bad("range over a set with a value variable")
		}
		items = src
		item = bind(key, kString)
		if item == "_" {
			item = "(_ : string)"
		}
	default:
		return f.bad("range over this kind")
	}
	return f.renderLoop(s, label, s.Body.List, item, items, rest, ind)
}

// for i := a; i < n; i++ { body }  with i and n not assigned in the body: i ranges over seq a (n - a)
func (f *fn) forLoop(s *ast.ForStmt, label string, rest func() string, ind string) string {
	init, ok := s.Init.(*ast.AssignStmt)
	if !ok || init.Tok != token.DEFINE || len(init.Lhs) != 1 || len(init.Rhs) != 1 || ident(init.Lhs[0]) == "" {
		return f.bad("for statement init")
	}
	i := ident(init.Lhs[0])
	from, fk := f.expr(init.Rhs[0], kInt)
	cond, ok := s.Cond.(*ast.BinaryExpr)
	if !ok || fk != kInt || ident(cond.X) != i || (cond.Op != token.LSS && cond.Op != token.LEQ) {
		return f.bad("for statement condition")
	}
	post, ok := s.Post.(*ast.IncDecStmt)
	if !ok || post.Tok != token.INC || ident(post.X) != i {
		return f.bad("for statement post")
	}
	f.env[i] = kInt
	all, plain := f.assigned(s.Body.List)
	for _, x := range all {
		if x == i {
			return f.bad("loop variable assigned in the body")
		}
		if reads(cond.Y, x) {
			// the bound may mention a variable the body updates only through len(x), x updated in place
			okLen := !plain[x]
			ast.Inspect(cond.Y, func(n ast.Node) bool {
				if c, isCall := n.(*ast.CallExpr); isCall && ident(c.Fun) == "len" && len(c.Args) == 1 && ident(c.Args[0]) == x {
					return false
				}
				if id, isId := n.(*ast.Ident); isId && id.Name == x {
					okLen = false
				}
				return true
			})
			if !okLen {
				return f.bad("loop bound assigned in the body")
			}
		}
	}
	bound, bk := f.expr(cond.Y, kInt)
	if bk != kInt {
		return f.bad("for statement bound")
	}
	if cond.Op == token.LEQ {
		bound = "(" + bound + " + 1)"
	}
	return f.renderLoop(s, label, s.Body.List, "v_"+i, "(seq "+from+" ("+bound+" - "+from+"))", rest, ind)
}
