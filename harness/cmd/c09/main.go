//go:build gerrgen

// c09 — for every struct of the generator farm (farm_*.go, written by c09gen; methods generated
// by the gerror CLI of the current tree) builds a factory of the generated type and a plain
// GError factory with the same base fields, issues the same method with the same arguments on
// both from one function and records: the accessor values of both results, the head of the
// generated Error() (text before the stack), whether the stack text follows it, and the extra
// fields of the generated result (%v rendering, reflect.DeepEqual with the factory's field).
//
//	c09 -seed N -out PREFIX -mode all|replay [-chains K] [-in FILE]
package main

import (
	"encoding/json"
	"errors"
	"flag"
	"fmt"
	"math/rand/v2"
	"os"
	"reflect"
	"strconv"
	"strings"
	"unicode/utf16"

	"github.com/drshriveer/gtools/gerror"

	"gtverif/internal/gal"
)

type fieldDesc struct {
	Name    string   `json:"name"`
	Type    string   `json:"type"`
	Tag     string   `json:"tag"`
	Tagged  bool     `json:"tagged"`
	TagName string   `json:"tagname"`
	Opts    []string `json:"opts"`
	// Embedded: an anonymous field of the extension struct
	Embedded bool `json:"embedded,omitempty"`
}

type farmType struct {
	Name   string
	Skip   bool
	Fields []fieldDesc
	New    func(g gerror.GError) gerror.Factory
	Get    func(e any) []any
	Zero   func() []any
}

var methodNames = []string{"Base", "SourceOnly", "Stack", "Src", "DTag", "Msg", "SrcDTagMsg", "SrcDTag", "SrcMsg",
	"DTagMsg", "SrcS", "DTagS", "MsgS", "SrcDTagMsgS", "SrcDTagS", "SrcMsgS", "DTagMsgS", "Convert", "ConvertS"}

type elem struct {
	K string `json:"k"`
	V string `json:"v"`
}

type stepDesc struct {
	M        string `json:"m"`
	Src      string `json:"src"`
	DTag     string `json:"dtag"`
	Format   string `json:"format"`
	Elems    []elem `json:"elems"`
	Err      string `json:"err"` // none | new | slice
	Rendered string `json:"rendered,omitempty"`
	Orig     string `json:"orig,omitempty"`
}

type viewJ struct {
	Name  string `json:"name"`
	Msg   string `json:"msg"`
	Src   string `json:"src"`
	DTag  string `json:"dtag"`
	Stack bool   `json:"stack"`
}

type fval struct {
	V   string `json:"v"`
	Deq bool   `json:"deq"`
}

type caseJ struct {
	Kind     string      `json:"kind"`
	Type     string      `json:"type"`
	Skip     bool        `json:"skip"`
	Fields   []fieldDesc `json:"fields"`
	FacVals  []string    `json:"fac_vals"`
	ZeroVals []string    `json:"zero_vals"`
	Name     string      `json:"name"`
	Msg      string      `json:"msg"`
	Src      string      `json:"src"`
	Steps    []stepDesc  `json:"steps"`
	Base     []viewJ     `json:"base"`
	Gen      []viewJ     `json:"gen"`
	Heads    []string    `json:"heads"`
	BHeads   []string    `json:"bheads"` // head of the base result's Error(): "the base rendering"
	SuffixOK []bool      `json:"suffix_ok"`
	FVals    [][]fval    `json:"fvals"`
	Panic    string      `json:"panic,omitempty"`
}

type callArgs struct {
	Src, DTag, Format string
	Elems             []any
	Err               error
}

type sliceErr []string

func (e sliceErr) Error() string { return strings.Join(e, "|") }

// callBoth issues method m with the same arguments on both factories from this one function,
// so the derived source and the first stack frame are the same for both.
func callBoth(fs [2]gerror.Factory, m int, a *callArgs) (out [2]gerror.Error) {
	for i, f := range fs {
		switch m {
		case 0:
			out[i] = f.Base()
		case 1:
			out[i] = f.SourceOnly()
		case 2:
			out[i] = f.Stack()
		case 3:
			out[i] = f.Src(a.Src)
		case 4:
			out[i] = f.DTag(a.DTag)
		case 5:
			out[i] = f.Msg(a.Format, a.Elems...)
		case 6:
			out[i] = f.SrcDTagMsg(a.Src, a.DTag, a.Format, a.Elems...)
		case 7:
			out[i] = f.SrcDTag(a.Src, a.DTag)
		case 8:
			out[i] = f.SrcMsg(a.Src, a.Format, a.Elems...)
		case 9:
			out[i] = f.DTagMsg(a.DTag, a.Format, a.Elems...)
		case 10:
			out[i] = f.SrcS(a.Src)
		case 11:
			out[i] = f.DTagS(a.DTag)
		case 12:
			out[i] = f.MsgS(a.Format, a.Elems...)
		case 13:
			out[i] = f.SrcDTagMsgS(a.Src, a.DTag, a.Format, a.Elems...)
		case 14:
			out[i] = f.SrcDTagS(a.Src, a.DTag)
		case 15:
			out[i] = f.SrcMsgS(a.Src, a.Format, a.Elems...)
		case 16:
			out[i] = f.DTagMsgS(a.DTag, a.Format, a.Elems...)
		case 17:
			out[i] = f.Convert(a.Err)
		case 18:
			out[i] = f.ConvertS(a.Err)
		}
	}
	return out
}

const derivedSource = "main:callBoth"

func methodIndex(name string) int {
	for i, m := range methodNames {
		if m == name {
			return i
		}
	}
	return -1
}

func mkElems(es []elem) []any {
	out := make([]any, len(es))
	for i, e := range es {
		switch e.K {
		case "int":
			v, _ := strconv.Atoi(e.V)
			out[i] = v
		default:
			out[i] = e.V
		}
	}
	return out
}

func mkErr(k string) error {
	switch k {
	case "new":
		return errors.New("foreign")
	case "slice":
		return sliceErr{"s", "x"}
	}
	return nil
}

func viewOf(e gerror.Error) viewJ {
	return viewJ{e.ErrName(), e.ErrMessage(), e.ErrSource(), e.ErrDetailTag(), len(e.ErrStack()) > 0}
}

func renderAll(vs []any) []string {
	out := make([]string, len(vs))
	for i, v := range vs {
		out[i] = fmt.Sprintf("%v", v)
	}
	return out
}

func runCase(kind string, ft *farmType, name, msg, src string, steps []stepDesc) (c caseJ) {
	c = caseJ{Kind: kind, Type: ft.Name, Skip: ft.Skip, Fields: ft.Fields, Name: name, Msg: msg, Src: src, Steps: steps}
	defer func() {
		if r := recover(); r != nil {
			c.Panic = fmt.Sprint(r)
		}
	}()
	base := gerror.FactoryOf(&gerror.GError{Name: name, Message: msg, Source: src})
	gen := ft.New(gerror.GError{Name: name, Message: msg, Source: src})
	facVals := ft.Get(gen)
	c.FacVals = renderAll(facVals)
	c.ZeroVals = renderAll(ft.Zero())
	cur := [2]gerror.Factory{base, gen}
	for k := range steps {
		s := &steps[k]
		a := &callArgs{Src: s.Src, DTag: s.DTag, Format: s.Format, Elems: mkElems(s.Elems), Err: mkErr(s.Err)}
		s.Rendered = fmt.Sprintf(s.Format, a.Elems...)
		s.Orig = fmt.Sprintf("originalError: %+v", a.Err)
		res := callBoth(cur, methodIndex(s.M), a)
		c.Base = append(c.Base, viewOf(res[0]))
		c.Gen = append(c.Gen, viewOf(res[1]))
		full := res[1].Error()
		head, ok := full, true
		if st := res[1].ErrStack(); len(st) > 0 {
			suffix := "\n" + st.String()
			ok = strings.HasSuffix(full, suffix)
			head = strings.TrimSuffix(full, suffix)
		}
		bfull := res[0].Error()
		bhead := bfull
		if st := res[0].ErrStack(); len(st) > 0 {
			suffix := "\n" + st.String()
			ok = ok && strings.HasSuffix(bfull, suffix)
			bhead = strings.TrimSuffix(bfull, suffix)
		}
		c.Heads = append(c.Heads, head)
		c.BHeads = append(c.BHeads, bhead)
		c.SuffixOK = append(c.SuffixOK, ok)
		got := ft.Get(res[1])
		fv := make([]fval, len(got))
		for i, v := range got {
			fv[i] = fval{fmt.Sprintf("%v", v), reflect.DeepEqual(v, facVals[i])}
		}
		c.FVals = append(c.FVals, fv)
		cur = [2]gerror.Factory{res[0].(gerror.Factory), res[1].(gerror.Factory)}
	}
	return c
}

// ---------------------------------------------------------------- Gallina rendering

func gstr(s string) string {
	rs := []rune(s)
	if len(rs) == 0 {
		return "[]"
	}
	out := make([]string, len(rs))
	for i, r := range rs {
		out[i] = strconv.Itoa(int(r))
	}
	return "[" + strings.Join(out, ";") + "]%N"
}

func gview(v viewJ) string {
	st := "None"
	if v.Stack {
		st = "(Some 0%N)"
	}
	return "(mkV " + gstr(v.Name) + " " + gstr(v.Msg) + " " + gstr(v.Src) + " " + gstr(v.DTag) + " " + st + ")"
}

func gallina(c caseJ) string {
	fields := make([]string, len(c.Fields))
	for i, f := range c.Fields {
		fields[i] = "mkF " + gstr(f.Name) + " " + gal.Bool(f.Tagged) + " " + gstr(f.TagName) + " " + gal.ListOf(f.Opts, gstr) +
			" " + gstr(c.FacVals[i]) + " " + gstr(c.ZeroVals[i])
	}
	steps := gal.ListOf(c.Steps, func(s stepDesc) string {
		e := "VNil"
		switch s.Err {
		case "new":
			e = "(VF 1 true 1 VNil)"
		case "slice":
			e = "(VF 4 false 5 VNil)"
		}
		return "(M" + s.M + ", mkA " + gstr(s.Src) + " " + gstr(s.DTag) + " " + gstr(s.Rendered) + " " + e + " " + gstr(s.Orig) +
			" 0 " + gstr(derivedSource) + ")"
	})
	fv := gal.ListOf(c.FVals, func(row []fval) string {
		return gal.ListOf(row, func(v fval) string { return "(" + gstr(v.V) + ", " + gal.Bool(v.Deq) + ")" })
	})
	return "{| n_fields := " + gal.List(fields) + "; n_name := " + gstr(c.Name) + "; n_msg := " + gstr(c.Msg) + "; n_src := " + gstr(c.Src) +
		"; n_steps := " + steps + "; n_base := " + gal.ListOf(c.Base, gview) + "; n_gen := " + gal.ListOf(c.Gen, gview) +
		"; n_heads := " + gal.ListOf(c.Heads, gstr) + "; n_bheads := " + gal.ListOf(c.BHeads, gstr) + "; n_suffix_ok := " + gal.ListOf(c.SuffixOK, gal.Bool) + "; n_fvals := " + fv + " |}"
}

func asciiJSON(v any) json.RawMessage {
	b, err := json.Marshal(v)
	if err != nil {
		panic(err)
	}
	var sb strings.Builder
	for _, r := range string(b) {
		switch {
		case r < 0x80:
			sb.WriteRune(r)
		case r >= 0x10000:
			r1, r2 := utf16.EncodeRune(r)
			fmt.Fprintf(&sb, "\\u%04x\\u%04x", r1, r2)
		default:
			fmt.Fprintf(&sb, "\\u%04x", r)
		}
	}
	return json.RawMessage(sb.String())
}

func emit(out *gal.Out, c caseJ) { out.Case(gallina(c), asciiJSON(c)) }

// ---------------------------------------------------------------- generators

func pick[T any](r *rand.Rand, xs []T) T { return xs[r.IntN(len(xs))] }

var texts = []string{"", " ", "plain", "  padded\t", "two words", "é世界 x", "100%", "%d items", "%s and %v", "　wide ", "a-b", "x:y"}
var tagsArg = []string{"", "t", "a-b", "x y", "é"}
var srcs = []string{"", "", "custom:src", " ", "svc:Handler:fn"}

func randStep(r *rand.Rand, m string) stepDesc {
	s := stepDesc{M: m, Src: pick(r, srcs), DTag: pick(r, tagsArg), Format: pick(r, texts), Err: pick(r, []string{"none", "new", "new", "slice"})}
	switch strings.Count(s.Format, "%") {
	case 1:
		if r.IntN(4) > 0 {
			s.Elems = []elem{{"int", strconv.Itoa(r.IntN(100))}}
		}
	case 2:
		s.Elems = []elem{{"string", "s"}, {"int", "7"}}
	}
	return s
}

func findType(name string) *farmType {
	for i := range farm {
		if farm[i].Name == name {
			return &farm[i]
		}
	}
	return nil
}

// unknownMethods: methods of interface gerror.Factory beyond the 19 (plus Error, Is) this harness,
// the translator and the Coq type [method] know.  Each is called by reflection, with synthesised
// arguments, on a plain GError factory and on the generated factory of every farm struct: the
// generated result must be of the extension type and show the same name / message / source / tag /
// stack.  (A method added to the interface and to *GError without a template stanza is promoted
// from the embedded GError: it compiles, and returns a plain *GError that has lost the
// extension's fields.)
type extraFinding struct {
	Type     string `json:"type"`
	Method   string `json:"method"`
	Args     string `json:"args"`
	BaseType string `json:"base_result_type"`
	GenType  string `json:"generated_result_type"`
	WantType string `json:"factory_type"`
	Base     viewJ  `json:"base"`
	Gen      viewJ  `json:"gen"`
	Panic    string `json:"panic,omitempty"`
	Bad      bool   `json:"bad"`
}

func probeUnknownMethods() []extraFinding {
	known := map[string]bool{"Error": true, "Is": true}
	for _, m := range methodNames {
		known[m] = true
	}
	it := reflect.TypeOf((*gerror.Factory)(nil)).Elem()
	var out []extraFinding
	for i := 0; i < it.NumMethod(); i++ {
		m := it.Method(i)
		if known[m.Name] {
			continue
		}
		for ti := range farm {
			ft := &farm[ti]
			f := extraFinding{Type: ft.Name, Method: m.Name}
			func() {
				defer func() {
					if r := recover(); r != nil {
						f.Panic, f.Bad = fmt.Sprint(r), true
					}
				}()
				base := gerror.FactoryOf(&gerror.GError{Name: "ErrU", Message: "m"})
				gen := ft.New(gerror.GError{Name: "ErrU", Message: "m"})
				call := func(fac gerror.Factory) (gerror.Error, bool) {
					mv := reflect.ValueOf(fac).MethodByName(m.Name)
					var args []reflect.Value
					var shown []string
					n := m.Type.NumIn()
					for k := 0; k < n; k++ {
						at := m.Type.In(k)
						if m.Type.IsVariadic() && k == n-1 {
							break
						}
						switch {
						case at.Kind() == reflect.String:
							args = append(args, reflect.ValueOf("arg"+strconv.Itoa(k)).Convert(at))
							shown = append(shown, strconv.Quote("arg"+strconv.Itoa(k)))
						case at.Implements(reflect.TypeOf((*error)(nil)).Elem()) || at.Kind() == reflect.Interface:
							args = append(args, reflect.ValueOf(errors.New("foreign")).Convert(at))
							shown = append(shown, "errors.New(\"foreign\")")
						default:
							args = append(args, reflect.Zero(at))
							shown = append(shown, "zero "+at.String())
						}
					}
					f.Args = strings.Join(shown, ", ")
					res := mv.Call(args)
					if len(res) != 1 {
						return nil, false
					}
					e, ok := res[0].Interface().(gerror.Error)
					return e, ok
				}
				be, ok1 := call(base)
				ge, ok2 := call(gen)
				if !ok1 || !ok2 {
					return // not a deriving method (does not return a gerror.Error)
				}
				f.BaseType, f.GenType, f.WantType = fmt.Sprintf("%T", be), fmt.Sprintf("%T", ge), fmt.Sprintf("%T", gen)
				f.Base, f.Gen = viewOf(be), viewOf(ge)
				f.Bad = f.GenType != f.WantType || f.Base != f.Gen
			}()
			if f.BaseType != "" || f.Panic != "" {
				out = append(out, f)
			}
		}
	}
	return out
}

func main() {
	seed := flag.Uint64("seed", 1, "PRNG seed")
	prefix := flag.String("out", "c09", "output prefix")
	mode := flag.String("mode", "all", "all|replay")
	chains := flag.Int("chains", 4, "all: two-step chains per struct besides the 19 single calls")
	presets := flag.Int("presets", 1, "all: how many of the 4 (Message, Source) presets get all 19 methods per struct")
	in := flag.String("in", "", "replay: JSON file with a list of {type, name, msg, src, steps}")
	flag.Parse()
	r := gal.NewRand(*seed)
	out := gal.NewOut(*prefix)
	defer out.Close()
	if *mode == "replay" {
		b, err := os.ReadFile(*in)
		if err != nil {
			panic(err)
		}
		var cs []caseJ
		if err := json.Unmarshal(b, &cs); err != nil {
			panic(err)
		}
		for _, c := range cs {
			ft := findType(c.Type)
			if ft == nil {
				continue
			}
			emit(out, runCase("replay", ft, c.Name, c.Msg, c.Src, c.Steps))
		}
		return
	}
	if b, err := json.Marshal(probeUnknownMethods()); err == nil {
		_ = os.WriteFile(*prefix+".extra.json", b, 0o644)
	}
	type preset struct{ msg, src string }
	all := []preset{{"", ""}, {"base message", ""}, {"", "preset:Source"}, {" base ", "preset:Source"}}
	for ti := range farm {
		ft := &farm[ti]
		// corpus: the DESIGN §5 witness on every struct — SrcS with a source argument
		emit(out, runCase("corpus", ft, "ErrW", "m", "", []stepDesc{{M: "SrcS", Src: "given:source", Err: "none"}}))
		perm := r.Perm(len(all))
		for pi := 0; pi < *presets && pi < len(all); pi++ {
			p := all[perm[pi]]
			for _, m := range methodNames {
				s := randStep(r, m)
				if r.IntN(3) > 0 { // make sure the arguments the method takes are mostly non-empty
					s.Src, s.DTag = pick(r, srcs[2:]), pick(r, tagsArg[1:])
					if s.Format == "" {
						s.Format = "ext"
					}
				}
				emit(out, runCase("single", ft, "Err"+ft.Name, p.msg, p.src, []stepDesc{s}))
			}
		}
		for k := 0; k < *chains; k++ {
			p := pick(r, all)
			steps := []stepDesc{randStep(r, pick(r, methodNames)), randStep(r, pick(r, methodNames))}
			emit(out, runCase("chain", ft, "Err"+ft.Name, p.msg, p.src, steps))
		}
	}
}
