// c20 — runs the real gogenproto CLI (built from the scratch copy of the current tree) in
// generated directory trees with -protoc-path pointing at the recording stub (cmd/c20stub),
// and writes one case per (tree, flag setting): the tree as read back from disk, the
// configuration, the PackageNameFromPath oracle per directory, and what the stub recorded.
//
//	c20 -seed N -out PREFIX -cli BIN -stub BIN -work DIR -mode corpus|random|edge|ood|spec
//	    [-n TREES] [-flagsets K] [-spec FILE] [-par P]
//	c20 -pkgof -dir CWD dir...      (helper: PackageNameFromPath of each dir, run from CWD)
package main

import (
	"bytes"
	"encoding/json"
	"flag"
	"fmt"
	"math/rand/v2"
	"os"
	"os/exec"
	"path/filepath"
	"sort"
	"strings"
	"sync"
	"time"

	"github.com/drshriveer/gtools/gencommon"
	ggen "github.com/drshriveer/gtools/gogenproto/gen"

	"gtverif/internal/gal"
)

// ---------------------------------------------------------------- case description

// Entry is one thing to create below the module root.
type Entry struct {
	Path    string `json:"path"`              // slash separated, relative to the module root
	Kind    string `json:"kind"`              // dir | file | symlink
	Content string `json:"content,omitempty"` // gp | nogp | plain | gofile | near-miss kinds
	Target  string `json:"target,omitempty"`  // symlink target
}

// DirRef names a directory of the tree and how it is spelled on the command line.
type DirRef struct {
	Path string `json:"path"`          // relative to the module root, clean ("." = root)
	Form string `json:"form"`          // rel | abs | dotslash | trailing | default | raw
	Raw  string `json:"raw,omitempty"` // form raw: passed literally (out-of-domain stream)
}

// Inc is one -include argument.
type Inc struct {
	Dir       DirRef `json:"dir"`
	HasPrefix bool   `json:"has_prefix"`
	Prefix    string `json:"prefix"`
}

// Spec is everything needed to re-create and re-run a case.
type Spec struct {
	Kind      string  `json:"kind"`
	Tree      []Entry `json:"tree"`
	Cwd       string  `json:"cwd"` // relative to the module root
	Input     DirRef  `json:"input"`
	Includes  []Inc   `json:"includes"`
	CommaJoin bool    `json:"comma_join"`
	Recurse   bool    `json:"recurse"`
	VT        bool    `json:"vt"`
	GRPC      bool    `json:"grpc"`
	Flagsets  []int   `json:"flagsets,omitempty"` // bit0 recurse, bit1 vt, bit2 grpc; spec mode input
}

// Node is the tree as read back from disk.
type Node struct {
	Name string  `json:"n"`
	Dir  bool    `json:"dir,omitempty"`
	Ch   []*Node `json:"ch,omitempty"`
	GP   bool    `json:"gp,omitempty"`  // declares option go_package (the generator's ground truth)
	Reg  bool    `json:"reg,omitempty"` // Lstat mode is regular
	Body string  `json:"-"`             // content read back from disk (regular files)
}

// Case is the JSON side of one case.
type Case struct {
	Kind         string            `json:"kind"`
	Spec         Spec              `json:"spec"`
	Root         string            `json:"root"`
	CwdAbs       string            `json:"cwd_abs"`
	CLIArgs      []string          `json:"cli_args"`
	World        *Node             `json:"world"`
	Oracle       map[string]string `json:"oracle"`
	OracleGoList map[string]string `json:"oracle_golist"`
	OracleReal   map[string]string `json:"oracle_package_name_from_path,omitempty"`
	OracleBad    []string          `json:"oracle_mismatch,omitempty"`
	Runs         int               `json:"runs"`
	StubCwd      string            `json:"stub_cwd"`
	Argv         []string          `json:"argv"`
	RC           int               `json:"rc"`
	Stderr       string            `json:"stderr,omitempty"`
	NFiles       int               `json:"n_files"`
	Depth        int               `json:"depth"`
}

// ---------------------------------------------------------------- file contents

const protoHead = "syntax = \"proto3\";\n\npackage t;\n\n"
const protoBody = "message M {\n  int32 f = 1;\n}\n"

const gpLine = "option go_package = \"example.com/gen/x\";\n"
const protoEnum = "enum E {\n  E_UNSET = 0;\n  E_A = 1;\n}\n"
const protoService = "service S {\n  rpc Do(M) returns (M);\n}\n"

// gpPositions are the places a canonically spelled, top-level `option go_package = "…";` may
// sit in a file that declares it (all inside the property's "protos with go_package").
var gpPositions = []string{"gp", "gpat_first", "gpat_import", "gpat_message", "gpat_enum", "gpat_service",
	"gpat_last", "gpat_last_nonl", "gpat_comments", "gpat_indent"}

func content(kind string) string {
	switch kind {
	case "gp": // header, after the package line
		return protoHead + gpLine + "\n" + protoBody
	case "gpat_first": // first line after syntax
		return "syntax = \"proto3\";\n" + gpLine + "\npackage t;\n\n" + protoBody
	case "gpat_import": // after the imports
		return protoHead + "import \"google/protobuf/empty.proto\";\nimport \"other.proto\";\n\n" + gpLine + "\n" + protoBody
	case "gpat_message": // after a message definition
		return protoHead + protoBody + "\n" + gpLine + "\n" + protoEnum
	case "gpat_enum": // after an enum definition
		return protoHead + protoEnum + "\n" + gpLine + "\n" + protoBody
	case "gpat_service": // after message and service definitions
		return protoHead + protoBody + "\n" + protoService + "\n" + gpLine
	case "gpat_last": // the very last line
		return protoHead + protoBody + "\n" + protoEnum + "\n" + protoService + "\n\n" + gpLine
	case "gpat_last_nonl": // last line, file does not end in a newline
		return protoHead + protoBody + "\n" + protoEnum + "\n" + strings.TrimSuffix(gpLine, "\n")
	case "gpat_comments": // preceded by blank lines and comments
		return protoHead + "\n\n// Where the generated code goes.\n/* a block comment\n   over two lines */\n\n\n" + gpLine + "\n" + protoBody
	case "gpat_indent": // leading white space
		return protoHead + " \t  " + gpLine + "\n" + protoBody
	case "nogp":
		return protoHead + protoBody
	case "gp_big": // the option behind more than two read buffers of comments and definitions
		return protoHead + flat(padding(4093, 0)) + flat(padding(4800, 2)) + gpLine + "\n" + protoBody + flat(padding(9000, 0))
	case "nogp_big": // no option; a commented-out one across a buffer boundary
		return protoHead + flat(padding(4096-len(protoHead)-5, 2)) + "// option go_package = \"x\";\n" + protoBody + flat(padding(9000, 2))
	case "nogp_defs": // several definitions, never an option
		return protoHead + "import \"other.proto\";\n\n" + protoBody + "\n" + protoEnum + "\n" + protoService
	case "gofile":
		return "package p\n"
	case "gp_commented": // declares nothing, the line scan thinks it does
		return protoHead + "// option go_package = \"example.com/gen/x\";\n\n" + protoBody
	case "gp_msg_comment":
		return protoHead + "message M {\n  /* option go_package = \"x\"; */\n  int32 f = 1;\n}\n"
	case "gp_nospace": // declares it, the line scan misses it
		return protoHead + "option go_package=\"example.com/gen/x\";\n\n" + protoBody
	case "gp_spaces":
		return protoHead + "option  go_package  =  \"example.com/gen/x\";\n\n" + protoBody
	case "gp_tab": // declares it, a tab between the words
		return protoHead + "option\tgo_package\t= \"example.com/gen/x\";\n\n" + protoBody
	case "gp_newline": // declares it, the statement is split over two lines
		return protoHead + "option go_package\n    = \"example.com/gen/x\";\n\n" + protoBody
	case "gp_blockcomment": // declares nothing: the option is inside a block comment
		return protoHead + "/*\noption go_package = \"example.com/gen/x\";\n*/\n\n" + protoBody
	case "gp_string": // declares nothing: the text is inside a string literal of another option
		return protoHead + "option java_package = \"option go_package = x\";\n\n" + protoBody
	default:
		return "hello\n"
	}
}

// ground truth: does a file with this content declare option go_package?
func declaresGP(kind string) bool {
	return kind == "gp" || kind == "gp_big" || strings.HasPrefix(kind, "gpat_") || kind == "gp_nospace" || kind == "gp_spaces" ||
		kind == "gp_tab" || kind == "gp_newline"
}

// nearMissKinds: spellings on which the line scan of protoFileHasGoPackage and the lexical
// structure of the file disagree (ProtoScan.v: scan_refuted_*)
var nearMissKinds = []string{"gp_commented", "gp_msg_comment", "gp_blockcomment", "gp_string",
	"gp_nospace", "gp_spaces", "gp_tab", "gp_newline"}

// ---------------------------------------------------------------- tree on disk

func materialise(root string, spec *Spec, modname string) error {
	if err := os.MkdirAll(root, 0o755); err != nil {
		return err
	}
	if err := os.WriteFile(filepath.Join(root, "go.mod"), []byte("module "+modname+"\n\ngo 1.23.0\n"), 0o644); err != nil {
		return err
	}
	for _, e := range spec.Tree {
		p := filepath.Join(root, filepath.FromSlash(e.Path))
		switch e.Kind {
		case "dir":
			if err := os.MkdirAll(p, 0o755); err != nil {
				return err
			}
		case "file":
			if err := os.MkdirAll(filepath.Dir(p), 0o755); err != nil {
				return err
			}
			if err := os.WriteFile(p, []byte(content(e.Content)), 0o644); err != nil {
				return err
			}
		case "symlink":
			if err := os.MkdirAll(filepath.Dir(p), 0o755); err != nil {
				return err
			}
			if err := os.Symlink(e.Target, p); err != nil {
				return err
			}
		}
	}
	// the working directory, the input directory and the include directories always exist (a
	// missing include directory is the business of the out-of-domain stream only)
	need := []string{spec.Cwd, spec.Input.Path}
	if spec.Kind != "ood-missing-include" {
		for _, inc := range spec.Includes {
			if inc.Dir.Form != "raw" {
				need = append(need, inc.Dir.Path)
			}
		}
	}
	for _, d := range need {
		p := filepath.Join(root, filepath.FromSlash(d))
		if _, err := os.Lstat(p); err == nil {
			continue // exists already (possibly as a file: out-of-domain stream)
		}
		if err := os.MkdirAll(p, 0o755); err != nil {
			return err
		}
	}
	return nil
}

// readBack reads the directory as os.ReadDir reports it (sorted by name), recursively.
func readBack(dir, rel string, gp map[string]bool) ([]*Node, error) {
	ents, err := os.ReadDir(dir)
	if err != nil {
		return nil, err
	}
	out := []*Node{}
	for _, e := range ents {
		r := e.Name()
		if rel != "" {
			r = rel + "/" + e.Name()
		}
		if e.IsDir() {
			ch, err := readBack(filepath.Join(dir, e.Name()), r, gp)
			if err != nil {
				return nil, err
			}
			out = append(out, &Node{Name: e.Name(), Dir: true, Ch: ch})
		} else {
			n := &Node{Name: e.Name(), GP: gp[r], Reg: e.Type().IsRegular()}
			if n.Reg {
				if b, err := os.ReadFile(filepath.Join(dir, e.Name())); err == nil {
					n.Body = string(b)
				}
			}
			out = append(out, n)
		}
	}
	return out, nil
}

func wrapWorld(root string, ch []*Node) *Node {
	segs := strings.Split(strings.Trim(root, "/"), "/")
	n := &Node{Name: segs[len(segs)-1], Dir: true, Ch: ch}
	for i := len(segs) - 2; i >= 0; i-- {
		n = &Node{Name: segs[i], Dir: true, Ch: []*Node{n}}
	}
	return &Node{Name: "", Dir: true, Ch: []*Node{n}}
}

func stats(ns []*Node, depth int) (files, maxDepth int) {
	maxDepth = depth
	for _, n := range ns {
		if n.Dir {
			f, d := stats(n.Ch, depth+1)
			files += f
			if d > maxDepth {
				maxDepth = d
			}
		} else {
			files++
		}
	}
	return
}

// dirs (absolute) containing a regular file named *.proto
func protoDirs(dir string, ns []*Node, acc *[]string) {
	has := false
	for _, n := range ns {
		if n.Dir {
			protoDirs(filepath.Join(dir, n.Name), n.Ch, acc)
		} else if n.Reg && filepath.Ext(n.Name) == ".proto" {
			has = true
		}
	}
	if has {
		*acc = append(*acc, dir)
	}
}

// ---------------------------------------------------------------- Gallina rendering

func gPath(segs []string) string { return gal.ListOf(segs, gal.Str) }

func splitSegs(p string) []string {
	out := []string{}
	for _, s := range strings.Split(p, "/") {
		if s != "" {
			out = append(out, s)
		}
	}
	return out
}

func gPspec(clean string) string {
	if clean == "." {
		return "PRel []"
	}
	if strings.HasPrefix(clean, "/") {
		return "PAbs " + gPath(splitSegs(clean))
	}
	return "PRel " + gPath(splitSegs(clean))
}

// gLine renders one line of a file (no '\n' inside); control and non-ASCII bytes become explicit
// pieces so that the case term stays on one line and byte-exact
func gLine(l string) string {
	clean := true
	for i := 0; i < len(l); i++ {
		if l[i] < 32 || l[i] > 126 {
			clean = false
		}
	}
	if clean {
		return gal.Str(l)
	}
	parts := []string{}
	cur := []byte{}
	for i := 0; i < len(l); i++ {
		if l[i] < 32 || l[i] > 126 {
			if len(cur) > 0 {
				parts = append(parts, gal.Str(string(cur)))
				cur = cur[:0]
			}
			parts = append(parts, fmt.Sprintf("(ctl_char %d)", l[i]))
		} else {
			cur = append(cur, l[i])
		}
	}
	if len(cur) > 0 {
		parts = append(parts, gal.Str(string(cur)))
	}
	return "(pieces " + gal.List(parts) + ")"
}

// gContent renders a file content: its lines joined by newline characters
func gContent(s string) string {
	if !strings.Contains(s, "\n") {
		return gLine(s)
	}
	return "(nl_join " + gal.ListOf(strings.Split(s, "\n"), gLine) + ")"
}

func gNode(n *Node) string {
	if n.Dir {
		return "Dir " + gal.Str(n.Name) + " " + gal.ListOf(n.Ch, gNode)
	}
	return "File " + gal.Str(n.Name) + " " + gContent(n.Body) + " " + gal.Bool(n.Reg)
}

// ---------------------------------------------------------------- running one tree

type env struct {
	cli, stub, work string
	goenv           []string
}

func spell(root, cwdAbs string, d DirRef) (arg string, clean string, omit bool) {
	abs := filepath.Join(root, filepath.FromSlash(d.Path))
	rel, err := filepath.Rel(cwdAbs, abs)
	if err != nil {
		rel = abs
	}
	switch d.Form {
	case "abs":
		return abs, abs, false
	case "dotslash":
		if strings.HasPrefix(rel, "..") {
			return rel, rel, false
		}
		return "./" + rel, filepath.Clean(rel), false
	case "trailing":
		return rel + "/", filepath.Clean(rel), false
	case "default":
		return "", cwdAbs, true
	case "dslash": // a doubled separator
		if strings.Contains(rel, "/") {
			a := strings.Replace(rel, "/", "//", 1)
			return a, filepath.Clean(a), false
		}
		return rel + "//", filepath.Clean(rel), false
	case "dotdot": // x/../x
		a := rel + "/../" + filepath.Base(abs)
		if rel == "." {
			a = "./."
		}
		return a, filepath.Clean(a), false
	case "dotend":
		return rel + "/.", filepath.Clean(rel), false
	case "abs_trailing":
		return abs + "/", abs, false
	case "raw":
		return d.Raw, filepath.Clean(d.Raw), false
	default:
		return rel, rel, false
	}
}

func runTree(e *env, sem chan struct{}, id string, spec Spec, flagsets []int, realOracle bool, out func(string, Case)) error {
	sem <- struct{}{}
	held := true
	release := func() {
		if held {
			held = false
			<-sem
		}
	}
	defer release()
	root := filepath.Join(e.work, id)
	mod := "example.com/" + strings.ToLower(id)
	if err := materialise(root, &spec, mod); err != nil {
		return err
	}
	gp := map[string]bool{}
	for _, en := range spec.Tree {
		if en.Kind == "file" {
			gp[en.Path] = declaresGP(en.Content)
		}
	}
	ch, err := readBack(root, "", gp)
	if err != nil {
		return err
	}
	world := wrapWorld(root, ch)
	nfiles, depth := stats(ch, 0)
	cwdAbs := filepath.Join(root, filepath.FromSlash(spec.Cwd))

	// oracle: the Go package of a directory d of module mod is mod + "/" + rel(d) — that is
	// what the model and the specification are given.  The real gencommon.PackageNameFromPath
	// (run from cwd in a helper process) and `go list -e` are compared with it on the sampled
	// trees (realOracle); in every run the tool's own calls of PackageNameFromPath are checked
	// through the mappings it emits.
	dirs := []string{}
	protoDirs(root, ch, &dirs)
	sort.Strings(dirs)
	oracle, golist, real := map[string]string{}, map[string]string{}, map[string]string{}
	bad := []string{}
	for _, d := range dirs {
		rel, _ := filepath.Rel(root, d)
		oracle[d] = mod
		if rel != "." {
			oracle[d] = mod + "/" + filepath.ToSlash(rel)
		}
	}
	if len(dirs) > 0 && realOracle {
		var ob bytes.Buffer
		c := exec.Command(os.Args[0], append([]string{"-pkgof", "-dir", cwdAbs}, dirs...)...)
		c.Env = e.goenv
		c.Stdout = &ob
		c.Stderr = os.Stderr
		if err := c.Run(); err != nil {
			return fmt.Errorf("pkgof helper: %w", err)
		}
		if err := json.Unmarshal(ob.Bytes(), &real); err != nil {
			return fmt.Errorf("pkgof helper output: %w", err)
		}
		// where `go list -e` itself resolves the directory to an import path (it does when the
		// directory holds Go files; for a directory without Go files it echoes the directory name
		// and x/tools/go/packages derives the path from the module root) it must agree as well
		var lb bytes.Buffer
		lc := exec.Command("go", append([]string{"list", "-e", "-f", "{{.Dir}}\t{{.ImportPath}}"}, dirs...)...)
		lc.Dir = cwdAbs
		lc.Env = e.goenv
		lc.Stdout = &lb
		_ = lc.Run()
		for _, l := range strings.Split(strings.TrimSpace(lb.String()), "\n") {
			parts := strings.SplitN(l, "\t", 2)
			if len(parts) == 2 && !strings.HasPrefix(parts[1], "/") && !strings.HasPrefix(parts[1], ".") {
				golist[parts[0]] = parts[1]
			}
		}
		for _, d := range dirs {
			if real[d] != oracle[d] || (golist[d] != "" && golist[d] != oracle[d]) {
				bad = append(bad, d)
			}
		}
	}
	if !realOracle {
		real = nil
	}

	release()
	terms := make([]string, len(flagsets))
	cases := make([]Case, len(flagsets))
	errs := make([]error, len(flagsets))
	var wg sync.WaitGroup
	for k, fs := range flagsets {
		wg.Add(1)
		go func(k, fs int) {
			defer wg.Done()
			sem <- struct{}{}
			defer func() { <-sem }()
			terms[k], cases[k], errs[k] = runOne(e, id, root, mod, cwdAbs, spec, fs, world, oracle, golist, real, bad, nfiles, depth)
		}(k, fs)
	}
	wg.Wait()
	for k := range flagsets {
		if errs[k] != nil {
			return errs[k]
		}
		out(terms[k], cases[k])
	}
	return nil
}

func runOne(e *env, id, root, mod, cwdAbs string, spec Spec, fs int, world *Node,
	oracle, golist, real map[string]string, bad []string, nfiles, depth int) (string, Case, error) {
	{
		s := spec
		s.Recurse, s.VT, s.GRPC = fs&1 != 0, fs&2 != 0, fs&4 != 0
		s.Flagsets = nil
		args := []string{"-protoc-path", e.stub}
		inArg, inClean, omit := spell(root, cwdAbs, s.Input)
		if !omit {
			args = append(args, "-input-dir", inArg)
		}
		if s.Recurse {
			args = append(args, "-recurse")
		}
		if s.VT {
			args = append(args, "-vt-proto")
		}
		if s.GRPC {
			args = append(args, "-grpc")
		}
		incTerms, incArgs := []string{}, []string{}
		for _, inc := range s.Includes {
			a, clean, _ := spell(root, cwdAbs, inc.Dir)
			pre := "None"
			if inc.HasPrefix {
				a += "=" + inc.Prefix
				pre = "(Some " + gal.Str(inc.Prefix) + ")"
			}
			incArgs = append(incArgs, a)
			incTerms = append(incTerms, gal.Pair(gPspec(clean), pre))
		}
		if s.CommaJoin && len(incArgs) > 0 {
			args = append(args, "-include", strings.Join(incArgs, ","))
		} else {
			for _, a := range incArgs {
				args = append(args, "-include", a)
			}
		}
		stubOut := filepath.Join(e.work, fmt.Sprintf("%s.f%d.stub", id, fs))
		os.Remove(stubOut)
		var eb bytes.Buffer
		c := exec.Command(e.cli, args...)
		c.Dir = cwdAbs
		c.Env = append(append([]string{}, e.goenv...), "C20_STUB_OUT="+stubOut, "PWD="+cwdAbs)
		c.Stderr = &eb
		c.Stdout = &eb
		rc := 0
		done := make(chan error, 1)
		if err := c.Start(); err != nil {
			return "", Case{}, err
		}
		go func() { done <- c.Wait() }()
		select {
		case err := <-done:
			if err != nil {
				rc = 1
				if ee, ok := err.(*exec.ExitError); ok {
					rc = ee.ExitCode()
				}
			}
		case <-time.After(120 * time.Second):
			c.Process.Kill()
			rc = 124
		}
		cs := Case{Kind: s.Kind, Spec: s, Root: root, CwdAbs: cwdAbs, CLIArgs: args, World: world,
			Oracle: oracle, OracleGoList: golist, OracleReal: real, OracleBad: bad, RC: rc, NFiles: nfiles, Depth: depth,
			Argv: []string{}}
		if rc != 0 {
			msg := eb.String()
			if len(msg) > 400 {
				msg = msg[len(msg)-400:]
			}
			cs.Stderr = msg
		}
		if b, err := os.ReadFile(stubOut); err == nil {
			for _, l := range strings.Split(strings.TrimSpace(string(b)), "\n") {
				if l == "" {
					continue
				}
				var rec struct {
					Cwd  string   `json:"cwd"`
					Argv []string `json:"argv"`
				}
				if json.Unmarshal([]byte(l), &rec) == nil {
					cs.Runs++
					cs.StubCwd, cs.Argv = rec.Cwd, rec.Argv
				}
			}
		}
		os.Remove(stubOut)
		okeys := make([]string, 0, len(oracle))
		for k := range oracle {
			if oracle[k] != "" {
				okeys = append(okeys, k)
			}
		}
		sort.Strings(okeys)
		oterms := make([]string, len(okeys))
		for i, k := range okeys {
			oterms[i] = gal.Pair(gPath(splitSegs(k)), gal.Str(oracle[k]))
		}
		rawInput := inArg
		if omit {
			rawInput = cwdAbs // env:"PWD"
		}
		entries := []string{}
		for _, a := range incArgs {
			entries = append(entries, strings.Split(a, ",")...) // flagsfiller splits []string values at commas
		}
		genTerm := "{| g_InputDir := " + gal.Str(rawInput) + "; g_ProtocPath := " + gal.Str(e.stub) +
			"; g_Recurse := " + gal.Bool(s.Recurse) + "; g_VTProto := " + gal.Bool(s.VT) + "; g_GRPC := " + gal.Bool(s.GRPC) +
			"; g_Include := " + gal.ListOf(entries, gal.Str) + " |}"
		term := "{| pc_cfg := {| c_root := " + gNode(world) +
			"; c_cwd := " + gPath(splitSegs(cwdAbs)) +
			"; c_input := " + gPspec(inClean) +
			"; c_recurse := " + gal.Bool(s.Recurse) + "; c_vt := " + gal.Bool(s.VT) +
			"; c_grpc := " + gal.Bool(s.GRPC) +
			"; c_includes := " + gal.List(incTerms) + " |}" +
			"; pc_gen := " + genTerm +
			"; pc_oracle := " + gal.List(oterms) +
			"; pc_runs := " + gal.Nat(cs.Runs) +
			"; pc_stub_cwd := " + gPath(splitSegs(cs.StubCwd)) +
			"; pc_argv := " + gal.ListOf(cs.Argv, gal.Str) + " |}"
		return term, cs, nil
	}
}

// ---------------------------------------------------------------- generators

type gen struct {
	r        *rand.Rand
	files    int
	budget   int
	tree     []Entry
	seen     map[string]bool
	maxDepth int  // 0: the property's quantifier (3)
	wide     bool // beyond the quantifier's caps: long names, big files, many entries per directory
}

func (g *gen) pick(xs []string) string { return xs[g.r.IntN(len(xs))] }

func (g *gen) add(e Entry) bool {
	if g.seen[e.Path] {
		return false
	}
	g.seen[e.Path] = true
	g.tree = append(g.tree, e)
	return true
}

func join(dir, name string) string {
	if dir == "." || dir == "" {
		return name
	}
	return dir + "/" + name
}

var protoNames = []string{"a.proto", "b.proto", "c.proto", "svc.proto", "types.proto", "z.proto"}
var oddProtoNames = []string{".proto", "x.y.proto", "UPPER.proto", "da-sh.proto", "sp ace.proto"}
var plainNames = []string{"notes.txt", "README.md", "proto", "y.protox", "x.proto.bak", "Z.PROTO", "a.prot", "Makefile"}
var dirNames = []string{"sub", "v1", "api", "b", "types"}
var oddDirNames = []string{".hid", "_u", "testdata", "vendor", "d.proto", "internal", ".git"}

// fill creates random entries below dir (relative to the module root)
func (g *gen) fill(dir string, depth int, edge bool, inputName string) {
	n := g.r.IntN(5)
	if depth == 0 {
		n = 1 + g.r.IntN(5)
	}
	if g.wide {
		n += g.r.IntN(6)
	}
	maxDepth := 3
	if g.maxDepth > 0 {
		maxDepth = g.maxDepth
	}
	for i := 0; i < n && g.files < g.budget; i++ {
		x := g.r.IntN(100)
		switch {
		case x < 45:
			name := g.pick(protoNames)
			if edge && g.r.IntN(3) == 0 {
				name = g.pick(oddProtoNames)
			}
			c := "nogp"
			switch x := g.r.IntN(100); {
			case x < 40:
				c = gpPositions[g.r.IntN(len(gpPositions))]
			case x < 50:
				c = "nogp_defs"
			}
			if g.wide {
				switch g.r.IntN(6) {
				case 0:
					c = "gp_big"
				case 1:
					c = "nogp_big"
				case 2:
					name = strings.Repeat("averylongprotofilename", 1+g.r.IntN(6)) + ".proto"
				}
			}
			if g.add(Entry{Path: join(dir, name), Kind: "file", Content: c}) {
				g.files++
			}
		case x < 65:
			c := "plain"
			name := g.pick(plainNames)
			if g.r.IntN(8) == 0 {
				name, c = "doc.go", "gofile"
			}
			if g.add(Entry{Path: join(dir, name), Kind: "file", Content: c}) {
				g.files++
			}
		default:
			if depth >= maxDepth {
				continue
			}
			name := g.pick(dirNames)
			if g.wide && g.r.IntN(4) == 0 {
				name = strings.Repeat("longdirectoryname", 1+g.r.IntN(8)) + fmt.Sprint(g.r.IntN(10))
			}
			if edge {
				switch g.r.IntN(3) {
				case 0:
					name = g.pick(oddDirNames)
				case 1:
					name = inputName
				}
			}
			if name == "" || name == "." {
				name = "sub"
			}
			p := join(dir, name)
			if g.add(Entry{Path: p, Kind: "dir"}) {
				g.fill(p, depth+1, edge, inputName)
			}
		}
	}
}

var prefixes = []string{"github.com/foo/bar", "example.com/x", "p", "corp/protos/v2"}

// prefixes that are not in Clean form: filepath.Join(prefix, dir) cleans them
var oddPrefixes = []string{"example.com/x/", "a//b", "./p", "p/../q", "/abs/pre", "../up", "example.com/./v", "x/"}

func genSpec(r *rand.Rand, kind string) Spec {
	edge := kind == "edge" || kind == "wide"
	g := &gen{r: r, budget: 3 + r.IntN(10), seen: map[string]bool{}}
	if kind == "wide" { // beyond the caps of the property's quantifier (used when a tie breaks, and in the thorough tier)
		g.wide, g.maxDepth, g.budget = true, 4+r.IntN(4), 13+r.IntN(30)
	}
	layouts := [][2]string{ // input, cwd
		{".", "."}, {"protos", "."}, {"protos", "protos"}, {"api/v1", "."}, {"protos", "tools"}, {"api/v1", "api"},
	}
	l := layouts[r.IntN(len(layouts))]
	input, cwd := l[0], l[1]
	spec := Spec{Kind: kind, Cwd: cwd, Includes: []Inc{}}
	form := "rel"
	switch x := r.IntN(100); {
	case x < 35:
		form = "abs"
	case x < 42:
		form = "dotslash"
	case x < 49:
		form = "trailing"
	case x < 56 && input == cwd:
		form = "default"
	case edge && x < 64:
		form = "dslash"
	case edge && x < 72:
		form = "dotdot"
	case edge && x < 78:
		form = "dotend"
	case edge && x < 84:
		form = "abs_trailing"
	}
	spec.Input = DirRef{Path: input, Form: form}
	inputName := filepath.Base(input)
	if input == "." {
		inputName = "protos"
	}
	if !(edge && r.IntN(8) == 0) { // edge: sometimes an empty input directory
		g.fill(input, 0, edge, inputName)
	}
	// include directories
	ninc := r.IntN(3)
	if edge && ninc == 0 {
		ninc = 1
	}
	if g.wide {
		ninc = r.IntN(9)
	}
	subdirs := []string{}
	for _, e := range g.tree {
		if e.Kind == "dir" {
			subdirs = append(subdirs, e.Path)
		}
	}
	for i := 0; i < ninc; i++ {
		var d string
		x := r.IntN(100)
		switch {
		case x < 50 || (!edge && x < 75):
			d = []string{"inc", "third_party/lib"}[r.IntN(2)]
			if !g.seen[d] {
				g.add(Entry{Path: d, Kind: "dir"})
				save := g.budget
				g.budget = g.files + 1 + r.IntN(3)
				if g.budget > 12 {
					g.budget = 12
				}
				g.fill(d, 1, edge, inputName)
				g.budget = save
			}
		case x < 70 && len(subdirs) > 0:
			d = subdirs[r.IntN(len(subdirs))] // below the input directory
		case x < 85 && input != ".":
			d = filepath.Dir(input) // parent of the input directory
		default:
			d = input // the input directory again
		}
		f := "rel"
		switch y := r.IntN(100); {
		case y < 40:
			f = "abs"
		case edge && y < 48:
			f = "trailing"
		case edge && y < 56:
			f = "dotslash"
		case edge && y < 62:
			f = "dslash"
		}
		inc := Inc{Dir: DirRef{Path: d, Form: f}}
		if r.IntN(2) == 0 {
			inc.HasPrefix = true
			inc.Prefix = prefixes[r.IntN(len(prefixes))]
			if edge {
				switch y := r.IntN(12); {
				case y < 2:
					inc.Prefix = ""
				case y < 6:
					inc.Prefix = oddPrefixes[r.IntN(len(oddPrefixes))]
				}
			}
		}
		spec.Includes = append(spec.Includes, inc)
	}
	if edge && len(spec.Includes) > 0 && r.IntN(6) == 0 { // the same -include twice
		spec.Includes = append(spec.Includes, spec.Includes[r.IntN(len(spec.Includes))])
	}
	spec.CommaJoin = len(spec.Includes) > 1 && r.IntN(3) == 0
	if edge && r.IntN(8) == 0 { // one proto with a near-miss spelling of the option (known findings C20-scan-*)
		k := nearMissKinds[r.IntN(len(nearMissKinds))]
		done := false
		for i := range g.tree {
			if g.tree[i].Kind == "file" && strings.HasSuffix(g.tree[i].Path, ".proto") {
				g.tree[i].Content, done = k, true
				break
			}
		}
		if !done {
			g.tree = append(g.tree, Entry{Path: join(input, "nm.proto"), Kind: "file", Content: k})
		}
	}
	spec.Tree = g.tree
	return spec
}

// out-of-domain / near-miss: never gates
func genOOD(r *rand.Rand, i int) Spec {
	s := genSpec(r, "random")
	switch i % 5 {
	case 0: // an -include "directory" that is a regular .proto file
		s.Kind = "ood-file-as-dir"
		s.Tree = append(s.Tree, Entry{Path: "incf/f.proto", Kind: "file", Content: "nogp"})
		s.Includes = append(s.Includes, Inc{Dir: DirRef{Path: "incf/f.proto", Form: "rel"}})
	case 1: // symbolic links named *.proto
		s.Kind = "ood-symlink"
		s.Tree = append(s.Tree,
			Entry{Path: join(s.Input.Path, "real.proto"), Kind: "file", Content: "nogp"},
			Entry{Path: join(s.Input.Path, "link.proto"), Kind: "symlink", Target: "real.proto"})
	case 2: // include directory that does not exist: the tool fails before protoc
		s.Kind = "ood-missing-include"
		s.Includes = append(s.Includes, Inc{Dir: DirRef{Path: "does/not/exist", Form: "rel"}})
	case 4: // a file whose name starts with '-' directly inside input directory ".": the tool
		// passes "-dash.proto", which protoc (and the judge) read as a flag, not a file
		s.Kind = "ood-dashname"
		s.Cwd, s.Input = ".", DirRef{Path: ".", Form: "rel"}
		s.Tree = append(s.Tree, Entry{Path: "-dash.proto", Kind: "file", Content: "nogp"})
	case 3: // the input directory is a symbolic link to a directory
		if s.Input.Path == "protos" {
			s.Kind = "ood-symlink-input"
			s.Tree = append(s.Tree, Entry{Path: "linked", Kind: "symlink", Target: "protos"})
			s.Cwd, s.Input = ".", DirRef{Path: "linked", Form: "rel"}
		} else {
			s.Kind = "ood-symlink"
			s.Tree = append(s.Tree,
				Entry{Path: join(s.Input.Path, "real.proto"), Kind: "file", Content: "nogp"},
				Entry{Path: join(s.Input.Path, "link.proto"), Kind: "symlink", Target: "real.proto"})
		}
	}
	return s
}

// covering designs over (recurse, vt, grpc): the two halves of the cube; each is a pairwise
// cover, together they are all 8 settings
var (
	coverA = []int{0, 3, 5, 6}
	coverB = []int{7, 4, 2, 1}
)

func corpus() []Spec {
	f := func(s, c string) Entry { return Entry{Path: s, Kind: "file", Content: c} }
	p := func(s string) Entry { return f(s, "nogp") }
	gp := func(s string) Entry { return f(s, "gp") }
	tx := func(s string) Entry { return f(s, "plain") }
	d := func(s string) Entry { return Entry{Path: s, Kind: "dir"} }
	// input dir with: sub directory, hidden directory, directory named like the input dir,
	// directory named *.proto, empty directory; a separate include tree
	base := []Entry{p("protos/a.proto"), gp("protos/b.proto"), tx("protos/readme.txt"),
		p("protos/sub/c.proto"), p("protos/.hid/c.proto"), f("protos/protos/a.proto", "gpat_last"),
		f("protos/d.proto/e.proto", "gpat_message"), d("protos/empty"),
		p("inc/j.proto"), p("inc/x/i.proto"), gp("inc/x/k.proto")}
	// one file per position of the go_package option, in the input dir and below an include
	positions := []Entry{f("protos/plain.proto", "nogp_defs")}
	for i, k := range gpPositions {
		positions = append(positions, f(fmt.Sprintf("protos/pos%d.proto", i), k))
		if i%3 == 0 {
			positions = append(positions, f(fmt.Sprintf("inc/deep/pos%d.proto", i), k))
		}
	}
	small := []Entry{p("protos/a.proto"), gp("protos/b.proto"), p("protos/sub/c.proto"),
		p("inc/j.proto"), p("third_party/lib/l.proto"), p("third_party/lib/v1/m.proto")}
	return []Spec{
		// the layout of gogenproto/internal: a proto beside go files, a skipped sub directory
		{Kind: "corpus", Cwd: ".", Input: DirRef{Path: ".", Form: "default"}, Flagsets: coverA,
			Tree: []Entry{p("test.proto"), f("gen_proto.go", "gofile"), gp("skipped/should_be_skipped.proto")}},
		{Kind: "corpus", Cwd: ".", Input: DirRef{Path: "protos", Form: "rel"}, Tree: base, Flagsets: coverB,
			Includes: []Inc{{Dir: DirRef{Path: "inc", Form: "rel"}, HasPrefix: true, Prefix: "github.com/foo/bar"}}},
		// overlapping include paths: the parent of the input dir and a sub directory of it
		{Kind: "corpus", Cwd: "protos", Input: DirRef{Path: "protos", Form: "rel"}, Tree: base, Flagsets: coverA,
			Includes: []Inc{{Dir: DirRef{Path: ".", Form: "rel"}}, {Dir: DirRef{Path: "protos/sub", Form: "abs"}, HasPrefix: true, Prefix: "p/q"}}},
		{Kind: "corpus", Cwd: ".", Input: DirRef{Path: "protos", Form: "abs"}, Tree: base, Flagsets: coverB,
			Includes: []Inc{{Dir: DirRef{Path: ".", Form: "abs"}}, {Dir: DirRef{Path: "inc", Form: "rel"}, HasPrefix: true, Prefix: ""}}, CommaJoin: true},
		// the input dir again as include, with a prefix
		{Kind: "corpus", Cwd: "tools", Input: DirRef{Path: "protos", Form: "rel"}, Tree: small, Flagsets: coverA,
			Includes: []Inc{{Dir: DirRef{Path: "protos", Form: "rel"}, HasPrefix: true, Prefix: "example.com/explicit"}}},
		// unclean spellings of the input dir
		{Kind: "corpus", Cwd: ".", Input: DirRef{Path: "protos", Form: "trailing"}, Tree: small, Flagsets: []int{0, 3, 5}},
		// a prefixed include followed by a plain one
		{Kind: "corpus", Cwd: ".", Input: DirRef{Path: "protos", Form: "dotslash"}, Tree: small, Flagsets: coverB,
			Includes: []Inc{{Dir: DirRef{Path: "inc", Form: "rel"}, HasPrefix: true, Prefix: "example.com/pfx"},
				{Dir: DirRef{Path: "third_party/lib", Form: "rel"}}}, CommaJoin: true},
		// every position of `option go_package = …;`
		{Kind: "corpus", Cwd: ".", Input: DirRef{Path: "protos", Form: "rel"}, Tree: positions, Flagsets: coverA,
			Includes: []Inc{{Dir: DirRef{Path: "inc", Form: "abs"}}}},
		// prefixes that are not Clean, a duplicated -include, unclean spellings of input and include dirs
		{Kind: "corpus", Cwd: ".", Input: DirRef{Path: "protos", Form: "dotdot"}, Tree: small, Flagsets: []int{1, 6},
			Includes: []Inc{{Dir: DirRef{Path: "inc", Form: "trailing"}, HasPrefix: true, Prefix: "example.com/vendored/"},
				{Dir: DirRef{Path: "third_party/lib", Form: "dslash"}, HasPrefix: true, Prefix: "a//b/./c"},
				{Dir: DirRef{Path: "inc", Form: "trailing"}, HasPrefix: true, Prefix: "example.com/vendored/"}}},
		{Kind: "corpus", Cwd: "protos", Input: DirRef{Path: "protos", Form: "dotend"}, Tree: small, Flagsets: []int{0, 7},
			Includes: []Inc{{Dir: DirRef{Path: "third_party/lib", Form: "rel"}, HasPrefix: true, Prefix: "../up"},
				{Dir: DirRef{Path: "inc", Form: "abs_trailing"}, HasPrefix: true, Prefix: "/abs/pre"}}},
		{Kind: "corpus", Cwd: ".", Input: DirRef{Path: "protos", Form: "abs_trailing"}, Tree: small, Flagsets: []int{0, 3}},
		{Kind: "corpus", Cwd: ".", Input: DirRef{Path: "protos", Form: "dslash"}, Tree: small, Flagsets: []int{1, 4}},
	}
}

// nearMissCorpus: one tree per near-miss spelling of the option (gating; the failures are the
// known findings C20-scan-says-declared / C20-scan-misses-declaration), and an input directory
// whose name holds '=' (C20-input-dir-equals)
func nearMissCorpus() []Spec {
	out := []Spec{}
	for i, k := range nearMissKinds {
		tree := []Entry{{Path: "protos/a.proto", Kind: "file", Content: "nogp"},
			{Path: "protos/nm.proto", Kind: "file", Content: k},
			{Path: "inc/x/nm2.proto", Kind: "file", Content: k}}
		s := Spec{Kind: "corpus-nearmiss", Cwd: ".", Input: DirRef{Path: "protos", Form: "rel"}, Tree: tree,
			Flagsets: []int{i % 8}}
		if i%2 == 0 {
			s.Includes = []Inc{{Dir: DirRef{Path: "inc", Form: "rel"}, HasPrefix: i%4 == 0, Prefix: "example.com/p"}}
		}
		out = append(out, s)
	}
	eq := []Entry{{Path: "k=v/a.proto", Kind: "file", Content: "nogp"}, {Path: "k=v/sub/b.proto", Kind: "file", Content: "gp"}}
	out = append(out,
		Spec{Kind: "corpus-equals", Cwd: ".", Input: DirRef{Path: "k=v", Form: "rel"}, Tree: eq, Flagsets: []int{1}},
		Spec{Kind: "corpus-equals", Cwd: "k=v", Input: DirRef{Path: "k=v", Form: "default"}, Tree: eq, Flagsets: []int{2}},
		// the directory named by the part before '=' exists as well
		Spec{Kind: "corpus-equals", Cwd: ".", Input: DirRef{Path: "k=v", Form: "rel"}, Flagsets: []int{0},
			Tree: append([]Entry{{Path: "k/other.proto", Kind: "file", Content: "nogp"}}, eq...)})
	return out
}

// ---------------------------------------------------------------- the byte scanner alone

// scanFrags: pieces of proto source that exercise every state and transition of the scanner
var scanFrags = []string{"option", "go_package", "=", "\"x\"", "'y'", " ", "\n", "\t", "//", "/*", "*/", "/",
	"\\", "\"", "'", "x", ";", "*", "\r", "opt", "ion", "_"}

// ScanCase is the JSON side of one run of protoFileHasGoPackage.
type ScanCase struct {
	Kind    string  `json:"kind"`
	Content string  `json:"scan_content"`          // contents up to 16 KB literally
	Pieces  []piece `json:"scan_pieces,omitempty"` // longer ones as (string, repetitions) pieces
	Len     int     `json:"len"`
	Got     bool    `json:"got"`
	Err     string  `json:"err,omitempty"`
}

// scanOne runs protoFileHasGoPackage on the file under recover() and a watchdog: a panic or a
// scanner that does not return is an answer (an error) about this content, not the end of the run
func scanOne(p string) (got bool, errText string, hung bool) {
	type res struct {
		got bool
		err string
	}
	ch := make(chan res, 1)
	go func() {
		defer func() {
			if r := recover(); r != nil {
				ch <- res{false, fmt.Sprintf("panic: %v", r)}
			}
		}()
		g, err := ggen.ProtoFileHasGoPackageForVerif(p)
		e := ""
		if err != nil {
			e = err.Error()
		}
		ch <- res{g, e}
	}()
	select {
	case r := <-ch:
		return r.got, r.err, false
	case <-time.After(10 * time.Second):
		return false, "no answer within 10 s (scanner does not terminate)", true
	}
}

func scanContents(r *rand.Rand, exhaustLen, nRandom int) []string {
	out := []string{""}
	// every sequence of fragments up to exhaustLen
	var rec func(prefix string, n int)
	rec = func(prefix string, n int) {
		if n == 0 {
			return
		}
		for _, f := range scanFrags {
			out = append(out, prefix+f)
			rec(prefix+f, n-1)
		}
	}
	rec("", exhaustLen)
	// a declaration with every fragment / pair of fragments in each of its five gaps
	toks := []string{"option", "go_package", "=", "\"example.com/x\"", ";"}
	decl := func(gaps [6]string) string {
		s := gaps[0]
		for i, t := range toks {
			s += t + gaps[i+1]
		}
		return s
	}
	base := [6]string{"", " ", " ", " ", "", "\n"}
	for g := 0; g < 6; g++ {
		for _, f1 := range scanFrags {
			gaps := base
			gaps[g] = f1
			out = append(out, decl(gaps))
			for _, f2 := range scanFrags {
				gaps[g] = f1 + f2
				out = append(out, decl(gaps))
			}
		}
	}
	// random longer sequences, biased towards the tokens of the declaration
	for i := 0; i < nRandom; i++ {
		n := 3 + r.IntN(10)
		s := ""
		for k := 0; k < n; k++ {
			if r.IntN(3) == 0 {
				s += scanFrags[r.IntN(5)]
			} else {
				s += scanFrags[r.IntN(len(scanFrags))]
			}
		}
		out = append(out, s)
	}
	// whole files of the generator, every content kind
	kinds := append(append([]string{"nogp", "nogp_defs", "plain", "gofile"}, gpPositions...), nearMissKinds...)
	for _, k := range kinds {
		out = append(out, content(k))
	}
	return out
}

// piece: a string repeated N times; long contents are written as lists of pieces so that the
// Gallina case term stays small (repN n s is computed inside Coq)
type piece struct {
	S string `json:"s"`
	N int    `json:"n"`
}

func flat(ps []piece) string {
	var b strings.Builder
	for _, p := range ps {
		for i := 0; i < p.N; i++ {
			b.WriteString(p.S)
		}
	}
	return b.String()
}

func plen(ps []piece) int {
	n := 0
	for _, p := range ps {
		n += len(p.S) * p.N
	}
	return n
}

func gPieces(ps []piece) string {
	if len(ps) == 1 && ps[0].N == 1 {
		return gContent(ps[0].S)
	}
	items := []string{}
	for _, p := range ps {
		switch {
		case p.N <= 0 || p.S == "":
		case p.N == 1:
			items = append(items, gContent(p.S))
		default:
			items = append(items, fmt.Sprintf("(repN %d%%N %s)", p.N, gContent(p.S)))
		}
	}
	return "(pieces " + gal.List(items) + ")"
}

// padding returns exactly n bytes of proto source that is not a declaration and leaves the scanner
// between tokens: kind 0 short comment lines, 1 one very long comment line (longer than any line
// buffer), 2 message definitions and blank lines, 3 a long string literal inside an option.
func padding(n, kind int) []piece {
	if n <= 0 {
		return nil
	}
	out := []piece{}
	switch kind {
	case 1:
		if n >= 3 {
			return []piece{{"//", 1}, {"y", n - 3}, {"\n", 1}}
		}
	case 2:
		unit := "message Pad {\n  int32 f = 1;\n}\n\n"
		out = append(out, piece{unit, n / len(unit)})
	case 3:
		head, tail := "option java_package = \"", "\";\n"
		if n >= len(head)+len(tail) {
			return []piece{{head, 1}, {"p", n - len(head) - len(tail)}, {tail, 1}}
		}
	default:
		unit := "// padding: nothing is declared on this line\n"
		out = append(out, piece{unit, n / len(unit)})
	}
	if rest := n - plen(out); rest > 0 {
		if rest >= 3 && kind != 2 {
			out = append(out, piece{"//", 1}, piece{"z", rest - 3}, piece{"\n", 1})
		} else {
			out = append(out, piece{" ", rest - 1}, piece{"\n", 1})
		}
	}
	return out
}

// longContents: files in which every character of a declaration (and of the near misses: a
// commented-out declaration, one inside a string literal, an escaped quote) lands on a multiple of
// the usual buffer sizes — the buffer-boundary classes of any reader-based scanner
func longContents(thorough bool) [][]piece {
	out := [][]piece{}
	decls := []string{
		"option go_package = \"example.com/x\";",  // declares
		"option go_package=\"x\";",                 // declares, no blanks
		"// option go_package = \"x\";\n",          // declares nothing
		"/* option go_package = \"x\"; */",         // declares nothing
		"option s = \"a\\\"option go_package = \";", // declares nothing: escaped quote inside a literal
		"option\tgo_package\n=\n'x'",               // declares
	}
	tail := "\nmessage M {\n  int32 f = 1;\n}\n"
	borders := func(d string) []int { // offsets around the borders of the declaration's tokens
		js := []int{0, 1, 2, len(d) - 1, len(d)}
		for i := 1; i < len(d); i++ {
			if (d[i] == ' ' || d[i] == '=' || d[i] == '"' || d[i] == '\t' || d[i] == '\n' || d[i] == '_') && i+1 <= len(d) {
				js = append(js, i-1, i, i+1)
			}
		}
		sort.Ints(js)
		out := []int{}
		for i, j := range js {
			if j >= 0 && j <= len(d) && (i == 0 || j != js[i-1]) {
				out = append(out, j)
			}
		}
		return out
	}
	all := func(d string) []int {
		out := make([]int, len(d)+1)
		for i := range out {
			out[i] = i
		}
		return out
	}
	// one content: the declaration's character j on offset b; followed by more than another block
	// when withTail (a reader that keeps pieces of its buffer sees them overwritten by the next read)
	add := func(b, j, k int, d string, withTail bool) {
		if j > b {
			return
		}
		c := append(append([]piece{}, padding(b-j, k)...), piece{d + tail, 1})
		if withTail {
			c = append(c, padding(b+300, (k+2)%4)...)
		}
		out = append(out, c)
	}
	if thorough {
		for _, b := range []int{512, 1024, 2048, 4096, 8192, 12288, 16384, 32768, 65536, 131072, 196608} {
			for di, d := range decls {
				js := all(d)
				if b > 16384 || di > 0 {
					js = borders(d)
				}
				for _, j := range js {
					for k := 0; k < 4; k++ {
						if di > 0 && k != 0 {
							continue
						}
						add(b, j, k, d, b <= 65536)
					}
				}
			}
		}
	} else {
		for _, b := range []int{512, 4096} { // every character of every spelling on the boundary
			for _, d := range decls {
				for _, j := range all(d) {
					add(b, j, 0, d, true)
				}
			}
		}
		for _, d := range decls[:3] {
			for _, j := range borders(d) {
				add(8192, j, 0, d, true)
			}
		}
		for _, j := range []int{0, 3, 7, 12, 18, 20} {
			add(65536, j, 0, decls[0], false)
		}
		add(65536, 3, 0, decls[0], true)
		for _, b := range []int{512, 4096, 8192} { // the other kinds of padding
			for k := 1; k < 4; k++ {
				for _, j := range []int{0, 3, 9, 18} {
					add(b, j, k, decls[0], true)
				}
			}
		}
		add(65536, 9, 1, decls[0], false) // after a line of 64 KiB
	}
	// two declarations' worth of blocks without any declaration, and a declaration at the very end
	out = append(out, append(padding(20000, 0), piece{tail, 1}), append(padding(70000, 1), piece{tail, 1}),
		append(padding(20000, 2), piece{decls[0], 1}))
	return out
}

func scanMain(seed uint64, outp, work string, exhaustLen, nRandom int) {
	r := gal.NewRand(seed)
	dir := filepath.Join(work, "scan")
	if err := os.MkdirAll(dir, 0o755); err != nil {
		panic(err)
	}
	defer os.RemoveAll(dir)
	o := gal.NewOut(outp)
	p := filepath.Join(dir, "f.proto")
	hangs := 0
	contents := [][]piece{}
	for _, c := range scanContents(r, exhaustLen, nRandom) {
		contents = append(contents, []piece{{c, 1}})
	}
	contents = append(contents, longContents(exhaustLen >= 3)...)
	for _, ps := range contents {
		c := flat(ps)
		if err := os.WriteFile(p, []byte(c), 0o644); err != nil {
			panic(err)
		}
		got, errText, hung := scanOne(p)
		sc := ScanCase{Kind: "scan", Got: got, Err: errText, Len: len(c)}
		if len(c) <= 16384 {
			sc.Content = c
		} else {
			sc.Pieces = ps
		}
		o.Case("{| sc_content := "+gPieces(ps)+"; sc_got := "+gal.Bool(got)+"; sc_err := "+gal.Bool(errText != "")+" |}", sc)
		if hung {
			hangs++
			p = filepath.Join(dir, fmt.Sprintf("f%d.proto", hangs)) // the stuck goroutine keeps the old file
			if hangs >= 3 {
				break // three contents on which the scanner does not return are enough
			}
		}
	}
	o.Close()
}

// ---------------------------------------------------------------- main

func pkgofMain(dir string, dirs []string) {
	if err := os.Chdir(dir); err != nil {
		fmt.Fprintln(os.Stderr, err)
		os.Exit(2)
	}
	out := map[string]string{}
	for _, d := range dirs {
		p, err := gencommon.PackageNameFromPath(d)
		if err != nil {
			p = ""
		}
		out[d] = p
	}
	b, _ := json.Marshal(out)
	os.Stdout.Write(b)
}

func main() {
	seed := flag.Uint64("seed", 1, "seed")
	outp := flag.String("out", "", "output prefix")
	mode := flag.String("mode", "random", "corpus|random|edge|ood|spec")
	n := flag.Int("n", 10, "number of trees")
	flagsets := flag.Int("flagsets", 8, "flag settings per tree (8 = all)")
	cli := flag.String("cli", "", "gogenproto binary")
	stub := flag.String("stub", "", "recording protoc stub")
	work := flag.String("work", "", "scratch directory for the trees")
	specFile := flag.String("spec", "", "jsonl of specs (mode spec)")
	par := flag.Int("par", 16, "parallel trees")
	osample := flag.Int("oraclesample", 1, "call the real PackageNameFromPath for every K-th tree (always in corpus/spec mode)")
	noReal := flag.Bool("norealoracle", false, "never call the real PackageNameFromPath helper (minimisation rounds)")
	scanFile := flag.String("scanfile", "", "helper mode: print protoFileHasGoPackage of this file")
	pkgof := flag.Bool("pkgof", false, "helper mode")
	dir := flag.String("dir", "", "helper mode: working directory")
	flag.Parse()
	if *pkgof {
		pkgofMain(*dir, flag.Args())
		return
	}
	if *scanFile != "" {
		got, err := ggen.ProtoFileHasGoPackageForVerif(*scanFile)
		fmt.Println(got, err)
		return
	}
	if *mode == "scan" {
		scanMain(*seed, *outp, *work, *flagsets, *n)
		return
	}
	w, err := filepath.EvalSymlinks(*work)
	if err != nil {
		panic(err)
	}
	e := &env{cli: *cli, stub: *stub, work: w}
	for _, kv := range os.Environ() {
		if strings.HasPrefix(kv, "PWD=") || strings.HasPrefix(kv, "C20_STUB_OUT=") {
			continue
		}
		e.goenv = append(e.goenv, kv)
	}
	r := gal.NewRand(*seed)
	var specs []Spec
	switch *mode {
	case "corpus":
		specs = corpus()
	case "nearmiss":
		specs = nearMissCorpus()
	case "random", "edge", "wide":
		for i := 0; i < *n; i++ {
			specs = append(specs, genSpec(r, *mode))
		}
	case "ood":
		for i := 0; i < *n; i++ {
			specs = append(specs, genOOD(r, i))
		}
	case "spec":
		b, err := os.ReadFile(*specFile)
		if err != nil {
			panic(err)
		}
		for _, l := range strings.Split(strings.TrimSpace(string(b)), "\n") {
			if l == "" {
				continue
			}
			var s Spec
			if err := json.Unmarshal([]byte(l), &s); err != nil {
				panic(err)
			}
			specs = append(specs, s)
		}
	}
	type res struct {
		terms []string
		cases []Case
		err   error
	}
	results := make([]res, len(specs))
	sem := make(chan struct{}, *par)
	var wg sync.WaitGroup
	gate := make(chan struct{}, 2**par) // bounds the number of trees on disk at once
	for i := range specs {
		wg.Add(1)
		gate <- struct{}{}
		go func(i int) {
			defer wg.Done()
			defer func() { <-gate }()
			fsets := specs[i].Flagsets
			if *mode == "corpus" && *flagsets >= 8 && specs[i].Kind == "corpus" {
				fsets = nil
			}
			if len(fsets) == 0 {
				if *flagsets >= 8 {
					fsets = []int{0, 1, 2, 3, 4, 5, 6, 7}
				} else {
					for k := 0; k < *flagsets; k++ {
						fsets = append(fsets, (i*3+k*5)%8) // 5 is a unit mod 8: distinct settings
					}
				}
			}
			id := fmt.Sprintf("%s%d", (*mode)[:1], i)
			realOracle := !*noReal && (*mode == "corpus" || *mode == "spec" || *osample <= 1 || i%*osample == 0)
			results[i].err = runTree(e, sem, id, specs[i], fsets, realOracle, func(t string, c Case) {
				results[i].terms = append(results[i].terms, t)
				results[i].cases = append(results[i].cases, c)
			})
			os.RemoveAll(filepath.Join(e.work, id))
		}(i)
	}
	wg.Wait()
	o := gal.NewOut(*outp)
	for i := range results {
		if results[i].err != nil {
			fmt.Fprintln(os.Stderr, "tree", i, "failed:", results[i].err)
			os.Exit(1)
		}
		for k := range results[i].terms {
			o.Case(results[i].terms[k], results[i].cases[k])
		}
	}
	o.Close()
}
