// xlate_params — translator tie (T) for C19: reads gencommon/params.go and gencommon/method.go
// of the current tree with go/parser and regenerates Gallina definitions of the parameter-naming
// code reachable from MethodFromSignature:
//
//	Method.ensureParamNames, Params.keepNames, Params.ensureNames, getSafeParamName,
//	reserveParamName (whatever they are called today) and every unexported helper they call
//
// over the primitives of GT.IFaceGenPrims (map_get/map_has/map_set, fmt_int, while_loop,
// range_upd, type_implements_*).  coq/ties/Tie_C19.v proves each regenerated function equal — for
// all arguments — to the hand-written model of IFaceModel.v that Props/C19.v (C19_names) is about.
//
// Functions are found by ROLE, not by name: the entry is the method MethodFromSignature calls on
// the Method it builds; its callees are translated on demand, depth first.  A function gets its
// canonical Gallina name from the shape of its signature
//
//	(m *Method) f()                          gen_ensureParamNames
//	(ps Params) f(map[string]int)            gen_keepNames
//	(ps Params) f(map[string]int, bool)      gen_ensureNames
//	f(map[string]int, string, bool) string   gen_getSafeParamName
//	f(map[string]int, string) string         gen_reserveParamName
//
// and any other function (helper extraction) is emitted as gen_h_<GoName>; the generated file ends
// with `Ltac unfold_gen_helpers` unfolding all of those, which the tie proofs call.  A wrong role
// guess cannot make the tie pass: the lemmas are about the canonical names.
//
// Go maps and the elements of Params ([]*Param) are references: a translated function takes the
// maps / parameter lists it can mutate as arguments and returns them next to its Go result
// (result first, then the receiver list, then the map parameters in order).
//
// Supported subset: `x := e`, `x = e`, `var x T`, `x++`, `v, ok := m[k]`, `_, ok = m[k]`, `m[k] = e`,
// `p.Name = e`, `ps[i].Name = e`, `p := ps[i]`; `if [init;] c {…} [else if … | else {…}]` — as a
// value when no branch jumps, in tail form (the rest of the block duplicated into both branches)
// when a branch ends in continue / break / return, so that early-continue and guard clauses are the
// nested ifs they abbreviate; tagless `switch [init;] { case …: … default: … }` as the if-chain it
// is; the 3-clause `for`; `for { … if c { break } … }` (a go flag is added to the loop state);
// `for i, p := range ps`, `for i := range ps`, `for _, p := range ps` and the index loop
// `for i := 0; i < len(ps); i++` over the receiver list (all of them range_upd; `ps[i]` is the
// element); calls of translated functions (statement or nested expression; evaluated innermost
// first); `return e`; string literals, `+` on strings, `strconv.FormatInt(int64(v), 10)`,
// `strconv.Itoa(v)`, `len(ps)`, `-`, `==`, `!=`, `!`, `&&`, `||`,
// `TypeImplements(p.ActualType, ErrorInterface|ContextInterface)`, `make(map…)`, `m.Input`/`m.Output`.
// Anything else is rendered as UNSUPPORTED_<what>, which makes the generated file fail to compile
// and thereby breaks the tie.  Standard library only.
//
// Also translated, from imports.go and interface.go (same subset, two more reference types):
//
//	(id *ImportDesc) ImportString() string   gen_ImportString   (record imp; fields Alias, PkgPath,
//	                                                             aliasIsPackageName, inUse)
//	the loop of namedTypeToInterface that merges the methods of one embedded field into the
//	candidate map and the conflict set (found by structure: the range loop whose body deletes
//	from a map)                                gen_merge_step     (mmap_* / mset_* primitives)
//	the condition under which a declared method is listed (the if whose condition asks
//	`.Exported()`)                             gen_visible
//
//	xlate_params -src <repo>/gencommon -out ParamsGen.v
package main

import (
	"flag"
	"fmt"
	"go/ast"
	"go/token"
	"go/types"
	"os"
	"sort"
	"strconv"
	"strings"

	"gtverif/internal/srcset"
)

// what a translated function looks like from a call site
type sig struct {
	recv   string   // "" | "plist" | "method"
	params []string // types of the Go parameters
	result string   // "" or type of the Go result
	coq    string   // Gallina name
}

var (
	decls      = map[string]*ast.FuncDecl{}
	sigs       = map[string]*sig{}
	inProgress = map[string]bool{}
	dupes      = map[string]bool{} // declared more than once in the files that take part in the build
	usedCoq    = map[string]bool{}
	helpers    []string
	translated []string
	defs       strings.Builder
	problems   []string
)

var coqType = map[string]string{"tmap": "table", "ilist": "list imp", "amap": "list (string * string)", "slist": "list string",
	"ostr": "option string", "opkg": "option (string * string)", "tys": "list ty", "ty": "ty", "strs": "list string",
	"rmeth": "rmeth", "mfunc": "meth", "mlist": "list meth", "gmlist": "list (string * list gparam * list gparam)", "msig": "string", "builder": "string", "gmeth": "(string * list gparam * list gparam)", "tvar": "(pinfo * ty)", "tuple": "list (pinfo * ty)", "glist": "list gparam", "gparam": "gparam",
	"map": "dmap", "string": "string", "bool": "bool", "N": "N", "nat": "nat",
	"plist": "list pinfo", "pinfo": "pinfo", "imp": "imp", "mmap": "list (string * A)", "mset": "list string", "melem": "A"}

// fields of *ImportDesc
var impField = map[string][2]string{"Alias": {"i_alias", "string"}, "PkgPath": {"i_path", "string"},
	"aliasIsPackageName": {"i_alias_is_pkg", "bool"}, "inUse": {"i_in_use", "bool"}}

type loopCtx struct {
	kind string   // "range" | "dowhile" | "for3"
	src  string   // range: the list variable
	idx  string   // range: Go name of the index variable ("" = none)
	elem string   // range: Go name of the variable that currently stands for the element
	vars []string // loop-carried variables
}

type fn struct {
	w        *world // the go/types / ImportHandler vocabulary (world.go); nil for the naming functions
	name     string
	env      map[string]string
	problems []string
	tmp      int
	outs     []string // variables returned after the Go result
	loop     *loopCtx
}

func (f *fn) bad(what string) string {
	f.problems = append(f.problems, what)
	return "UNSUPPORTED_" + strings.Map(func(r rune) rune {
		if r >= 'a' && r <= 'z' || r >= 'A' && r <= 'Z' || r >= '0' && r <= '9' {
			return r
		}
		return '_'
	}, what)
}

func goType(t ast.Expr) string {
	switch x := t.(type) {
	case *ast.MapType:
		return "map"
	case *ast.Ident:
		switch x.Name {
		case "string", "bool":
			return x.Name
		case "Params":
			return "plist"
		case "int":
			return "nat"
		}
	case *ast.StarExpr:
		if id, ok := x.X.(*ast.Ident); ok {
			switch id.Name {
			case "Method":
				return "method"
			case "Param":
				return "pinfo"
			case "ImportDesc":
				return "imp"
			}
		}
	}
	return "unknown"
}

func sigOf(fd *ast.FuncDecl) *sig {
	sg := &sig{}
	if fd.Recv != nil && len(fd.Recv.List) == 1 {
		sg.recv = goType(fd.Recv.List[0].Type)
	}
	for _, p := range fd.Type.Params.List {
		n := len(p.Names)
		if n == 0 {
			n = 1
		}
		for i := 0; i < n; i++ {
			sg.params = append(sg.params, goType(p.Type))
		}
	}
	if fd.Type.Results != nil && len(fd.Type.Results.List) == 1 && len(fd.Type.Results.List[0].Names) <= 1 {
		sg.result = goType(fd.Type.Results.List[0].Type)
	} else if fd.Type.Results != nil && len(fd.Type.Results.List) > 0 {
		sg.result = "unknown"
	}
	return sg
}

// role gives the canonical Gallina name for a signature shape ("" = a helper).
func role(sg *sig) string {
	key := sg.recv + "(" + strings.Join(sg.params, ",") + ")" + sg.result
	switch key {
	case "method()":
		return "gen_ensureParamNames"
	case "plist(map)":
		return "gen_keepNames"
	case "plist(map,bool)":
		return "gen_ensureNames"
	case "(map,string,bool)string":
		return "gen_getSafeParamName"
	case "(map,string)string":
		return "gen_reserveParamName"
	case "imp()string":
		return "gen_ImportString"
	}
	return ""
}

// lookup returns the signature of a function of the two files, translating it first if need be.
func lookup(name string) *sig {
	if sg, ok := sigs[name]; ok {
		return sg
	}
	fd, ok := decls[name]
	if !ok || inProgress[name] {
		return nil
	}
	if dupes[name] {
		problems = append(problems, name+": declared more than once in the files that take part in the build")
		return nil
	}
	translate(name, fd)
	return sigs[name]
}

// varOf names the variable an assignable/receiver expression denotes: x, m.Input, m.Output.
func (f *fn) varOf(e ast.Expr) string {
	if f.w != nil {
		if v := f.w.varOf(f, e); v != "" {
			return v
		}
	}
	switch x := e.(type) {
	case *ast.Ident:
		return x.Name
	case *ast.ParenExpr:
		return f.varOf(x.X)
	case *ast.SelectorExpr:
		if id, ok := x.X.(*ast.Ident); ok && f.env[id.Name] == "method" && (x.Sel.Name == "Input" || x.Sel.Name == "Output") {
			return id.Name + "_" + x.Sel.Name
		}
	}
	return ""
}

// elemRef: is e the element of the enclosing range loop — `ps[i]`, or a *Param variable?  Returns
// the Gallina variable.
func (f *fn) elemRef(e ast.Expr) (string, bool) {
	switch x := e.(type) {
	case *ast.ParenExpr:
		return f.elemRef(x.X)
	case *ast.Ident:
		if f.env[x.Name] == "pinfo" {
			return "v_" + x.Name, true
		}
	case *ast.IndexExpr:
		if f.loop != nil && f.loop.kind == "range" && f.loop.idx != "" && f.varOf(x.X) == f.loop.src && isIdent(x.Index, f.loop.idx) {
			return "v_" + f.loop.elem, true
		}
	}
	return "", false
}

func isIdent(e ast.Expr, name string) bool {
	id, ok := e.(*ast.Ident)
	return ok && id.Name == name
}

// call translates a call of a function of the two files: lets binding a fresh result variable
// and the updated references, and the result variable.
func (f *fn) call(c *ast.CallExpr) (pre, val, typ string, ok bool) {
	name, recvVar := "", ""
	switch fun := c.Fun.(type) {
	case *ast.Ident:
		name = fun.Name
	case *ast.SelectorExpr:
		name = fun.Sel.Name
		recvVar = f.varOf(fun.X)
		if recvVar == "" || (f.env[recvVar] != "plist" && f.env[recvVar] != "method") {
			return "", "", "", false // a package-qualified call (strconv.…), not ours
		}
	}
	if _, declared := decls[name]; !declared {
		return "", "", "", false
	}
	s := lookup(name)
	if s == nil {
		return "", f.bad("recursive or untranslatable call of " + name), "unknown", true
	}
	if (s.recv == "plist") != (recvVar != "" && f.env[recvVar] == "plist") || s.recv == "method" || len(c.Args) != len(s.params) {
		return "", f.bad("call shape of " + name), "unknown", true
	}
	args, outs := []string{}, []string{}
	if s.recv == "plist" {
		args = append(args, "v_"+recvVar)
		outs = append(outs, "v_"+recvVar)
	}
	for i, a := range c.Args {
		p, v, _ := f.expr(a, s.params[i])
		pre += p
		args = append(args, v)
		if s.params[i] == "map" {
			id, isId := a.(*ast.Ident)
			if !isId {
				return pre, f.bad("map argument that is not a variable"), "unknown", true
			}
			outs = append(outs, "v_"+id.Name)
		}
	}
	val = "_"
	if s.result != "" {
		f.tmp++
		val = fmt.Sprintf("t_%d", f.tmp)
		outs = append([]string{val}, outs...)
	}
	if len(outs) == 0 {
		return pre, f.bad("call of " + name + " without effect"), "unknown", true
	}
	lhs := outs[0]
	if len(outs) > 1 {
		lhs = "'(" + strings.Join(outs, ", ") + ")"
	}
	pre += "let " + lhs + " := " + s.coq + " " + strings.Join(args, " ") + " in\n"
	return pre, val, s.result, true
}

// expr translates an expression; want is the expected type of an integer literal ("N" or "nat").
func (f *fn) expr(e ast.Expr, want string) (pre, val, typ string) {
	if f.w != nil {
		if p, v, t, ok := f.w.expr(f, e, want); ok {
			return p, v, t
		}
	}
	switch x := e.(type) {
	case *ast.ParenExpr:
		return f.expr(x.X, want)
	case *ast.Ident:
		switch x.Name {
		case "true", "false":
			return "", x.Name, "bool"
		}
		if t, ok := f.env[x.Name]; ok {
			return "", "v_" + x.Name, t
		}
		return "", f.bad("unknown identifier " + x.Name), "unknown"
	case *ast.BasicLit:
		switch x.Kind {
		case token.STRING:
			s, err := strconv.Unquote(x.Value)
			if err != nil || strings.ContainsAny(s, "\n") {
				return "", f.bad("string literal"), "string"
			}
			return "", "\"" + strings.ReplaceAll(s, "\"", "\"\"") + "\"%string", "string"
		case token.INT:
			if want == "N" {
				return "", x.Value + "%N", "N"
			}
			return "", x.Value + "%nat", "nat"
		}
	case *ast.IndexExpr:
		if v, ok := f.elemRef(x); ok {
			return "", v, "pinfo"
		}
	case *ast.SelectorExpr:
		if x.Sel.Name == "Name" {
			if v, ok := f.elemRef(x.X); ok {
				return "", "(pi_name " + v + ")", "string"
			}
		}
		if id, ok := x.X.(*ast.Ident); ok && f.env[id.Name] == "imp" {
			if fld, ok := impField[x.Sel.Name]; ok {
				return "", "(" + fld[0] + " v_" + id.Name + ")", fld[1]
			}
		}
		if id, ok := x.X.(*ast.Ident); ok && f.env[id.Name] == "melem" && x.Sel.Name == "Name" {
			return "", "(name v_" + id.Name + ")", "string"
		}
		if v := f.varOf(x); v != "" {
			return "", "v_" + v, f.env[v]
		}
	case *ast.UnaryExpr:
		if x.Op == token.NOT {
			p, v, _ := f.expr(x.X, want)
			return p, "(negb " + v + ")", "bool"
		}
	case *ast.BinaryExpr:
		pl, l, tl := f.expr(x.X, want)
		pr, r, tr := f.expr(x.Y, tl)
		if tl == "nat" && tr == "N" || tl == "N" && tr == "nat" { // a literal on the left
			pl, l, tl = f.expr(x.X, tr)
		}
		pre = pl + pr
		switch x.Op {
		case token.LOR:
			return pre, "(orb " + l + " " + r + ")", "bool"
		case token.LAND:
			return pre, "(andb " + l + " " + r + ")", "bool"
		case token.ADD:
			if tl == "string" && tr == "string" {
				return pre, "(" + l + " ++ " + r + ")%string", "string"
			}
			if tl == "nat" && tr == "nat" {
				return pre, "(" + l + " + " + r + ")%nat", "nat"
			}
		case token.SUB:
			if tl == "nat" && tr == "nat" {
				return pre, "(" + l + " - " + r + ")%nat", "nat"
			}
		case token.LSS, token.GTR, token.LEQ, token.GEQ:
			if tl == "nat" && tr == "nat" {
				switch x.Op {
				case token.LSS:
					return pre, "(Nat.ltb " + l + " " + r + ")", "bool"
				case token.GTR:
					return pre, "(Nat.ltb " + r + " " + l + ")", "bool"
				case token.LEQ:
					return pre, "(Nat.leb " + l + " " + r + ")", "bool"
				default:
					return pre, "(Nat.leb " + r + " " + l + ")", "bool"
				}
			}
		case token.EQL, token.NEQ:
			eq := ""
			switch {
			case tl == "string" && tr == "string":
				eq = "(String.eqb " + l + " " + r + ")"
			case tl == "nat" && tr == "nat":
				eq = "(Nat.eqb " + l + " " + r + ")"
			case tl == "N" && tr == "N":
				eq = "(N.eqb " + l + " " + r + ")"
			case tl == "bool" && tr == "bool":
				eq = "(Bool.eqb " + l + " " + r + ")"
			}
			if eq != "" {
				if x.Op == token.NEQ {
					eq = "(negb " + eq + ")"
				}
				return pre, eq, "bool"
			}
		}
		return pre, f.bad("binary " + x.Op.String() + " on " + tl + "/" + tr), "unknown"
	case *ast.CallExpr:
		if p, v, t, ok := f.call(x); ok {
			return p, v, t
		}
		switch fun := x.Fun.(type) {
		case *ast.Ident:
			switch {
			case fun.Name == "len" && len(x.Args) == 1:
				if v := f.varOf(x.Args[0]); v != "" && f.env[v] == "plist" {
					return "", "(List.length v_" + v + ")", "nat"
				}
			case (fun.Name == "int64" || fun.Name == "int") && len(x.Args) == 1:
				return f.expr(x.Args[0], want)
			case fun.Name == "make" && len(x.Args) >= 1 && goType(x.Args[0]) == "map":
				return "", "map_empty", "map"
			case fun.Name == "TypeImplements" && len(x.Args) == 2:
				if s, ok := x.Args[0].(*ast.SelectorExpr); ok && s.Sel.Name == "ActualType" {
					if v, ok := f.elemRef(s.X); ok {
						switch {
						case isIdent(x.Args[1], "ErrorInterface"):
							return "", "(type_implements_error " + v + ")", "bool"
						case isIdent(x.Args[1], "ContextInterface"):
							return "", "(type_implements_context " + v + ")", "bool"
						}
					}
				}
			}
		case *ast.SelectorExpr:
			// set.Has(k)
			if v := f.varOf(fun.X); v != "" && f.env[v] == "mset" && fun.Sel.Name == "Has" && len(x.Args) == 1 {
				p, k, t := f.expr(x.Args[0], "nat")
				if t == "string" {
					return p, "(mset_has v_" + v + " " + k + ")", "bool"
				}
			}
			// strconv.FormatInt(e, 10), strconv.Itoa(e)
			if isIdent(fun.X, "strconv") && fun.Sel.Name == "FormatInt" && len(x.Args) == 2 {
				if lit, ok := x.Args[1].(*ast.BasicLit); ok && lit.Value == "10" {
					p, v, t := f.expr(x.Args[0], "N")
					if t == "N" {
						return p, "(fmt_int " + v + ")", "string"
					}
				}
			}
			if isIdent(fun.X, "strconv") && fun.Sel.Name == "Itoa" && len(x.Args) == 1 {
				p, v, t := f.expr(x.Args[0], "N")
				if t == "N" {
					return p, "(fmt_int " + v + ")", "string"
				}
			}
		}
		return "", f.bad("call"), "unknown"
	}
	return "", f.bad(fmt.Sprintf("expr %T", e)), "unknown"
}

// assigned lists, sorted, the variables a statement list changes without declaring them: plain
// assignments, x++, maps written or handed to a translated function, parameters whose field is set.
func (f *fn) assigned(list []ast.Stmt) []string {
	set, declared := map[string]bool{}, map[string]bool{}
	mark := func(n string) {
		if n != "" && n != "_" && !declared[n] {
			set[n] = true
		}
	}
	var walk func(n ast.Node) bool
	walk = func(n ast.Node) bool {
		switch s := n.(type) {
		case *ast.AssignStmt:
			if len(s.Lhs) == 1 && f.w != nil {
				if sel, ok := s.Lhs[0].(*ast.SelectorExpr); ok {
					if id, ok := sel.X.(*ast.Ident); ok && f.w.ignoredField(f, id.Name, sel.Sel.Name) {
						return false // not part of the rendering: neither the field nor what is assigned to it
					}
				}
			}
			for _, l := range s.Lhs {
				switch t := l.(type) {
				case *ast.IndexExpr:
					mark(f.varOf(t.X))
				case *ast.SelectorExpr:
					if v := f.varOf(t); v != "" {
						mark(v)
					} else if id, ok := t.X.(*ast.Ident); ok {
						if f.w == nil || !f.w.ignoredField(f, id.Name, t.Sel.Name) {
							mark(id.Name)
						}
					} else if _, ok := f.elemRef(t.X); ok && f.loop != nil && f.loop.kind == "range" {
						mark(f.loop.elem) // ps[i].Name = e changes the element
					}
					if f.w != nil {
						for _, v := range f.w.alsoAssigned(f, t) {
							mark(v)
						}
					}
				case *ast.Ident:
					if s.Tok == token.DEFINE {
						declared[t.Name] = true
					} else {
						mark(t.Name)
					}
				}
			}
		case *ast.DeclStmt:
			if gd, ok := s.Decl.(*ast.GenDecl); ok {
				for _, sp := range gd.Specs {
					if vs, ok := sp.(*ast.ValueSpec); ok {
						for _, n := range vs.Names {
							declared[n.Name] = true
						}
					}
				}
			}
		case *ast.IncDecStmt:
			mark(f.varOf(s.X))
		case *ast.CallExpr:
			if f.w != nil {
				for _, v := range f.w.callAssigns(f, s) {
					mark(v)
				}
			}
			name := ""
			switch fun := s.Fun.(type) {
			case *ast.Ident:
				name = fun.Name
				if name == "delete" && len(s.Args) == 2 {
					mark(f.varOf(s.Args[0]))
				}
			case *ast.SelectorExpr:
				name = fun.Sel.Name
				if v := f.varOf(fun.X); name == "Add" && f.env[v] == "mset" {
					mark(v)
				}
				if _, ours := decls[name]; ours {
					if sg := lookup(name); sg != nil && sg.recv == "plist" {
						mark(f.varOf(fun.X))
					}
				}
			}
			if _, ours := decls[name]; ours {
				if sg := lookup(name); sg != nil {
					for i, a := range s.Args {
						if i < len(sg.params) && sg.params[i] == "map" {
							mark(f.varOf(a))
						}
					}
				}
			}
		case *ast.RangeStmt:
			if id, ok := s.Value.(*ast.Ident); ok {
				declared[id.Name] = true
			}
			if id, ok := s.Key.(*ast.Ident); ok {
				declared[id.Name] = true
			}
			mark(f.varOf(s.X))
		}
		return true
	}
	for _, s := range list {
		ast.Inspect(s, walk)
	}
	out := make([]string, 0, len(set))
	for k := range set {
		if _, known := f.env[k]; known {
			out = append(out, k)
		}
	}
	sort.Strings(out)
	return out
}

func tuple(vars []string) string {
	switch len(vars) {
	case 0:
		return "tt"
	case 1:
		return "v_" + vars[0]
	}
	parts := make([]string, len(vars))
	for i, v := range vars {
		parts[i] = "v_" + v
	}
	return "(" + strings.Join(parts, ", ") + ")"
}

// tupleWith: the loop state of a `for { … break … }` loop: the variables and the go flag
func tupleWith(vars []string, flag string) string {
	parts := make([]string, 0, len(vars)+1)
	for _, v := range vars {
		parts = append(parts, "v_"+v)
	}
	parts = append(parts, flag)
	if len(parts) == 1 {
		return parts[0]
	}
	return "(" + strings.Join(parts, ", ") + ")"
}

func pat(vars []string) string {
	switch len(vars) {
	case 0:
		return "_"
	case 1:
		return "v_" + vars[0]
	}
	return "'" + tuple(vars)
}

func (f *fn) stateType(vars []string) string {
	if len(vars) == 0 {
		return "unit"
	}
	ts := make([]string, len(vars))
	for i, v := range vars {
		ts[i] = coqType[f.env[v]]
	}
	return "(" + strings.Join(ts, " * ") + ")"
}

func without(vars []string, x string) []string {
	var out []string
	for _, v := range vars {
		if v != x {
			out = append(out, v)
		}
	}
	return out
}

// firstMap finds a map variable mentioned in the nodes (the map a loop consults).
func (f *fn) firstMap(nodes ...ast.Node) string {
	found := ""
	for _, n := range nodes {
		if n == nil {
			continue
		}
		ast.Inspect(n, func(x ast.Node) bool {
			if id, ok := x.(*ast.Ident); ok && found == "" && f.env[id.Name] == "map" {
				found = id.Name
			}
			return true
		})
	}
	return found
}

// jumps: does the statement contain a continue / break / return that leaves it (jumps of nested
// loops excluded, returns included)?
func jumps(n ast.Node) bool {
	found := false
	var walk func(n ast.Node, inLoop bool)
	walk = func(n ast.Node, inLoop bool) {
		ast.Inspect(n, func(x ast.Node) bool {
			if x == nil || found {
				return false
			}
			switch s := x.(type) {
			case *ast.FuncLit:
				return false
			case *ast.ReturnStmt:
				found = true
			case *ast.BranchStmt:
				if !inLoop && (s.Tok == token.CONTINUE || s.Tok == token.BREAK) {
					found = true
				}
			case *ast.ForStmt:
				if x != n {
					walk(s.Body, true)
					return false
				}
			case *ast.RangeStmt:
				if x != n {
					walk(s.Body, true)
					return false
				}
			}
			return true
		})
	}
	walk(n, false)
	return found
}

// switchToIf rewrites a tagless switch as the if-chain it abbreviates.
func (f *fn) switchToIf(s *ast.SwitchStmt) (*ast.IfStmt, bool) {
	if s.Tag != nil {
		return nil, false
	}
	var cases []*ast.CaseClause
	var deflt *ast.CaseClause
	for _, c := range s.Body.List {
		cc, ok := c.(*ast.CaseClause)
		if !ok {
			return nil, false
		}
		for _, st := range cc.Body {
			bad := false
			ast.Inspect(st, func(x ast.Node) bool {
				switch b := x.(type) {
				case *ast.ForStmt, *ast.RangeStmt, *ast.FuncLit:
					return false
				case *ast.BranchStmt:
					if b.Tok == token.BREAK || b.Tok == token.FALLTHROUGH {
						bad = true // leaves the switch, not a loop
					}
				}
				return true
			})
			if bad {
				return nil, false
			}
		}
		if cc.List == nil {
			deflt = cc
		} else {
			cases = append(cases, cc)
		}
	}
	var els ast.Stmt
	if deflt != nil {
		els = &ast.BlockStmt{List: deflt.Body}
	}
	if len(cases) == 0 {
		return &ast.IfStmt{Init: s.Init, Cond: ast.NewIdent("true"), Body: &ast.BlockStmt{List: func() []ast.Stmt {
			if deflt != nil {
				return deflt.Body
			}
			return nil
		}()}}, true
	}
	for i := len(cases) - 1; i >= 0; i-- {
		cond := cases[i].List[0]
		for _, e := range cases[i].List[1:] {
			cond = &ast.BinaryExpr{X: cond, Op: token.LOR, Y: e}
		}
		is := &ast.IfStmt{Cond: cond, Body: &ast.BlockStmt{List: cases[i].Body}, Else: els}
		els = is
	}
	top := els.(*ast.IfStmt)
	top.Init = s.Init
	return top, true
}

func concat(a []ast.Stmt, b []ast.Stmt) []ast.Stmt {
	return append(append([]ast.Stmt{}, a...), b...)
}

// stmts renders a statement list in continuation style; k gives the term for "fell off the end".
func (f *fn) stmts(list []ast.Stmt, k func() string) string {
	if len(list) == 0 {
		return k()
	}
	rest := func() string { return f.stmts(list[1:], k) }
	if f.w != nil {
		if out, ok := f.w.stmt(f, list, k); ok {
			return out
		}
	}
	switch s := list[0].(type) {
	case *ast.EmptyStmt:
		return rest()
	case *ast.DeclStmt:
		gd, ok := s.Decl.(*ast.GenDecl)
		if !ok || gd.Tok != token.VAR {
			return f.bad("declaration")
		}
		out := ""
		for _, sp := range gd.Specs {
			vs, ok := sp.(*ast.ValueSpec)
			if !ok || len(vs.Values) != 0 || vs.Type == nil {
				return f.bad("var with initialiser")
			}
			zero, t := "", goType(vs.Type)
			switch t {
			case "string":
				zero = "\"\"%string"
			case "bool":
				zero = "false"
			case "nat":
				zero, t = "0%N", "N" // an int counter
			default:
				return f.bad("var of type " + t)
			}
			for _, n := range vs.Names {
				f.env[n.Name] = t
				out += "let v_" + n.Name + " := " + zero + " in\n"
			}
		}
		return out + rest()
	case *ast.AssignStmt:
		// v, ok := m[k]   /   _, ok = m[k]
		if len(s.Lhs) == 2 && len(s.Rhs) == 1 {
			ix, isIx := s.Rhs[0].(*ast.IndexExpr)
			a, aok := s.Lhs[0].(*ast.Ident)
			b, bok := s.Lhs[1].(*ast.Ident)
			if isIx && aok && bok && f.env[f.varOf(ix.X)] == "map" {
				m := "v_" + f.varOf(ix.X)
				p, key, _ := f.expr(ix.Index, "nat")
				out := p
				if a.Name != "_" {
					f.env[a.Name] = "N"
					out += "let v_" + a.Name + " := map_get " + m + " " + key + " in\n"
				}
				if b.Name != "_" {
					f.env[b.Name] = "bool"
					out += "let v_" + b.Name + " := map_has " + m + " " + key + " in\n"
				}
				return out + rest()
			}
			if isIx && aok && bok && f.env[f.varOf(ix.X)] == "mmap" && a.Name == "_" {
				p, key, _ := f.expr(ix.Index, "nat")
				f.env[b.Name] = "bool"
				return p + "let v_" + b.Name + " := mmap_has v_" + f.varOf(ix.X) + " " + key + " in\n" + rest()
			}
			return f.bad("two-value assign")
		}
		if len(s.Lhs) != 1 || len(s.Rhs) != 1 || (s.Tok != token.DEFINE && s.Tok != token.ASSIGN) {
			return f.bad("assign form")
		}
		switch l := s.Lhs[0].(type) {
		case *ast.IndexExpr: // m[k] = e
			m := f.varOf(l.X)
			if f.env[m] == "mmap" {
				pk, key, _ := f.expr(l.Index, "nat")
				pv, v, t := f.expr(s.Rhs[0], "nat")
				if t != "melem" {
					return f.bad("candidate of type " + t)
				}
				return pk + pv + "let v_" + m + " := mmap_set v_" + m + " " + key + " " + v + " in\n" + rest()
			}
			if f.env[m] != "map" {
				return f.bad("index assign")
			}
			pk, key, _ := f.expr(l.Index, "nat")
			pv, v, t := f.expr(s.Rhs[0], "N")
			if t != "N" {
				return f.bad("map value of type " + t)
			}
			return pk + pv + "let v_" + m + " := map_set v_" + m + " " + key + " " + v + " in\n" + rest()
		case *ast.SelectorExpr: // p.Name = e, ps[i].Name = e
			el, ok := f.elemRef(l.X)
			if !ok || l.Sel.Name != "Name" {
				return f.bad("field assign")
			}
			p, v, t := f.expr(s.Rhs[0], "nat")
			if t != "string" {
				return f.bad("name of type " + t)
			}
			return p + "let " + el + " := set_name " + el + " " + v + " in\n" + rest()
		case *ast.Ident:
			// p := ps[i]: p stands for the element from here on
			if el, ok := f.elemRef(s.Rhs[0]); ok && s.Tok == token.DEFINE && f.loop != nil && f.loop.kind == "range" {
				f.env[l.Name] = "pinfo"
				f.loop.elem = l.Name
				return "let v_" + l.Name + " := " + el + " in\n" + rest()
			}
			p, v, t := f.expr(s.Rhs[0], "nat")
			if l.Name == "_" {
				return p + rest()
			}
			if s.Tok == token.DEFINE {
				f.env[l.Name] = t
			} else if f.env[l.Name] != t {
				return f.bad("assignment changes type of " + l.Name)
			}
			return p + "let v_" + l.Name + " := " + v + " in\n" + rest()
		}
		return f.bad("assign target")
	case *ast.IncDecStmt:
		v := f.varOf(s.X)
		if s.Tok != token.INC || f.env[v] != "N" {
			return f.bad("inc/dec")
		}
		return "let v_" + v + " := N.succ v_" + v + " in\n" + rest()
	case *ast.ExprStmt:
		if c, ok := s.X.(*ast.CallExpr); ok {
			if p, _, _, ok := f.call(c); ok {
				return p + rest()
			}
			// set.Add(k), delete(m, k)
			if sel, ok := c.Fun.(*ast.SelectorExpr); ok && sel.Sel.Name == "Add" && len(c.Args) == 1 && f.env[f.varOf(sel.X)] == "mset" {
				p, k, t := f.expr(c.Args[0], "nat")
				if t == "string" {
					v := f.varOf(sel.X)
					return p + "let v_" + v + " := mset_add v_" + v + " " + k + " in\n" + rest()
				}
			}
			if isIdent(c.Fun, "delete") && len(c.Args) == 2 && f.env[f.varOf(c.Args[0])] == "mmap" {
				p, k, t := f.expr(c.Args[1], "nat")
				if t == "string" {
					v := f.varOf(c.Args[0])
					return p + "let v_" + v + " := mmap_del v_" + v + " " + k + " in\n" + rest()
				}
			}
		}
		return f.bad("expression statement")
	case *ast.ReturnStmt:
		if len(s.Results) == 0 || f.loop != nil {
			return f.bad("return form")
		}
		pre, vals := "", []string{}
		for _, r := range s.Results {
			p, v, _ := f.expr(r, "nat")
			pre += p
			vals = append(vals, v)
		}
		return pre + "(" + strings.Join(append(vals, f.outs...), ", ") + ")"
	case *ast.BranchStmt:
		if f.loop == nil || s.Label != nil {
			return f.bad("jump outside a loop")
		}
		switch {
		case s.Tok == token.CONTINUE && f.loop.kind == "range":
			return "(v_" + f.loop.elem + ", " + tuple(f.loop.vars) + ")"
		case s.Tok == token.CONTINUE && f.loop.kind == "step":
			return tuple(f.loop.vars)
		case s.Tok == token.CONTINUE && f.loop.kind == "dowhile":
			return tupleWith(f.loop.vars, "true")
		case s.Tok == token.BREAK && f.loop.kind == "dowhile":
			return tupleWith(f.loop.vars, "false")
		}
		return f.bad("jump " + s.Tok.String() + " in a " + f.loop.kind + " loop")
	case *ast.BlockStmt:
		return f.stmts(concat(s.List, list[1:]), k)
	case *ast.SwitchStmt:
		is, ok := f.switchToIf(s)
		if !ok {
			return f.bad("switch form")
		}
		return f.stmts(concat([]ast.Stmt{is}, list[1:]), k)
	case *ast.IfStmt:
		if jumps(s) {
			// tail form: the rest of the block goes into both branches
			pre := ""
			if s.Init != nil {
				pre = f.stmts([]ast.Stmt{s.Init}, func() string { return "INIT_END" })
				if !strings.HasSuffix(pre, "INIT_END") {
					return f.bad("if init")
				}
				pre = strings.TrimSuffix(pre, "INIT_END")
			}
			pc, cond, _ := f.expr(s.Cond, "nat")
			then := f.stmts(concat(s.Body.List, list[1:]), k)
			var els string
			switch e := s.Else.(type) {
			case *ast.IfStmt:
				els = f.stmts(concat([]ast.Stmt{e}, list[1:]), k)
			case *ast.BlockStmt:
				els = f.stmts(concat(e.List, list[1:]), k)
			default:
				els = f.stmts(list[1:], k)
			}
			return pre + pc + "(if " + cond + " then\n" + then + "\nelse\n" + els + ")"
		}
		vars := f.assigned([]ast.Stmt{s})
		return "let " + pat(vars) + " := (" + f.ifChain(s, vars) + ") in\n" + rest()
	case *ast.ForStmt:
		if src, idx, ok := f.indexLoop(s); ok {
			return f.rangeLoop(src, idx, "", s.Body.List) + rest()
		}
		if s.Init == nil && s.Cond == nil && s.Post == nil {
			return f.doWhile(s) + rest()
		}
		if s.Init == nil || s.Cond == nil || s.Post == nil {
			return f.bad("for without init/cond/post")
		}
		init := f.stmts([]ast.Stmt{s.Init}, func() string { return "INIT_END" })
		if !strings.HasSuffix(init, "INIT_END") {
			return f.bad("for init")
		}
		init = strings.TrimSuffix(init, "INIT_END")
		vars := f.assigned(append(append([]ast.Stmt{}, s.Body.List...), s.Post))
		if d, ok := s.Init.(*ast.AssignStmt); ok && d.Tok == token.DEFINE {
			for _, l := range d.Lhs { // the loop's own variable is part of the state
				if id, ok := l.(*ast.Ident); ok && id.Name != "_" {
					vars = append(without(vars, id.Name), id.Name)
				}
			}
			sort.Strings(vars)
		}
		m := f.firstMap(s.Cond, s.Post, s.Body)
		fuel := "(loop_fuel v_" + m + ")"
		if m == "" {
			if f.w == nil {
				return f.bad("loop that consults no map (no bound available)")
			}
			fuel = f.w.fuel(f) // the collections the function can see bound the loop
		}
		pc, cond, _ := f.expr(s.Cond, "nat")
		if pc != "" {
			return f.bad("call in loop condition")
		}
		outer := f.loop
		f.loop = &loopCtx{kind: "for3", vars: vars}
		body := f.stmts(append(append([]ast.Stmt{}, s.Body.List...), s.Post), func() string { return tuple(vars) })
		f.loop = outer
		return init + "let " + pat(vars) + " := while_loop " + fuel + "\n(fun " + pat(vars) + " => " + cond +
			")\n(fun " + pat(vars) + " =>\n" + body + ")\n" + tuple(vars) + " in\n" + rest()
	case *ast.RangeStmt:
		src := f.varOf(s.X)
		if f.env[src] != "plist" || s.Tok != token.DEFINE {
			return f.bad("range form")
		}
		idx, el := "", ""
		if id, ok := s.Key.(*ast.Ident); ok && id.Name != "_" {
			idx = id.Name
		}
		if s.Value != nil {
			id, ok := s.Value.(*ast.Ident)
			if !ok {
				return f.bad("range value")
			}
			if id.Name != "_" {
				el = id.Name
			}
		}
		return f.rangeLoop(src, idx, el, s.Body.List) + rest()
	}
	return f.bad(fmt.Sprintf("stmt %T", list[0]))
}

// indexLoop recognises `for i := 0; i < len(ps); i++ { … }` over a parameter list.
func (f *fn) indexLoop(s *ast.ForStmt) (src, idx string, ok bool) {
	init, isA := s.Init.(*ast.AssignStmt)
	if !isA || init.Tok != token.DEFINE || len(init.Lhs) != 1 || len(init.Rhs) != 1 {
		return "", "", false
	}
	id, isId := init.Lhs[0].(*ast.Ident)
	lit, isLit := init.Rhs[0].(*ast.BasicLit)
	if !isId || !isLit || lit.Value != "0" {
		return "", "", false
	}
	cond, isB := s.Cond.(*ast.BinaryExpr)
	if !isB || cond.Op != token.LSS || !isIdent(cond.X, id.Name) {
		return "", "", false
	}
	c, isC := cond.Y.(*ast.CallExpr)
	if !isC || !isIdent(c.Fun, "len") || len(c.Args) != 1 {
		return "", "", false
	}
	src = f.varOf(c.Args[0])
	if f.env[src] != "plist" {
		return "", "", false
	}
	post, isP := s.Post.(*ast.IncDecStmt)
	if !isP || post.Tok != token.INC || !isIdent(post.X, id.Name) {
		return "", "", false
	}
	// the body must not assign the index
	for _, v := range f.assigned(s.Body.List) {
		if v == id.Name {
			return "", "", false
		}
	}
	return src, id.Name, true
}

// rangeLoop: every form of "for each element of the receiver list, in order" is range_upd.
func (f *fn) rangeLoop(src, idx, el string, body []ast.Stmt) string {
	if el == "" {
		el = "el_" + src
	}
	idxName := "i_unused"
	if idx != "" {
		idxName = "v_" + idx
		f.env[idx] = "nat"
	}
	f.env[el] = "pinfo"
	outer := f.loop
	lc := &loopCtx{kind: "range", src: src, idx: idx, elem: el}
	f.loop = lc
	lc.vars = without(without(f.assigned(body), el), src)
	vars := lc.vars
	bodyT := f.stmts(body, func() string { return "(v_" + lc.elem + ", " + tuple(vars) + ")" })
	f.loop = outer
	delete(f.env, el)
	if idx != "" {
		delete(f.env, idx)
	}
	return "let '(v_" + src + ", " + strings.TrimPrefix(pat(vars), "'") + ") := range_upd\n(fun (st : " + f.stateType(vars) +
		") " + idxName + " v_" + el + " => let " + pat(vars) + " := st in\n" + bodyT + ")\nv_" + src + " " + tuple(vars) + " in\n"
}

// doWhile: `for { body }` left by break: while_loop over the assigned variables and a go flag.
func (f *fn) doWhile(s *ast.ForStmt) string {
	vars := f.assigned(s.Body.List)
	m := f.firstMap(s.Body)
	if m == "" {
		return f.bad("loop that consults no map (no bound available)")
	}
	outer := f.loop
	f.loop = &loopCtx{kind: "dowhile", vars: vars}
	body := f.stmts(s.Body.List, func() string { return tupleWith(vars, "true") })
	f.loop = outer
	st := "'" + tupleWith(vars, "go_on")
	return "let " + st + " := while_loop (loop_fuel v_" + m + ")\n(fun " + st + " => go_on)\n(fun " + st + " =>\n" + body + ")\n" +
		tupleWith(vars, "true") + " in\n"
}

// ifChain renders if / else if / else as an expression returning the tuple of vars.
func (f *fn) ifChain(s *ast.IfStmt, vars []string) string {
	pre := ""
	if s.Init != nil {
		pre = f.stmts([]ast.Stmt{s.Init}, func() string { return "INIT_END" })
		if !strings.HasSuffix(pre, "INIT_END") {
			return f.bad("if init")
		}
		pre = strings.TrimSuffix(pre, "INIT_END")
	}
	pc, cond, _ := f.expr(s.Cond, "nat")
	end := func() string { return tuple(vars) }
	then := f.stmts(s.Body.List, end)
	els := tuple(vars)
	switch e := s.Else.(type) {
	case *ast.IfStmt:
		els = f.ifChain(e, vars)
	case *ast.BlockStmt:
		els = f.stmts(e.List, end)
	}
	return pre + pc + "if " + cond + " then\n" + then + "\nelse\n" + els
}

// translate emits the Gallina definition of one function (after those of its callees).
func translate(name string, fd *ast.FuncDecl) {
	inProgress[name] = true
	defer delete(inProgress, name)
	f := &fn{name: name, env: map[string]string{}}
	sg := sigOf(fd)
	sg.coq = role(sg)
	if sg.coq == "" || usedCoq[sg.coq] {
		sg.coq = "gen_h_" + name
		helpers = append(helpers, sg.coq)
	}
	usedCoq[sg.coq] = true
	def := "Definition " + sg.coq
	if fd.Recv != nil && len(fd.Recv.List) == 1 && len(fd.Recv.List[0].Names) == 1 {
		r := fd.Recv.List[0].Names[0].Name
		switch sg.recv {
		case "plist":
			f.env[r] = "plist"
			def += " (v_" + r + " : list pinfo)"
			f.outs = append(f.outs, "v_"+r)
		case "method":
			f.env[r] = "method"
			for _, fld := range []string{"Input", "Output"} {
				f.env[r+"_"+fld] = "plist"
				def += " (v_" + r + "_" + fld + " : list pinfo)"
				f.outs = append(f.outs, "v_"+r+"_"+fld)
			}
		case "imp":
			f.env[r] = "imp"
			def += " (v_" + r + " : imp)"
		default:
			def += " (v_" + r + " : UNSUPPORTED_receiver_type)"
			f.problems = append(f.problems, "receiver type")
		}
	}
	i := 0
	for _, p := range fd.Type.Params.List {
		for _, n := range p.Names {
			t := sg.params[i]
			i++
			f.env[n.Name] = t
			ct, known := coqType[t]
			if !known {
				ct = "UNSUPPORTED_param_type"
				f.problems = append(f.problems, "parameter type")
			}
			def += " (v_" + n.Name + " : " + ct + ")"
			if t == "map" {
				f.outs = append(f.outs, "v_"+n.Name)
			}
		}
	}
	end := "(" + strings.Join(f.outs, ", ") + ")"
	if len(f.outs) == 0 {
		end = "tt"
	}
	if sg.result != "" {
		end = "MISSING_RETURN"
	}
	body := f.stmts(fd.Body.List, func() string { return end })
	if strings.Contains(body, "MISSING_RETURN") {
		body = strings.ReplaceAll(body, "MISSING_RETURN", f.bad("missing return"))
	}
	sigs[name] = sg
	translated = append(translated, name+" as "+sg.coq)
	defs.WriteString("(* " + name + " *)\n" + def + " :=\n" + body + ".\n\n")
	for _, p := range f.problems {
		problems = append(problems, name+": "+p)
	}
}

// entry finds the method MethodFromSignature calls on the Method it builds.
func entry() string {
	fd, ok := decls["MethodFromSignature"]
	if !ok {
		return ""
	}
	found := ""
	ast.Inspect(fd.Body, func(n ast.Node) bool {
		es, ok := n.(*ast.ExprStmt)
		if !ok {
			return true
		}
		c, ok := es.X.(*ast.CallExpr)
		if !ok || len(c.Args) != 0 {
			return true
		}
		sel, ok := c.Fun.(*ast.SelectorExpr)
		if !ok {
			return true
		}
		if d, ok := decls[sel.Sel.Name]; ok && d.Recv != nil && found == "" && sigOf(d).recv == "method" {
			found = sel.Sel.Name
		}
		return true
	})
	return found
}

// hasCall: does the node contain a call of the plain function / the method called name?
func hasCall(n ast.Node, name string) bool {
	found := false
	ast.Inspect(n, func(x ast.Node) bool {
		if c, ok := x.(*ast.CallExpr); ok {
			switch fun := c.Fun.(type) {
			case *ast.Ident:
				found = found || fun.Name == name
			case *ast.SelectorExpr:
				found = found || fun.Sel.Name == name
			}
		}
		return !found
	})
	return found
}

// madeAs: the local variables of fd made as map[string]*Method ("mmap") or set.Set[string] ("mset")
func madeAs(fd *ast.FuncDecl) map[string]string {
	out := map[string]string{}
	ast.Inspect(fd.Body, func(x ast.Node) bool {
		as, ok := x.(*ast.AssignStmt)
		if !ok || as.Tok != token.DEFINE || len(as.Lhs) != 1 || len(as.Rhs) != 1 {
			return true
		}
		id, ok := as.Lhs[0].(*ast.Ident)
		c, ok2 := as.Rhs[0].(*ast.CallExpr)
		if !ok || !ok2 || !isIdent(c.Fun, "make") || len(c.Args) == 0 {
			return true
		}
		switch t := c.Args[0].(type) {
		case *ast.MapType:
			if isIdent(t.Key, "string") {
				if st, ok := t.Value.(*ast.StarExpr); ok && isIdent(st.X, "Method") {
					out[id.Name] = "mmap"
				}
			}
		case *ast.IndexExpr: // set.Set[string]
			if sel, ok := t.X.(*ast.SelectorExpr); ok && sel.Sel.Name == "Set" && isIdent(t.Index, "string") {
				out[id.Name] = "mset"
			}
		}
		return true
	})
	return out
}

// mergeStep translates the loop that merges the methods of one embedded field: the (innermost)
// range loop of interface.go whose body deletes from a map.
func mergeStep(file *ast.File) string {
	for _, d := range file.Decls {
		fd, ok := d.(*ast.FuncDecl)
		if !ok || fd.Body == nil {
			continue
		}
		var loop *ast.RangeStmt
		ast.Inspect(fd.Body, func(x ast.Node) bool {
			if r, ok := x.(*ast.RangeStmt); ok && hasCall(r.Body, "delete") {
				loop = r // keeps the innermost one (visited last)
			}
			return true
		})
		if loop == nil {
			continue
		}
		f := &fn{name: "merge step", env: map[string]string{}}
		el, ok := loop.Value.(*ast.Ident)
		if !ok || el.Name == "_" {
			problems = append(problems, "merge step: range without element variable")
			return "Definition gen_merge_step := UNSUPPORTED_merge_loop_form.\n\n"
		}
		var mm, ms []string
		for v, t := range madeAs(fd) {
			used := false
			ast.Inspect(loop.Body, func(x ast.Node) bool {
				if id, ok := x.(*ast.Ident); ok && id.Name == v {
					used = true
				}
				return true
			})
			if used {
				f.env[v] = t
				if t == "mmap" {
					mm = append(mm, v)
				} else {
					ms = append(ms, v)
				}
			}
		}
		if len(mm) != 1 || len(ms) != 1 {
			problems = append(problems, "merge step: expected one map of candidates and one set of names")
			return "Definition gen_merge_step := UNSUPPORTED_merge_loop_state.\n\n"
		}
		f.env[el.Name] = "melem"
		vars := []string{mm[0], ms[0]}
		f.loop = &loopCtx{kind: "step", vars: vars}
		body := f.stmts(loop.Body.List, func() string { return tuple(vars) })
		for _, p := range f.problems {
			problems = append(problems, "merge step: "+p)
		}
		translated = append(translated, "the merge loop of "+fd.Name.Name+" as gen_merge_step")
		return "(* the loop of " + fd.Name.Name + " over the methods of one embedded field *)\n" +
			"Definition gen_merge_step {A : Type} (name : A -> string) (v_" + mm[0] + " : list (string * A)) (v_" + ms[0] +
			" : list string) (v_" + el.Name + " : A) :=\n" + body + ".\n\n"
	}
	problems = append(problems, "merge step: no range loop deleting from a map in interface.go")
	return "Definition gen_merge_step := UNSUPPORTED_merge_loop_not_found.\n\n"
}

// visibleCond translates the condition under which a declared method is listed: the condition of
// the if that asks `.Exported()`; `opts.Has(IncludePrivate)` is the option bit.
func visibleCond(file *ast.File) string {
	var cond ast.Expr
	skips := false // the if guards a `continue`: its condition says when a method is NOT listed
	ast.Inspect(file, func(x ast.Node) bool {
		if is, ok := x.(*ast.IfStmt); ok && cond == nil && hasCall(is.Cond, "Exported") {
			cond = is.Cond
			if n := len(is.Body.List); n > 0 {
				if br, ok := is.Body.List[n-1].(*ast.BranchStmt); ok && br.Tok == token.CONTINUE {
					skips = true
				}
			}
		}
		return cond == nil
	})
	if cond == nil {
		problems = append(problems, "visible: no condition asking Exported() in interface.go")
		return "Definition gen_visible := UNSUPPORTED_visible_condition_not_found.\n\n"
	}
	var tr func(e ast.Expr) string
	tr = func(e ast.Expr) string {
		switch x := e.(type) {
		case *ast.ParenExpr:
			return tr(x.X)
		case *ast.UnaryExpr:
			if x.Op == token.NOT {
				return "(negb " + tr(x.X) + ")"
			}
		case *ast.BinaryExpr:
			switch x.Op {
			case token.LOR:
				return "(orb " + tr(x.X) + " " + tr(x.Y) + ")"
			case token.LAND:
				return "(andb " + tr(x.X) + " " + tr(x.Y) + ")"
			}
		case *ast.CallExpr:
			if sel, ok := x.Fun.(*ast.SelectorExpr); ok {
				if sel.Sel.Name == "Exported" && len(x.Args) == 0 {
					return "v_exported"
				}
				if sel.Sel.Name == "Has" && len(x.Args) == 1 && isIdent(x.Args[0], "IncludePrivate") {
					return "v_include_private"
				}
			}
		}
		problems = append(problems, fmt.Sprintf("visible: expr %T", e))
		return "UNSUPPORTED_visible_condition"
	}
	translated = append(translated, "the listing condition as gen_visible")
	body := tr(cond)
	if skips {
		body = "(negb " + body + ")"
	}
	return "(* a declared method is listed if *)\nDefinition gen_visible (v_include_private v_exported : bool) : bool :=\n" + body + ".\n\n"
}

func main() {
	srcDir := flag.String("src", "", "path of the gencommon directory")
	out := flag.String("out", "ParamsGen.v", "output file")
	flag.Parse()
	// the file set of the package as the compiler selects it (build constraints, Go version tags,
	// the harness tag "verif"): a function delivered in a sibling file is found, one in a file the
	// build rejects is not, one declared twice breaks the tie
	pkg, err := srcset.Load(*srcDir, "verif")
	if err != nil {
		fmt.Fprintln(os.Stderr, err)
		os.Exit(2)
	}
	all := map[string][]*ast.FuncDecl{}
	worldType := func(t ast.Expr) bool {
		found := false
		ast.Inspect(t, func(n ast.Node) bool {
			switch x := n.(type) {
			case *ast.SelectorExpr:
				if id, ok := x.X.(*ast.Ident); ok && (id.Name == "types" || id.Name == "packages" || id.Name == "ast" || id.Name == "set") {
					found = true
				}
			case *ast.Ident:
				switch x.Name {
				case "ImportHandler", "Method", "Param", "Interface", "named":
					found = true
				}
			}
			return !found
		})
		return found
	}
	reg := func(m map[string]*ast.FuncDecl, fd *ast.FuncDecl) {
		if prev, has := m[fd.Name.Name]; has && prev != fd {
			dupes[fd.Name.Name] = true
		}
		m[fd.Name.Name] = fd
	}
	for _, file := range pkg.Files {
		for _, d := range file.Decls {
			fd, ok := d.(*ast.FuncDecl)
			if !ok || fd.Body == nil {
				continue
			}
			all[fd.Name.Name] = append(all[fd.Name.Name], fd)
			recv := ""
			if fd.Recv != nil && len(fd.Recv.List) == 1 {
				t := fd.Recv.List[0].Type
				if st, ok := t.(*ast.StarExpr); ok {
					t = st.X
				}
				if id, ok := t.(*ast.Ident); ok {
					recv = id.Name
				} else {
					recv = "?"
				}
			}
			name := fd.Name.Name
			switch {
			case recv == "ImportDesc":
				reg(decls, fd)
			case recv == "ImportHandler":
				reg(wdecls, fd)
			case (recv == "Params" && (name == "TypeNames" || name == "Declarations")) || (recv == "Method" && name == "Signature") ||
				(recv == "" && name == "ParamsFromSignatureTuple"):
				reg(wdecls, fd) // read in the vocabulary of world.go
			case recv == "" && name == "MethodFromSignature":
				reg(wdecls, fd)
				reg(decls, fd) // the entry of the naming functions is found through it
			case recv == "Params" || recv == "Method":
				reg(decls, fd)
			case recv == "":
				world := false
				for _, p := range fd.Type.Params.List {
					world = world || worldType(p.Type)
				}
				if fd.Type.Results != nil {
					for _, p := range fd.Type.Results.List {
						world = world || worldType(p.Type)
					}
				}
				if world {
					reg(wdecls, fd)
				} else {
					reg(decls, fd)
				}
			}
		}
	}
	// what FindInterface reaches (by name): where the loops of namedTypeToInterface are looked for
	reach, todo := map[*ast.FuncDecl]bool{}, append([]*ast.FuncDecl{}, all["FindInterface"]...)
	if len(todo) != 1 {
		problems = append(problems, fmt.Sprintf("FindInterface: declared %d times in the files that take part in the build (%s; excluded: %s)",
			len(todo), strings.Join(pkg.Names, " "), strings.Join(pkg.Excluded, " ")))
	}
	for len(todo) > 0 {
		fd := todo[0]
		todo = todo[1:]
		if reach[fd] {
			continue
		}
		reach[fd] = true
		ast.Inspect(fd.Body, func(n ast.Node) bool {
			if c, ok := n.(*ast.CallExpr); ok {
				name := ""
				switch fun := c.Fun.(type) {
				case *ast.Ident:
					name = fun.Name
				case *ast.SelectorExpr:
					name = fun.Sel.Name
				}
				for _, callee := range all[name] {
					if callee.Recv != nil || name != "" {
						todo = append(todo, callee)
					}
				}
			}
			return true
		})
	}
	ifaceFile := &ast.File{Name: ast.NewIdent("gencommon")}
	for _, file := range pkg.Files { // in source order
		for _, d := range file.Decls {
			if fd, ok := d.(*ast.FuncDecl); ok && reach[fd] {
				if _, world := wdecls[fd.Name.Name]; world && wdecls[fd.Name.Name] == fd && fd.Recv != nil {
					continue // methods of the handler are translated on their own
				}
				ifaceFile.Decls = append(ifaceFile.Decls, fd)
			}
		}
	}
	// package state and types the translation relies on
	for _, v := range []string{"ErrorInterface", "ContextInterface"} {
		// the init() next to the declaration sets them; anything else rewriting them moves the oracle bits
		declFile := ""
		for i, file := range pkg.Files {
			for _, d := range file.Decls {
				if gd, ok := d.(*ast.GenDecl); ok && gd.Tok == token.VAR {
					for _, sp := range gd.Specs {
						if vs, ok := sp.(*ast.ValueSpec); ok {
							for _, n := range vs.Names {
								if n.Name == v {
									declFile = pkg.Names[i]
								}
							}
						}
					}
				}
			}
		}
		var others []string
		for _, w := range pkg.WritesTo(v) {
			if w != declFile+":init" {
				others = append(others, w)
			}
		}
		if declFile == "" || len(others) > 0 {
			problems = append(problems, v+": declared in "+declFile+", written by "+strings.Join(others, ", ")+" (the oracle bits assume the interfaces its own init() sets)")
		}
	}
	for typ, fields := range map[string]map[string]string{
		"Param":         {"ActualType": "types.Type", "TypeRef": "string", "Name": "string", "Variadic": "bool", "TypeArgNames": "[]string"},
		"ImportDesc":    {"Alias": "string", "PkgPath": "string", "aliasIsPackageName": "bool", "inUse": "bool"},
		"ImportHandler": {"PInfo": "*packages.Package", "imports": "map[string]*ImportDesc", "shadowed": "[]*ImportDesc"},
		"Method":        {"Name": "string", "Input": "Params", "Output": "Params"},
		"Interface":     {"Methods": "Methods"},
	} {
		ts, err := pkg.TypeSpec(typ)
		if err != nil {
			problems = append(problems, "type "+typ+": "+err.Error())
			continue
		}
		st, ok := ts.Type.(*ast.StructType)
		if !ok {
			problems = append(problems, "type "+typ+": not a struct")
			continue
		}
		have := map[string]string{}
		for _, fl := range st.Fields.List {
			for _, n := range fl.Names {
				have[n.Name] = types.ExprString(fl.Type)
			}
		}
		for fn, ft := range fields {
			if have[fn] != ft {
				problems = append(problems, fmt.Sprintf("type %s: field %s is %q, the translation assumes %q", typ, fn, have[fn], ft))
			}
		}
	}
	if ts, err := pkg.TypeSpec("Params"); err != nil || types.ExprString(ts.Type) != "[]*Param" {
		problems = append(problems, "type Params: the translation assumes []*Param")
	}
	var b strings.Builder
	b.WriteString("(* GENERATED by harness/cmd/xlate_params from the files of package gencommon that take part in the build of the current tree — do not edit *)\n")
	b.WriteString("From Coq Require Import List Bool String NArith Arith.\nImport ListNotations.\nFrom GT Require Import IFaceModel IFaceGenPrims.\n\n")
	e := entry()
	delete(decls, "MethodFromSignature") // read in the vocabulary of world.go from here on
	if e == "" {
		problems = append(problems, "entry: MethodFromSignature calls no method of *Method")
	} else {
		lookup(e)
	}
	lookup("ImportString")
	b.WriteString(defs.String())
	b.WriteString(mergeStep(ifaceFile))
	b.WriteString(visibleCond(ifaceFile))
	// imports.go: the loop of calcImports, unusedName, addNamed, ExtractTypeRef (world.go)
	defs.Reset()
	step := calcStep()
	stepHelpers := defs.String() // helpers the loop body calls come first
	defs.Reset()
	for _, name := range []string{"unusedName", "ExtractTypeRef", "TypeNames", "Declarations", "Signature", "ParamsFromSignatureTuple", "MethodFromSignature"} {
		if _, ok := wdecls[name]; !ok {
			problems = append(problems, name+": not found")
			defs.WriteString("Definition gen_" + name + " := UNSUPPORTED_function_" + name + "_not_found.\n\n")
			continue
		}
		wlookup(name)
	}
	b.WriteString(stepHelpers)
	b.WriteString(step)
	b.WriteString(defs.String())
	// the loop over the declared methods
	defs.Reset()
	own := ownLoop(ifaceFile)
	b.WriteString(defs.String())
	b.WriteString(own)
	b.WriteString(dispatchFacts(ifaceFile))
	for _, want := range []string{"gen_reserveParamName", "gen_getSafeParamName", "gen_keepNames", "gen_ensureNames", "gen_ensureParamNames", "gen_ImportString"} {
		if !usedCoq[want] {
			b.WriteString("Definition " + want + " := UNSUPPORTED_no_function_in_the_role_of_" + want + ".\n\n")
			problems = append(problems, want+": no function of that shape is reachable from MethodFromSignature")
		}
	}
	if len(helpers) > 0 {
		b.WriteString("Ltac unfold_gen_helpers := unfold " + strings.Join(helpers, ", ") + " in *.\n\n")
	} else {
		b.WriteString("Ltac unfold_gen_helpers := idtac.\n\n")
	}
	b.WriteString("(* functions translated: " + strings.Join(translated, ", ") + " *)\n")
	if len(problems) > 0 {
		// whatever could not be translated or checked breaks the tie: the generated file must not compile
		b.WriteString("\n(* " + strings.ReplaceAll(strings.Join(problems, "; "), "*)", "* )") + " *)\nDefinition gen_problems := UNSUPPORTED_see_the_problems_listed_above.\n")
	}
	if err := os.WriteFile(*out, []byte(b.String()), 0o644); err != nil {
		fmt.Fprintln(os.Stderr, err)
		os.Exit(2)
	}
	for _, p := range problems {
		fmt.Println("unsupported:", p)
	}
}
