// xlate_params — translator tie (T) for C19: reads gencommon/params.go and gencommon/method.go
// of the current tree with go/parser and regenerates Gallina definitions of
//
//	reserveParamName, getSafeParamName, Params.keepNames, Params.ensureNames,
//	Method.ensureParamNames
//
// over the primitives of GT.IFaceGenPrims (map_get/map_has/map_set, fmt_int, while_loop,
// range_upd, type_implements_*).  coq/ties/Tie_C19.v proves each regenerated function equal to
// the hand-written model of IFaceModel.v that Props/C19.v (C19_names) is about.
//
// Go maps and the elements of Params ([]*Param) are references: a translated function takes the
// maps / parameter lists it can mutate as arguments and returns them next to its Go result
// (result first, then the receiver list, then the map parameters in order).
//
// Supported subset: `x := e`, `x = e`, `x++`, `v, ok := m[k]`, `_, ok = m[k]`, `m[k] = e`,
// `p.Name = e`, `if [init;] c {…} [else if … | else {…}]` (no return inside), 3-clause `for`,
// `for i, p := range ps` over the receiver list, calls of the translated functions (statement or
// nested expression; evaluated innermost first), `return e` as last statement, string literals,
// `+` on strings, `strconv.FormatInt(int64(v), 10)`, `len(ps)`, `-`, `==`, `!=`, `!`, `&&`, `||`,
// `TypeImplements(p.ActualType, ErrorInterface|ContextInterface)`, `make(map…)`, `m.Input`/`m.Output`.
// Anything else is rendered as UNSUPPORTED_<what>, which makes the generated file fail to compile
// and thereby breaks the tie.  Standard library only.
//
//	xlate_params -src <repo>/gencommon -out ParamsGen.v
package main

import (
	"flag"
	"fmt"
	"go/ast"
	"go/parser"
	"go/token"
	"os"
	"path/filepath"
	"sort"
	"strconv"
	"strings"
)

var wanted = []string{"reserveParamName", "getSafeParamName", "keepNames", "ensureNames", "ensureParamNames"}

// what a translated function looks like from a call site
type sig struct {
	recv   string   // "" | "plist" | "method"
	params []string // types of the Go parameters
	result string   // "" or type of the Go result
}

var sigs = map[string]*sig{}

var coqType = map[string]string{"map": "dmap", "string": "string", "bool": "bool", "N": "N", "nat": "nat",
	"plist": "list pinfo", "pinfo": "pinfo"}

type fn struct {
	env      map[string]string
	problems []string
	tmp      int
	outs     []string // variables returned after the Go result
}

func (f *fn) bad(what string) string {
	f.problems = append(f.problems, what)
	return "UNSUPPORTED_" + strings.Map(func(r rune) rune {
		if r >= 'a' && r <= 'z' || r >= 'A' && r <= 'Z' || r >= '0' && r <= '9' {
			return r
		}
		return '_'
	}, what)
}

func goType(t ast.Expr) string {
	switch x := t.(type) {
	case *ast.MapType:
		return "map"
	case *ast.Ident:
		switch x.Name {
		case "string", "bool":
			return x.Name
		case "Params":
			return "plist"
		case "int":
			return "nat"
		}
	case *ast.StarExpr:
		if id, ok := x.X.(*ast.Ident); ok && id.Name == "Method" {
			return "method"
		}
	}
	return "unknown"
}

// varOf names the variable an assignable/receiver expression denotes: x, m.Input, m.Output.
func (f *fn) varOf(e ast.Expr) string {
	switch x := e.(type) {
	case *ast.Ident:
		return x.Name
	case *ast.ParenExpr:
		return f.varOf(x.X)
	case *ast.SelectorExpr:
		if id, ok := x.X.(*ast.Ident); ok && f.env[id.Name] == "method" && (x.Sel.Name == "Input" || x.Sel.Name == "Output") {
			return id.Name + "_" + x.Sel.Name
		}
	}
	return ""
}

func isIdent(e ast.Expr, name string) bool {
	id, ok := e.(*ast.Ident)
	return ok && id.Name == name
}

// call translates a call of one of the wanted functions: lets binding a fresh result variable
// and the updated references, and the result variable.
func (f *fn) call(c *ast.CallExpr) (pre, val, typ string, ok bool) {
	name, recvVar := "", ""
	switch fun := c.Fun.(type) {
	case *ast.Ident:
		name = fun.Name
	case *ast.SelectorExpr:
		name = fun.Sel.Name
		recvVar = f.varOf(fun.X)
	}
	s := sigs[name]
	if s == nil {
		return "", "", "", false
	}
	if (s.recv == "plist") != (recvVar != "" && f.env[recvVar] == "plist") || len(c.Args) != len(s.params) {
		return "", f.bad("call shape of " + name), "unknown", true
	}
	args, outs := []string{}, []string{}
	if s.recv == "plist" {
		args = append(args, "v_"+recvVar)
		outs = append(outs, "v_"+recvVar)
	}
	for i, a := range c.Args {
		p, v, _ := f.expr(a, s.params[i])
		pre += p
		args = append(args, v)
		if s.params[i] == "map" {
			id, isId := a.(*ast.Ident)
			if !isId {
				return pre, f.bad("map argument that is not a variable"), "unknown", true
			}
			outs = append(outs, "v_"+id.Name)
		}
	}
	val = "_"
	if s.result != "" {
		f.tmp++
		val = fmt.Sprintf("t_%d", f.tmp)
		outs = append([]string{val}, outs...)
	}
	lhs := outs[0]
	if len(outs) > 1 {
		lhs = "'(" + strings.Join(outs, ", ") + ")"
	}
	pre += "let " + lhs + " := gen_" + name + " " + strings.Join(args, " ") + " in\n"
	return pre, val, s.result, true
}

// expr translates an expression; want is the expected type of an integer literal ("N" or "nat").
func (f *fn) expr(e ast.Expr, want string) (pre, val, typ string) {
	switch x := e.(type) {
	case *ast.ParenExpr:
		return f.expr(x.X, want)
	case *ast.Ident:
		switch x.Name {
		case "true", "false":
			return "", x.Name, "bool"
		}
		if t, ok := f.env[x.Name]; ok {
			return "", "v_" + x.Name, t
		}
		return "", f.bad("unknown identifier " + x.Name), "unknown"
	case *ast.BasicLit:
		switch x.Kind {
		case token.STRING:
			s, err := strconv.Unquote(x.Value)
			if err != nil || strings.ContainsAny(s, "\"\n") {
				return "", f.bad("string literal"), "string"
			}
			return "", "\"" + s + "\"%string", "string"
		case token.INT:
			if want == "N" {
				return "", x.Value + "%N", "N"
			}
			return "", x.Value + "%nat", "nat"
		}
	case *ast.SelectorExpr:
		if x.Sel.Name == "Name" {
			if id, ok := x.X.(*ast.Ident); ok && f.env[id.Name] == "pinfo" {
				return "", "(pi_name v_" + id.Name + ")", "string"
			}
		}
		if v := f.varOf(x); v != "" {
			return "", "v_" + v, f.env[v]
		}
	case *ast.UnaryExpr:
		if x.Op == token.NOT {
			p, v, _ := f.expr(x.X, want)
			return p, "(negb " + v + ")", "bool"
		}
	case *ast.BinaryExpr:
		pl, l, tl := f.expr(x.X, want)
		pr, r, tr := f.expr(x.Y, tl)
		if tl == "nat" && tr == "N" || tl == "N" && tr == "nat" { // a literal on the left
			pl, l, tl = f.expr(x.X, tr)
		}
		pre = pl + pr
		switch x.Op {
		case token.LOR:
			return pre, "(orb " + l + " " + r + ")", "bool"
		case token.LAND:
			return pre, "(andb " + l + " " + r + ")", "bool"
		case token.ADD:
			if tl == "string" && tr == "string" {
				return pre, "(" + l + " ++ " + r + ")%string", "string"
			}
		case token.SUB:
			if tl == "nat" && tr == "nat" {
				return pre, "(" + l + " - " + r + ")%nat", "nat"
			}
		case token.EQL, token.NEQ:
			eq := ""
			switch {
			case tl == "string" && tr == "string":
				eq = "(String.eqb " + l + " " + r + ")"
			case tl == "nat" && tr == "nat":
				eq = "(Nat.eqb " + l + " " + r + ")"
			case tl == "N" && tr == "N":
				eq = "(N.eqb " + l + " " + r + ")"
			}
			if eq != "" {
				if x.Op == token.NEQ {
					eq = "(negb " + eq + ")"
				}
				return pre, eq, "bool"
			}
		}
		return pre, f.bad("binary " + x.Op.String() + " on " + tl + "/" + tr), "unknown"
	case *ast.CallExpr:
		if p, v, t, ok := f.call(x); ok {
			return p, v, t
		}
		switch fun := x.Fun.(type) {
		case *ast.Ident:
			switch {
			case fun.Name == "len" && len(x.Args) == 1:
				if v := f.varOf(x.Args[0]); v != "" && f.env[v] == "plist" {
					return "", "(List.length v_" + v + ")", "nat"
				}
			case (fun.Name == "int64" || fun.Name == "int") && len(x.Args) == 1:
				return f.expr(x.Args[0], want)
			case fun.Name == "make" && len(x.Args) >= 1 && goType(x.Args[0]) == "map":
				return "", "map_empty", "map"
			case fun.Name == "TypeImplements" && len(x.Args) == 2:
				if s, ok := x.Args[0].(*ast.SelectorExpr); ok && s.Sel.Name == "ActualType" {
					if id, ok := s.X.(*ast.Ident); ok && f.env[id.Name] == "pinfo" {
						switch {
						case isIdent(x.Args[1], "ErrorInterface"):
							return "", "(type_implements_error v_" + id.Name + ")", "bool"
						case isIdent(x.Args[1], "ContextInterface"):
							return "", "(type_implements_context v_" + id.Name + ")", "bool"
						}
					}
				}
			}
		case *ast.SelectorExpr:
			// strconv.FormatInt(e, 10)
			if isIdent(fun.X, "strconv") && fun.Sel.Name == "FormatInt" && len(x.Args) == 2 {
				if lit, ok := x.Args[1].(*ast.BasicLit); ok && lit.Value == "10" {
					p, v, t := f.expr(x.Args[0], "N")
					if t == "N" {
						return p, "(fmt_int " + v + ")", "string"
					}
				}
			}
		}
		return "", f.bad("call"), "unknown"
	}
	return "", f.bad(fmt.Sprintf("expr %T", e)), "unknown"
}

// assigned lists, sorted, the variables a statement list changes without declaring them: plain
// assignments, x++, maps written or handed to a translated function, parameters whose field is set.
func (f *fn) assigned(list []ast.Stmt) []string {
	set, declared := map[string]bool{}, map[string]bool{}
	mark := func(n string) {
		if n != "" && n != "_" && !declared[n] {
			set[n] = true
		}
	}
	var walk func(n ast.Node) bool
	walk = func(n ast.Node) bool {
		switch s := n.(type) {
		case *ast.AssignStmt:
			for _, l := range s.Lhs {
				switch t := l.(type) {
				case *ast.IndexExpr:
					mark(f.varOf(t.X))
				case *ast.SelectorExpr:
					if v := f.varOf(t); v != "" {
						mark(v)
					} else if id, ok := t.X.(*ast.Ident); ok {
						mark(id.Name)
					}
				case *ast.Ident:
					if s.Tok == token.DEFINE {
						declared[t.Name] = true
					} else {
						mark(t.Name)
					}
				}
			}
		case *ast.IncDecStmt:
			mark(f.varOf(s.X))
		case *ast.CallExpr:
			name := ""
			switch fun := s.Fun.(type) {
			case *ast.Ident:
				name = fun.Name
			case *ast.SelectorExpr:
				name = fun.Sel.Name
				if sg := sigs[name]; sg != nil && sg.recv == "plist" {
					mark(f.varOf(fun.X))
				}
			}
			if sg := sigs[name]; sg != nil {
				for i, a := range s.Args {
					if i < len(sg.params) && sg.params[i] == "map" {
						mark(f.varOf(a))
					}
				}
			}
		case *ast.RangeStmt:
			if id, ok := s.Value.(*ast.Ident); ok {
				declared[id.Name] = true
			}
			if id, ok := s.Key.(*ast.Ident); ok {
				declared[id.Name] = true
			}
			mark(f.varOf(s.X))
		}
		return true
	}
	for _, s := range list {
		ast.Inspect(s, walk)
	}
	out := make([]string, 0, len(set))
	for k := range set {
		if _, known := f.env[k]; known {
			out = append(out, k)
		}
	}
	sort.Strings(out)
	return out
}

func tuple(vars []string) string {
	switch len(vars) {
	case 0:
		return "tt"
	case 1:
		return "v_" + vars[0]
	}
	parts := make([]string, len(vars))
	for i, v := range vars {
		parts[i] = "v_" + v
	}
	return "(" + strings.Join(parts, ", ") + ")"
}

func pat(vars []string) string {
	switch len(vars) {
	case 0:
		return "_"
	case 1:
		return "v_" + vars[0]
	}
	return "'" + tuple(vars)
}

func (f *fn) stateType(vars []string) string {
	if len(vars) == 0 {
		return "unit"
	}
	ts := make([]string, len(vars))
	for i, v := range vars {
		ts[i] = coqType[f.env[v]]
	}
	return "(" + strings.Join(ts, " * ") + ")"
}

func without(vars []string, x string) []string {
	var out []string
	for _, v := range vars {
		if v != x {
			out = append(out, v)
		}
	}
	return out
}

// firstMap finds a map variable mentioned in the nodes (the map a loop consults).
func (f *fn) firstMap(nodes ...ast.Node) string {
	found := ""
	for _, n := range nodes {
		if n == nil {
			continue
		}
		ast.Inspect(n, func(x ast.Node) bool {
			if id, ok := x.(*ast.Ident); ok && found == "" && f.env[id.Name] == "map" {
				found = id.Name
			}
			return true
		})
	}
	return found
}

// stmts renders a statement list in continuation style; k is the term for "fell off the end".
func (f *fn) stmts(list []ast.Stmt, k string) string {
	if len(list) == 0 {
		return k
	}
	rest := func() string { return f.stmts(list[1:], k) }
	switch s := list[0].(type) {
	case *ast.AssignStmt:
		// v, ok := m[k]   /   _, ok = m[k]
		if len(s.Lhs) == 2 && len(s.Rhs) == 1 {
			ix, isIx := s.Rhs[0].(*ast.IndexExpr)
			a, aok := s.Lhs[0].(*ast.Ident)
			b, bok := s.Lhs[1].(*ast.Ident)
			if isIx && aok && bok && f.env[f.varOf(ix.X)] == "map" {
				m := "v_" + f.varOf(ix.X)
				p, key, _ := f.expr(ix.Index, "nat")
				out := p
				if a.Name != "_" {
					f.env[a.Name] = "N"
					out += "let v_" + a.Name + " := map_get " + m + " " + key + " in\n"
				}
				if b.Name != "_" {
					f.env[b.Name] = "bool"
					out += "let v_" + b.Name + " := map_has " + m + " " + key + " in\n"
				}
				return out + rest()
			}
			return f.bad("two-value assign")
		}
		if len(s.Lhs) != 1 || len(s.Rhs) != 1 || (s.Tok != token.DEFINE && s.Tok != token.ASSIGN) {
			return f.bad("assign form")
		}
		switch l := s.Lhs[0].(type) {
		case *ast.IndexExpr: // m[k] = e
			m := f.varOf(l.X)
			if f.env[m] != "map" {
				return f.bad("index assign")
			}
			pk, key, _ := f.expr(l.Index, "nat")
			pv, v, t := f.expr(s.Rhs[0], "N")
			if t != "N" {
				return f.bad("map value of type " + t)
			}
			return pk + pv + "let v_" + m + " := map_set v_" + m + " " + key + " " + v + " in\n" + rest()
		case *ast.SelectorExpr: // p.Name = e
			id, ok := l.X.(*ast.Ident)
			if !ok || f.env[id.Name] != "pinfo" || l.Sel.Name != "Name" {
				return f.bad("field assign")
			}
			p, v, t := f.expr(s.Rhs[0], "nat")
			if t != "string" {
				return f.bad("name of type " + t)
			}
			return p + "let v_" + id.Name + " := set_name v_" + id.Name + " " + v + " in\n" + rest()
		case *ast.Ident:
			p, v, t := f.expr(s.Rhs[0], "nat")
			if s.Tok == token.DEFINE {
				f.env[l.Name] = t
			} else if f.env[l.Name] != t {
				return f.bad("assignment changes type of " + l.Name)
			}
			return p + "let v_" + l.Name + " := " + v + " in\n" + rest()
		}
		return f.bad("assign target")
	case *ast.IncDecStmt:
		v := f.varOf(s.X)
		if s.Tok != token.INC || f.env[v] != "N" {
			return f.bad("inc/dec")
		}
		return "let v_" + v + " := N.succ v_" + v + " in\n" + rest()
	case *ast.ExprStmt:
		if c, ok := s.X.(*ast.CallExpr); ok {
			if p, _, _, ok := f.call(c); ok {
				return p + rest()
			}
		}
		return f.bad("expression statement")
	case *ast.ReturnStmt:
		if len(s.Results) != 1 || len(list) != 1 {
			return f.bad("return form")
		}
		p, v, _ := f.expr(s.Results[0], "nat")
		return p + "(" + strings.Join(append([]string{v}, f.outs...), ", ") + ")"
	case *ast.BlockStmt:
		return f.stmts(append(append([]ast.Stmt{}, s.List...), list[1:]...), k)
	case *ast.IfStmt:
		vars := f.assigned([]ast.Stmt{s})
		return "let " + pat(vars) + " := (" + f.ifChain(s, vars) + ") in\n" + rest()
	case *ast.ForStmt:
		if s.Init == nil || s.Cond == nil || s.Post == nil {
			return f.bad("for without init/cond/post")
		}
		init := f.stmts([]ast.Stmt{s.Init}, "INIT_END")
		if !strings.HasSuffix(init, "INIT_END") {
			return f.bad("for init")
		}
		init = strings.TrimSuffix(init, "INIT_END")
		vars := f.assigned(append(append([]ast.Stmt{}, s.Body.List...), s.Post))
		if d, ok := s.Init.(*ast.AssignStmt); ok && d.Tok == token.DEFINE {
			for _, l := range d.Lhs { // the loop's own variable is part of the state
				if id, ok := l.(*ast.Ident); ok && id.Name != "_" {
					vars = append(without(vars, id.Name), id.Name)
				}
			}
			sort.Strings(vars)
		}
		m := f.firstMap(s.Cond, s.Post, s.Body)
		if m == "" {
			return f.bad("loop that consults no map (no bound available)")
		}
		pc, cond, _ := f.expr(s.Cond, "nat")
		if pc != "" {
			return f.bad("call in loop condition")
		}
		body := f.stmts(append(append([]ast.Stmt{}, s.Body.List...), s.Post), tuple(vars))
		return init + "let " + pat(vars) + " := while_loop (loop_fuel v_" + m + ")\n(fun " + pat(vars) + " => " + cond +
			")\n(fun " + pat(vars) + " =>\n" + body + ")\n" + tuple(vars) + " in\n" + rest()
	case *ast.RangeStmt:
		src := f.varOf(s.X)
		el, isEl := s.Value.(*ast.Ident)
		if f.env[src] != "plist" || !isEl || s.Tok != token.DEFINE {
			return f.bad("range form")
		}
		idx := "i_unused"
		if id, ok := s.Key.(*ast.Ident); ok && id.Name != "_" {
			idx = "v_" + id.Name
			f.env[id.Name] = "nat"
		}
		f.env[el.Name] = "pinfo"
		vars := without(without(f.assigned(s.Body.List), el.Name), src)
		body := f.stmts(s.Body.List, "(v_"+el.Name+", "+tuple(vars)+")")
		delete(f.env, el.Name)
		return "let '(v_" + src + ", " + strings.TrimPrefix(pat(vars), "'") + ") := range_upd\n(fun (st : " + f.stateType(vars) +
			") " + idx + " v_" + el.Name + " => let " + pat(vars) + " := st in\n" + body + ")\nv_" + src + " " + tuple(vars) + " in\n" + rest()
	}
	return f.bad(fmt.Sprintf("stmt %T", list[0]))
}

// ifChain renders if / else if / else as an expression returning the tuple of vars.
func (f *fn) ifChain(s *ast.IfStmt, vars []string) string {
	pre := ""
	if s.Init != nil {
		pre = f.stmts([]ast.Stmt{s.Init}, "INIT_END")
		if !strings.HasSuffix(pre, "INIT_END") {
			return f.bad("if init")
		}
		pre = strings.TrimSuffix(pre, "INIT_END")
	}
	pc, cond, _ := f.expr(s.Cond, "nat")
	then := f.stmts(s.Body.List, tuple(vars))
	els := tuple(vars)
	switch e := s.Else.(type) {
	case *ast.IfStmt:
		els = f.ifChain(e, vars)
	case *ast.BlockStmt:
		els = f.stmts(e.List, tuple(vars))
	}
	return pre + pc + "if " + cond + " then\n" + then + "\nelse\n" + els
}

func main() {
	srcDir := flag.String("src", "", "path of the gencommon directory")
	out := flag.String("out", "ParamsGen.v", "output file")
	flag.Parse()
	fset := token.NewFileSet()
	decls := map[string]*ast.FuncDecl{}
	for _, name := range []string{"params.go", "method.go"} {
		file, err := parser.ParseFile(fset, filepath.Join(*srcDir, name), nil, 0)
		if err != nil {
			fmt.Fprintln(os.Stderr, err)
			os.Exit(2)
		}
		for _, d := range file.Decls {
			if fd, ok := d.(*ast.FuncDecl); ok && fd.Body != nil {
				decls[fd.Name.Name] = fd
			}
		}
	}
	var b strings.Builder
	b.WriteString("(* GENERATED by harness/cmd/xlate_params from gencommon/params.go and method.go of the current tree — do not edit *)\n")
	b.WriteString("From Coq Require Import List Bool String NArith Arith.\nImport ListNotations.\nFrom GT Require Import IFaceModel IFaceGenPrims.\n\n")
	var problems []string
	for _, name := range wanted {
		fd, ok := decls[name]
		if !ok {
			b.WriteString("Definition gen_" + name + " := UNSUPPORTED_function_" + name + "_not_found.\n\n")
			problems = append(problems, name+": not found")
			continue
		}
		f := &fn{env: map[string]string{}}
		sg := &sig{}
		def := "Definition gen_" + name
		if fd.Recv != nil && len(fd.Recv.List) == 1 && len(fd.Recv.List[0].Names) == 1 {
			r := fd.Recv.List[0].Names[0].Name
			switch goType(fd.Recv.List[0].Type) {
			case "plist":
				sg.recv = "plist"
				f.env[r] = "plist"
				def += " (v_" + r + " : list pinfo)"
				f.outs = append(f.outs, "v_"+r)
			case "method":
				sg.recv = "method"
				f.env[r] = "method"
				for _, fld := range []string{"Input", "Output"} {
					f.env[r+"_"+fld] = "plist"
					def += " (v_" + r + "_" + fld + " : list pinfo)"
					f.outs = append(f.outs, "v_"+r+"_"+fld)
				}
			default:
				def += " (v_" + r + " : UNSUPPORTED_receiver_type)"
			}
		}
		for _, p := range fd.Type.Params.List {
			t := goType(p.Type)
			for _, n := range p.Names {
				f.env[n.Name] = t
				sg.params = append(sg.params, t)
				ct, known := coqType[t]
				if !known {
					ct = "UNSUPPORTED_param_type"
				}
				def += " (v_" + n.Name + " : " + ct + ")"
				if t == "map" {
					f.outs = append(f.outs, "v_"+n.Name)
				}
			}
		}
		end := "(" + strings.Join(f.outs, ", ") + ")"
		if fd.Type.Results != nil && len(fd.Type.Results.List) == 1 {
			sg.result = goType(fd.Type.Results.List[0].Type)
			end = "MISSING_RETURN"
		}
		body := f.stmts(fd.Body.List, end)
		if strings.Contains(body, "MISSING_RETURN") {
			body = strings.ReplaceAll(body, "MISSING_RETURN", f.bad("missing return"))
		}
		sigs[name] = sg
		b.WriteString(def + " :=\n" + body + ".\n\n")
		for _, p := range f.problems {
			problems = append(problems, name+": "+p)
		}
	}
	b.WriteString("(* functions translated: " + strings.Join(wanted, ", ") + " *)\n")
	if err := os.WriteFile(*out, []byte(b.String()), 0o644); err != nil {
		fmt.Fprintln(os.Stderr, err)
		os.Exit(2)
	}
	for _, p := range problems {
		fmt.Println("unsupported:", p)
	}
}
