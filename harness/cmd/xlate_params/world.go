package main

// world.go — the vocabulary of imports.go / method.go / params.go beyond the parameter-naming
// functions: *ImportHandler, *packages.Package, *ast.ImportSpec, go/types values.  The statement
// and expression translator of main.go (if / switch / loops in tail form, lets, strings, helper
// calls) is reused; this file adds, through hooks, what these objects mean in Gallina:
//
//	ih *ImportHandler        five variables: ih.imports (table), ih.shadowed (list imp),
//	                         ih.PInfo.PkgPath (string), ih.PInfo.Imports (list (string*string)),
//	                         ih.PInfo.Types.Scope() (list string: the package-level names)
//	pkg *packages.Package    pkg.Imports, pkg.PkgPath, pkg.Types.Scope()
//	spec *ast.ImportSpec     strings.Trim(spec.Path.Value, `"`) (string), spec.Name (option string)
//	t named (Named/Alias)    t.Obj().Pkg() (option (path, name)), t.Obj().Name(), t.TypeArgs() (list ty;
//	                         `!= nil` is "not empty": go/types has no empty non-nil TypeList)
//	typ types.Type           a value of IFaceModel.ty; a type switch on it is a match
//	i *ImportDesc            a record imp; a pointer obtained from `m[k]` is written back with
//	                         tmap_set when one of its fields is assigned (it aliases the map entry)
//	m[k] on ih.imports       tmap_get / tmap_has / tmap_set (IFaceGenPrims)
//	closures, `for … { if c { return true } }`, fmt.Sprintf("%s…"), strings.Join/HasSuffix/TrimPrefix,
//	path.Base, append, strings.Builder
//
// A function that calls a function whose translation is in progress (ExtractTypeRef <-> addNamed),
// or MethodFromSignature, gets that function as a parameter rec_<name> (open recursion): the tie
// lemmas instantiate it with the model's function.

import (
	"fmt"
	"go/ast"
	"go/token"
	"regexp"
	"sort"
	"strconv"
	"strings"
)

type world struct {
	recs     []string          // functions taken as parameters rec_<name>
	origin   map[string]string // *ImportDesc variable -> "tmapVar\x00keyTerm" of the entry it aliases
	closures map[string]bool
	listLoop *listLoop
	fallS    string // inside the default arm of a type switch: the String() of the subject
	impure   bool   // the function writes the import table
	isBasic  bool // needs the parameter is_basic (type switch with a default next to *types.Basic)
}

type listLoop struct {
	src, idx, elem, elemTyp string
}

var reTmp = regexp.MustCompile(`t_[0-9]+`)

// MethodFromSignature(ih, t) as ExtractTypeRef uses it — only to call Signature() on the result —
// is the function "signature text of the func type t" (type msig: the text)
var forcedRec = map[string]string{"MethodFromSignature": "msig", "ExtractTypeRef": "string"}

// worldSigs: what the translated world functions look like from a call site
type wsig struct {
	coq     string
	recs    []string
	hasRecv bool     // method of *ImportHandler (or first parameter of that type)
	params  []string // types of the remaining parameters
	results []string
	impure  bool
	isBasic bool
}

var wsigs = map[string]*wsig{}
var wdecls = map[string]*ast.FuncDecl{}

func chain(e ast.Expr) (root, path string, args []ast.Expr, ok bool) {
	switch x := e.(type) {
	case *ast.Ident:
		return x.Name, "", nil, true
	case *ast.ParenExpr:
		return chain(x.X)
	case *ast.SelectorExpr:
		r, p, a, ok := chain(x.X)
		return r, p + "." + x.Sel.Name, a, ok
	case *ast.CallExpr:
		r, p, a, ok := chain(x.Fun)
		if !ok {
			return "", "", nil, false
		}
		us := make([]string, len(x.Args))
		for i := range us {
			us[i] = "_"
		}
		return r, p + "(" + strings.Join(us, ",") + ")", append(a, x.Args...), true
	case *ast.IndexExpr:
		r, p, a, ok := chain(x.X)
		return r, p + "[_]", append(a, x.Index), ok
	}
	return "", "", nil, false
}

// components of the bundles
var comps = map[string][][3]string{ // type -> (path, component, component type)
	"ih": {{".imports", "imports", "tmap"}, {".shadowed", "shadowed", "ilist"}, {".PInfo.PkgPath", "self", "string"},
		{".PInfo.Imports", "pkgimports", "amap"}, {".PInfo.Types.Scope()", "scope", "slist"}},
	"pkginfo": {{".Imports", "pkgimports", "amap"}, {".PkgPath", "self", "string"}, {".Types.Scope()", "scope", "slist"}},
	"spec":    {{".Path.Value", "path", "string"}, {".Name", "name", "ostr"}},
	"nmd":     {{".Obj().Pkg()", "pkg", "opkg"}, {".Obj().Name()", "name", "string"}, {".TypeArgs()", "targs", "tys"}},
	"gmeth":   {{".Name", "name", "string"}, {".Input", "input", "glist"}, {".Output", "output", "glist"}},
	"sig":     {{".Params()", "ps", "tuple"}, {".Variadic()", "variadic", "bool"}, {".Results()", "rs", "tuple"}},
	"ifaceres": {{".Methods", "methods", "gmlist"}},
}

func (f *fn) declare(name, typ string) {
	f.env[name] = typ
	for _, c := range comps[typ] {
		f.env[name+"_"+c[1]] = c[2]
	}
}

func (w *world) varOf(f *fn, e ast.Expr) string {
	if _, isSel := e.(*ast.SelectorExpr); !isSel {
		return ""
	}
	root, path, _, ok := chain(e)
	if !ok {
		return ""
	}
	for _, c := range comps[f.env[root]] {
		if c[0] == path {
			return root + "_" + c[1]
		}
	}
	return ""
}

func isNil(e ast.Expr) bool { return isIdent(e, "nil") }

var impSetter = map[string]string{"inUse": "imp_with_in_use", "Alias": "imp_with_alias",
	"aliasIsPackageName": "imp_with_is_pkg", "PkgPath": "imp_with_path"}

func coqString(s string) string { return "\"" + strings.ReplaceAll(s, "\"", "\"\"") + "\"%string" }

func (w *world) expr(f *fn, e ast.Expr, want string) (pre, val, typ string, ok bool) {
	if id, isId := e.(*ast.Ident); isId && f.env[id.Name] == "gmeth" {
		return "", "(" + strings.Join(bundleArgs("gmeth", id.Name), ", ") + ")", "gmeth", true
	}
	switch x := e.(type) {
	case *ast.BinaryExpr:
		if (x.Op == token.NEQ || x.Op == token.EQL) && (isNil(x.X) || isNil(x.Y)) {
			other := x.X
			if isNil(x.X) {
				other = x.Y
			}
			p, v, t := f.expr(other, "nat")
			r := ""
			switch t {
			case "ostr", "opkg":
				r = "(is_some " + v + ")"
			case "tys":
				r = "(negb (is_nil " + v + "))"
			case "obj":
				r = "true"
			case "lookup":
				r = v
			default:
				return p, f.bad("comparison of " + t + " with nil"), "bool", true
			}
			if x.Op == token.EQL {
				r = "(negb " + r + ")"
			}
			return p, r, "bool", true
		}
	case *ast.UnaryExpr:
		if cl, isCl := x.X.(*ast.CompositeLit); isCl && x.Op == token.AND && isIdent(cl.Type, "Param") {
			vals := map[string]string{"Name": "\"\"%string", "Variadic": "false", "TypeRef": "\"\"%string", "ctx": "false", "err": "false"}
			for _, el := range cl.Elts {
				kv, isKV := el.(*ast.KeyValueExpr)
				key, isId := kv.Key.(*ast.Ident)
				if !isKV || !isId {
					return "", f.bad("Param literal"), "gparam", true
				}
				if key.Name == "ActualType" {
					// the type is kept for TypeImplements only: the two oracle bits of the tuple element
					r, p, _, ok := chain(kv.Value)
					if !ok || f.env[r] != "tvar" || p != ".Type()" {
						return pre, f.bad("ActualType of a Param"), "gparam", true
					}
					vals["ctx"], vals["err"] = "(pi_ctx (fst v_"+r+"))", "(pi_err (fst v_"+r+"))"
					continue
				}
				if _, known := vals[key.Name]; !known {
					return pre, f.bad("Param field " + key.Name), "gparam", true
				}
				p, v, _ := f.expr(kv.Value, "nat")
				pre += p
				vals[key.Name] = v
			}
			return pre, "(GP " + vals["Name"] + " " + vals["Variadic"] + " " + vals["TypeRef"] + " " + vals["ctx"] + " " + vals["err"] + ")", "gparam", true
		}
		if cl, isCl := x.X.(*ast.CompositeLit); isCl && x.Op == token.AND && isIdent(cl.Type, "ImportDesc") {
			vals := map[string]string{"PkgPath": "\"\"%string", "Alias": "\"\"%string", "aliasIsPackageName": "false", "inUse": "false"}
			for _, el := range cl.Elts {
				kv, isKV := el.(*ast.KeyValueExpr)
				key, isId := kv.Key.(*ast.Ident)
				if !isKV || !isId {
					return "", f.bad("ImportDesc literal"), "imp", true
				}
				p, v, _ := f.expr(kv.Value, "nat")
				pre += p
				vals[key.Name] = v
			}
			return pre, "(Imp " + vals["PkgPath"] + " " + vals["Alias"] + " " + vals["aliasIsPackageName"] + " " + vals["inUse"] + ")", "imp", true
		}
	case *ast.TypeAssertExpr:
		// t.(named): the value seen through the interface both *types.Named and *types.Alias satisfy
		if isIdent(x.Type, "named") {
			if id, isId := x.X.(*ast.Ident); isId && f.env[id.Name] == "nmd" {
				return "", "v_" + id.Name, "nmd", true
			}
		}
	case *ast.CompositeLit:
		if sel, isSel := x.Type.(*ast.SelectorExpr); isSel && isIdent(sel.X, "strings") && sel.Sel.Name == "Builder" {
			return "", "\"\"%string", "builder", true
		}
	case *ast.SelectorExpr, *ast.CallExpr, *ast.IndexExpr:
		return w.chainExpr(f, e, want)
	}
	return "", "", "", false
}

func (w *world) chainExpr(f *fn, e ast.Expr, want string) (pre, val, typ string, ok bool) {
	// builtin / package-level calls first
	if c, isCall := e.(*ast.CallExpr); isCall {
		switch fun := c.Fun.(type) {
		case *ast.Ident:
			switch {
			case fun.Name == "len" && len(c.Args) == 1:
				if p, v, t := f.expr(c.Args[0], "nat"); t == "glist" || t == "tys" || t == "tuple" || t == "strs" {
					return p, "(List.length " + v + ")", "nat", true
				}
			case fun.Name == "append" && len(c.Args) == 2:
				p1, a, t := f.expr(c.Args[0], "nat")
				p2, b, _ := f.expr(c.Args[1], "nat")
				if t == "gmlist" {
					if call, isCall := c.Args[1].(*ast.CallExpr); isCall { // append(ms, helper(…)): the helper's *Method
						if id, isId := call.Fun.(*ast.Ident); isId {
							if _, ours := wdecls[id.Name]; ours {
								p2, b, _, _ = w.call(f, id.Name, "", call.Args)
							}
						}
					}
				}
				return p1 + p2, "(" + a + " ++ [" + b + "])%list", t, true
			case fun.Name == "make" && len(c.Args) >= 1:
				if at, isArr := c.Args[0].(*ast.ArrayType); isArr && at.Len == nil && isIdent(at.Elt, "string") {
					return "", "(@nil string)", "strs", true
				}
				if isIdent(c.Args[0], "Params") {
					return "", "(@nil gparam)", "glist", true
				}
			case w.closures[fun.Name]:
				args := []string{}
				for _, a := range c.Args {
					p, v, _ := f.expr(a, "nat")
					pre += p
					args = append(args, v)
				}
				return pre, "(v_" + fun.Name + " " + strings.Join(args, " ") + ")", "bool", true
			}
			if _, ours := wdecls[fun.Name]; ours {
				return w.call(f, fun.Name, "", c.Args)
			}
			if _, forced := forcedRec[fun.Name]; forced {
				return w.call(f, fun.Name, "", c.Args)
			}
		case *ast.SelectorExpr:
			// MethodFromSignature(ih, t).Signature(): a method of the value another call returns
			if inner, isCall := fun.X.(*ast.CallExpr); isCall && fun.Sel.Name == "Signature" && len(c.Args) == 0 {
				if p, v, t := f.expr(inner, "nat"); t == "msig" {
					return p, v, "string", true
				}
			}
			if _, ours := wdecls[fun.Sel.Name]; ours {
				if id, isId := fun.X.(*ast.Ident); !isId || f.env[id.Name] != "ih" {
					if _, _, rt := f.expr(fun.X, "nat"); rt == "glist" || rt == "gmeth" {
						return w.call(f, fun.Sel.Name, "", append([]ast.Expr{fun.X}, c.Args...))
					}
					if id, isId := fun.X.(*ast.Ident); isId && f.env[id.Name] == "gmeth" {
						return w.call(f, fun.Sel.Name, "", append([]ast.Expr{fun.X}, c.Args...))
					}
				}
			}
			if id, isId := fun.X.(*ast.Ident); isId {
				if _, local := f.env[id.Name]; !local {
					switch id.Name + "." + fun.Sel.Name {
					case "strings.Trim":
						if r, p, _, ok := chain(c.Args[0]); ok && f.env[r] == "spec" && p == ".Path.Value" {
							return "", "v_" + r + "_path", "string", true
						}
					case "path.Base":
						p, v, _ := f.expr(c.Args[0], "nat")
						return p, "(path_base " + v + ")", "string", true
					case "strings.HasSuffix":
						p1, a, _ := f.expr(c.Args[0], "nat")
						p2, b, _ := f.expr(c.Args[1], "nat")
						return p1 + p2, "(has_suffix " + a + " " + b + ")", "bool", true
					case "strings.TrimPrefix":
						p1, a, _ := f.expr(c.Args[0], "nat")
						p2, b, _ := f.expr(c.Args[1], "nat")
						return p1 + p2, "(trim_prefix " + b + " " + a + ")", "string", true
					case "strings.Join":
						p1, a, _ := f.expr(c.Args[0], "nat")
						p2, b, _ := f.expr(c.Args[1], "nat")
						return p1 + p2, "(join " + b + " " + a + ")", "string", true
					case "fmt.Sprintf":
						return w.sprintf(f, c)
					case "types.Default":
						// only as types.Default(t).String(), below
					}
				}
			}
		}
	}
	root, path, args, ok := chain(e)
	if !ok {
		return "", "", "", false
	}
	if root == "types" && path == ".Default(_).String()" && len(args) == 1 {
		if id, isId := args[0].(*ast.Ident); isId && f.env[id.Name] == "tyBasic" {
			return "", "(types_default_string v_" + id.Name + "_s)", "string", true
		}
	}
	rt, known := f.env[root]
	if !known {
		return "", "", "", false
	}
	argv := func(i int) string {
		p, v, _ := f.expr(args[i], "nat")
		pre += p
		return v
	}
	v := "v_" + root
	switch rt {
	case "ih", "pkginfo", "spec", "nmd", "gmeth", "sig":
		if rt == "nmd" && path == ".TypeArgs().Len()" {
			return "", "(List.length " + v + "_targs)", "nat", true
		}
		if rt == "nmd" && path == ".TypeArgs().At(_)" && w.listLoop != nil && w.listLoop.src == root+"_targs" && isIdent(args[0], w.listLoop.idx) {
			return "", "v_" + w.listLoop.elem, w.listLoop.elemTyp, true
		}
		for _, c := range comps[rt] {
			if c[0] == path && !(rt == "spec" && c[1] == "path") {
				return "", v + "_" + c[1], c[2], true
			}
		}
		pi := ".PInfo"
		if rt == "pkginfo" {
			pi = ""
		}
		switch {
		case rt != "spec" && rt != "nmd" && (path == pi || path == pi+".Types") && path != "":
			return "", "true", "obj", true
		case rt != "spec" && rt != "nmd" && path == pi+".Types.Scope().Lookup(_)":
			a := argv(0)
			return pre, "(mem " + a + " " + v + "_scope)", "lookup", true
		case rt == "spec" && path == ".Name.Name":
			return "", "(opt_get " + v + "_name)", "string", true
		}
		// calls of methods of *ImportHandler
		if c, isCall := e.(*ast.CallExpr); isCall && rt == "ih" {
			if sel, isSel := c.Fun.(*ast.SelectorExpr); isSel && isIdent(sel.X, root) {
				if _, ours := wdecls[sel.Sel.Name]; ours {
					return w.call(f, sel.Sel.Name, root, c.Args)
				}
			}
		}
	case "opkg":
		switch path {
		case ".Path()":
			return "", "(pkg_path " + v + ")", "string", true
		case ".Name()":
			return "", "(pkg_name " + v + ")", "string", true
		}
	case "amapval":
		if path == ".Name" {
			return "", v, "string", true
		}
	case "tmap", "amap":
	case "tys", "tuple":
		switch path {
		case ".Len()":
			return "", "(List.length " + v + ")", "nat", true
		case ".At(_)":
			if w.listLoop != nil && w.listLoop.src == root && isIdent(args[0], w.listLoop.idx) {
				return "", "v_" + w.listLoop.elem, w.listLoop.elemTyp, true
			}
		}
	case "mlist":
		switch path {
		case ".NumMethods()":
			return "", "(List.length " + v + ")", "nat", true
		case ".Method(_)":
			if w.listLoop != nil && w.listLoop.src == root && isIdent(args[0], w.listLoop.idx) {
				return "", "v_" + w.listLoop.elem, "mfunc", true
			}
		}
	case "mfunc":
		switch path {
		case ".Exported()":
			return "", "(exported (m_name " + v + "))", "bool", true
		case ".Name()":
			return "", "(m_name " + v + ")", "string", true
		}
	case "optset":
		if path == ".Has(_)" && len(args) == 1 {
			switch {
			case isIdent(args[0], "IncludePrivate"):
				return "", v + "_private", "bool", true
			case isIdent(args[0], "IncludeEmbedded"):
				return "", v + "_embedded", "bool", true
			}
		}
	case "tvar":
		switch path {
		case ".Type()":
			return "", "(snd " + v + ")", "ty", true
		case ".Name()":
			return "", "(pi_name (fst " + v + "))", "string", true
		}
	case "tyPtr", "tySlice":
		if path == ".Elem()" {
			return "", v + "_elem", "ty", true
		}
	case "tyArray":
		switch path {
		case ".Elem()":
			return "", v + "_elem", "ty", true
		case ".Len()":
			return "", v + "_len", "N", true
		}
	case "tyMap":
		switch path {
		case ".Elem()":
			return "", v + "_elem", "ty", true
		case ".Key()":
			return "", v + "_key", "ty", true
		}
	case "tyOther", "tyBasic":
		if path == ".String()" {
			return "", v + "_s", "string", true
		}
	case "ty":
		// the subject of the type switch, in the code reached when no case matches
		if path == ".String()" && w.fallS != "" {
			return "", w.fallS, "string", true
		}
	case "msig":
		if path == ".Signature()" {
			return "", v, "string", true
		}
	case "builder":
		if path == ".String()" {
			return "", v, "string", true
		}
	case "glist":
		if path == ".Len()" {
			return "", "(List.length " + v + ")", "nat", true
		}
	case "gparam":
		switch path {
		case ".Name":
			return "", "(gp_name " + v + ")", "string", true
		case ".TypeRef":
			return "", "(gp_typeref " + v + ")", "string", true
		case ".Variadic":
			return "", "(gp_variadic " + v + ")", "bool", true
		}
	}
	return "", "", "", false
}

// sprintf: fmt.Sprintf with a literal format made of text, %s and %d only is concatenation
func (w *world) sprintf(f *fn, c *ast.CallExpr) (pre, val, typ string, ok bool) {
	lit, isLit := c.Args[0].(*ast.BasicLit)
	if !isLit || lit.Kind != token.STRING {
		return "", f.bad("Sprintf format"), "string", true
	}
	format, err := strconv.Unquote(lit.Value)
	if err != nil {
		return "", f.bad("Sprintf format"), "string", true
	}
	parts := []string{}
	arg := 1
	text := ""
	flush := func() {
		if text != "" {
			parts = append(parts, coqString(text))
			text = ""
		}
	}
	for i := 0; i < len(format); i++ {
		if format[i] != '%' {
			text += string(format[i])
			continue
		}
		i++
		if i >= len(format) || arg >= len(c.Args) {
			return pre, f.bad("Sprintf verbs"), "string", true
		}
		switch format[i] {
		case '%':
			text += "%"
		case 's':
			flush()
			p, v, t := f.expr(c.Args[arg], "nat")
			arg++
			pre += p
			if t != "string" {
				return pre, f.bad("Sprintf %s of " + t), "string", true
			}
			parts = append(parts, v)
		case 'd':
			flush()
			p, v, t := f.expr(c.Args[arg], "N")
			arg++
			pre += p
			if t != "N" {
				return pre, f.bad("Sprintf %d of " + t), "string", true
			}
			parts = append(parts, "(fmt_int "+v+")")
		default:
			return pre, f.bad("Sprintf verb " + string(format[i])), "string", true
		}
	}
	flush()
	if arg != len(c.Args) {
		return pre, f.bad("Sprintf arity"), "string", true
	}
	if len(parts) == 0 {
		return pre, "\"\"%string", "string", true
	}
	out := parts[len(parts)-1]
	for i := len(parts) - 2; i >= 0; i-- {
		out = "(" + parts[i] + " ++ " + out + ")%string"
	}
	return pre, out, "string", true
}

// ihVar: the *ImportHandler variable in scope
func (f *fn) ihVar() string {
	names := []string{}
	for k, t := range f.env {
		if t == "ih" {
			names = append(names, k)
		}
	}
	sort.Strings(names)
	if len(names) == 0 {
		return ""
	}
	return names[0]
}

func bundleArgs(typ, name string) []string {
	out := []string{}
	for _, c := range comps[typ] {
		out = append(out, "v_"+name+"_"+c[1])
	}
	return out
}

// call: a call of a world function, a recursive one (rec_<name>) or a translated one
func (w *world) call(f *fn, name, recv string, args []ast.Expr) (pre, val, typ string, ok bool) {
	ih := recv
	rest := args
	if ih == "" && len(args) > 0 {
		if id, isId := args[0].(*ast.Ident); isId && f.env[id.Name] == "ih" {
			ih, rest = id.Name, args[1:]
		}
	}
	argv := []string{}
	for _, a := range rest {
		// a named/alias value is passed as its three components, a types.Type as itself
		if ta, isTA := a.(*ast.TypeAssertExpr); isTA && isIdent(ta.Type, "named") {
			a = ta.X
		}
		// mInfo.Type().(*types.Signature): the signature of a declared method
		if ta, isTA := a.(*ast.TypeAssertExpr); isTA {
			if r, p, _, ok := chain(ta.X); ok && f.env[r] == "mfunc" && p == ".Type()" {
				argv = append(argv, "(m_ps v_"+r+")", "(m_variadic v_"+r+")", "(m_rs v_"+r+")")
				continue
			}
		}
		if id, isId := a.(*ast.Ident); isId && f.env[id.Name] == "sig" {
			argv = append(argv, bundleArgs("sig", id.Name)...)
			continue
		}
		if id, isId := a.(*ast.Ident); isId && (f.env[id.Name] == "nmd" || f.env[id.Name] == "gmeth" || f.env[id.Name] == "pkginfo") {
			argv = append(argv, bundleArgs(f.env[id.Name], id.Name)...)
			continue
		}
		if id, isId := a.(*ast.Ident); isId && strings.HasPrefix(f.env[id.Name], "ty") && f.env[id.Name] != "ty" && f.env[id.Name] != "tys" {
			argv = append(argv, "v_"+id.Name+"_whole")
			continue
		}
		p, v, _ := f.expr(a, "nat")
		pre += p
		argv = append(argv, v)
	}
	resTyp, forced := forcedRec[name]
	// MethodFromSignature is a parameter of ExtractTypeRef (and of what is translated below it); elsewhere
	// (the loop over the declared methods) the translated function itself is called
	if isRecCall(name) {
		if ih == "" {
			return pre, f.bad("recursive call of " + name + " without handler"), "unknown", true
		}
		if !forced {
			resTyp = "string"
		}
		w.addRec(name)
		w.impure = true
		f.tmp++
		t := fmt.Sprintf("t_%d", f.tmp)
		pre += "let '(" + t + ", v_" + ih + "_imports) := rec_" + name + " v_" + ih + "_imports " + strings.Join(argv, " ") + " in\n"
		return pre, t, resTyp, true
	}
	sg := wlookup(name)
	if sg == nil {
		return pre, f.bad("untranslatable call of " + name), "unknown", true
	}
	all := []string{}
	for _, r := range sg.recs {
		w.addRec(r)
		all = append(all, "rec_"+r)
	}
	if sg.isBasic {
		w.isBasic = true
		all = append(all, "is_basic")
	}
	if sg.hasRecv {
		if ih == "" {
			return pre, f.bad("call of " + name + " without handler"), "unknown", true
		}
		all = append(all, bundleArgs("ih", ih)...)
	}
	all = append(all, argv...)
	f.tmp++
	t := fmt.Sprintf("t_%d", f.tmp)
	rt := "unknown"
	if len(sg.results) == 1 {
		rt = sg.results[0]
	}
	if sg.impure {
		w.impure = true
		pre += "let '(" + t + ", v_" + ih + "_imports) := " + sg.coq + " " + strings.Join(all, " ") + " in\n"
	} else {
		// a function that writes nothing is an expression (it may stand in a loop condition)
		f.tmp--
		return pre, "(" + sg.coq + " " + strings.Join(all, " ") + ")", rt, true
	}
	return pre, t, rt, true
}

// isRecCall: is a call of name, here, a call of a parameter rec_<name>?  The function in progress
// is; so is MethodFromSignature below ExtractTypeRef (which only asks for the Signature() text)
func isRecCall(name string) bool {
	return inProgress[name] || (name == "MethodFromSignature" && (inProgress["ExtractTypeRef"] || wsigs[name] == nil))
}

func (w *world) addRec(name string) {
	for _, r := range w.recs {
		if r == name {
			return
		}
	}
	w.recs = append(w.recs, name)
}

func (w *world) fuel(f *fn) string {
	cols := []string{}
	for k, t := range f.env {
		if t == "tmap" || t == "ilist" || t == "slist" {
			cols = append(cols, "List.length v_"+k)
		}
	}
	sort.Strings(cols)
	if len(cols) == 0 {
		return f.bad("loop without a bound")
	}
	return "(S (S (" + strings.Join(cols, " + ") + ")))"
}

func (w *world) alsoAssigned(f *fn, lhs *ast.SelectorExpr) []string {
	if id, ok := lhs.X.(*ast.Ident); ok && f.env[id.Name] == "imp" {
		if o, has := w.origin[id.Name]; has {
			return []string{strings.SplitN(o, "\x00", 2)[0]}
		}
	}
	return nil
}

func (w *world) callAssigns(f *fn, c *ast.CallExpr) []string {
	name := ""
	switch fun := c.Fun.(type) {
	case *ast.Ident:
		name = fun.Name
	case *ast.SelectorExpr:
		name = fun.Sel.Name
		if id, ok := fun.X.(*ast.Ident); ok && f.env[id.Name] == "builder" && name == "WriteString" {
			return []string{id.Name}
		}
	}
	_, forcedName := forcedRec[name]
	if _, ours := wdecls[name]; !ours && !forcedName {
		return nil
	}
	ih := f.ihVar()
	if ih == "" {
		return nil
	}
	if _, forced := forcedRec[name]; inProgress[name] || forced {
		return []string{ih + "_imports"}
	}
	if sg := wlookup(name); sg != nil && sg.impure {
		return []string{ih + "_imports"}
	}
	return nil
}

// stmt: the statement forms of this vocabulary; false = let main.go handle it
func (w *world) stmt(f *fn, list []ast.Stmt, k func() string) (string, bool) {
	rest := func() string { return f.stmts(list[1:], k) }
	switch s := list[0].(type) {
	case *ast.AssignStmt:
		if len(s.Lhs) == 2 && len(s.Rhs) == 1 {
			a, aok := s.Lhs[0].(*ast.Ident)
			b, bok := s.Lhs[1].(*ast.Ident)
			if ix, isIx := s.Rhs[0].(*ast.IndexExpr); isIx && aok && bok {
				m := f.varOf(ix.X)
				if mt := f.env[m]; mt == "tmap" || mt == "amap" {
					p, key, _ := f.expr(ix.Index, "nat")
					out := p
					pfx := map[string]string{"tmap": "tmap", "amap": "amap"}[mt]
					if a.Name != "_" {
						if mt == "tmap" {
							f.env[a.Name] = "imp"
							w.origin[a.Name] = m + "\x00" + key
						} else {
							f.env[a.Name] = "amapval"
						}
						out += "let v_" + a.Name + " := " + pfx + "_get v_" + m + " " + key + " in\n"
					}
					if b.Name != "_" {
						f.env[b.Name] = "bool"
						out += "let v_" + b.Name + " := " + pfx + "_has v_" + m + " " + key + " in\n"
					}
					return out + rest(), true
				}
			}
			// n, ok := t.(*types.Pointer) / t.(*types.Named)
			if ta, isTA := s.Rhs[0].(*ast.TypeAssertExpr); isTA && aok && bok {
				subj, isId := ta.X.(*ast.Ident)
				kind := ""
				if st, ok := ta.Type.(*ast.StarExpr); ok {
					if sel, ok := st.X.(*ast.SelectorExpr); ok && isIdent(sel.X, "types") {
						kind = sel.Sel.Name
					}
				}
				if isId && f.env[subj.Name] == "ty" && (kind == "Pointer" || kind == "Named") {
					out := ""
					if kind == "Pointer" {
						if b.Name != "_" {
							f.env[b.Name] = "bool"
							out += "let v_" + b.Name + " := ty_is_ptr v_" + subj.Name + " in\n"
						}
						if a.Name != "_" {
							f.env[a.Name], f.env[a.Name+"_elem"] = "tyPtr", "ty"
							out += "let v_" + a.Name + "_elem := ty_ptr_elem v_" + subj.Name + " in\n"
						}
					} else {
						if b.Name != "_" {
							f.env[b.Name] = "bool"
							out += "let v_" + b.Name + " := ty_is_named v_" + subj.Name + " in\n"
						}
						if a.Name != "_" {
							f.env[a.Name], f.env[a.Name+"_targs"] = "nmd", "tys"
							out += "let v_" + a.Name + "_targs := ty_named_targs v_" + subj.Name + " in\n"
						}
					}
					return out + rest(), true
				}
				return f.bad("type assertion form"), true
			}
			// x, y := helper(...)
			if c, isCall := s.Rhs[0].(*ast.CallExpr); isCall && aok && bok {
				name := ""
				if id, isId := c.Fun.(*ast.Ident); isId {
					name = id.Name
				}
				if _, ours := wdecls[name]; ours && !inProgress[name] {
					if sg := wlookup(name); sg != nil && len(sg.results) == 2 && !sg.impure && !sg.hasRecv {
						argv := []string{}
						pre := ""
						for _, arg := range c.Args {
							if id, isId := arg.(*ast.Ident); isId && comps[f.env[id.Name]] != nil {
								argv = append(argv, bundleArgs(f.env[id.Name], id.Name)...)
								continue
							}
							p, v, _ := f.expr(arg, "nat")
							pre += p
							argv = append(argv, v)
						}
						f.env[a.Name], f.env[b.Name] = sg.results[0], sg.results[1]
						return pre + "let '(v_" + a.Name + ", v_" + b.Name + ") := " + sg.coq + " " + strings.Join(argv, " ") + " in\n" + rest(), true
					}
				}
			}
			return "", false
		}
		if len(s.Lhs) != 1 || len(s.Rhs) != 1 {
			return "", false
		}
		switch l := s.Lhs[0].(type) {
		case *ast.IndexExpr:
			m := f.varOf(l.X)
			switch f.env[m] {
			case "tmap":
				pk, key, _ := f.expr(l.Index, "nat")
				pv, v, t := f.expr(s.Rhs[0], "nat")
				if t != "imp" {
					return f.bad("table entry of type " + t), true
				}
				if id, isId := s.Rhs[0].(*ast.Ident); isId {
					w.origin[id.Name] = m + "\x00" + key
				}
				w.impure = w.impure || strings.HasSuffix(m, "_imports") && f.env[strings.TrimSuffix(m, "_imports")] == "ih" && f.name != "calcImports step"
				return pk + pv + "let v_" + m + " := tmap_set v_" + m + " " + key + " " + v + " in\n" + rest(), true
			case "strs", "glist":
				if w.listLoop != nil && isIdent(l.Index, w.listLoop.idx) {
					pv, v, _ := f.expr(s.Rhs[0], "nat")
					return pv + "let v_" + m + " := (v_" + m + " ++ [" + v + "])%list in\n" + rest(), true
				}
				return f.bad("slice element assignment outside an index loop"), true
			}
			// p.TypeArgNames[i] = e: the field is not part of the rendering; e is evaluated for its effects
			if sel, isSel := l.X.(*ast.SelectorExpr); isSel && sel.Sel.Name == "TypeArgNames" {
				if id, isId := sel.X.(*ast.Ident); isId && f.env[id.Name] == "gparam" {
					pv, _, _ := f.expr(s.Rhs[0], "nat")
					return pv + rest(), true
				}
			}
		case *ast.SelectorExpr:
			if id, isId := l.X.(*ast.Ident); isId && f.env[id.Name] == "gparam" {
				switch l.Sel.Name {
				case "TypeArgNames":
					pv, _, _ := f.expr(s.Rhs[0], "nat") // make([]string, n): nothing to keep
					return pv + rest(), true
				case "TypeRef":
					pv, v, _ := f.expr(s.Rhs[0], "nat")
					return pv + "let v_" + id.Name + " := gp_with_typeref v_" + id.Name + " " + v + " in\n" + rest(), true
				case "Name":
					pv, v, _ := f.expr(s.Rhs[0], "nat")
					return pv + "let v_" + id.Name + " := gp_with_name v_" + id.Name + " " + v + " in\n" + rest(), true
				}
				return f.bad("Param field " + l.Sel.Name), true
			}
			if id, isId := l.X.(*ast.Ident); isId && f.env[id.Name] == "imp" {
				set, known := impSetter[l.Sel.Name]
				if !known {
					return f.bad("ImportDesc field " + l.Sel.Name), true
				}
				p, v, _ := f.expr(s.Rhs[0], "nat")
				out := p + "let v_" + id.Name + " := " + set + " v_" + id.Name + " " + v + " in\n"
				if o, has := w.origin[id.Name]; has {
					mk := strings.SplitN(o, "\x00", 2)
					out += "let v_" + mk[0] + " := tmap_set v_" + mk[0] + " " + mk[1] + " v_" + id.Name + " in\n"
					w.impure = true
				}
				return out + rest(), true
			}
			if id, isId := l.X.(*ast.Ident); isId && f.env[id.Name] == "gmeth" && (l.Sel.Name == "Comments" || l.Sel.Name == "IsExported") {
				return rest(), true // not part of the rendering (the right-hand sides are pure)
			}
			if v := f.varOf(l); v != "" && f.env[v] != "" {
				p, val, t := f.expr(s.Rhs[0], "nat")
				if t != f.env[v] {
					return f.bad("assignment of " + t + " to " + v), true
				}
				return p + "let v_" + v + " := " + val + " in\n" + rest(), true
			}
		case *ast.Ident:
			// method := MethodFromSignature(…) / a helper returning *Method: the three parts
			if c, isCall := s.Rhs[0].(*ast.CallExpr); isCall && s.Tok == token.DEFINE {
				name := ""
				if id, isId := c.Fun.(*ast.Ident); isId {
					name = id.Name
				}
				if _, ours := wdecls[name]; ours && !isRecCall(name) {
					if sg := wlookup(name); sg != nil && len(sg.results) == 1 && sg.results[0] == "gmeth" {
						p, v, _, _ := w.call(f, name, "", c.Args)
						f.declare(l.Name, "gmeth")
						return p + "let '(" + strings.Join(bundleArgs("gmeth", l.Name), ", ") + ") := " + v + " in\n" + rest(), true
					}
				}
			}
			// m := &Method{Name: …, Input: …, Output: …}
			if u, isU := s.Rhs[0].(*ast.UnaryExpr); isU && u.Op == token.AND && s.Tok == token.DEFINE {
				if cl, isCl := u.X.(*ast.CompositeLit); isCl && isIdent(cl.Type, "Method") {
					vals := map[string]string{"Name": "\"\"%string", "Input": "(@nil gparam)", "Output": "(@nil gparam)"}
					pre := ""
					for _, el := range cl.Elts {
						kv, isKV := el.(*ast.KeyValueExpr)
						key, isId := kv.Key.(*ast.Ident)
						if !isKV || !isId {
							return f.bad("Method literal"), true
						}
						if _, known := vals[key.Name]; !known {
							return f.bad("Method field " + key.Name), true
						}
						p, v, _ := f.expr(kv.Value, "nat")
						pre += p
						vals[key.Name] = v
					}
					f.declare(l.Name, "gmeth")
					return pre + "let v_" + l.Name + "_name := " + vals["Name"] + " in\nlet v_" + l.Name + "_input := " + vals["Input"] +
						" in\nlet v_" + l.Name + "_output := " + vals["Output"] + " in\n" + rest(), true
				}
			}
			if fl, isFn := s.Rhs[0].(*ast.FuncLit); isFn && s.Tok == token.DEFINE {
				return w.closure(f, l.Name, fl) + rest(), true
			}
			if lit, isLit := s.Rhs[0].(*ast.BasicLit); isLit && lit.Kind == token.INT && s.Tok == token.DEFINE {
				f.env[l.Name] = "N"
				return "let v_" + l.Name + " := " + lit.Value + "%N in\n" + rest(), true
			}
			if s.Tok == token.ASSIGN && f.env[l.Name] == "imp" {
				delete(w.origin, l.Name) // i = &ImportDesc{…}: no longer the entry it was read from
			}
		}
	case *ast.ExprStmt:
		if c, isCall := s.X.(*ast.CallExpr); isCall {
			// m.ensureParamNames(): the naming functions, on the pinfo view of the parameters
			if sel, isSel := c.Fun.(*ast.SelectorExpr); isSel && len(c.Args) == 0 {
				if id, isId := sel.X.(*ast.Ident); isId && f.env[id.Name] == "gmeth" {
					if _, ours := decls[sel.Sel.Name]; ours {
						if sg := lookup(sel.Sel.Name); sg != nil && sg.recv == "method" {
							m := "v_" + id.Name
							f.tmp++
							a, b := fmt.Sprintf("t_%d_in", f.tmp), fmt.Sprintf("t_%d_out", f.tmp)
							return "let '(" + a + ", " + b + ") := " + sg.coq + " (map gp_pinfo " + m + "_input) (map gp_pinfo " + m + "_output) in\n" +
								"let " + m + "_input := gp_set_names " + m + "_input " + a + " in\n" +
								"let " + m + "_output := gp_set_names " + m + "_output " + b + " in\n" + rest(), true
						}
					}
				}
			}
			if sel, isSel := c.Fun.(*ast.SelectorExpr); isSel && sel.Sel.Name == "WriteString" && len(c.Args) == 1 {
				if id, isId := sel.X.(*ast.Ident); isId && f.env[id.Name] == "builder" {
					p, v, _ := f.expr(c.Args[0], "nat")
					return p + "let v_" + id.Name + " := (v_" + id.Name + " ++ " + v + ")%string in\n" + rest(), true
				}
			}
		}
	case *ast.RangeStmt:
		// for _, i := range coll { if c { return true } }  — an existence test
		src := f.varOf(s.X)
		if st := f.env[src]; (st == "tmap" || st == "ilist") && len(s.Body.List) == 1 && f.loop == nil {
			if is, isIf := s.Body.List[0].(*ast.IfStmt); isIf && is.Else == nil && is.Init == nil && len(is.Body.List) == 1 {
				if ret, isRet := is.Body.List[0].(*ast.ReturnStmt); isRet && len(ret.Results) == 1 && isIdent(ret.Results[0], "true") {
					el, isId := s.Value.(*ast.Ident)
					if !isId {
						return f.bad("range value"), true
					}
					f.env[el.Name] = "imp"
					pc, cond, _ := f.expr(is.Cond, "nat")
					delete(f.env, el.Name)
					if pc != "" {
						return f.bad("call in an existence test"), true
					}
					yes := "(" + strings.Join(append([]string{"true"}, f.outs...), ", ") + ")"
					return "(if existsb (fun v_" + el.Name + " => " + cond + ") v_" + src + " then\n" + yes + "\nelse\n" + rest() + ")", true
				}
			}
		}
		if f.env[src] == "glist" && s.Tok == token.DEFINE {
			idx, el := "", ""
			if id, ok := s.Key.(*ast.Ident); ok && id.Name != "_" {
				idx = id.Name
			}
			if id, ok := s.Value.(*ast.Ident); ok && id.Name != "_" {
				el = id.Name
			}
			return w.fold(f, src, idx, el, "gparam", s.Body.List) + rest(), true
		}
	case *ast.ForStmt:
		if src, idx, ok := w.indexLoop(f, s); ok {
			et := map[string]string{"tys": "ty", "tuple": "tvar", "glist": "gparam", "mlist": "mfunc"}[f.env[src]]
			return w.fold(f, src, idx, "", et, s.Body.List) + rest(), true
		}
	case *ast.TypeSwitchStmt:
		return w.typeSwitch(f, s, list[1:], k), true
	}
	return "", false
}

// closure: name := func(params) bool { … } becomes a local Gallina function
func (w *world) closure(f *fn, name string, fl *ast.FuncLit) string {
	g := &fn{name: f.name + "/" + name, env: map[string]string{}, w: &world{origin: map[string]string{}, closures: map[string]bool{}}}
	for k, v := range f.env {
		g.env[k] = v
	}
	params := []string{}
	for _, p := range fl.Type.Params.List {
		t := goType(p.Type)
		for _, n := range p.Names {
			g.env[n.Name] = t
			params = append(params, "(v_"+n.Name+" : "+coqType[t]+")")
		}
	}
	body := g.stmts(fl.Body.List, func() string { return g.bad("missing return") })
	f.problems = append(f.problems, g.problems...)
	w.closures[name] = true
	f.env[name] = "closure"
	return "let v_" + name + " := (fun " + strings.Join(params, " ") + " =>\n" + body + ") in\n"
}

// indexLoop: for i := 0; i < X.Len(); i++  /  i < len(X)  over a list of this vocabulary
func (w *world) indexLoop(f *fn, s *ast.ForStmt) (src, idx string, ok bool) {
	init, isA := s.Init.(*ast.AssignStmt)
	if !isA || init.Tok != token.DEFINE || len(init.Lhs) != 1 || len(init.Rhs) != 1 {
		return "", "", false
	}
	id, isId := init.Lhs[0].(*ast.Ident)
	lit, isLit := init.Rhs[0].(*ast.BasicLit)
	cond, isB := s.Cond.(*ast.BinaryExpr)
	post, isP := s.Post.(*ast.IncDecStmt)
	if !isId || !isLit || lit.Value != "0" || !isB || cond.Op != token.LSS || !isIdent(cond.X, id.Name) ||
		!isP || post.Tok != token.INC || !isIdent(post.X, id.Name) {
		return "", "", false
	}
	c, isC := cond.Y.(*ast.CallExpr)
	if !isC {
		return "", "", false
	}
	if sel, isSel := c.Fun.(*ast.SelectorExpr); isSel && sel.Sel.Name == "NumMethods" && len(c.Args) == 0 {
		if x, isX := sel.X.(*ast.Ident); isX && f.env[x.Name] == "mlist" {
			return x.Name, id.Name, true
		}
	}
	if sel, isSel := c.Fun.(*ast.SelectorExpr); isSel && sel.Sel.Name == "Len" && len(c.Args) == 0 {
		src = f.varOf(sel.X)
		if src == "" {
			if x, isX := sel.X.(*ast.Ident); isX {
				src = x.Name
			}
		}
		if src == "" {
			if r, p, _, ok := chain(sel.X); ok {
				for _, cmp := range comps[f.env[r]] {
					if cmp[0] == p {
						src = r + "_" + cmp[1]
					}
				}
			}
		}
	} else if isIdent(c.Fun, "len") && len(c.Args) == 1 {
		if x, isX := c.Args[0].(*ast.Ident); isX {
			src = x.Name
		}
	}
	switch f.env[src] {
	case "tys", "tuple", "glist":
		return src, id.Name, true
	}
	return "", "", false
}

// fold: "for each element of the list, in order" over the state the body changes
func (w *world) fold(f *fn, src, idx, el, elTyp string, body []ast.Stmt) string {
	if el == "" {
		el = "el_" + src
	}
	idxName := "i_unused"
	if idx != "" {
		idxName = "v_" + idx
		f.env[idx] = "nat"
	}
	f.env[el] = elTyp
	outerL, outerLoop := w.listLoop, f.loop
	w.listLoop = &listLoop{src: src, idx: idx, elem: el, elemTyp: elTyp}
	vars := f.assigned(body)
	// a slice filled by index inside the loop is part of the state
	ast.Inspect(&ast.BlockStmt{List: body}, func(n ast.Node) bool {
		if as, ok := n.(*ast.AssignStmt); ok && len(as.Lhs) == 1 {
			if ix, ok := as.Lhs[0].(*ast.IndexExpr); ok {
				if v := f.varOf(ix.X); f.env[v] == "strs" {
					vars = append(without(vars, v), v)
				}
			}
		}
		return true
	})
	vars = without(without(vars, el), idx)
	sort.Strings(vars)
	f.loop = &loopCtx{kind: "step", vars: vars}
	bodyT := f.stmts(body, func() string { return tuple(vars) })
	f.loop, w.listLoop = outerLoop, outerL
	delete(f.env, el)
	if idx != "" {
		delete(f.env, idx)
	}
	return "let " + pat(vars) + " := list_fold\n(fun (st : " + f.stateType(vars) + ") " + idxName + " v_" + el + " => let " + pat(vars) +
		" := st in\n" + bodyT + ")\nv_" + src + " " + tuple(vars) + " in\n"
}

// typeSwitch: switch t := typ.(type) over go/types types is a match on IFaceModel.ty
func (w *world) typeSwitch(f *fn, s *ast.TypeSwitchStmt, after []ast.Stmt, k func() string) string {
	as, isA := s.Assign.(*ast.AssignStmt)
	if !isA || len(as.Lhs) != 1 || len(as.Rhs) != 1 || s.Init != nil {
		return f.bad("type switch form")
	}
	tv := as.Lhs[0].(*ast.Ident).Name
	ta, isTA := as.Rhs[0].(*ast.TypeAssertExpr)
	if !isTA {
		return f.bad("type switch form")
	}
	subj, isId := ta.X.(*ast.Ident)
	if !isId || f.env[subj.Name] != "ty" {
		return f.bad("type switch subject")
	}
	bodies := map[string][]ast.Stmt{}
	for _, c := range s.Body.List {
		cc := c.(*ast.CaseClause)
		if cc.List == nil {
			bodies["default"] = cc.Body
			continue
		}
		for _, e := range cc.List {
			name := ""
			if st, ok := e.(*ast.StarExpr); ok {
				if sel, ok := st.X.(*ast.SelectorExpr); ok && isIdent(sel.X, "types") {
					name = sel.Sel.Name
				}
			}
			if name == "" {
				return f.bad("type switch case")
			}
			bodies[name] = cc.Body
		}
	}
	arm := func(kind, typ string, binds map[string]string) string {
		body, ok := bodies[kind]
		if !ok && kind == "default" {
			body, ok = nil, len(after) > 0 // no case matches: the code after the switch
		}
		if !ok {
			return f.bad("type switch has no case for " + kind)
		}
		if kind == "default" {
			w.fallS = "v_" + tv + "_s"
			defer func() { w.fallS = "" }()
		}
		f.env[tv] = typ
		for c, t := range binds {
			f.env[tv+"_"+c] = t
		}
		f.env[tv+"_whole"] = "ty"
		saved := f.tmp
		out := f.stmts(concat(body, after), k)
		_ = saved
		return out
	}
	v := "v_" + tv
	var b strings.Builder
	b.WriteString("(let " + v + "_whole := v_" + subj.Name + " in\nmatch v_" + subj.Name + " with\n")
	b.WriteString("| TPtr " + v + "_elem =>\n" + arm("Pointer", "tyPtr", map[string]string{"elem": "ty"}) + "\n")
	b.WriteString("| TSlice " + v + "_elem =>\n" + arm("Slice", "tySlice", map[string]string{"elem": "ty"}) + "\n")
	b.WriteString("| TArray " + v + "_len " + v + "_elem =>\n" + arm("Array", "tyArray", map[string]string{"elem": "ty", "len": "N"}) + "\n")
	b.WriteString("| TMap " + v + "_key " + v + "_elem =>\n" + arm("Map", "tyMap", map[string]string{"elem": "ty", "key": "ty"}) + "\n")
	b.WriteString("| TFunc " + v + "_ps " + v + "_variadic " + v + "_rs =>\n" + arm("Signature", "tySig", nil) + "\n")
	named := arm("Named", "nmd", map[string]string{"pkg": "opkg", "name": "string", "targs": "tys"})
	if _, has := bodies["Alias"]; has {
		tmp := f.tmp
		alias := arm("Alias", "nmd", map[string]string{"pkg": "opkg", "name": "string", "targs": "tys"})
		f.tmp = tmp
		norm := func(s string) string { return reTmp.ReplaceAllString(s, "t_") }
		if norm(alias) != norm(named) {
			named = f.bad("the cases for *types.Alias and *types.Named differ")
		}
	}
	b.WriteString("| TNamed " + v + "_pkg " + v + "_name " + v + "_targs =>\n" + named + "\n")
	basic := arm("default", "tyOther", map[string]string{"s": "string"})
	if _, has := bodies["Basic"]; has {
		w.isBasic = true
		basic = "(if is_basic " + v + "_s then\n" + arm("Basic", "tyBasic", map[string]string{"s": "string"}) + "\nelse\n" + basic + ")"
	}
	b.WriteString("| TBasic " + v + "_s =>\n" + basic + "\nend)")
	delete(f.env, tv)
	return b.String()
}

// wlookup: the signature of a world function, translating it first if need be
func wlookup(name string) *wsig {
	if sg, ok := wsigs[name]; ok {
		return sg
	}
	fd, ok := wdecls[name]
	if !ok || inProgress[name] {
		return nil
	}
	if dupes[name] {
		problems = append(problems, name+": declared more than once in the files that take part in the build")
		return nil
	}
	wtranslate(name, fd)
	return wsigs[name]
}

func wGoType(t ast.Expr) string {
	switch x := t.(type) {
	case *ast.Ident:
		switch x.Name {
		case "named":
			return "nmd"
		case "Params":
			return "glist"
		}
	case *ast.SelectorExpr:
		if isIdent(x.X, "types") && x.Sel.Name == "Type" {
			return "ty"
		}
	case *ast.StarExpr:
		switch y := x.X.(type) {
		case *ast.Ident:
			switch y.Name {
			case "ImportHandler":
				return "ih"
			case "Param":
				return "gparam"
			case "Method":
				return "gmeth"
			}
		case *ast.SelectorExpr:
			switch {
			case isIdent(y.X, "packages") && y.Sel.Name == "Package":
				return "pkginfo"
			case isIdent(y.X, "ast") && y.Sel.Name == "ImportSpec":
				return "spec"
			case isIdent(y.X, "types") && y.Sel.Name == "Tuple":
				return "tuple"
			case isIdent(y.X, "types") && y.Sel.Name == "Package":
				return "opkg"
			case isIdent(y.X, "types") && y.Sel.Name == "Signature":
				return "sig"
			case isIdent(y.X, "types") && y.Sel.Name == "Func":
				return "mfunc"
			}
		}
	}
	return goType(t)
}

// wtranslate emits one function of this vocabulary
func wtranslate(name string, fd *ast.FuncDecl) {
	inProgress[name] = true
	w := &world{origin: map[string]string{}, closures: map[string]bool{}}
	f := &fn{name: name, env: map[string]string{}, w: w}
	sg := &wsig{coq: "gen_" + name}
	params := []string{}
	addParam := func(n, t string) {
		f.declare(n, t)
		if cs := comps[t]; cs != nil {
			for _, c := range cs {
				params = append(params, "(v_"+n+"_"+c[1]+" : "+coqType[c[2]]+")")
			}
			return
		}
		ct, known := coqType[t]
		if !known {
			ct = "UNSUPPORTED_param_type_" + t
			f.problems = append(f.problems, "parameter type")
		}
		params = append(params, "(v_"+n+" : "+ct+")")
	}
	if fd.Recv != nil && len(fd.Recv.List) == 1 && len(fd.Recv.List[0].Names) == 1 {
		t := wGoType(fd.Recv.List[0].Type)
		if t == "ih" {
			sg.hasRecv = true
		} else {
			sg.params = append(sg.params, t)
		}
		addParam(fd.Recv.List[0].Names[0].Name, t)
	}
	for _, p := range fd.Type.Params.List {
		t := wGoType(p.Type)
		for _, n := range p.Names {
			if t == "ih" && !sg.hasRecv {
				sg.hasRecv = true
			} else {
				sg.params = append(sg.params, t)
			}
			addParam(n.Name, t)
		}
	}
	if fd.Type.Results != nil {
		for _, r := range fd.Type.Results.List {
			n := len(r.Names)
			if n == 0 {
				n = 1
			}
			for i := 0; i < n; i++ {
				sg.results = append(sg.results, wGoType(r.Type))
			}
		}
	}
	// whether the function writes the table is known only after its body is translated; the table
	// is returned (after the Go result) whenever it does: translate, look, translate again
	ih := f.ihVar()
	run := func(outs []string) (*fn, string) {
		g := &fn{name: name, env: map[string]string{}, w: &world{origin: map[string]string{}, closures: map[string]bool{}}, outs: outs}
		for k, v := range f.env {
			g.env[k] = v
		}
		return g, g.stmts(fd.Body.List, func() string { return "MISSING_RETURN" })
	}
	g, body := run(nil)
	if g.w.impure && ih != "" {
		g, body = run([]string{"v_" + ih + "_imports"})
		g.w.impure = true
	}
	f, w = g, g.w
	if strings.Contains(body, "MISSING_RETURN") {
		body = strings.ReplaceAll(body, "MISSING_RETURN", f.bad("missing return"))
	}
	sg.impure = w.impure
	sg.recs = w.recs
	sg.isBasic = w.isBasic
	lead := []string{}
	for _, r := range sg.recs {
		rt := "string"
		if t, forced := forcedRec[r]; forced {
			rt = t
		}
		lead = append(lead, "(rec_"+r+" : table -> ty -> "+coqType[rt]+" * table)")
	}
	if sg.isBasic {
		lead = append(lead, "(is_basic : string -> bool)")
	}
	switch name {
	case "unusedName", "addNamed", "ExtractTypeRef", "TypeNames", "Declarations", "Signature", "ParamsFromSignatureTuple", "MethodFromSignature":
	default:
		helpers = append(helpers, sg.coq) // an extracted helper: the tie proofs unfold it
	}
	delete(inProgress, name)
	wsigs[name] = sg
	translated = append(translated, name+" as "+sg.coq)
	defs.WriteString("(* " + name + " *)\nDefinition " + sg.coq + " " + strings.Join(append(lead, params...), " ") + " :=\n" + body + ".\n\n")
	for _, p := range f.problems {
		problems = append(problems, name+": "+p)
	}
}

// calcStep translates the body of the loop of calcImports over the import specs of the file
func calcStep() string {
	fd, ok := wdecls["calcImports"]
	if !ok {
		problems = append(problems, "calcImports: not found")
		return "Definition gen_calcImports_step := UNSUPPORTED_calcImports_not_found.\n\n"
	}
	var loop *ast.RangeStmt
	ast.Inspect(fd.Body, func(n ast.Node) bool {
		if r, ok := n.(*ast.RangeStmt); ok && loop == nil {
			if _, p, _, ok := chain(r.X); ok && strings.HasSuffix(p, ".Imports") {
				loop = r
			}
		}
		return true
	})
	el, isId := (ast.Expr)(nil), false
	if loop != nil {
		el = loop.Value
		_, isId = el.(*ast.Ident)
	}
	if loop == nil || !isId {
		problems = append(problems, "calcImports: no range loop over the import specs")
		return "Definition gen_calcImports_step := UNSUPPORTED_calcImports_loop_not_found.\n\n"
	}
	w := &world{origin: map[string]string{}, closures: map[string]bool{}}
	f := &fn{name: "calcImports step", env: map[string]string{}, w: w}
	// the handler under construction: the variable assigned &ImportHandler{…}; the package: the parameter
	hv := ""
	ast.Inspect(fd.Body, func(n ast.Node) bool {
		if as, ok := n.(*ast.AssignStmt); ok && len(as.Lhs) == 1 && len(as.Rhs) == 1 && hv == "" {
			if u, ok := as.Rhs[0].(*ast.UnaryExpr); ok {
				if cl, ok := u.X.(*ast.CompositeLit); ok && isIdent(cl.Type, "ImportHandler") {
					hv = as.Lhs[0].(*ast.Ident).Name
				}
			}
		}
		return true
	})
	pv := ""
	for _, p := range fd.Type.Params.List {
		if wGoType(p.Type) == "pkginfo" && len(p.Names) == 1 {
			pv = p.Names[0].Name
		}
	}
	if hv == "" || pv == "" {
		problems = append(problems, "calcImports: handler or package variable not found")
		return "Definition gen_calcImports_step := UNSUPPORTED_calcImports_variables.\n\n"
	}
	f.declare(hv, "ih")
	f.declare(pv, "pkginfo")
	sp := el.(*ast.Ident).Name
	f.declare(sp, "spec")
	end := "(v_" + hv + "_imports, v_" + hv + "_shadowed)"
	f.loop = &loopCtx{kind: "step", vars: []string{hv + "_imports", hv + "_shadowed"}}
	body := f.stmts(loop.Body.List, func() string { return end })
	for _, p := range f.problems {
		problems = append(problems, "calcImports: "+p)
	}
	translated = append(translated, "the loop of calcImports as gen_calcImports_step")
	return "(* the loop of calcImports over the import specs of the file *)\nDefinition gen_calcImports_step (v_" + pv +
		"_pkgimports : list (string * string)) (v_" + pv + "_self : string) (v_" + pv + "_scope : list string) (v_" + hv +
		"_imports : table) (v_" + hv + "_shadowed : list imp) (v_" + sp +
		"_path : string) (v_" + sp + "_name : option string) :=\n" + body + ".\n\n"
}

// ignoredField: assignments to these fields of a *Method do not touch the rendering
func (w *world) ignoredField(f *fn, v, field string) bool {
	// (asked before the variable is declared, too: the write analysis runs ahead of the translation)
	t, known := f.env[v]
	return (!known || t == "gmeth") && (field == "Comments" || field == "IsExported")
}

// ownLoop translates the loop of namedTypeToInterface over the methods the type declares: the
// loop whose condition asks NumMethods().  What it needs from its surroundings (the handler, the
// option set, the Interface under construction, the package, hasPkg, the type) are parameters.
func ownLoop(file *ast.File) string {
	for _, d := range file.Decls {
		fd, ok := d.(*ast.FuncDecl)
		if !ok || fd.Body == nil {
			continue
		}
		var loop *ast.ForStmt
		ast.Inspect(fd.Body, func(x ast.Node) bool {
			if l, ok := x.(*ast.ForStmt); ok && loop == nil && l.Cond != nil && hasCall(l.Cond, "NumMethods") {
				loop = l
			}
			return true
		})
		if loop == nil {
			continue
		}
		w := &world{origin: map[string]string{}, closures: map[string]bool{}}
		f := &fn{name: "own methods loop", env: map[string]string{}, w: w}
		params := []string{}
		add := func(n, t string) {
			f.declare(n, t)
			if cs := comps[t]; cs != nil {
				for _, c := range cs {
					params = append(params, "(v_"+n+"_"+c[1]+" : "+coqType[c[2]]+")")
				}
				return
			}
			params = append(params, "(v_"+n+" : "+coqType[t]+")")
		}
		// the source of the loop: the variable NumMethods() is asked of
		src := ""
		ast.Inspect(loop.Cond, func(x ast.Node) bool {
			if c, ok := x.(*ast.CallExpr); ok {
				if sel, ok := c.Fun.(*ast.SelectorExpr); ok && sel.Sel.Name == "NumMethods" {
					if id, ok := sel.X.(*ast.Ident); ok {
						src = id.Name
					}
				}
			}
			return true
		})
		// free variables of the loop body, typed from the enclosing function
		free := map[string]string{}
		for _, p := range fd.Type.Params.List {
			for _, n := range p.Names {
				t := wGoType(p.Type)
				if sel, ok := p.Type.(*ast.IndexExpr); ok { // set.BitSet[ParseIFaceOption]
					if s2, ok := sel.X.(*ast.SelectorExpr); ok && s2.Sel.Name == "BitSet" {
						t = "optset"
					}
				}
				if st, ok := p.Type.(*ast.StarExpr); ok {
					if s2, ok := st.X.(*ast.SelectorExpr); ok && isIdent(s2.X, "types") && s2.Sel.Name == "Named" {
						t = "nmd"
					}
				}
				free[n.Name] = t
			}
		}
		ast.Inspect(fd.Body, func(x ast.Node) bool {
			switch a := x.(type) {
			case *ast.AssignStmt:
				if len(a.Lhs) >= 1 && len(a.Rhs) == 1 && a.Tok == token.DEFINE {
					if id, ok := a.Lhs[0].(*ast.Ident); ok {
						if u, ok := a.Rhs[0].(*ast.UnaryExpr); ok {
							if cl, ok := u.X.(*ast.CompositeLit); ok && isIdent(cl.Type, "Interface") {
								free[id.Name] = "ifaceres"
							}
						}
					}
				}
			case *ast.DeclStmt:
				if gd, ok := a.Decl.(*ast.GenDecl); ok {
					for _, sp := range gd.Specs {
						if vs, ok := sp.(*ast.ValueSpec); ok && vs.Type != nil {
							for _, n := range vs.Names {
								if t := wGoType(vs.Type); t == "pkginfo" {
									free[n.Name] = t
								}
							}
						}
					}
				}
			}
			return true
		})
		free["hasPkg"] = "bool"
		if src == "" {
			problems = append(problems, "own methods loop: source not found")
			return "Definition gen_own_methods := UNSUPPORTED_own_loop_source.\n\n"
		}
		free[src] = "mlist"
		// a fixed parameter list, by role (not by name, not by what the body happens to mention): hasPkg,
		// the handler, the method list, the options, the package, the result, the type
		byType := map[string]string{}
		for n, t := range free {
			if cur, has := byType[t]; !has || n < cur {
				byType[t] = n
			}
		}
		coqType["mlist"], coqType["gmlist"], coqType["optset"] = "list meth", "list (string * list gparam * list gparam)", "bool"
		names := []string{}
		ihv, resv := byType["ih"], byType["ifaceres"]
		for _, role := range []string{"bool", "ih", "mlist", "optset", "pkginfo", "ifaceres", "nmd"} {
			n, has := byType[role]
			if !has {
				n = "unused_" + role
			}
			if role == "bool" {
				n = "hasPkg"
			}
			names = append(names, n)
			if role == "optset" {
				f.env[n] = "optset"
				f.env[n+"_private"], f.env[n+"_embedded"] = "bool", "bool"
				params = append(params, "(v_"+n+"_private : bool)", "(v_"+n+"_embedded : bool)")
				continue
			}
			add(n, role)
		}
		if ihv == "" || resv == "" {
			problems = append(problems, "own methods loop: handler or result variable not found")
			return "Definition gen_own_methods := UNSUPPORTED_own_loop_variables.\n\n"
		}
		f.outs = nil
		body := f.stmts([]ast.Stmt{loop}, func() string { return "(v_" + resv + "_methods, v_" + ihv + "_imports)" })
		lead := []string{}
		for _, r := range w.recs {
			rt := "string"
			if t, forced := forcedRec[r]; forced {
				rt = t
			}
			lead = append(lead, "(rec_"+r+" : table -> ty -> "+coqType[rt]+" * table)")
		}
		if w.isBasic {
			lead = append(lead, "(is_basic : string -> bool)")
		}
		for _, p := range f.problems {
			problems = append(problems, "own methods loop: "+p)
		}
		translated = append(translated, "the loop of "+fd.Name.Name+" over the declared methods as gen_own_methods")
		return "(* the loop of " + fd.Name.Name + " over the methods the type declares; parameters: " + strings.Join(names, ", ") +
			" *)\nDefinition gen_own_methods " + strings.Join(append(lead, params...), " ") + " :=\n" + body + ".\n\n"
	}
	problems = append(problems, "own methods loop: no loop asking NumMethods() in interface.go")
	return "Definition gen_own_methods := UNSUPPORTED_own_loop_not_found.\n\n"
}

// ---------------------------------------------------------------------------------------------
// The dispatch of the field loop: on what does the traversal recurse?
//
// dispatchFacts finds, in the function that holds the merge loop, every call of that function to
// itself and says where its type argument comes from, followed through type switches, type
// assertions, local definitions and helper functions: "named:<expr>" = the *types.Named that <expr>
// asserts to (<expr> written over `field`, the element of the field loop), "other:<text>" anything
// else (a wrapper call, a method result such as Origin(), …).  Tie_C19.tie_field_dispatch fixes the
// list: the traversal continues with the field's own named type — T itself, or the T of *T.
func dispatchFacts(file *ast.File) string {
	var host *ast.FuncDecl
	for _, d := range file.Decls {
		fd, ok := d.(*ast.FuncDecl)
		if !ok || fd.Body == nil {
			continue
		}
		ast.Inspect(fd.Body, func(x ast.Node) bool {
			if r, ok := x.(*ast.RangeStmt); ok && hasCall(r.Body, "delete") && host == nil {
				host = fd
			}
			return true
		})
	}
	if host == nil {
		problems = append(problems, "field dispatch: the traversal function was not found")
		return "Definition gen_field_dispatch : list string := UNSUPPORTED_traversal_not_found.\n\n"
	}
	funcs := map[string]*ast.FuncDecl{}
	for _, d := range file.Decls {
		if fd, ok := d.(*ast.FuncDecl); ok {
			funcs[fd.Name.Name] = fd
		}
	}
	for n, fd := range wdecls {
		if _, has := funcs[n]; !has {
			funcs[n] = fd
		}
	}
	facts := map[string]bool{}
	var prov func(fd *ast.FuncDecl, e ast.Expr, at token.Pos, depth int) []string
	var render func(fd *ast.FuncDecl, e ast.Expr, at token.Pos, depth int) string
	// binding of an identifier inside fd, as seen from position at
	type binding struct {
		kind  string // "assert" | "switchvar" | "define" | "call2" | "param"
		expr  ast.Expr
		types []string
		call  *ast.CallExpr
	}
	lookupBinding := func(fd *ast.FuncDecl, name string, at token.Pos) *binding {
		var best *binding
		for _, p := range fd.Type.Params.List {
			for _, n := range p.Names {
				if n.Name == name {
					best = &binding{kind: "param", expr: p.Type}
				}
			}
		}
		ast.Inspect(fd.Body, func(x ast.Node) bool {
			switch s := x.(type) {
			case *ast.AssignStmt:
				if s.Pos() > at || s.Tok != token.DEFINE && s.Tok != token.ASSIGN {
					return true
				}
				if len(s.Lhs) >= 1 && isIdent(s.Lhs[0], name) && len(s.Rhs) == 1 {
					if ta, ok := s.Rhs[0].(*ast.TypeAssertExpr); ok && ta.Type == nil {
						return true // the header of a type switch: see below
					}
					if ta, ok := s.Rhs[0].(*ast.TypeAssertExpr); ok && ta.Type != nil {
						best = &binding{kind: "assert", expr: ta.X, types: []string{typeString(ta.Type)}}
					} else if c, ok := s.Rhs[0].(*ast.CallExpr); ok && len(s.Lhs) == 2 {
						best = &binding{kind: "call2", call: c}
					} else {
						best = &binding{kind: "define", expr: s.Rhs[0]}
					}
				}
			case *ast.TypeSwitchStmt:
				as, ok := s.Assign.(*ast.AssignStmt)
				if !ok || len(as.Lhs) != 1 || !isIdent(as.Lhs[0], name) {
					return true
				}
				ta := as.Rhs[0].(*ast.TypeAssertExpr)
				for _, c := range s.Body.List {
					cc := c.(*ast.CaseClause)
					if cc.Pos() <= at && at <= cc.End() {
						var ts []string
						for _, t := range cc.List {
							ts = append(ts, typeString(t))
						}
						best = &binding{kind: "switchvar", expr: ta.X, types: ts}
					}
				}
			}
			return true
		})
		return best
	}
	render = func(fd *ast.FuncDecl, e ast.Expr, at token.Pos, depth int) string {
		if depth > 8 {
			return "?"
		}
		switch x := e.(type) {
		case *ast.ParenExpr:
			return render(fd, x.X, at, depth)
		case *ast.Ident:
			b := lookupBinding(fd, x.Name, at)
			switch {
			case b == nil:
				return x.Name
			case b.kind == "param" && typeString(b.expr) == "*types.Var":
				return "field"
			case b.kind == "define":
				if c, ok := b.expr.(*ast.CallExpr); ok {
					if sel, ok := c.Fun.(*ast.SelectorExpr); ok && sel.Sel.Name == "Field" && len(c.Args) == 1 {
						return "field" // the element of the loop over the struct's fields
					}
				}
				return render(fd, b.expr, at, depth+1)
			case b.kind == "assert" || b.kind == "switchvar":
				// the same value, seen as one of the listed types
				return render(fd, b.expr, at, depth+1)
			}
			return x.Name
		case *ast.SelectorExpr:
			return render(fd, x.X, at, depth) + "." + x.Sel.Name
		case *ast.CallExpr:
			as := []string{}
			for _, a := range x.Args {
				as = append(as, render(fd, a, at, depth))
			}
			return render(fd, x.Fun, at, depth) + "(" + strings.Join(as, ",") + ")"
		}
		return fmt.Sprintf("%T", e)
	}
	prov = func(fd *ast.FuncDecl, e ast.Expr, at token.Pos, depth int) []string {
		if depth > 8 {
			return []string{"other:too deep"}
		}
		if p, ok := e.(*ast.ParenExpr); ok {
			return prov(fd, p.X, at, depth)
		}
		id, ok := e.(*ast.Ident)
		if !ok {
			return []string{"other:" + render(fd, e, at, depth)}
		}
		if id.Name == "nil" {
			return nil
		}
		b := lookupBinding(fd, id.Name, at)
		if b == nil {
			return []string{"other:" + id.Name}
		}
		switch b.kind {
		case "assert", "switchvar":
			if len(b.types) == 1 && b.types[0] == "*types.Named" {
				return []string{"named:" + render(fd, b.expr, at, depth+1)}
			}
			return []string{"other:" + id.Name + " as " + strings.Join(b.types, "|")}
		case "define":
			return prov(fd, b.expr, at, depth+1)
		case "call2":
			name := ""
			if f, ok := b.call.Fun.(*ast.Ident); ok {
				name = f.Name
			}
			h, ok := funcs[name]
			if !ok || h.Body == nil {
				return []string{"other:result of " + render(fd, b.call, at, depth)}
			}
			var out []string
			ast.Inspect(h.Body, func(x ast.Node) bool {
				if r, ok := x.(*ast.ReturnStmt); ok && len(r.Results) >= 1 {
					out = append(out, prov(h, r.Results[0], r.Pos(), depth+1)...)
				}
				return true
			})
			return out
		}
		return []string{"other:" + id.Name}
	}
	ast.Inspect(host.Body, func(x ast.Node) bool {
		c, ok := x.(*ast.CallExpr)
		if !ok {
			return true
		}
		name := ""
		switch f := c.Fun.(type) {
		case *ast.Ident:
			name = f.Name
		case *ast.SelectorExpr:
			name = f.Sel.Name
		}
		if name != host.Name.Name {
			return true
		}
		found := false
		for _, a := range c.Args {
			for _, p := range prov(host, a, c.Pos(), 0) {
				if strings.HasPrefix(p, "named:") || (strings.HasPrefix(p, "other:") && !isHandlerOrOpts(host, a)) {
					facts[p] = true
					found = true
				}
			}
		}
		if !found {
			facts["other:no type argument"] = true
		}
		return true
	})
	list := []string{}
	for f := range facts {
		list = append(list, f)
	}
	sort.Strings(list)
	if len(list) == 0 {
		list = []string{"other:the traversal does not recurse"}
	}
	for i, f := range list {
		list[i] = coqString(f)
	}
	translated = append(translated, "the recursion targets of "+host.Name.Name+" as gen_field_dispatch")
	return "(* on what " + host.Name.Name + " recurses inside its loop over the struct's fields *)\nDefinition gen_field_dispatch : list string :=\n[" +
		strings.Join(list, "; ") + "].\n\n"
}

func typeString(e ast.Expr) string {
	switch x := e.(type) {
	case *ast.StarExpr:
		return "*" + typeString(x.X)
	case *ast.SelectorExpr:
		return typeString(x.X) + "." + x.Sel.Name
	case *ast.Ident:
		return x.Name
	}
	return fmt.Sprintf("%T", e)
}

// isHandlerOrOpts: the arguments of the recursive call that are passed through unchanged
func isHandlerOrOpts(fd *ast.FuncDecl, e ast.Expr) bool {
	id, ok := e.(*ast.Ident)
	if !ok {
		return false
	}
	for _, p := range fd.Type.Params.List {
		for _, n := range p.Names {
			if n.Name == id.Name {
				t := typeString(p.Type)
				return t == "*ImportHandler" || strings.Contains(t, "BitSet") || t == "*ast.IndexExpr"
			}
		}
	}
	return false
}
