// xlate_bitset — translator tie (T) for C11: reads set/bit_set.go of the current tree with
// go/parser and regenerates, for every function of the file, a Gallina definition over N/bool
// (BitSetGen.v).  The translation itself is harness/internal/setxl (dialect "bitset"): see the
// package comment there for the supported Go subset (helper functions/methods, index loops,
// if/else with any mix of fall-through / return / continue / break, `x op= e`, conversions
// between the flag type and BitSet[T] as the identity on N, …).  Anything outside the subset is
// rendered as the identifier UNSUPPORTED_<what>: the generated file then fails to compile and
// the tie breaks.  coq/ties/Tie_C11.v proves `forall args, gen_F args = model_F args`.
//
//	xlate_bitset -src <repo>/set/bit_set.go -out BitSetGen.v
package main

import (
	"flag"
	"fmt"
	"os"

	"gtverif/internal/setxl"
)

func main() {
	src := flag.String("src", "", "path of bit_set.go")
	out := flag.String("out", "BitSetGen.v", "output file")
	flag.Parse()
	res, err := setxl.Translate(*src, setxl.Config{
		Dialect: "bitset",
		Header: "From Coq Require Import NArith List Bool Arith.\nImport ListNotations.\n" +
			"From GT Require Import Base.SetLoopTie.\n\n",
	})
	if err != nil {
		fmt.Fprintln(os.Stderr, err)
		os.Exit(2)
	}
	if err := os.WriteFile(*out, []byte(res.Text), 0o644); err != nil {
		fmt.Fprintln(os.Stderr, err)
		os.Exit(2)
	}
	for _, p := range res.Problems {
		fmt.Println("unsupported:", p)
	}
}
