// xlate_bitset — translator tie (T) for C11: reads set/bit_set.go of the current tree with
// go/parser and regenerates, for every function of the file, a Gallina definition over N/bool.
//
// Supported Go subset (everything bit_set.go uses; anything else is rendered as the
// identifier UNSUPPORTED_<what>, which makes the generated file fail to compile and thereby
// breaks the tie): functions and methods on BitSet[T] (pointer receiver = the stored bits are
// threaded in and out, value receiver = read only), variadic parameters (lists), `x := e`,
// `x = e`, `x op= e`, `*s = e`, `for _, v := range xs { … }` (a fold over the variables assigned
// in the body, with an optional early `return` carried as an option), `if c { return e }`,
// `return e`, the operators | & &^ ^ == != || && !, calls of other functions of the file, and
// conversions between the flag type and BitSet[T] (identity on N).
//
//	xlate_bitset -src <repo>/set/bit_set.go -out BitSetGen.v
package main

import (
	"flag"
	"fmt"
	"go/ast"
	"go/parser"
	"go/token"
	"os"
	"sort"
	"strings"
)

type fn struct {
	name     string
	recv     string // receiver variable name ("" for plain functions)
	ptrRecv  bool
	params   []param
	body     *ast.BlockStmt
	retBits  bool // result type is BitSet[T] (N) rather than bool
	hasRet   bool
	funcs    map[string]*fn
	problems []string
	retWrap  func(string) string
}

type param struct {
	name     string
	variadic bool
}

func (f *fn) bad(what string) string {
	f.problems = append(f.problems, what)
	return "UNSUPPORTED_" + strings.Map(func(r rune) rune {
		if r >= 'a' && r <= 'z' || r >= 'A' && r <= 'Z' || r >= '0' && r <= '9' {
			return r
		}
		return '_'
	}, what)
}

func (f *fn) expr(e ast.Expr) string {
	switch x := e.(type) {
	case *ast.ParenExpr:
		return f.expr(x.X)
	case *ast.Ident:
		switch x.Name {
		case "true", "false":
			return x.Name
		}
		return "v_" + x.Name
	case *ast.BasicLit:
		if x.Kind == token.INT {
			return x.Value
		}
		return f.bad("literal " + x.Value)
	case *ast.StarExpr:
		return f.expr(x.X)
	case *ast.UnaryExpr:
		switch x.Op {
		case token.NOT:
			return "(negb " + f.expr(x.X) + ")"
		}
		return f.bad("unary " + x.Op.String())
	case *ast.BinaryExpr:
		l, r := f.expr(x.X), ""
		// a &^ b and a & ^b are both "and not"
		if x.Op == token.AND {
			if u, ok := x.Y.(*ast.UnaryExpr); ok && u.Op == token.XOR {
				return "(N.ldiff " + l + " " + f.expr(u.X) + ")"
			}
		}
		r = f.expr(x.Y)
		switch x.Op {
		case token.OR:
			return "(N.lor " + l + " " + r + ")"
		case token.AND:
			return "(N.land " + l + " " + r + ")"
		case token.AND_NOT:
			return "(N.ldiff " + l + " " + r + ")"
		case token.EQL:
			return "(N.eqb " + l + " " + r + ")"
		case token.NEQ:
			return "(negb (N.eqb " + l + " " + r + "))"
		case token.LOR:
			return "(orb " + l + " " + r + ")"
		case token.LAND:
			return "(andb " + l + " " + r + ")"
		}
		return f.bad("binary " + x.Op.String())
	case *ast.CallExpr:
		// conversion BitSet[T](x) / T(x): identity
		switch fun := x.Fun.(type) {
		case *ast.IndexExpr:
			if id, ok := fun.X.(*ast.Ident); ok && id.Name == "BitSet" && len(x.Args) == 1 {
				return f.expr(x.Args[0])
			}
		case *ast.Ident:
			if fun.Name == "T" && len(x.Args) == 1 {
				return f.expr(x.Args[0])
			}
			if g, ok := f.funcs[fun.Name]; ok && g.recv == "" {
				return "(" + f.call(g, "", x) + ")"
			}
		case *ast.SelectorExpr:
			if g, ok := f.funcs[fun.Sel.Name]; ok && g.recv != "" && !g.ptrRecv {
				return "(" + f.call(g, f.expr(fun.X), x) + ")"
			}
		}
		return f.bad("call")
	}
	return f.bad(fmt.Sprintf("expr %T", e))
}

func (f *fn) call(g *fn, recv string, x *ast.CallExpr) string {
	parts := []string{"gen_" + g.name}
	if recv != "" {
		parts = append(parts, recv)
	}
	if x.Ellipsis != token.NoPos {
		for _, a := range x.Args {
			parts = append(parts, f.expr(a))
		}
		return strings.Join(parts, " ")
	}
	i := 0
	for _, p := range g.params {
		if p.variadic {
			var items []string
			for ; i < len(x.Args); i++ {
				items = append(items, f.expr(x.Args[i]))
			}
			parts = append(parts, "["+strings.Join(items, "; ")+"]")
		} else if i < len(x.Args) {
			parts = append(parts, f.expr(x.Args[i]))
			i++
		}
	}
	return strings.Join(parts, " ")
}

// assigned returns the variables assigned (not declared) in a block, in sorted order.
func assigned(b *ast.BlockStmt) []string {
	set := map[string]bool{}
	declared := map[string]bool{}
	ast.Inspect(b, func(n ast.Node) bool {
		if as, ok := n.(*ast.AssignStmt); ok {
			for _, l := range as.Lhs {
				name := ""
				switch t := l.(type) {
				case *ast.Ident:
					name = t.Name
				case *ast.StarExpr:
					if id, ok := t.X.(*ast.Ident); ok {
						name = id.Name
					}
				}
				if name == "" || name == "_" {
					continue
				}
				if as.Tok == token.DEFINE {
					declared[name] = true
				} else if !declared[name] {
					set[name] = true
				}
			}
		}
		return true
	})
	out := make([]string, 0, len(set))
	for k := range set {
		out = append(out, k)
	}
	sort.Strings(out)
	return out
}

func tuple(vars []string) string {
	if len(vars) == 0 {
		return "tt"
	}
	parts := make([]string, len(vars))
	for i, v := range vars {
		parts[i] = "v_" + v
	}
	if len(parts) == 1 {
		return parts[0]
	}
	return "(" + strings.Join(parts, ", ") + ")"
}

func pat(vars []string) string {
	if len(vars) == 0 {
		return "_"
	}
	if len(vars) == 1 {
		return "v_" + vars[0]
	}
	return "'" + tuple(vars)
}

// stmts renders a statement list in continuation style: `k` is the Gallina term for "fell off
// the end of this list".
func (f *fn) stmts(list []ast.Stmt, k string, ind string) string {
	if len(list) == 0 {
		return k
	}
	rest := func() string { return f.stmts(list[1:], k, ind) }
	switch s := list[0].(type) {
	case *ast.AssignStmt:
		if len(s.Lhs) != 1 || len(s.Rhs) != 1 {
			return f.bad("multi-assign")
		}
		name := ""
		switch t := s.Lhs[0].(type) {
		case *ast.Ident:
			name = t.Name
		case *ast.StarExpr:
			if id, ok := t.X.(*ast.Ident); ok {
				name = id.Name
			}
		}
		if name == "" {
			return f.bad("assign target")
		}
		rhs := ""
		cur := "v_" + name
		switch s.Tok {
		case token.DEFINE, token.ASSIGN:
			rhs = f.expr(s.Rhs[0])
		case token.OR_ASSIGN:
			rhs = "(N.lor " + cur + " " + f.expr(s.Rhs[0]) + ")"
		case token.AND_ASSIGN:
			if u, ok := s.Rhs[0].(*ast.UnaryExpr); ok && u.Op == token.XOR {
				rhs = "(N.ldiff " + cur + " " + f.expr(u.X) + ")"
			} else {
				rhs = "(N.land " + cur + " " + f.expr(s.Rhs[0]) + ")"
			}
		case token.AND_NOT_ASSIGN:
			rhs = "(N.ldiff " + cur + " " + f.expr(s.Rhs[0]) + ")"
		default:
			return f.bad("assign op " + s.Tok.String())
		}
		return "let " + cur + " := " + rhs + " in\n" + ind + rest()
	case *ast.ReturnStmt:
		if len(s.Results) != 1 {
			return f.bad("return arity")
		}
		return f.ret(f.expr(s.Results[0]))
	case *ast.IfStmt:
		if s.Init != nil || s.Else != nil {
			return f.bad("if with init/else")
		}
		then := f.stmts(s.Body.List, "CONT", ind+"  ")
		if strings.Contains(then, "CONT") {
			return f.bad("if body that falls through")
		}
		return "if " + f.expr(s.Cond) + " then " + then + "\n" + ind + "else " + rest()
	case *ast.RangeStmt:
		if s.Key != nil {
			if id, ok := s.Key.(*ast.Ident); !ok || id.Name != "_" {
				return f.bad("range key")
			}
		}
		val, ok := s.Value.(*ast.Ident)
		if !ok {
			return f.bad("range value")
		}
		vars := assigned(s.Body)
		// does the body return?
		returns := false
		ast.Inspect(s.Body, func(n ast.Node) bool {
			if _, ok := n.(*ast.ReturnStmt); ok {
				returns = true
			}
			return true
		})
		xs := f.expr(s.X)
		if !returns {
			body := f.stmts(s.Body.List, tuple(vars), ind+"    ")
			return "let " + pat(vars) + " := fold_left (fun " + pat(vars) + " v_" + val.Name + " =>\n" + ind + "    " + body +
				") " + xs + " " + tuple(vars) + " in\n" + ind + rest()
		}
		// early return: the accumulator carries (vars, option result); once Some, later
		// iterations are skipped
		saved := f.retWrap
		f.retWrap = func(v string) string { return "(" + tuple(vars) + ", Some " + v + ")" }
		body := f.stmts(s.Body.List, "("+tuple(vars)+", None)", ind+"      ")
		f.retWrap = saved
		return "let '(" + strings.TrimPrefix(pat(vars), "'") + ", early) := fold_left (fun '(" + strings.TrimPrefix(pat(vars), "'") + ", early) v_" + val.Name + " =>\n" +
			ind + "    match early with Some _ => (" + tuple(vars) + ", early) | None =>\n" + ind + "      " + body + " end) " +
			xs + " (" + tuple(vars) + ", None) in\n" + ind + "match early with Some r => " + f.ret("r") + " | None =>\n" + ind + rest() + " end"
	}
	return f.bad(fmt.Sprintf("stmt %T", list[0]))
}

// ret renders `return v`: a pointer-receiver method returns (stored bits, v).
func (f *fn) retBase(v string) string {
	if f.ptrRecv {
		return "(v_" + f.recv + ", " + v + ")"
	}
	return v
}

func (f *fn) ret(v string) string {
	if f.retWrap != nil {
		return f.retWrap(v)
	}
	return f.retBase(v)
}

func main() {
	src := flag.String("src", "", "path of bit_set.go")
	out := flag.String("out", "BitSetGen.v", "output file")
	flag.Parse()
	fset := token.NewFileSet()
	file, err := parser.ParseFile(fset, *src, nil, 0)
	if err != nil {
		fmt.Fprintln(os.Stderr, err)
		os.Exit(2)
	}
	funcs := map[string]*fn{}
	var order []*fn
	for _, d := range file.Decls {
		fd, ok := d.(*ast.FuncDecl)
		if !ok || fd.Body == nil {
			continue
		}
		f := &fn{name: fd.Name.Name, body: fd.Body, funcs: funcs}
		if fd.Recv != nil && len(fd.Recv.List) == 1 {
			r := fd.Recv.List[0]
			if len(r.Names) == 1 {
				f.recv = r.Names[0].Name
			} else {
				f.recv = "recv"
			}
			_, f.ptrRecv = r.Type.(*ast.StarExpr)
		}
		for _, p := range fd.Type.Params.List {
			_, variadic := p.Type.(*ast.Ellipsis)
			for _, n := range p.Names {
				f.params = append(f.params, param{n.Name, variadic})
			}
		}
		if fd.Type.Results != nil && len(fd.Type.Results.List) == 1 {
			f.hasRet = true
			if id, ok := fd.Type.Results.List[0].Type.(*ast.Ident); !ok || id.Name != "bool" {
				f.retBits = true
			}
		}
		funcs[f.name] = f
		order = append(order, f)
	}
	// callees first: a function may only call functions defined earlier in the output
	sort.SliceStable(order, func(i, j int) bool { return calls(order[j], order[i].name) && !calls(order[i], order[j].name) })
	var b strings.Builder
	b.WriteString("(* GENERATED by harness/cmd/xlate_bitset from set/bit_set.go of the current tree — do not edit *)\n")
	b.WriteString("From Coq Require Import NArith List Bool.\nImport ListNotations.\nLocal Open Scope N_scope.\n\n")
	for _, f := range order {
		sig := "Definition gen_" + f.name
		if f.recv != "" {
			sig += " (v_" + f.recv + " : N)"
		}
		for _, p := range f.params {
			if p.variadic {
				sig += " (v_" + p.name + " : list N)"
			} else {
				sig += " (v_" + p.name + " : N)"
			}
		}
		body := f.stmts(f.body.List, "MISSING_RETURN", "  ")
		if strings.Contains(body, "MISSING_RETURN") {
			body = strings.ReplaceAll(body, "MISSING_RETURN", f.bad("missing return"))
		}
		b.WriteString(sig + " :=\n  " + body + ".\n\n")
	}
	names := make([]string, 0, len(order))
	for _, f := range order {
		names = append(names, f.name)
	}
	b.WriteString("(* functions translated: " + strings.Join(names, ", ") + " *)\n")
	if err := os.WriteFile(*out, []byte(b.String()), 0o644); err != nil {
		fmt.Fprintln(os.Stderr, err)
		os.Exit(2)
	}
	for _, f := range order {
		for _, p := range f.problems {
			fmt.Printf("unsupported in %s: %s\n", f.name, p)
		}
	}
}

func calls(f *fn, name string) bool {
	found := false
	ast.Inspect(f.body, func(n ast.Node) bool {
		if c, ok := n.(*ast.CallExpr); ok {
			switch fun := c.Fun.(type) {
			case *ast.Ident:
				found = found || fun.Name == name
			case *ast.SelectorExpr:
				found = found || fun.Sel.Name == name
			}
		}
		return true
	})
	return found
}
