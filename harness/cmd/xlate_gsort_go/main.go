// xlate_gsort_go — (T) tie of property C08 for the Go code of the generator.
//
// Translates, with go/ast + go/types (golang.org/x/tools/go/packages, offline), the functions of
// package gsort/gen that createSorterDesc, SortFieldDescs.Validate, SorterDesc.PriorityTree and
// CompareLine.String reach inside the package — whatever helpers a refactoring introduces — and
// the Less methods of the package's generated sort types, into the mini-Go of
// coq/theories/GSortGoModel.v (GsortGoGen.v, `gen_prog`).  The tie coq/ties/Tie_C08_go.v runs the
// translated program in the kernel on a family of struct definitions and compares with the Coq
// model of the generator.
//
// Not translated (primitives of the interpreter): sortFieldDescFromTag (replaced by the parsed
// tags of the input field), go/types accessors, gtools/set, sort / slices sorting entry points,
// a few strings / strconv / errors functions, len / append / make.  Anything outside the subset
// becomes EUnknown / SUnknown, on which the interpreter stops (the tie then fails).
//
//	xlate_gsort_go -repo SCRATCHREPO -out FILE
package main

import (
	"flag"
	"fmt"
	"go/ast"
	"go/constant"
	"go/printer"
	"go/token"
	"go/types"
	"os"
	"sort"
	"strconv"
	"strings"

	"golang.org/x/tools/go/packages"
)

func q(s string) string { return "\"" + strings.ReplaceAll(s, "\"", "\"\"") + "\"" }

func list(xs []string) string { return "[" + strings.Join(xs, "; ") + "]" }

type xl struct {
	p     *packages.Package
	fset  *token.FileSet
	decls map[*types.Func]*ast.FuncDecl
	todo  []*types.Func
	seen  map[*types.Func]bool
}

func (x *xl) src(n ast.Node) string {
	var b strings.Builder
	_ = printer.Fprint(&b, x.fset, n)
	s := b.String()
	if len(s) > 120 {
		s = s[:120]
	}
	return s
}

func fname(fn *types.Func) string {
	sig := fn.Type().(*types.Signature)
	if r := sig.Recv(); r != nil {
		t := r.Type()
		if p, ok := t.(*types.Pointer); ok {
			t = p.Elem()
		}
		if n, ok := t.(*types.Named); ok {
			return n.Obj().Name() + "." + fn.Name()
		}
	}
	return fn.Name()
}

func (x *xl) need(fn *types.Func) {
	fn = fn.Origin()
	if !x.seen[fn] && x.decls[fn] != nil {
		x.seen[fn] = true
		x.todo = append(x.todo, fn)
	}
}

func (x *xl) zero(t types.Type) string {
	switch u := t.Underlying().(type) {
	case *types.Basic:
		switch {
		case u.Info()&types.IsInteger != 0:
			return "EInt 0"
		case u.Info()&types.IsString != 0:
			return "EStr \"\""
		case u.Info()&types.IsBoolean != 0:
			return "EBool false"
		}
	case *types.Struct:
		return x.structLit(u, nil, false)
	}
	return "ENil"
}

func (x *xl) structLit(st *types.Struct, given map[string]string, ptr bool) string {
	var fs []string
	for i := 0; i < st.NumFields(); i++ {
		f := st.Field(i)
		v, ok := given[f.Name()]
		if !ok {
			v = x.zero(f.Type())
		}
		fs = append(fs, "("+q(f.Name())+", "+v+")")
	}
	if ptr {
		return "(ENew " + list(fs) + ")"
	}
	return "(ERec " + list(fs) + ")"
}

func namedOf(t types.Type) *types.Named {
	if p, ok := t.(*types.Pointer); ok {
		t = p.Elem()
	}
	n, _ := types.Unalias(t).(*types.Named)
	return n
}

func pkgOf(t types.Type) string {
	if n := namedOf(t); n != nil && n.Obj().Pkg() != nil {
		return n.Obj().Pkg().Path()
	}
	return ""
}

// lessOf: the translated name of the Less method of the (named slice) type of e, for sort.Sort(e)
func (x *xl) lessOf(t types.Type) string {
	n := namedOf(t)
	if n == nil {
		return ""
	}
	for i := 0; i < n.NumMethods(); i++ {
		if m := n.Method(i); m.Name() == "Less" {
			x.need(m)
			return fname(m)
		}
	}
	return ""
}

// args of a call of a package function: the extra arguments of a variadic function are packed
// into one slice, as the callee sees them
func (x *xl) callArgs(fn *types.Func, c *ast.CallExpr) []string {
	out := x.exprs(c.Args)
	sig, ok := fn.Type().(*types.Signature)
	if !ok || !sig.Variadic() || c.Ellipsis.IsValid() {
		return out
	}
	n := sig.Params().Len() - 1
	if len(out) < n {
		return out
	}
	return append(append([]string{}, out[:n]...), "(EList "+list(out[n:])+")")
}

func (x *xl) exprs(es []ast.Expr) []string {
	out := make([]string, len(es))
	for i, e := range es {
		out[i] = x.expr(e)
	}
	return out
}

func (x *xl) unknown(n ast.Node) string { return "(EUnknown " + q(x.src(n)) + ")" }

func concat(parts []string) string {
	if len(parts) == 0 {
		return "(EStr \"\")"
	}
	out := parts[0]
	for _, p := range parts[1:] {
		out = "(EBin \"+\" " + out + " " + p + ")"
	}
	return out
}

func (x *xl) expr(e ast.Expr) string {
	info := x.p.TypesInfo
	if tv, ok := info.Types[e]; ok && tv.Value != nil {
		switch tv.Value.Kind() {
		case constant.Int:
			if v, ok := constant.Int64Val(tv.Value); ok {
				return fmt.Sprintf("(EInt (%d))", v)
			}
		case constant.String:
			return "(EStr " + q(constant.StringVal(tv.Value)) + ")"
		case constant.Bool:
			return fmt.Sprintf("(EBool %v)", constant.BoolVal(tv.Value))
		}
	}
	switch v := e.(type) {
	case *ast.ParenExpr:
		return x.expr(v.X)
	case *ast.Ident:
		if v.Name == "nil" {
			return "ENil"
		}
		return "(EVar " + q(v.Name) + ")"
	case *ast.StarExpr:
		return x.expr(v.X)
	case *ast.UnaryExpr:
		switch v.Op {
		case token.NOT:
			return "(ENot " + x.expr(v.X) + ")"
		case token.SUB:
			return "(EBin \"-\" (EInt 0) " + x.expr(v.X) + ")"
		case token.AND:
			if cl, ok := v.X.(*ast.CompositeLit); ok {
				return x.composite(cl, true)
			}
			return x.expr(v.X)
		}
	case *ast.BinaryExpr:
		return "(EBin " + q(v.Op.String()) + " " + x.expr(v.X) + " " + x.expr(v.Y) + ")"
	case *ast.SelectorExpr:
		if sel, ok := info.Selections[v]; ok && sel.Kind() == types.FieldVal {
			return "(EField " + x.expr(v.X) + " " + q(v.Sel.Name) + ")"
		}
	case *ast.IndexExpr:
		return "(EIndex " + x.expr(v.X) + " " + x.expr(v.Index) + ")"
	case *ast.CompositeLit:
		return x.composite(v, false)
	case *ast.FuncLit:
		var ps []string
		for _, f := range v.Type.Params.List {
			for _, n := range f.Names {
				ps = append(ps, q(n.Name))
			}
		}
		return "(EFunc " + list(ps) + " " + x.block(v.Body.List) + ")"
	case *ast.TypeAssertExpr:
		return x.expr(v.X)
	case *ast.CallExpr:
		return x.call(v)
	}
	return x.unknown(e)
}

func (x *xl) composite(cl *ast.CompositeLit, ptr bool) string {
	t := x.p.TypesInfo.TypeOf(cl)
	switch u := t.Underlying().(type) {
	case *types.Struct:
		given := map[string]string{}
		for i, el := range cl.Elts {
			if kv, ok := el.(*ast.KeyValueExpr); ok {
				if id, ok := kv.Key.(*ast.Ident); ok {
					given[id.Name] = x.expr(kv.Value)
				}
			} else if i < u.NumFields() {
				given[u.Field(i).Name()] = x.expr(el)
			}
		}
		return x.structLit(u, given, ptr)
	case *types.Slice:
		return "(EList " + list(x.exprs(cl.Elts)) + ")"
	}
	return x.unknown(cl)
}

// sprintf: fmt.Sprintf with %s / %d / %v verbs only -> concatenation
func (x *xl) sprintf(call *ast.CallExpr) string {
	if len(call.Args) == 0 {
		return x.unknown(call)
	}
	tv := x.p.TypesInfo.Types[call.Args[0]]
	if tv.Value == nil || tv.Value.Kind() != constant.String {
		return x.unknown(call)
	}
	format := constant.StringVal(tv.Value)
	var parts []string
	arg := 1
	for len(format) > 0 {
		i := strings.IndexByte(format, '%')
		if i < 0 {
			parts = append(parts, "(EStr "+q(format)+")")
			break
		}
		if i > 0 {
			parts = append(parts, "(EStr "+q(format[:i])+")")
		}
		if i+1 >= len(format) || arg >= len(call.Args) {
			return x.unknown(call)
		}
		a := call.Args[arg]
		switch format[i+1] {
		case 's', 'v':
			if b, ok := x.p.TypesInfo.TypeOf(a).Underlying().(*types.Basic); ok && b.Info()&types.IsInteger != 0 {
				parts = append(parts, "(ECall \"strconv.Itoa\" ["+x.expr(a)+"])")
			} else {
				parts = append(parts, x.expr(a))
			}
		case 'd':
			parts = append(parts, "(ECall \"strconv.Itoa\" ["+x.expr(a)+"])")
		default:
			return x.unknown(call)
		}
		arg++
		format = format[i+2:]
	}
	return concat(parts)
}

func (x *xl) call(c *ast.CallExpr) string {
	info := x.p.TypesInfo
	// conversion
	if tv, ok := info.Types[c.Fun]; ok && tv.IsType() && len(c.Args) == 1 {
		return x.expr(c.Args[0])
	}
	fun := ast.Unparen(c.Fun)
	if ix, ok := fun.(*ast.IndexExpr); ok { // generic instantiation f[T](...)
		fun = ix.X
	}
	switch f := fun.(type) {
	case *ast.Ident:
		if _, isB := info.Uses[f].(*types.Builtin); isB {
			switch f.Name {
			case "len":
				return "(ECall \"len\" " + list(x.exprs(c.Args)) + ")"
			case "append":
				if c.Ellipsis.IsValid() {
					return "(ECall \"append...\" " + list(x.exprs(c.Args)) + ")"
				}
				return "(ECall \"append\" " + list(x.exprs(c.Args)) + ")"
			case "make":
				if _, isMap := info.TypeOf(c.Args[0]).Underlying().(*types.Map); isMap {
					return "(ECall \"make.map\" [])"
				}
				return "(ECall \"make.slice\" [])"
			}
			return x.unknown(c)
		}
		if fn, ok := info.Uses[f].(*types.Func); ok {
			x.need(fn)
			return "(ECall " + q(fname(fn.Origin())) + " " + list(x.callArgs(fn, c)) + ")"
		}
		// a function value held in a variable
		return "(ECallV " + x.expr(f) + " " + list(x.exprs(c.Args)) + ")"
	case *ast.SelectorExpr:
		// package-qualified function
		if id, ok := f.X.(*ast.Ident); ok {
			if pn, ok := info.Uses[id].(*types.PkgName); ok {
				full := pn.Imported().Name() + "." + f.Sel.Name
				switch full {
				case "errors.New", "strings.HasPrefix", "strings.TrimPrefix", "strconv.Itoa", "slices.Clone",
					"strconv.Atoi", "strconv.Quote":
					return "(ECall " + q(full) + " " + list(x.exprs(c.Args)) + ")"
				case "strings.Split":
					// only the separator "," is a primitive
					if tv := info.Types[c.Args[1]]; tv.Value != nil && tv.Value.Kind() == constant.String && constant.StringVal(tv.Value) == "," {
						return "(ECall \"strings.SplitComma\" [" + x.expr(c.Args[0]) + "])"
					}
					return x.unknown(c)
				case "strings.Replace":
					// only "replace the first occurrence"
					if tv := info.Types[c.Args[3]]; tv.Value != nil && tv.Value.Kind() == constant.Int {
						if n, ok := constant.Int64Val(tv.Value); ok && n == 1 {
							return "(ECall \"strings.ReplaceFirst\" " + list(x.exprs(c.Args[:3])) + ")"
						}
					}
					return x.unknown(c)
				case "set.Make":
					return "(ECall \"set.Make\" " + list(x.exprs(c.Args)) + ")"
				case "fmt.Sprintf":
					return x.sprintf(c)
				case "cmp.Compare":
					// -1 / 0 / +1
					a, b := x.expr(c.Args[0]), x.expr(c.Args[1])
					return "(ECall \"prim.compare\" [" + a + "; " + b + "])"
				}
				return x.unknown(c)
			}
		}
		// method call
		sel, ok := info.Selections[f]
		if !ok {
			return x.unknown(c)
		}
		fn, _ := sel.Obj().(*types.Func)
		if fn == nil {
			return x.unknown(c)
		}
		recvT := sel.Recv()
		// a pointer-receiver method called on an addressable VALUE takes its address: the callee's
		// writes must reach the caller's variable, which this value-passing translation would lose
		if sig, ok := fn.Type().(*types.Signature); ok && sig.Recv() != nil && fn.Pkg() == x.p.Types {
			_, recvIsPtr := sig.Recv().Type().(*types.Pointer)
			_, argIsPtr := info.TypeOf(f.X).Underlying().(*types.Pointer)
			if recvIsPtr && !argIsPtr {
				return "(EUnknown " + q("address of a value taken for the pointer-receiver call "+x.src(c)) + ")"
			}
		}
		switch {
		case fn.Pkg() != nil && fn.Pkg().Path() == "reflect" && fn.Name() == "Lookup" && len(c.Args) == 1:
			return "(ECall \"reflect.Lookup\" [" + x.expr(f.X) + "; " + x.expr(c.Args[0]) + "])"
		case fn.Pkg() != nil && fn.Pkg().Path() == "go/types":
			if len(c.Args) == 0 {
				return "(EField " + x.expr(f.X) + " " + q(fn.Name()+"()") + ")"
			}
			if len(c.Args) == 1 {
				return "(EIndex (EField " + x.expr(f.X) + " " + q(fn.Name()) + ") " + x.expr(c.Args[0]) + ")"
			}
		case strings.HasSuffix(pkgOf(recvT), "/gtools/set") && fn.Name() == "Add":
			return "(ECall \"set.Add\" " + list(append([]string{x.expr(f.X)}, x.exprs(c.Args)...)) + ")"
		case fn.Pkg() == x.p.Types:
			x.need(fn)
			return "(ECall " + q(fname(fn.Origin())) + " " + list(append([]string{x.expr(f.X)}, x.callArgs(fn, c)...)) + ")"
		}
	}
	return x.unknown(c)
}

func (x *xl) block(ss []ast.Stmt) string {
	var out []string
	for _, s := range ss {
		out = append(out, x.stmt(s)...)
	}
	return list(out)
}

func (x *xl) sunknown(n ast.Node) []string { return []string{"SUnknown " + q(x.src(n))} }

// sortCall: sort.Sort(X) / sort.Stable(X) / slices.SortFunc(X, f) / slices.SortStableFunc(X, f) as
// statement: X is written back
func (x *xl) sortCall(c *ast.CallExpr) ([]string, bool) {
	sel, ok := ast.Unparen(c.Fun).(*ast.SelectorExpr)
	if !ok {
		return nil, false
	}
	id, ok := sel.X.(*ast.Ident)
	if !ok {
		return nil, false
	}
	pn, ok := x.p.TypesInfo.Uses[id].(*types.PkgName)
	if !ok {
		return nil, false
	}
	switch pn.Imported().Name() + "." + sel.Sel.Name {
	case "sort.Sort", "sort.Stable":
		arg := c.Args[0]
		t := x.p.TypesInfo.TypeOf(arg)
		if conv, ok := ast.Unparen(arg).(*ast.CallExpr); ok && len(conv.Args) == 1 {
			if tv, ok := x.p.TypesInfo.Types[conv.Fun]; ok && tv.IsType() {
				arg = conv.Args[0]
			}
		}
		less := x.lessOf(t)
		if less == "" {
			return nil, false
		}
		lv := x.expr(arg)
		return []string{"SAssign [" + lv + "] [ECall \"sort.byLess\" [" + lv + "; EStr " + q(less) + "]]"}, true
	case "slices.SortFunc", "slices.SortStableFunc":
		lv := x.expr(c.Args[0])
		return []string{"SAssign [" + lv + "] [ECall \"sort.byCmp\" [" + lv + "; " + x.expr(c.Args[1]) + "]]"}, true
	}
	return nil, false
}

func (x *xl) stmt(s ast.Stmt) []string {
	info := x.p.TypesInfo
	switch v := s.(type) {
	case *ast.BlockStmt:
		return []string{"SIf [] (EBool true) " + x.block(v.List) + " []"}
	case *ast.ExprStmt:
		if c, ok := v.X.(*ast.CallExpr); ok {
			if out, ok := x.sortCall(c); ok {
				return out
			}
		}
		return []string{"SExpr " + x.expr(v.X)}
	case *ast.IncDecStmt:
		op := "+"
		if v.Tok == token.DEC {
			op = "-"
		}
		l := x.expr(v.X)
		return []string{"SAssign [" + l + "] [EBin " + q(op) + " " + l + " (EInt 1)]"}
	case *ast.AssignStmt:
		if v.Tok != token.ASSIGN && v.Tok != token.DEFINE {
			if len(v.Lhs) == 1 && len(v.Rhs) == 1 {
				op := strings.TrimSuffix(v.Tok.String(), "=")
				l := x.expr(v.Lhs[0])
				return []string{"SAssign [" + l + "] [EBin " + q(op) + " " + l + " " + x.expr(v.Rhs[0]) + "]"}
			}
			return x.sunknown(s)
		}
		lhs := x.exprs(v.Lhs)
		if len(v.Lhs) == 2 && len(v.Rhs) == 1 {
			switch r := ast.Unparen(v.Rhs[0]).(type) {
			case *ast.IndexExpr: // v, ok := m[k]
				if _, isMap := info.TypeOf(r.X).Underlying().(*types.Map); isMap {
					a, aok := v.Lhs[0].(*ast.Ident)
					b, bok := v.Lhs[1].(*ast.Ident)
					if aok && bok {
						return []string{"SLookup2 " + q(a.Name) + " " + q(b.Name) + " " + x.expr(r.X) + " " + x.expr(r.Index)}
					}
				}
			case *ast.TypeAssertExpr: // v, ok := e.(T)
				e := x.expr(r.X)
				return []string{"SAssign " + list(lhs) + " [" + e + "; EBin \"!=\" " + e + " ENil]"}
			case *ast.CallExpr:
				// the tag parser is not translated: the input field carries its parsed tags
				if id, ok := ast.Unparen(r.Fun).(*ast.Ident); ok && id.Name == "sortFieldDescFromTag" && len(r.Args) == 2 {
					return []string{"SAssign " + list(lhs) + " [EField " + x.expr(r.Args[0]) + " \"Sfds\"; ENil]"}
				}
			}
		}
		return []string{"SAssign " + list(lhs) + " " + list(x.exprs(v.Rhs))}
	case *ast.DeclStmt:
		gd, ok := v.Decl.(*ast.GenDecl)
		if !ok {
			return x.sunknown(s)
		}
		var out []string
		for _, sp := range gd.Specs {
			vs, ok := sp.(*ast.ValueSpec)
			if !ok {
				if gd.Tok == token.CONST || gd.Tok == token.TYPE {
					continue
				}
				return x.sunknown(s)
			}
			if gd.Tok == token.CONST {
				continue // constants are resolved where they are used
			}
			for i, n := range vs.Names {
				val := x.zero(info.TypeOf(n))
				if i < len(vs.Values) {
					val = x.expr(vs.Values[i])
				}
				out = append(out, "SAssign [EVar "+q(n.Name)+"] ["+val+"]")
			}
		}
		return out
	case *ast.IfStmt:
		init := "[]"
		if v.Init != nil {
			init = list(x.stmt(v.Init))
		}
		el := "[]"
		switch e := v.Else.(type) {
		case *ast.BlockStmt:
			el = x.block(e.List)
		case *ast.IfStmt:
			el = list(x.stmt(e))
		}
		return []string{"SIf " + init + " " + x.expr(v.Cond) + " " + x.block(v.Body.List) + " " + el}
	case *ast.SwitchStmt:
		if v.Tag != nil || v.Init != nil {
			return x.sunknown(s)
		}
		// tagless switch = if chain (no fallthrough)
		var deflt []ast.Stmt
		type arm struct {
			cond string
			body string
		}
		var arms []arm
		for _, cs := range v.Body.List {
			cc := cs.(*ast.CaseClause)
			if cc.List == nil {
				deflt = cc.Body
				continue
			}
			conds := x.exprs(cc.List)
			c := conds[0]
			for _, o := range conds[1:] {
				c = "(EBin \"||\" " + c + " " + o + ")"
			}
			arms = append(arms, arm{c, x.block(cc.Body)})
		}
		out := x.block(deflt)
		for i := len(arms) - 1; i >= 0; i-- {
			out = "[SIf [] " + arms[i].cond + " " + arms[i].body + " " + out + "]"
		}
		return []string{"SIf [] (EBool true) " + out + " []"}
	case *ast.RangeStmt:
		k, val := "_", "_"
		if id, ok := v.Key.(*ast.Ident); ok {
			k = id.Name
		}
		if id, ok := v.Value.(*ast.Ident); ok {
			val = id.Name
		}
		return []string{"SRange " + q(k) + " " + q(val) + " " + x.expr(v.X) + " " + x.block(v.Body.List)}
	case *ast.ForStmt:
		init, post, cond := "[]", "[]", "(EBool true)"
		if v.Init != nil {
			init = list(x.stmt(v.Init))
		}
		if v.Post != nil {
			post = list(x.stmt(v.Post))
		}
		if v.Cond != nil {
			cond = x.expr(v.Cond)
		}
		return []string{"SFor " + init + " " + cond + " " + post + " " + x.block(v.Body.List)}
	case *ast.ReturnStmt:
		return []string{"SReturn " + list(x.exprs(v.Results))}
	case *ast.BranchStmt:
		switch v.Tok {
		case token.CONTINUE:
			if v.Label == nil {
				return []string{"SContinue"}
			}
		case token.BREAK:
			if v.Label == nil {
				return []string{"SBreak"}
			}
		}
	case *ast.EmptyStmt:
		return nil
	}
	return x.sunknown(s)
}

func main() {
	repo := flag.String("repo", "", "scratch copy of the repository")
	out := flag.String("out", "", "output .v file")
	flag.Parse()
	cfg := &packages.Config{
		Mode: packages.NeedName | packages.NeedFiles | packages.NeedCompiledGoFiles | packages.NeedImports |
			packages.NeedDeps | packages.NeedTypes | packages.NeedTypesInfo | packages.NeedSyntax,
		Dir: *repo,
		Env: append(os.Environ(), "GOFLAGS=", "GOWORK=", "GOPROXY=off", "GOSUMDB=off", "GOTOOLCHAIN=local"),
	}
	loaded, err := packages.Load(cfg, "./gsort/gen")
	if err != nil || len(loaded) != 1 || len(loaded[0].Errors) > 0 {
		fmt.Fprintln(os.Stderr, "xlate_gsort_go: cannot load gsort/gen:", err)
		if len(loaded) > 0 && len(loaded[0].Errors) > 0 {
			fmt.Fprintln(os.Stderr, loaded[0].Errors[0])
		}
		os.Exit(1)
	}
	p := loaded[0]
	x := &xl{p: p, fset: p.Fset, decls: map[*types.Func]*ast.FuncDecl{}, seen: map[*types.Func]bool{}}
	byName := map[string]*types.Func{}
	for _, f := range p.Syntax {
		for _, d := range f.Decls {
			if fd, ok := d.(*ast.FuncDecl); ok && fd.Body != nil {
				if fn, ok := p.TypesInfo.Defs[fd.Name].(*types.Func); ok {
					x.decls[fn] = fd
					byName[fname(fn)] = fn
				}
			}
		}
	}
	for _, root := range []string{"createSorterDesc", "SortFieldDescs.Validate", "SorterDesc.PriorityTree", "CompareLine.String", "sortFieldDescFromTag"} {
		fn := byName[root]
		if fn == nil {
			fmt.Fprintln(os.Stderr, "xlate_gsort_go: function not found:", root)
			os.Exit(1)
		}
		x.need(fn)
	}
	type fout struct{ name, text string }
	var outs []fout
	for len(x.todo) > 0 {
		fn := x.todo[0]
		x.todo = x.todo[1:]
		fd := x.decls[fn]
		var ps []string
		if fd.Recv != nil {
			for _, f := range fd.Recv.List {
				if len(f.Names) == 0 {
					ps = append(ps, q("_"))
				}
				for _, n := range f.Names {
					ps = append(ps, q(n.Name))
				}
			}
		}
		for _, f := range fd.Type.Params.List {
			for _, n := range f.Names {
				ps = append(ps, q(n.Name))
			}
		}
		outs = append(outs, fout{fname(fn), "  (" + q(fname(fn)) + ", {| fn_params := " + list(ps) + ";\n     fn_body := " + x.block(fd.Body.List) + " |})"})
	}
	sort.Slice(outs, func(i, j int) bool { return outs[i].name < outs[j].name })
	var b strings.Builder
	b.WriteString("(* GsortGoGen.v — REGENERATED on every run by harness/cmd/xlate_gsort_go from gsort/gen/*.go.  Do not edit. *)\n" +
		"From Coq Require Import String List ZArith.\nFrom GT Require Import GSortGoModel.\nImport ListNotations.\nLocal Open Scope string_scope.\nLocal Open Scope Z_scope.\n\n" +
		"Definition gen_prog : program := [\n")
	for i, o := range outs {
		b.WriteString(o.text)
		if i < len(outs)-1 {
			b.WriteString(";")
		}
		b.WriteString("\n")
	}
	b.WriteString("].\n\nDefinition gen_functions : list string := " + list(func() []string {
		var ns []string
		for _, o := range outs {
			ns = append(ns, q(o.name))
		}
		return ns
	}()) + ".\n")
	_ = strconv.Itoa
	if err := os.WriteFile(*out, []byte(b.String()), 0o644); err != nil {
		fmt.Fprintln(os.Stderr, err)
		os.Exit(1)
	}
}
