// xlate_genum_skel — (T) tie of the genum properties C04, C05, C12.
//
// Regenerates, from genum/gen/enumTemplate.gotmpl of the current tree, a Gallina description of
// the CONTROL SKELETON of every function the template emits per enum type:
//
//   - UnmarshalJSON / UnmarshalText / UnmarshalYAML: the ordered list of steps (null check; guarded
//     library readings with their attempts: the plain name attempt, per-family trait attempts with
//     their conversion — plain T(x) or the checked `if tv := T(x); wide(tv) == x` —, the `len`
//     gates, the polarity of the error test; the own-unmarshaler attempts) up to the error return;
//   - MarshalJSON / MarshalText / MarshalYAML: what is encoded;
//   - Parse<T>: the switches (key, the value list ranged over, the constants of a case), the option
//     flag gating the case-insensitive fallback; ParseString / ParseGeneric delegation;
//   - the value table, Values, StringValues, String, IsValid (threshold, both branches), the trait
//     accessor;
//   - for each of them the option flags ({{if $.GenJSON}} …) gating its emission.
//
// Method: the per-type section of the template is linearised into Go source — text verbatim,
// {{action}} placeholders become identifiers, {{if}}/{{range}} become Go control statements
// (`if TIF(n) {`, `for TRANGE(n) {`), marker elements inside expression lists / composite literals,
// marker case clauses inside switches, marker comments at file level — parsed with go/parser, and
// the function bodies are matched statement by statement against the few shapes the skeleton
// language has.  Whatever does not match becomes StOpaque / an "opaque" skeleton: the tie lemmas
// (well-formedness by vm_compute) then fail.  Only the standard library is used.
//
//	xlate_genum_skel -repo DIR -out FILE
package main

import (
	"bytes"
	"flag"
	"fmt"
	"go/ast"
	"go/parser"
	"go/printer"
	"go/token"
	"os"
	"path/filepath"
	"regexp"
	"sort"
	"strconv"
	"strings"
	"text/template/parse"

	"gtverif/internal/srcset"
)

func die(format string, a ...any) {
	fmt.Fprintf(os.Stderr, "xlate_genum_skel: "+format+"\n", a...)
	os.Exit(1)
}

// ---------------------------------------------------------------- linearisation

type ctl struct {
	kind string // if | range
	pipe string // normalised pipeline text
}

type lin struct {
	buf    bytes.Buffer
	ctls   []ctl
	vars   map[string]string // template variable -> normalised defining pipeline
	opens  []byte            // bracket stack: 'B' block, 'L' composite literal
	inFunc bool
}

var identRe = regexp.MustCompile(`[^A-Za-z0-9]+`)

// normPipe renders a pipeline with template variables that were bound to pipelines resolved
// (`$traits.GetX` = `(index $.Traits $i).GetX`) and redundant parentheses removed.
func (l *lin) normPipe(p *parse.PipeNode) string {
	if p == nil {
		return ""
	}
	var cmds []string
	for _, c := range p.Cmds {
		var args []string
		for _, a := range c.Args {
			args = append(args, l.normArg(a))
		}
		cmds = append(cmds, strings.Join(args, " "))
	}
	return strings.Join(cmds, " | ")
}

func (l *lin) normArg(a parse.Node) string {
	switch x := a.(type) {
	case *parse.PipeNode:
		s := l.normPipe(x)
		if !strings.ContainsAny(s, " |") {
			return s
		}
		return "(" + s + ")"
	case *parse.ChainNode:
		return l.normArg(x.Node) + "." + strings.Join(x.Field, ".")
	case *parse.VariableNode:
		if def, ok := l.vars[x.Ident[0]]; ok {
			base := def
			if strings.ContainsAny(base, " |") && !wholeParen(base) {
				base = "(" + base + ")"
			}
			if len(x.Ident) == 1 {
				return base
			}
			return base + "." + strings.Join(x.Ident[1:], ".")
		}
		return strings.Join(x.Ident, ".")
	case *parse.FieldNode:
		return "." + strings.Join(x.Ident, ".")
	default:
		return a.String()
	}
}

// wholeParen reports whether s is one parenthesised group "( … )"
func wholeParen(s string) bool {
	if len(s) < 2 || s[0] != '(' || s[len(s)-1] != ')' {
		return false
	}
	depth := 0
	for i := 0; i < len(s); i++ {
		switch s[i] {
		case '(':
			depth++
		case ')':
			depth--
			if depth == 0 && i != len(s)-1 {
				return false
			}
		}
	}
	return depth == 0
}

func stripOuter(s string) string {
	s = strings.TrimSpace(s)
	for wholeParen(s) {
		s = strings.TrimSpace(s[1 : len(s)-1])
	}
	return s
}

// significant tail of the emitted text (comments dropped)
func (l *lin) lastSignificant() byte {
	b := l.buf.Bytes()
	// drop a trailing line comment
	for {
		i := bytes.LastIndexByte(b, '\n')
		line := b[i+1:]
		if j := bytes.Index(line, []byte("//")); j >= 0 {
			line = line[:j]
		}
		line = bytes.TrimSpace(line)
		if len(line) > 0 {
			return line[len(line)-1]
		}
		if i < 0 {
			return 0
		}
		b = b[:i]
	}
}

// emitText appends template text, tracking the bracket structure: a `{` opens a block when its
// line starts with a Go control keyword or it follows `)`, a composite literal otherwise.
func (l *lin) emitText(s string) {
	for i := 0; i < len(s); i++ {
		c := s[i]
		switch c {
		case '{':
			kind := byte('L')
			// current line so far
			cur := l.buf.Bytes()
			if j := bytes.LastIndexByte(cur, '\n'); j >= 0 {
				cur = cur[j+1:]
			}
			line := strings.TrimSpace(string(cur))
			for _, kw := range []string{"func ", "func(", "if ", "for ", "switch ", "select ", "else", "} else", "for{", "switch{"} {
				if strings.HasPrefix(line, kw) {
					kind = 'B'
				}
			}
			if strings.HasSuffix(line, ")") || line == "" {
				kind = 'B'
			}
			if len(l.opens) == 0 && strings.HasPrefix(line, "func") {
				l.inFunc = true
			}
			l.opens = append(l.opens, kind)
		case '}':
			if len(l.opens) > 0 {
				l.opens = l.opens[:len(l.opens)-1]
			}
			if len(l.opens) == 0 {
				l.inFunc = false
			}
		}
		l.buf.WriteByte(c)
	}
}

func firstToken(n *parse.ListNode) string {
	if n == nil {
		return ""
	}
	for _, x := range n.Nodes {
		switch t := x.(type) {
		case *parse.TextNode:
			s := strings.TrimSpace(string(t.Text))
			// skip leading line comments
			for strings.HasPrefix(s, "//") {
				if i := strings.IndexByte(s, '\n'); i >= 0 {
					s = strings.TrimSpace(s[i+1:])
				} else {
					s = ""
				}
			}
			if s == "" {
				continue
			}
			if s[0] == ',' {
				return ","
			}
			f := strings.Fields(s)[0]
			if strings.HasPrefix(f, "default:") {
				return "default"
			}
			return f
		case *parse.CommentNode:
			continue
		default:
			return "<action>"
		}
	}
	return ""
}

func (l *lin) mode(body *parse.ListNode) string {
	if len(l.opens) == 0 {
		return "file"
	}
	switch firstToken(body) {
	case "case", "default":
		return "clause"
	case ",":
		return "exprs"
	}
	if l.opens[len(l.opens)-1] == 'L' {
		return "elems"
	}
	return "stmt"
}

func (l *lin) placeholder(p *parse.PipeNode) string {
	s := l.normPipe(p)
	s = strings.TrimPrefix(s, "$")
	s = strings.ReplaceAll(s, "$", "")
	id := identRe.ReplaceAllString(s, "_")
	id = strings.Trim(id, "_")
	if id == "" {
		id = "X"
	}
	return "T_" + id + "_T"
}

func (l *lin) list(n *parse.ListNode) {
	if n == nil {
		return
	}
	for _, x := range n.Nodes {
		l.node(x)
	}
}

func (l *lin) node(n parse.Node) {
	switch x := n.(type) {
	case *parse.TextNode:
		l.emitText(string(x.Text))
	case *parse.CommentNode:
	case *parse.ActionNode:
		if len(x.Pipe.Decl) > 0 {
			// {{$v := pipeline}}: prints nothing; the binding is resolved where $v is used
			save := x.Pipe.Decl
			x.Pipe.Decl = nil
			l.vars[save[0].Ident[0]] = l.normPipe(x.Pipe)
			x.Pipe.Decl = save
			return
		}
		l.emitText(l.placeholder(x.Pipe))
	case *parse.IfNode:
		l.control("if", x.Pipe, x.List, x.ElseList)
	case *parse.RangeNode:
		l.control("range", x.Pipe, x.List, x.ElseList)
	case *parse.ListNode:
		l.list(x)
	default:
		// with / template / break / continue: not used by the template; make the output unparsable
		// inside functions so that the change is noticed
		l.emitText(fmt.Sprintf(" TUNSUPPORTED(%q) ", n.String()))
	}
}

func (l *lin) control(kind string, pipe *parse.PipeNode, body, els *parse.ListNode) {
	save := pipe.Decl
	pipe.Decl = nil
	text := stripOuter(l.normPipe(pipe))
	pipe.Decl = save
	id := len(l.ctls)
	l.ctls = append(l.ctls, ctl{kind, text})
	up := strings.ToUpper(kind)
	switch l.mode(body) {
	case "file":
		fmt.Fprintf(&l.buf, "\n/*@%s %d*/\n", up, id)
		l.list(body)
		if els != nil {
			fmt.Fprintf(&l.buf, "\n/*@ELSE %d*/\n", id)
			l.list(els)
		}
		fmt.Fprintf(&l.buf, "\n/*@END %d*/\n", id)
	case "clause":
		fmt.Fprintf(&l.buf, "\ncase T%sC(%d):\n", up, id)
		l.list(body)
		if els != nil {
			fmt.Fprintf(&l.buf, "\ncase TELSEC(%d):\n", id)
			l.list(els)
		}
		fmt.Fprintf(&l.buf, "\ncase TENDC(%d):\n", id)
	case "exprs":
		fmt.Fprintf(&l.buf, ", T%sX(%d)", up, id)
		l.list(body)
		if els != nil {
			fmt.Fprintf(&l.buf, ", TELSEX(%d)", id)
			l.list(els)
		}
		fmt.Fprintf(&l.buf, ", TENDX(%d)", id)
	case "elems":
		fmt.Fprintf(&l.buf, "\nT%sX(%d),\n", up, id)
		l.list(body)
		if els != nil {
			fmt.Fprintf(&l.buf, "\nTELSEX(%d),\n", id)
			l.list(els)
		}
		fmt.Fprintf(&l.buf, "\nTENDX(%d),\n", id)
	default: // stmt
		if kind == "if" {
			fmt.Fprintf(&l.buf, "\nif TIF(%d) {\n", id)
		} else {
			fmt.Fprintf(&l.buf, "\nfor TRANGE(%d) {\n", id)
		}
		l.opens = append(l.opens, 'B')
		l.list(body)
		if els != nil {
			l.buf.WriteString("\n} else {\n")
			l.list(els)
		}
		l.opens = l.opens[:len(l.opens)-1]
		l.buf.WriteString("\n}\n")
	}
}

// ---------------------------------------------------------------- source facts of the package genum/gen

// templateIdents collects every field / method name the template selects on its data
func templateIdents(n parse.Node, out map[string]bool) {
	switch x := n.(type) {
	case *parse.ListNode:
		if x == nil {
			return
		}
		for _, c := range x.Nodes {
			templateIdents(c, out)
		}
	case *parse.ActionNode:
		templateIdents(x.Pipe, out)
	case *parse.IfNode:
		templateIdents(x.Pipe, out)
		templateIdents(x.List, out)
		templateIdents(x.ElseList, out)
	case *parse.RangeNode:
		templateIdents(x.Pipe, out)
		templateIdents(x.List, out)
		templateIdents(x.ElseList, out)
	case *parse.WithNode:
		templateIdents(x.Pipe, out)
		templateIdents(x.List, out)
		templateIdents(x.ElseList, out)
	case *parse.PipeNode:
		if x == nil {
			return
		}
		for _, c := range x.Cmds {
			for _, a := range c.Args {
				templateIdents(a, out)
			}
		}
	case *parse.FieldNode:
		for _, id := range x.Ident {
			out[id] = true
		}
	case *parse.VariableNode:
		for _, id := range x.Ident[1:] {
			out[id] = true
		}
	case *parse.ChainNode:
		templateIdents(x.Node, out)
		for _, id := range x.Field {
			out[id] = true
		}
	case *parse.IdentifierNode:
		out["func:"+x.Ident] = true
	}
}

func glist(xs []string) string {
	q := make([]string, len(xs))
	for i, x := range xs {
		q[i] = gstr(x)
	}
	return "[" + strings.Join(q, "; ") + "]"
}

// srcFacts reads the package genum/gen the way the compiler selects its files and reports what the ties
// assume about it: which template file is embedded into which variable, how the template is constructed
// (function map!), who writes to those variables, init functions, every package-level variable with its
// writers (memo tables, caches), files excluded by build constraints, further template files in the
// directory, and the methods of the package the template calls on its data.
func srcFacts(repo string, root *parse.ListNode) string {
	dir := filepath.Join(repo, "genum", "gen")
	pk, err := srcset.Load(dir, "verif")
	if err != nil {
		die("%v", err)
	}
	var embeds, vars, inits, tmplFiles, users []string
	construct := "?"
	for i, f := range pk.Files {
		for _, d := range f.Decls {
			switch x := d.(type) {
			case *ast.GenDecl:
				if x.Tok != token.VAR {
					continue
				}
				for _, sp := range x.Specs {
					vs := sp.(*ast.ValueSpec)
					doc := x.Doc
					if vs.Doc != nil {
						doc = vs.Doc
					}
					for _, n := range vs.Names {
						if n.Name == "_" {
							continue
						}
						if doc != nil {
							for _, c := range doc.List {
								if strings.HasPrefix(c.Text, "//go:embed ") {
									embeds = append(embeds, n.Name+" <- "+strings.TrimSpace(strings.TrimPrefix(c.Text, "//go:embed ")))
								}
							}
						}
						w := pk.WritesTo(n.Name)
						vars = append(vars, n.Name+" written by ["+strings.Join(w, " ")+"]")
						if n.Name == "enumTemplate" && len(vs.Values) == 1 {
							var b bytes.Buffer
							printer.Fprint(&b, pk.Fset, vs.Values[0])
							construct = strings.Join(strings.Fields(b.String()), " ")
						}
					}
				}
			case *ast.FuncDecl:
				if x.Name.Name == "init" && x.Recv == nil {
					inits = append(inits, pk.Names[i])
				}
				if x.Body != nil {
					uses := false
					ast.Inspect(x.Body, func(n ast.Node) bool {
						if id, ok := n.(*ast.Ident); ok && id.Name == "enumTemplate" {
							uses = true
						}
						return true
					})
					if uses {
						users = append(users, x.Name.Name)
					}
				}
			}
		}
	}
	ents, _ := os.ReadDir(dir)
	for _, e := range ents {
		if strings.HasSuffix(e.Name(), ".gotmpl") || strings.HasSuffix(e.Name(), ".tmpl") {
			tmplFiles = append(tmplFiles, e.Name())
		}
	}
	// methods of the package the template selects on its data, with the receivers that declare them
	ids := map[string]bool{}
	templateIdents(root, ids)
	var names []string
	for id := range ids {
		names = append(names, id)
	}
	sort.Strings(names)
	var methods []string
	for _, id := range names {
		if strings.HasPrefix(id, "func:") {
			methods = append(methods, id)
			continue
		}
		var recvs []string
		for _, f := range pk.Files {
			for _, d := range f.Decls {
				if fd, ok := d.(*ast.FuncDecl); ok && fd.Recv != nil && fd.Name.Name == id {
					t := fd.Recv.List[0].Type
					if st, ok := t.(*ast.StarExpr); ok {
						t = st.X
					}
					recvs = append(recvs, selName(t))
				}
			}
		}
		if len(recvs) > 0 {
			sort.Strings(recvs)
			methods = append(methods, strings.Join(recvs, ",")+"."+id)
		}
	}
	sort.Strings(embeds)
	sort.Strings(vars)
	sort.Strings(users)
	return "{| sf_embeds := " + glist(embeds) + ";\n     sf_construct := " + gstr(construct) + ";\n     sf_template_users := " + glist(users) +
		";\n     sf_vars := " + glist(vars) + ";\n     sf_inits := " + glist(inits) + ";\n     sf_excluded := " + glist(pk.Excluded) +
		";\n     sf_template_files := " + glist(tmplFiles) + ";\n     sf_template_methods := " + glist(methods) + " |}"
}

// ---------------------------------------------------------------- classification of pipelines

const traitsRecv = "(index $.Traits $i)"

var getterRe = regexp.MustCompile(`^GetParsableUnderlying(String|Uint64|Int64|Float64|Float32|Bool)For(JSON|YAML|Text)$`)
var ownRe = regexp.MustCompile(`^GetParsable(JSON|YAML|Text)Unmarshalable$`)

func codecName(s string) string {
	return map[string]string{"JSON": "CoJSON", "YAML": "CoYAML", "Text": "CoText"}[s]
}

// famOf classifies a pipeline that evaluates to a trait family: "(FamKind KUint64 CoJSON)" …
func famOf(pipe string) (string, bool) {
	if !strings.HasPrefix(pipe, traitsRecv+".") {
		return "", false
	}
	g := pipe[len(traitsRecv)+1:]
	if m := getterRe.FindStringSubmatch(g); m != nil {
		return "(FamKind K" + m[1] + " " + codecName(m[2]) + ")", true
	}
	if m := ownRe.FindStringSubmatch(g); m != nil {
		return "(FamOwn " + codecName(m[1]) + ")", true
	}
	return "", false
}

// lenFamOf: `len <family>`
func lenFamOf(pipe string) (string, bool) {
	p := strings.TrimSpace(pipe)
	if !strings.HasPrefix(p, "len ") {
		return "", false
	}
	return famOf(stripOuter(p[4:]))
}

var flagRe = regexp.MustCompile(`^\$?\.([A-Za-z_][A-Za-z0-9_]*)$`)

func flagOf(pipe string) (string, bool) {
	if m := flagRe.FindStringSubmatch(strings.TrimSpace(pipe)); m != nil {
		return m[1], true
	}
	return "", false
}

func vsrcOf(pipe string) (string, bool) {
	switch stripOuter(pipe) {
	case "index $.Values $i":
		return "VsAll", true
	case "(index $.Values $i).ValueDeduplicatedSet":
		return "VsDedup", true
	}
	return "", false
}

// ---------------------------------------------------------------- Go AST helpers

type xl struct {
	fset *token.FileSet
	ctls []ctl
}

func (x *xl) show(n ast.Node) string {
	var b bytes.Buffer
	printer.Fprint(&b, x.fset, n)
	s := strings.Join(strings.Fields(b.String()), " ")
	if len(s) > 160 {
		s = s[:160] + "…"
	}
	return s
}

func gstr(s string) string {
	return "\"" + strings.ReplaceAll(s, "\"", "\"\"") + "\""
}

func isIdent(e ast.Expr, name string) bool {
	id, ok := e.(*ast.Ident)
	return ok && id.Name == name
}

func selName(e ast.Expr) string {
	switch v := e.(type) {
	case *ast.Ident:
		return v.Name
	case *ast.SelectorExpr:
		return selName(v.X) + "." + v.Sel.Name
	}
	return ""
}

// markerCall recognises TIF(n) / TRANGE(n) / T…X(n) / T…C(n)
func markerCall(e ast.Expr) (string, int, bool) {
	c, ok := e.(*ast.CallExpr)
	if !ok || len(c.Args) != 1 {
		return "", 0, false
	}
	id, ok := c.Fun.(*ast.Ident)
	if !ok || !strings.HasPrefix(id.Name, "T") {
		return "", 0, false
	}
	lit, ok := c.Args[0].(*ast.BasicLit)
	if !ok || lit.Kind != token.INT {
		return "", 0, false
	}
	n, _ := strconv.Atoi(lit.Value)
	return id.Name, n, true
}

// errNilCond: `err == nil` (true) / `err != nil` (false)
func errNilCond(e ast.Expr) (bool, bool) {
	b, ok := e.(*ast.BinaryExpr)
	if !ok || !isIdent(b.X, "err") || !isIdent(b.Y, "nil") {
		return false, false
	}
	switch b.Op {
	case token.EQL:
		return true, true
	case token.NEQ:
		return false, true
	}
	return false, false
}

// isReturnNilIfOK: `if err == nil { return nil }`
func isReturnNilIfOK(s ast.Stmt) bool {
	i, ok := s.(*ast.IfStmt)
	if !ok || i.Init != nil || i.Else != nil || len(i.Body.List) != 1 {
		return false
	}
	pol, ok := errNilCond(i.Cond)
	if !ok || !pol {
		return false
	}
	r, ok := i.Body.List[0].(*ast.ReturnStmt)
	return ok && len(r.Results) == 1 && isIdent(r.Results[0], "nil")
}

// isErrorReturn: `return fmt.Errorf(...)` / `return 0, fmt.Errorf(...)`
func isErrorReturn(s ast.Stmt, withZero bool) bool {
	r, ok := s.(*ast.ReturnStmt)
	if !ok {
		return false
	}
	want := 1
	if withZero {
		want = 2
	}
	if len(r.Results) != want {
		return false
	}
	if withZero {
		lit, ok := r.Results[0].(*ast.BasicLit)
		if !ok || lit.Value != "0" {
			return false
		}
	}
	c, ok := r.Results[want-1].(*ast.CallExpr)
	return ok && selName(c.Fun) == "fmt.Errorf"
}

// parseAssign: `*e, err = ParseENUMT(ARG)` -> ARG
func parseAssign(s ast.Stmt) (ast.Expr, bool) {
	a, ok := s.(*ast.AssignStmt)
	if !ok || a.Tok != token.ASSIGN || len(a.Lhs) != 2 || len(a.Rhs) != 1 {
		return nil, false
	}
	st, ok := a.Lhs[0].(*ast.StarExpr)
	if !ok || !isIdent(st.X, "e") || !isIdent(a.Lhs[1], "err") {
		return nil, false
	}
	c, ok := a.Rhs[0].(*ast.CallExpr)
	if !ok || !isIdent(c.Fun, "ParseT_enumTypeName_T") || len(c.Args) != 1 {
		return nil, false
	}
	return c.Args[0], true
}

const traitTy = "T_trait_TypeRef_T"

// ---------------------------------------------------------------- decoders

type decoder struct {
	x        *xl
	codec    string            // CoJSON | CoYAML | CoText
	declared map[string]string // local variable -> declared basic type
	always   map[string]bool   // expressions that always hold the string reading (printed form)
	steps    []string
}

func (d *decoder) opaque(n ast.Node) {
	d.steps = append(d.steps, "StOpaque "+gstr(d.x.show(n)))
}

// srcOfRead recognises the library call a guarded block reads through; returns (src, variable)
func (d *decoder) srcOfRead(init ast.Stmt) (string, string, bool) {
	a, ok := init.(*ast.AssignStmt)
	if !ok || a.Tok != token.DEFINE || len(a.Rhs) != 1 {
		return "", "", false
	}
	call, ok := a.Rhs[0].(*ast.CallExpr)
	if !ok {
		return "", "", false
	}
	fn := selName(call.Fun)
	switch {
	case d.codec == "CoJSON" && fn == "json.Unmarshal" && len(a.Lhs) == 1 && isIdent(a.Lhs[0], "err") && len(call.Args) == 2 && isIdent(call.Args[0], "data"):
		u, ok := call.Args[1].(*ast.UnaryExpr)
		if !ok || u.Op != token.AND {
			return "", "", false
		}
		v, ok := u.X.(*ast.Ident)
		if !ok {
			return "", "", false
		}
		src, ok := map[string]string{"string": "SrcString", "uint64": "SrcU64", "int64": "SrcI64", "float64": "SrcF64", "float32": "SrcF32"}[d.declared[v.Name]]
		return src, v.Name, ok
	case d.codec == "CoYAML" && strings.HasPrefix(fn, "strconv.Parse") && len(a.Lhs) == 2 && isIdent(a.Lhs[1], "err"):
		v, ok := a.Lhs[0].(*ast.Ident)
		if !ok || len(call.Args) < 2 || selName(call.Args[0]) != "value.Value" {
			return "", "", false
		}
		lits := []string{}
		for _, arg := range call.Args[1:] {
			l, ok := arg.(*ast.BasicLit)
			if !ok {
				return "", "", false
			}
			lits = append(lits, l.Value)
		}
		key := fn + "(" + strings.Join(lits, ",") + ")"
		src, ok := map[string]string{"strconv.ParseUint(10,64)": "SrcU64", "strconv.ParseInt(10,64)": "SrcI64",
			"strconv.ParseFloat(64)": "SrcF64", "strconv.ParseFloat(32)": "SrcF32"}[key]
		return src, v.Name, ok
	}
	return "", "", false
}

// attemptOn recognises the argument of a Parse call made on the reading held in variable v (of
// source src) inside a range over family fam ("" = outside any range)
func (d *decoder) convOf(arg ast.Expr, v string, fam string) (string, bool) {
	if fam == "" {
		if isIdent(arg, v) || d.always[d.x.show(arg)] && v == "" {
			return "CvNone", true
		}
		return "", false
	}
	c, ok := arg.(*ast.CallExpr)
	if !ok || !isIdent(c.Fun, traitTy) || len(c.Args) != 1 {
		return "", false
	}
	in := c.Args[0]
	if isIdent(in, v) || d.always[d.x.show(in)] && v == "" {
		return "CvTyped", true
	}
	// float32(floater32): strconv.ParseFloat(…, 32) yields a float64 holding a float32
	if c2, ok := in.(*ast.CallExpr); ok && isIdent(c2.Fun, "float32") && len(c2.Args) == 1 && isIdent(c2.Args[0], v) {
		return "CvTyped", true
	}
	return "", false
}

// attempts translates the statements of a block that tries Parse on a reading; v = "" means the
// always-available string reading (YAML value.Value, text)
func (d *decoder) attempts(stmts []ast.Stmt, v, src, fam string) ([]string, bool) {
	var out []string
	for i := 0; i < len(stmts); i++ {
		s := stmts[i]
		// `var err error` inside the block
		if ds, ok := s.(*ast.DeclStmt); ok {
			if d.isPlainVarDecl(ds, false) {
				continue
			}
			return nil, false
		}
		if arg, ok := parseAssign(s); ok {
			if i+1 >= len(stmts) || !isReturnNilIfOK(stmts[i+1]) {
				return nil, false
			}
			cv, ok := d.convOf(arg, v, fam)
			if !ok {
				return nil, false
			}
			f := "None"
			if fam != "" {
				f = "(Some " + fam + ")"
			}
			out = append(out, "{| at_fam := "+f+"; at_conv := "+cv+" |}")
			i++
			continue
		}
		if f, ok := s.(*ast.ForStmt); ok && fam == "" {
			name, n, ok := markerCall(f.Cond)
			if !ok || name != "TRANGE" || f.Init != nil || f.Post != nil {
				return nil, false
			}
			fm, ok := famOf(d.x.ctls[n].pipe)
			if !ok {
				return nil, false
			}
			inner, ok := d.attempts(f.Body.List, v, src, fm)
			if !ok {
				return nil, false
			}
			out = append(out, inner...)
			continue
		}
		// `if tv := T(x); wide(tv) == x { *e, err = Parse(tv); if err == nil { return nil } }`
		if is, ok := s.(*ast.IfStmt); ok && fam != "" && is.Init != nil && is.Else == nil && v != "" {
			a, ok := is.Init.(*ast.AssignStmt)
			if !ok || a.Tok != token.DEFINE || len(a.Lhs) != 1 || len(a.Rhs) != 1 {
				return nil, false
			}
			tv, ok := a.Lhs[0].(*ast.Ident)
			if !ok {
				return nil, false
			}
			c, ok := a.Rhs[0].(*ast.CallExpr)
			if !ok || !isIdent(c.Fun, traitTy) || len(c.Args) != 1 || !isIdent(c.Args[0], v) {
				return nil, false
			}
			cond, ok := is.Cond.(*ast.BinaryExpr)
			if !ok || cond.Op != token.EQL || !isIdent(cond.Y, v) {
				return nil, false
			}
			back, ok := cond.X.(*ast.CallExpr)
			wide := map[string]string{"SrcU64": "uint64", "SrcI64": "int64"}[src]
			if !ok || wide == "" || !isIdent(back.Fun, wide) || len(back.Args) != 1 || !isIdent(back.Args[0], tv.Name) {
				return nil, false
			}
			if len(is.Body.List) != 2 {
				return nil, false
			}
			arg, ok := parseAssign(is.Body.List[0])
			if !ok || !isIdent(arg, tv.Name) || !isReturnNilIfOK(is.Body.List[1]) {
				return nil, false
			}
			out = append(out, "{| at_fam := (Some "+fam+"); at_conv := CvChecked |}")
			continue
		}
		return nil, false
	}
	return out, true
}

// isPlainVarDecl: `var x T` without initialiser (recorded when record is set)
func (d *decoder) isPlainVarDecl(ds *ast.DeclStmt, record bool) bool {
	g, ok := ds.Decl.(*ast.GenDecl)
	if !ok || g.Tok != token.VAR {
		return false
	}
	for _, sp := range g.Specs {
		vs, ok := sp.(*ast.ValueSpec)
		if !ok || len(vs.Values) != 0 || vs.Type == nil {
			return false
		}
		ty := selName(vs.Type)
		if ty == "" {
			return false
		}
		if record {
			for _, n := range vs.Names {
				d.declared[n.Name] = ty
			}
		}
	}
	return true
}

// native recognises the own-unmarshaler attempt of one trait (body of a range over a FamOwn family)
func (d *decoder) native(stmts []ast.Stmt) (string, bool) {
	if len(stmts) != 2 {
		return "", false
	}
	// vK := *new(T)   |   var vK T
	var v string
	switch s := stmts[0].(type) {
	case *ast.AssignStmt:
		if s.Tok != token.DEFINE || len(s.Lhs) != 1 || len(s.Rhs) != 1 {
			return "", false
		}
		id, ok := s.Lhs[0].(*ast.Ident)
		st, ok2 := s.Rhs[0].(*ast.StarExpr)
		if !ok || !ok2 {
			return "", false
		}
		c, ok := st.X.(*ast.CallExpr)
		if !ok || !isIdent(c.Fun, "new") || len(c.Args) != 1 || !isIdent(c.Args[0], traitTy) {
			return "", false
		}
		v = id.Name
	case *ast.DeclStmt:
		g, ok := s.Decl.(*ast.GenDecl)
		if !ok || g.Tok != token.VAR || len(g.Specs) != 1 {
			return "", false
		}
		vs := g.Specs[0].(*ast.ValueSpec)
		if len(vs.Names) != 1 || len(vs.Values) != 0 || !isIdent(vs.Type, traitTy) {
			return "", false
		}
		v = vs.Names[0].Name
	default:
		return "", false
	}
	is, ok := stmts[1].(*ast.IfStmt)
	if !ok || is.Init == nil || is.Else != nil {
		return "", false
	}
	pol, ok := errNilCond(is.Cond)
	if !ok || !pol {
		return "", false
	}
	a, ok := is.Init.(*ast.AssignStmt)
	if !ok || a.Tok != token.DEFINE || len(a.Lhs) != 1 || !isIdent(a.Lhs[0], "err") || len(a.Rhs) != 1 {
		return "", false
	}
	call, ok := a.Rhs[0].(*ast.CallExpr)
	if !ok {
		return "", false
	}
	via := ""
	fn := selName(call.Fun)
	addrOfV := func(e ast.Expr) bool {
		u, ok := e.(*ast.UnaryExpr)
		return ok && u.Op == token.AND && isIdent(u.X, v)
	}
	switch {
	case fn == "json.Unmarshal" && len(call.Args) == 2 && isIdent(call.Args[0], "data") && addrOfV(call.Args[1]):
		via = "CoJSON"
	case fn == v+".UnmarshalYAML" && len(call.Args) == 1 && isIdent(call.Args[0], "value"):
		via = "CoYAML"
	case fn == v+".UnmarshalText" && len(call.Args) == 1 && isIdent(call.Args[0], "text"):
		via = "CoText"
	default:
		return "", false
	}
	if len(is.Body.List) != 2 {
		return "", false
	}
	arg, ok := parseAssign(is.Body.List[0])
	if !ok || !isIdent(arg, v) || !isReturnNilIfOK(is.Body.List[1]) {
		return "", false
	}
	return via, true
}

func (d *decoder) stmts(list []ast.Stmt, gate string, top bool) {
	for i := 0; i < len(list); i++ {
		s := list[i]
		last := top && i == len(list)-1
		switch v := s.(type) {
		case *ast.DeclStmt:
			if d.isPlainVarDecl(v, true) {
				continue
			}
			d.opaque(s)
		case *ast.ReturnStmt:
			if last && isErrorReturn(s, false) {
				return
			}
			d.opaque(s)
		case *ast.AssignStmt:
			// s := string(text)
			if v.Tok == token.DEFINE && len(v.Lhs) == 1 && len(v.Rhs) == 1 && d.codec == "CoText" {
				if c, ok := v.Rhs[0].(*ast.CallExpr); ok && isIdent(c.Fun, "string") && len(c.Args) == 1 && isIdent(c.Args[0], "text") {
					d.always[v.Lhs[0].(*ast.Ident).Name] = true
					continue
				}
			}
			// unguarded attempt on the always-available string reading
			if arg, ok := parseAssign(s); ok && i+1 < len(list) && isReturnNilIfOK(list[i+1]) && d.always[d.x.show(arg)] {
				d.steps = append(d.steps, "StRead "+gate+" SrcString true [{| at_fam := None; at_conv := CvNone |}]")
				i++
				continue
			}
			d.opaque(s)
		case *ast.ForStmt:
			name, n, ok := markerCall(v.Cond)
			if !ok || name != "TRANGE" || v.Init != nil || v.Post != nil {
				d.opaque(s)
				continue
			}
			fm, ok := famOf(d.x.ctls[n].pipe)
			if !ok {
				d.opaque(s)
				continue
			}
			if strings.HasPrefix(fm, "(FamOwn") {
				if via, ok := d.native(v.Body.List); ok {
					d.steps = append(d.steps, "StNative "+gate+" "+fm+" "+via)
					continue
				}
				d.opaque(s)
				continue
			}
			// a range of unguarded typed attempts on the always-available string reading
			if at, ok := d.attempts(v.Body.List, "", "SrcString", fm); ok && len(d.always) > 0 {
				d.steps = append(d.steps, "StRead "+gate+" SrcString true ["+strings.Join(at, "; ")+"]")
				continue
			}
			d.opaque(s)
		case *ast.IfStmt:
			// the null check
			if top && d.codec == "CoJSON" && v.Init == nil && v.Else == nil && len(v.Body.List) == 1 && isErrorReturn(v.Body.List[0], false) {
				if b, ok := v.Cond.(*ast.BinaryExpr); ok && b.Op == token.EQL {
					if c, ok := b.X.(*ast.CallExpr); ok && isIdent(c.Fun, "string") && len(c.Args) == 1 && isIdent(c.Args[0], "data") {
						if l, ok := b.Y.(*ast.BasicLit); ok && l.Value == `"null"` {
							d.steps = append(d.steps, "StNullReject")
							continue
						}
					}
				}
			}
			// the node-kind check of UnmarshalYAML: if value.Kind != yaml.ScalarNode { return error }
			if top && d.codec == "CoYAML" && v.Init == nil && v.Else == nil && len(v.Body.List) == 1 && isErrorReturn(v.Body.List[0], false) {
				if b, ok := v.Cond.(*ast.BinaryExpr); ok && b.Op == token.NEQ && selName(b.X) == "value.Kind" && selName(b.Y) == "yaml.ScalarNode" {
					d.steps = append(d.steps, "StNullReject")
					continue
				}
			}
			// {{if len family}} … {{end}}
			if name, n, ok := markerCall(v.Cond); ok && name == "TIF" && v.Init == nil {
				// `len family` — or the family itself: a slice is true in a template condition iff non-empty
				fm, ok := lenFamOf(d.x.ctls[n].pipe)
				if !ok {
					fm, ok = famOf(d.x.ctls[n].pipe)
				}
				if !ok || v.Else != nil || gate != "None" {
					d.opaque(s)
					continue
				}
				d.stmts(v.Body.List, "(Some "+fm+")", false)
				continue
			}
			// a guarded library reading
			if v.Init != nil && v.Else == nil {
				if pol, ok := errNilCond(v.Cond); ok {
					if src, rv, ok := d.srcOfRead(v.Init); ok {
						if at, ok := d.attempts(v.Body.List, rv, src, ""); ok {
							d.steps = append(d.steps, fmt.Sprintf("StRead %s %s %v [%s]", gate, src, pol, strings.Join(at, "; ")))
							continue
						}
					}
				}
			}
			d.opaque(s)
		default:
			d.opaque(s)
		}
	}
	if top {
		// the function does not end in the error return
		d.steps = append(d.steps, "StOpaque \"no final error return\"")
	}
}

func (x *xl) decoderSkel(fd *ast.FuncDecl, codec string) string {
	d := &decoder{x: x, codec: codec, declared: map[string]string{}, always: map[string]bool{}}
	if codec == "CoYAML" {
		d.always["value.Value"] = true
	}
	d.stmts(fd.Body.List, "None", true)
	return "[" + strings.Join(d.steps, ";\n     ") + "]"
}

// ---------------------------------------------------------------- encoders and small functions

func (x *xl) singleReturn(fd *ast.FuncDecl) []ast.Expr {
	if len(fd.Body.List) != 1 {
		return nil
	}
	r, ok := fd.Body.List[0].(*ast.ReturnStmt)
	if !ok {
		return nil
	}
	return r.Results
}

func isEString(e ast.Expr) bool {
	c, ok := e.(*ast.CallExpr)
	return ok && selName(c.Fun) == "e.String" && len(c.Args) == 0
}

func (x *xl) encoderSkel(fd *ast.FuncDecl) string {
	rs := x.singleReturn(fd)
	switch {
	case len(rs) == 1:
		// return json.Marshal(e.String())
		if c, ok := rs[0].(*ast.CallExpr); ok && selName(c.Fun) == "json.Marshal" && len(c.Args) == 1 && isEString(c.Args[0]) {
			return "EncJSONOfString"
		}
	case len(rs) == 2 && isIdent(rs[1], "nil"):
		if isEString(rs[0]) {
			return "EncString"
		}
		// []byte(e.String())
		if c, ok := rs[0].(*ast.CallExpr); ok && len(c.Args) == 1 && isEString(c.Args[0]) {
			if a, ok := c.Fun.(*ast.ArrayType); ok && a.Len == nil && isIdent(a.Elt, "byte") {
				return "EncBytesOfString"
			}
		}
	}
	return "(EncOpaque " + gstr(x.show(fd.Body)) + ")"
}

// delegation: `return ParseENUMT(arg)`
func (x *xl) delegates(fd *ast.FuncDecl, param string) string {
	rs := x.singleReturn(fd)
	if len(rs) == 1 {
		if c, ok := rs[0].(*ast.CallExpr); ok && isIdent(c.Fun, "ParseT_enumTypeName_T") && len(c.Args) == 1 && isIdent(c.Args[0], param) {
			return "true"
		}
	}
	return "false"
}

// ---------------------------------------------------------------- switches over the value list

// clauses splits the clause list of a switch whose cases are generated by one {{range}}: returns
// the range id, the template case clause, and the remaining (literal) clauses
func (x *xl) rangedClauses(sw *ast.SwitchStmt) (int, *ast.CaseClause, []*ast.CaseClause, bool) {
	var cl []*ast.CaseClause
	for _, s := range sw.Body.List {
		cl = append(cl, s.(*ast.CaseClause))
	}
	if len(cl) < 3 || len(cl[0].List) != 1 || len(cl[2].List) != 1 {
		return 0, nil, nil, false
	}
	n1, id1, ok1 := markerCall(cl[0].List[0])
	n2, id2, ok2 := markerCall(cl[2].List[0])
	if !ok1 || !ok2 || n1 != "TRANGEC" || n2 != "TENDC" || id1 != id2 || len(cl[0].Body) != 0 || len(cl[2].Body) != 0 {
		return 0, nil, nil, false
	}
	return id1, cl[1], cl[3:], true
}

// caseConsts translates the expression list of the template case clause
func (x *xl) caseConsts(list []ast.Expr) ([]string, bool) {
	var out []string
	for i := 0; i < len(list); i++ {
		e := list[i]
		if l, ok := e.(*ast.BasicLit); ok && l.Kind == token.STRING {
			switch l.Value {
			case `"T_val_Name_T"`:
				out = append(out, "PcName")
				continue
			case `"T_val_LowerCaseName_T"`:
				out = append(out, "PcLowerName")
				continue
			}
			return nil, false
		}
		if name, n, ok := markerCall(e); ok && name == "TRANGEX" {
			if x.ctls[n].pipe != traitsRecv+".ParsableValuesOf $val" || i+2 >= len(list) || !isIdent(list[i+1], "T_traitValue_T") {
				return nil, false
			}
			if name2, n2, ok := markerCall(list[i+2]); !ok || name2 != "TENDX" || n2 != n {
				return nil, false
			}
			out = append(out, "PcTraits")
			i += 2
			continue
		}
		return nil, false
	}
	return out, true
}

func returnsValName(body []ast.Stmt, withNil bool) bool {
	if len(body) != 1 {
		return false
	}
	r, ok := body[0].(*ast.ReturnStmt)
	if !ok {
		return false
	}
	if withNil {
		return len(r.Results) == 2 && isIdent(r.Results[0], "T_val_Name_T") && isIdent(r.Results[1], "nil")
	}
	return len(r.Results) == 1
}

// parseSwitch translates one switch of Parse<T>; returns the Gallina pswitch and the default body
func (x *xl) parseSwitch(sw *ast.SwitchStmt, key string) (string, []ast.Stmt, bool) {
	if sw.Init != nil {
		return "", nil, false
	}
	id, cc, rest, ok := x.rangedClauses(sw)
	if !ok {
		return "", nil, false
	}
	over, ok := vsrcOf(x.ctls[id].pipe)
	if !ok {
		return "", nil, false
	}
	consts, ok := x.caseConsts(cc.List)
	if !ok || !returnsValName(cc.Body, true) {
		return "", nil, false
	}
	var def []ast.Stmt
	switch len(rest) {
	case 0:
	case 1:
		if rest[0].List != nil {
			return "", nil, false
		}
		def = rest[0].Body
	default:
		return "", nil, false
	}
	return "{| sw_key := " + key + "; sw_over := " + over + "; sw_consts := [" + strings.Join(consts, "; ") + "] |}", def, true
}

// parseSteps translates a statement list of Parse<T>; ended = the list ends in the error return
func (x *xl) parseSteps(list []ast.Stmt) (out []string, ended bool) {
	for i, s := range list {
		switch v := s.(type) {
		case *ast.SwitchStmt:
			if isIdent(v.Tag, "input") {
				if sw, def, ok := x.parseSwitch(v, "PkInput"); ok {
					out = append(out, "PsSwitch "+sw)
					// the default clause runs when no case matched: its statements follow the switch
					more, e := x.parseSteps(def)
					out = append(out, more...)
					if e {
						if i != len(list)-1 {
							out = append(out, "PsOpaque \"statements after a switch whose default returns\"")
						}
						return out, true
					}
					continue
				}
			}
		case *ast.IfStmt:
			if name, n, ok := markerCall(v.Cond); ok && name == "TIF" && v.Init == nil && v.Else == nil {
				if fl, ok := flagOf(x.ctls[n].pipe); ok {
					body, e := x.parseSteps(v.Body.List)
					if e {
						body = append(body, "PsFail")
					}
					out = append(out, "PsIfFlag "+gstr(fl)+" ["+strings.Join(body, "; ")+"]")
					continue
				}
			}
			// if text, ok := input.(string); ok { switch strings.ToLower(text) { … } }
			if a, ok := v.Init.(*ast.AssignStmt); ok && v.Else == nil && isIdent(v.Cond, "ok") && a.Tok == token.DEFINE &&
				len(a.Lhs) == 2 && isIdent(a.Lhs[1], "ok") && len(a.Rhs) == 1 && len(v.Body.List) == 1 {
				ta, ok1 := a.Rhs[0].(*ast.TypeAssertExpr)
				tv, ok2 := a.Lhs[0].(*ast.Ident)
				sw, ok3 := v.Body.List[0].(*ast.SwitchStmt)
				if ok1 && ok2 && ok3 && isIdent(ta.X, "input") && isIdent(ta.Type, "string") {
					if c, ok := sw.Tag.(*ast.CallExpr); ok && selName(c.Fun) == "strings.ToLower" && len(c.Args) == 1 && isIdent(c.Args[0], tv.Name) {
						if g, def, ok := x.parseSwitch(sw, "PkLowerText"); ok && def == nil {
							out = append(out, "PsSwitch "+g)
							continue
						}
					}
				}
			}
		case *ast.ReturnStmt:
			if i == len(list)-1 && isErrorReturn(s, true) {
				return out, true
			}
		}
		out = append(out, "PsOpaque "+gstr(x.show(s)))
	}
	return out, false
}

// stringSkel: `switch e { range: case Name: return "Name" … default: return fmt.Sprintf("Undefined…:%d", e) }`
func (x *xl) stringSkel(fd *ast.FuncDecl) string {
	opaque := "(StrOpaque " + gstr(x.show(fd.Body)) + ")"
	if len(fd.Body.List) != 1 {
		return opaque
	}
	sw, ok := fd.Body.List[0].(*ast.SwitchStmt)
	if !ok || sw.Init != nil || !isIdent(sw.Tag, "e") {
		return opaque
	}
	id, cc, rest, ok := x.rangedClauses(sw)
	if !ok || len(rest) != 1 || rest[0].List != nil || len(rest[0].Body) != 1 {
		return opaque
	}
	over, ok := vsrcOf(x.ctls[id].pipe)
	if !ok || len(cc.List) != 1 || !isIdent(cc.List[0], "T_val_Name_T") || len(cc.Body) != 1 {
		return opaque
	}
	r, ok := cc.Body[0].(*ast.ReturnStmt)
	if !ok || len(r.Results) != 1 {
		return opaque
	}
	if l, ok := r.Results[0].(*ast.BasicLit); !ok || l.Value != `"T_val_Name_T"` {
		return opaque
	}
	dr, ok := rest[0].Body[0].(*ast.ReturnStmt)
	if !ok || len(dr.Results) != 1 {
		return opaque
	}
	c, ok := dr.Results[0].(*ast.CallExpr)
	if !ok || selName(c.Fun) != "fmt.Sprintf" || len(c.Args) != 2 || !isIdent(c.Args[1], "e") {
		return opaque
	}
	f, ok := c.Args[0].(*ast.BasicLit)
	if !ok || f.Kind != token.STRING {
		return opaque
	}
	format, _ := strconv.Unquote(f.Value)
	// the format with the type name placeholder split off: prefix ++ <type> ++ suffix
	parts := strings.Split(format, "T_enumTypeName_T")
	if len(parts) != 2 {
		return opaque
	}
	return "(StrSwitch " + over + " " + gstr(parts[0]) + " " + gstr(parts[1]) + ")"
}

// isValidSkel: {{if gt (len $values) N}} binary search {{else}} linear scan {{end}}
func (x *xl) isValidSkel(fd *ast.FuncDecl) string {
	opaque := "(IvOpaque " + gstr(x.show(fd.Body)) + ")"
	if len(fd.Body.List) != 1 {
		return opaque
	}
	is, ok := fd.Body.List[0].(*ast.IfStmt)
	if !ok || is.Init != nil || is.Else == nil {
		return opaque
	}
	name, n, ok := markerCall(is.Cond)
	if !ok || name != "TIF" {
		return opaque
	}
	m := regexp.MustCompile(`^gt \(len (.+)\) (\d+)$`).FindStringSubmatch(x.ctls[n].pipe)
	if m == nil {
		return opaque
	}
	over, ok := vsrcOf(m[1])
	if !ok {
		return opaque
	}
	els, ok := is.Else.(*ast.BlockStmt)
	if !ok {
		return opaque
	}
	return "(IvThreshold " + over + " " + m[2] + " " + x.membership(is.Body.List) + " " + x.membership(els.List) + ")"
}

// membership classifies a block deciding `e in _TValues`
func (x *xl) membership(list []ast.Stmt) string {
	const table = "_T_enumTypeName_TValues"
	if len(list) == 2 {
		// _, ok := slices.BinarySearch(table, e); return ok
		if a, ok := list[0].(*ast.AssignStmt); ok && a.Tok == token.DEFINE && len(a.Lhs) == 2 && isIdent(a.Lhs[0], "_") && len(a.Rhs) == 1 {
			if c, ok := a.Rhs[0].(*ast.CallExpr); ok && selName(c.Fun) == "slices.BinarySearch" && len(c.Args) == 2 && isIdent(c.Args[0], table) && isIdent(c.Args[1], "e") {
				if r, ok := list[1].(*ast.ReturnStmt); ok && len(r.Results) == 1 && selName(r.Results[0]) == selName(a.Lhs[1]) {
					return "MemBinarySearch"
				}
			}
		}
		// for _, v := range table { if v == e { return true } }; return false
		if f, ok := list[0].(*ast.RangeStmt); ok && isIdent(f.X, table) && isIdent(f.Key, "_") && len(f.Body.List) == 1 {
			if v, ok := f.Value.(*ast.Ident); ok {
				if is, ok := f.Body.List[0].(*ast.IfStmt); ok && is.Init == nil && is.Else == nil && len(is.Body.List) == 1 {
					b, ok1 := is.Cond.(*ast.BinaryExpr)
					r1, ok2 := is.Body.List[0].(*ast.ReturnStmt)
					r2, ok3 := list[1].(*ast.ReturnStmt)
					if ok1 && ok2 && ok3 && b.Op == token.EQL && len(r1.Results) == 1 && isIdent(r1.Results[0], "true") && len(r2.Results) == 1 && isIdent(r2.Results[0], "false") &&
						(isIdent(b.X, v.Name) && isIdent(b.Y, "e") || isIdent(b.X, "e") && isIdent(b.Y, v.Name)) {
						return "MemLinear"
					}
				}
			}
		}
	}
	return "(MemOpaque " + gstr(x.show(&ast.BlockStmt{List: list})) + ")"
}

// rangedElems: composite literal `[]T{ TRANGEX(n), ELEM, TENDX(n) }` -> (range id, ELEM)
func (x *xl) rangedElems(e ast.Expr, elt string) (int, ast.Expr, bool) {
	cl, ok := e.(*ast.CompositeLit)
	if !ok || len(cl.Elts) != 3 {
		return 0, nil, false
	}
	at, ok := cl.Type.(*ast.ArrayType)
	if !ok || at.Len != nil || !isIdent(at.Elt, elt) {
		return 0, nil, false
	}
	n1, id1, ok1 := markerCall(cl.Elts[0])
	n2, id2, ok2 := markerCall(cl.Elts[2])
	if !ok1 || !ok2 || n1 != "TRANGEX" || n2 != "TENDX" || id1 != id2 {
		return 0, nil, false
	}
	return id1, cl.Elts[1], true
}

// accessorSkel: switch e { range $trait.Traits: case Owner: return Value }; return *new(T)
func (x *xl) accessorSkel(fd *ast.FuncDecl) string {
	opaque := "(AccOpaque " + gstr(x.show(fd.Body)) + ")"
	if len(fd.Body.List) != 2 {
		return opaque
	}
	sw, ok := fd.Body.List[0].(*ast.SwitchStmt)
	if !ok || sw.Init != nil || !isIdent(sw.Tag, "e") {
		return opaque
	}
	id, cc, rest, ok := x.rangedClauses(sw)
	if !ok || len(rest) != 0 || x.ctls[id].pipe != "$trait.Traits" {
		return opaque
	}
	if len(cc.List) != 1 || !isIdent(cc.List[0], "T_instance_OwningValue_Name_T") || len(cc.Body) != 1 {
		return opaque
	}
	r, ok := cc.Body[0].(*ast.ReturnStmt)
	if !ok || len(r.Results) != 1 || !isIdent(r.Results[0], "T_instance_Value_T") {
		return opaque
	}
	// return *new(T)
	r2, ok := fd.Body.List[1].(*ast.ReturnStmt)
	if !ok || len(r2.Results) != 1 {
		return opaque
	}
	st, ok := r2.Results[0].(*ast.StarExpr)
	if !ok {
		return opaque
	}
	c, ok := st.X.(*ast.CallExpr)
	if !ok || !isIdent(c.Fun, "new") || len(c.Args) != 1 || !isIdent(c.Args[0], traitTy) {
		return opaque
	}
	if fd.Type.Results == nil || len(fd.Type.Results.List) != 1 || !isIdent(fd.Type.Results.List[0].Type, traitTy) {
		return opaque
	}
	return "AccSwitchRowsElseZero"
}

// ---------------------------------------------------------------- main

type gateMark struct {
	pos  token.Pos
	kind string // IF ELSE END
	id   int
}

func main() {
	repo := flag.String("repo", "/repo", "root of the tree")
	out := flag.String("out", "", "output .v file")
	flag.Parse()
	if *out == "" {
		die("-out required")
	}
	path := filepath.Join(*repo, "genum", "gen", "enumTemplate.gotmpl")
	src, err := os.ReadFile(path)
	if err != nil {
		die("%v", err)
	}
	trees := map[string]*parse.Tree{}
	t := parse.New(filepath.Base(path))
	t.Mode = parse.SkipFuncCheck
	if _, err := t.Parse(string(src), "{{", "}}", trees); err != nil {
		die("template does not parse: %v", err)
	}
	// the per-type section: {{range $i, $enumTypeName := .Types}}
	var section *parse.RangeNode
	for _, n := range t.Root.Nodes {
		if r, ok := n.(*parse.RangeNode); ok && len(r.Pipe.Decl) == 2 && r.Pipe.Decl[0].Ident[0] == "$i" &&
			r.Pipe.Decl[1].Ident[0] == "$enumTypeName" && len(r.Pipe.Cmds) == 1 && r.Pipe.Cmds[0].String() == ".Types" {
			section = r
		}
	}
	if section == nil {
		die("no {{range $i, $enumTypeName := .Types}} section at the top level of the template")
	}
	l := &lin{vars: map[string]string{}}
	l.buf.WriteString("package p\n")
	l.list(section.List)
	// `$values := (index $.Values $i)` etc. are resolved by normPipe; `$val`, `$trait`, … are range variables
	fset := token.NewFileSet()
	file, err := parser.ParseFile(fset, "linearised.go", l.buf.Bytes(), parser.ParseComments)
	if err != nil {
		os.Stderr.Write(l.buf.Bytes())
		die("the linearised per-type section does not parse as Go: %v", err)
	}
	x := &xl{fset: fset, ctls: l.ctls}

	// file-level gates
	var marks []gateMark
	markRe := regexp.MustCompile(`^/\*@(IF|RANGE|ELSE|END) (\d+)\*/$`)
	for _, cg := range file.Comments {
		for _, c := range cg.List {
			if m := markRe.FindStringSubmatch(c.Text); m != nil {
				id, _ := strconv.Atoi(m[2])
				marks = append(marks, gateMark{c.Pos(), m[1], id})
			}
		}
	}
	sort.Slice(marks, func(i, j int) bool { return marks[i].pos < marks[j].pos })
	gatesAt := func(pos token.Pos) string {
		type open struct {
			id  int
			neg bool
		}
		var st []open
		for _, m := range marks {
			if m.pos > pos {
				break
			}
			switch m.kind {
			case "IF", "RANGE":
				st = append(st, open{m.id, false})
			case "ELSE":
				st[len(st)-1].neg = true
			case "END":
				st = st[:len(st)-1]
			}
		}
		var gs []string
		for _, o := range st {
			c := l.ctls[o.id]
			switch {
			case c.kind == "range":
				gs = append(gs, "(GRange "+gstr(c.pipe)+")")
			default:
				if fl, ok := flagOf(c.pipe); ok {
					gs = append(gs, fmt.Sprintf("(GFlag %s %v)", gstr(fl), !o.neg))
				} else {
					gs = append(gs, fmt.Sprintf("(GCond %s %v)", gstr(c.pipe), !o.neg))
				}
			}
		}
		return "[" + strings.Join(gs, "; ") + "]"
	}

	type fn struct {
		name, gates, body string
	}
	var fns []fn
	seen := map[string]bool{}
	add := func(name string, fd *ast.FuncDecl, body string) {
		fns = append(fns, fn{name, gatesAt(fd.Pos()), body})
		seen[name] = true
	}
	valuesTable := "TblOpaque \"value table not found\""
	for _, dcl := range file.Decls {
		switch d := dcl.(type) {
		case *ast.GenDecl:
			if d.Tok != token.VAR {
				continue
			}
			for _, sp := range d.Specs {
				vs := sp.(*ast.ValueSpec)
				if len(vs.Names) == 1 && vs.Names[0].Name == "_T_enumTypeName_TValues" && len(vs.Values) == 1 {
					if id, el, ok := x.rangedElems(vs.Values[0], "T_enumTypeName_T"); ok && isIdent(el, "T_val_Name_T") {
						if over, ok := vsrcOf(l.ctls[id].pipe); ok {
							valuesTable = "TblNames " + over
							continue
						}
					}
					valuesTable = "TblOpaque " + gstr(x.show(vs.Values[0]))
				}
			}
		case *ast.FuncDecl:
			name := d.Name.Name
			switch name {
			case "UnmarshalJSON":
				add("json", d, x.decoderSkel(d, "CoJSON"))
			case "UnmarshalText":
				add("text", d, x.decoderSkel(d, "CoText"))
			case "UnmarshalYAML":
				add("yaml", d, x.decoderSkel(d, "CoYAML"))
			case "MarshalJSON":
				add("enc_json", d, x.encoderSkel(d))
			case "MarshalText":
				add("enc_text", d, x.encoderSkel(d))
			case "MarshalYAML":
				add("enc_yaml", d, x.encoderSkel(d))
			case "ParseT_enumTypeName_T":
				ps, ended := x.parseSteps(d.Body.List)
				if !ended {
					ps = append(ps, "PsOpaque \"no final error return\"")
				}
				add("parse", d, "["+strings.Join(ps, ";\n     ")+"]")
			case "ParseString":
				add("parsestring", d, x.delegates(d, "text"))
			case "ParseGeneric":
				add("parsegeneric", d, x.delegates(d, "input"))
			case "String":
				add("string", d, x.stringSkel(d))
			case "IsValid":
				add("isvalid", d, x.isValidSkel(d))
			case "Values":
				body := "ValOpaque " + gstr(x.show(d.Body))
				if rs := x.singleReturn(d); len(rs) == 1 {
					if c, ok := rs[0].(*ast.CallExpr); ok && selName(c.Fun) == "slices.Clone" && len(c.Args) == 1 && isIdent(c.Args[0], "_T_enumTypeName_TValues") {
						body = "ValCloneOfTable"
					}
					// the table itself, or a re-slicing of it: the caller's slice shares the table's array
					if isIdent(rs[0], "_T_enumTypeName_TValues") {
						body = "ValAliasOfTable"
					}
					if sl, ok := rs[0].(*ast.SliceExpr); ok && isIdent(sl.X, "_T_enumTypeName_TValues") {
						body = "ValAliasOfTable"
					}
				}
				add("values", d, body)
			case "StringValues":
				body := "TblOpaque " + gstr(x.show(d.Body))
				if rs := x.singleReturn(d); len(rs) == 1 {
					if id, el, ok := x.rangedElems(rs[0], "string"); ok {
						if lit, ok := el.(*ast.BasicLit); ok && lit.Value == `"T_val_Name_T"` {
							if over, ok := vsrcOf(l.ctls[id].pipe); ok {
								body = "TblNames " + over
							}
						}
					}
				}
				add("stringvalues", d, body)
			case "T_trait_Name_T":
				add("accessor", d, x.accessorSkel(d))
			}
		}
	}
	for _, want := range []string{"json", "text", "yaml", "enc_json", "enc_text", "enc_yaml", "parse", "parsestring", "parsegeneric",
		"string", "isvalid", "values", "stringvalues", "accessor"} {
		if !seen[want] {
			die("the template no longer emits the function behind %q", want)
		}
	}
	get := func(name string) fn {
		for _, f := range fns {
			if f.name == name {
				return f
			}
		}
		panic(name)
	}
	var b strings.Builder
	b.WriteString("(* GENERATED by harness/cmd/xlate_genum_skel from genum/gen/enumTemplate.gotmpl — do not edit *)\n")
	b.WriteString("From Coq Require Import String List Bool ZArith.\nFrom GT Require Import GEnumModel.\nImport ListNotations.\nLocal Open Scope string_scope.\nLocal Open Scope list_scope.\n\n")
	dec := func(name string) string {
		f := get(name)
		return "{| ds_gates := " + f.gates + ";\n   ds_steps :=\n    " + f.body + " |}"
	}
	fmt.Fprintf(&b, "Definition gen_json_skel : dskel :=\n  %s.\n\n", dec("json"))
	fmt.Fprintf(&b, "Definition gen_text_skel : dskel :=\n  %s.\n\n", dec("text"))
	fmt.Fprintf(&b, "Definition gen_yaml_skel : dskel :=\n  %s.\n\n", dec("yaml"))
	fmt.Fprintf(&b, "Definition gen_parse_skel : list pstep :=\n    %s.\n\n", get("parse").body)
	fmt.Fprintf(&b, "Definition gen_skels : skels :=\n  {| sk_json := gen_json_skel; sk_text := gen_text_skel; sk_yaml := gen_yaml_skel;\n"+
		"     sk_enc_json := %s; sk_enc_text := %s; sk_enc_yaml := %s;\n"+
		"     sk_enc_gates := [%s; %s; %s];\n"+
		"     sk_parse := gen_parse_skel; sk_parse_gates := %s;\n"+
		"     sk_parsestring := %s; sk_parsegeneric := %s;\n"+
		"     sk_table := %s; sk_values := %s; sk_stringvalues := %s;\n"+
		"     sk_string := %s; sk_isvalid := %s; sk_accessor := %s;\n"+
		"     sk_plain_gates := [%s; %s; %s; %s; %s; %s];\n"+
		"     sk_accessor_gates := %s |}.\n",
		get("enc_json").body, get("enc_text").body, get("enc_yaml").body,
		get("enc_json").gates, get("enc_text").gates, get("enc_yaml").gates,
		get("parse").gates, get("parsestring").body, get("parsegeneric").body,
		valuesTable, get("values").body, get("stringvalues").body,
		get("string").body, get("isvalid").body, get("accessor").body,
		get("parsestring").gates, get("parsegeneric").gates, get("values").gates, get("stringvalues").gates, get("string").gates, get("isvalid").gates,
		get("accessor").gates)
	fmt.Fprintf(&b, "\nDefinition gen_srcfacts : srcfacts :=\n  %s.\n", srcFacts(*repo, t.Root))
	if err := os.WriteFile(*out, []byte(b.String()), 0o644); err != nil {
		die("%v", err)
	}
}
